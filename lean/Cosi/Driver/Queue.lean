/-
  Cosi.Driver.Queue — line protocol of the engines `queue` and `qreconcile` (C09).

  engine `queue` (virtual time in ms since the start of the bubble):
    put k=K v=V            -> queued len=N
    get w=W                -> item k=K v=V len=N t=T | none len=N t=T
    wait w=W max=D         -> like get, but the worker blocks up to D ms: the clock first
                              advances to the release time of the head (if within D)
    release w=W            -> ok len=N | already len=N | noitem len=N
    requeue w=W after=D    -> ok len=N | already len=N | noitem len=N
                              (Requeue(now+D), D may be negative; clamped at the bubble start)
    advance d=D            -> clock now=T len=N

  engine `qreconcile` (times in ns; the real q-runtime with one probe QController; line j of
  key K scripts the outcome of the j-th Reconcile(K)):
    outcome k=K o=ok|error|panic|skip|requeue|requeue-error|skip-requeue|canceled|requeue-canceled [i=NS] lo=NS hi=NS
        -> run gap=touch   the invocation was caused by the harness touching the resource
                           (the previous decision for K was a release, or there was none)
        -> run gap=in      the invocation came lo..hi ns after the previous one (`lo`/`hi` of the
                           PREVIOUS line of K; the Go side prints early/late/untouched/never otherwise)
        -> bounds-differ … the `lo`/`hi` written on this line (by the harness generator) are not
                           the model's bounds for this decision
    end                    -> end extra=0     (no invocation beyond the script)

  `driver <engine> spec` runs the independent specification `Cosi.Spec.Queue` instead of the
  model of the code. The specification does not say WHICH of several deliverable keys a `get`
  hands out; there the spec mode follows the model's choice if the specification allows it
  (`spec-forbids` otherwise) and takes value, length and time from the specification.
-/
import Cosi.Model.Queue
import Cosi.Spec.Queue

namespace Cosi.Driver.Queue
open Cosi Cosi.Queue

structure St where
  w : W := {}
  bo : Backoff.Map := []
  streak : List (Nat × Nat) := []
  spec : Bool := false
  ss : Spec.Queue.S := {}
  univ : List Nat := []
  sheld : List (Nat × Item) := []

def init (spec : Bool) (a : List (String × String)) : St :=
  { spec := spec, univ := (List.range (argNat a "keys")).map (· + 1) }

def lenStr (s : W) : String := s!"len={s.q.length}"

def relLine (st : St) (wk : Nat) (ws : WStep) : St × String :=
  match heldBy wk st.w.held with
  | none => (st, s!"noitem {lenStr st.w}")
  | some it =>
    let w' := wstep st.w ws
    ({ st with w := w' }, (if it.released then "already " else "ok ") ++ lenStr w')

def getLine (st : St) (wk : Nat) : St × String :=
  let out := delivers st.w.q
  let w' := wstep st.w (.get wk)
  let st' := { st with w := w' }
  match out with
  | some (k, v) => (st', s!"item k={k} v={v} {lenStr w'} t={w'.q.now}")
  | none => (st', s!"none {lenStr w'} t={w'.q.now}")

def stepQueueModel (st : St) (op : String) (a : List (String × String)) : St × String :=
  match op with
  | "put" =>
    let w' := wstep st.w (.put (argNat a "k") (argNat a "v"))
    ({ st with w := w' }, "queued " ++ lenStr w')
  | "get" => getLine st (argNat a "w")
  | "wait" =>
    let maxd := argNat a "max"
    let q := st.w.q
    let d := match q.pq with
      | [] => maxd
      | x :: _ => if x.due ≤ q.now + maxd then x.due - q.now else maxd
    getLine { st with w := wstep st.w (.tick d) } (argNat a "w")
  | "release" => relLine st (argNat a "w") (.release (argNat a "w"))
  | "requeue" =>
    let t := ((st.w.q.now : Int) + argInt a "after").toNat
    relLine st (argNat a "w") (.requeue (argNat a "w") t)
  | "advance" =>
    let w' := wstep st.w (.tick (argNat a "d"))
    ({ st with w := w' }, s!"clock now={w'.q.now} {lenStr w'}")
  | _ => (st, "bad-op")

/-! spec mode of engine `queue` -/

open Spec.Queue in
def sLen (st : St) : String := s!"len={len st.ss st.univ}"

/-- earliest instant at which the specification allows some delivery -/
def sEarliest (st : St) : Option Nat :=
  st.univ.foldl (fun acc k =>
    let x := st.ss.ks k
    match x.pend with
    | some (_, d) =>
      if x.held then acc else
      let t := max d st.ss.now
      (match acc with
       | some a => some (min a t)
       | none => some t)
    | none => acc) none

def sTick (st : St) (d : Nat) : St :=
  { st with ss := Spec.Queue.step st.ss (.tick d), w := wstep st.w (.tick d) }

def sGet (st : St) (wk : Nat) : St × String :=
  let choice : Option Nat :=
    match delivers st.w.q with
    | some (k, _) => some k
    | none => st.univ.find? fun k => (Spec.Queue.canDeliver st.ss k).isSome
  let st1 := { st with w := wstep st.w (.get wk) }
  match choice with
  | none => (st1, s!"none {sLen st1} t={st1.ss.now}")
  | some k =>
    match Spec.Queue.canDeliver st.ss k with
    | none => (st1, s!"spec-forbids k={k}")
    | some v =>
      let st2 := { st1 with ss := Spec.Queue.step st.ss (.deliver k), sheld := setHeld wk ⟨k, v, false⟩ st.sheld }
      (st2, s!"item k={k} v={v} {sLen st2} t={st2.ss.now}")

def sRel (st : St) (wk : Nat) (after : Option Int) : St × String :=
  match heldBy wk st.sheld with
  | none => (st, s!"noitem {sLen st}")
  | some it =>
    if it.released then (st, s!"already {sLen st}") else
    let t := after.map fun d => ((st.ss.now : Int) + d).toNat
    let ev : Spec.Queue.Ev := match t with
      | some t => .requeue it.key it.val t
      | none => .release it.key
    let ws : WStep := match t with
      | some t => .requeue wk t
      | none => .release wk
    let st' := { st with ss := Spec.Queue.step st.ss ev, w := wstep st.w ws,
                         sheld := setHeld wk { it with released := true } st.sheld }
    (st', s!"ok {sLen st'}")

def stepQueueSpec (st : St) (op : String) (a : List (String × String)) : St × String :=
  match op with
  | "put" =>
    let st' := { st with ss := Spec.Queue.step st.ss (.put (argNat a "k") (argNat a "v")),
                         w := wstep st.w (.put (argNat a "k") (argNat a "v")) }
    (st', "queued " ++ sLen st')
  | "get" => sGet st (argNat a "w")
  | "wait" =>
    let maxd := argNat a "max"
    let d := match sEarliest st with
      | some t => if t ≤ st.ss.now + maxd then t - st.ss.now else maxd
      | none => maxd
    sGet (sTick st d) (argNat a "w")
  | "release" => sRel st (argNat a "w") none
  | "requeue" => sRel st (argNat a "w") (some (argInt a "after"))
  | "advance" =>
    let st' := sTick st (argNat a "d")
    (st', s!"clock now={st'.ss.now} {sLen st'}")
  | _ => (st, "bad-op")

def parseOutcome (a : List (String × String)) : Option Outcome :=
  match arg a "o" with
  | "ok" => some .ok
  | "error" => some .error
  | "panic" => some .panic
  | "skip" => some .skip
  | "requeue" => some (.requeueOnly (argNat a "i"))
  | "requeue-error" => some (.requeueErr (argNat a "i"))
  | "skip-requeue" => some { requeue := some (argNat a "i"), err := .skip }
  -- runOnce (qruntime.go:351) turns an error that `errors.Is` context.Canceled into nil —
  -- also a RequeueError wrapping it, whose interval is thereby dropped
  | "canceled" => some .ok
  | "requeue-canceled" => some .ok
  | _ => none

/-- `streak` holds, per key, 1 if the previous decision for the key was a requeue, else 0 -/
def stepReconcile (st : St) (op : String) (a : List (String × String)) : St × String :=
  match op, parseOutcome a with
  | "outcome", some o =>
    let k := argNat a "k"
    let r := decision st.bo k o
    let gap := if (amLookup k st.streak).getD 0 == 1 then "in" else "touch"
    match r.2 with
    | .release =>
      if argNat a "lo" == 0 && argNat a "hi" == 0 then
        ({ st with bo := r.1, streak := amSet k 0 st.streak }, s!"run gap={gap}")
      else ({ st with bo := r.1, streak := amSet k 0 st.streak }, "bounds-differ")
    | .requeueIn lo hi =>
      if lo == argNat a "lo" && hi == argNat a "hi" then
        ({ st with bo := r.1, streak := amSet k 1 st.streak }, s!"run gap={gap}")
      else ({ st with bo := r.1, streak := amSet k 1 st.streak }, "bounds-differ")
  | "end", _ => (st, "end extra=0")
  | _, _ => (st, "bad-op")

def stepQueue (st : St) (op : String) (a : List (String × String)) : St × String :=
  if st.spec then stepQueueSpec st op a else stepQueueModel st op a

/-- spec mode of engine `qreconcile`: the decision and the window from `Cosi.Spec.Queue`
    (closed form min(500ms·1.5ⁿ, 60s), [0.5,1.5]×) — the bounds on the op line may differ from
    it by the few ns of truncation the code's repeated multiplication loses -/
def stepReconcileSpec (st : St) (op : String) (a : List (String × String)) : St × String :=
  match op with
  | "outcome" =>
    let k := argNat a "k"
    let i := argNat a "i"
    let o := arg a "o"
    let res : Spec.Queue.Result :=
      if o == "error" || o == "panic" || o == "requeue-error" then .fail
      else if o == "skip" || o == "skip-requeue" then .skip else .ok
    let i := if o == "canceled" || o == "requeue-canceled" || !(o.startsWith "requeue" || o == "skip-requeue") then 0 else i
    let n := (amLookup k st.bo).getD 0
    let n' := Spec.Queue.nextStreak n res i
    let gap := if (amLookup k st.streak).getD 0 == 1 then "in" else "touch"
    let lo := argNat a "lo"
    let hi := argNat a "hi"
    let near (x y slack : Nat) : Bool := x ≤ y + slack && y ≤ x + slack
    let (requeued, okBounds) :=
      if i != 0 then (true, lo == i && hi == i)
      else if res == .fail then
        let w := Spec.Queue.window n
        (true, near lo w.1 2 && near hi w.2 4)
      else (false, lo == 0 && hi == 0)
    let st' := { st with bo := amSet k n' st.bo, streak := amSet k (if requeued then 1 else 0) st.streak }
    (st', if okBounds then s!"run gap={gap}" else "bounds-differ")
  | "end" => (st, "end extra=0")
  | _ => (st, "bad-op")

def stepReconcileAny (st : St) (op : String) (a : List (String × String)) : St × String :=
  if st.spec then stepReconcileSpec st op a else stepReconcile st op a

end Cosi.Driver.Queue
