/-
  Cosi.Driver.Store — line protocol of engine `store-seq` (see DESIGN.md App. C).
  One output line per op line. `spec = true` runs the independent specification
  instead of the model of the code (used when searching for a failing input).
-/
import Cosi.Spec.Store

namespace Cosi.Driver.Store
open Cosi

def verStr : Option Nat → String
  | none => "undefined"
  | some n => toString n

def parseVer (s : String) : Option Nat := if s == "undefined" then none else s.toNat?

def resStr (r : Res) : String :=
  s!"{r.ns}/{r.typ}/{r.id}@{verStr r.ver}|o={r.owner}|{r.phase.str}|f={joinList r.fins}|l={joinMap r.labels}|c={r.created}|u={r.updated}|s={r.spec}"

def parseRes (a : List (String × String)) : Res :=
  { ns := arg a "ns", typ := arg a "typ", id := arg a "id", ver := parseVer (arg a "ver"),
    owner := arg a "owner", phase := Phase.parse (arg a "phase"), fins := argList a "fins",
    labels := splitMap (arg a "labels"), created := argNat a "c", updated := argNat a "u",
    spec := arg a "spec" }

def qStr : Option Bool → String
  | none => "PANIC"
  | some b => boolStr b

/-- error line: class from the unqualified predicates, then the qualified conflict
    predicate under four qualifier shapes relative to the op's target (ns,typ) -/
def errStr (e : Err) (ns typ : String) : String :=
  let cls := if e.ctor.isNotFound then "notFound"
    else if e.ctor.isOwnerConflict then "ownerConflict"
    else if e.ctor.isPhaseConflict then "phaseConflict"
    else if e.ctor.isConflict then "conflict" else "other"
  s!"err class={cls} qns={qStr (e.isConflictQ ns "")} qtyp={qStr (e.isConflictQ "" typ)} qboth={qStr (e.isConflictQ ns typ)} qother={qStr (e.isConflictQ "zz" "")}"

def outStr (o : Out) (ns typ : String) : String :=
  match o with
  | .ok => "ok"
  | .wrote r => "ok " ++ resStr r
  | .res r => "res " ++ resStr r
  | .items l => "items [" ++ ";".intercalate (l.map resStr) ++ "]"
  | .err e => errStr e ns typ

structure St where
  cfg : Cfg := {}
  store : Store := []
  spec : Bool := false

def init (spec : Bool) (a : List (String × String)) : St :=
  { cfg := { nsAware := arg a "nsaware" != "0" }, store := [], spec := spec }

def parseOp (op : String) (a : List (String × String)) : Option Op :=
  match op with
  | "create" => some (.create (parseRes a) (arg a "as"))
  | "update" =>
    let exp := match arg a "exp" with
      | "any" => none
      | p => some (Phase.parse p)
    some (.update (parseRes a) (arg a "as") exp)
  | "destroy" => some (.destroy (arg a "ns") (arg a "typ") (arg a "id") (arg a "as"))
  | "get" => some (.get (arg a "ns") (arg a "typ") (arg a "id"))
  | "list" => some (.list (arg a "ns") (arg a "typ") (fun _ => true))
  | _ => none

def stepLine (st : St) (op : String) (a : List (String × String)) : St × String :=
  match parseOp op a with
  | none => (st, "bad-op")
  | some o =>
    let rej := arg a "bsfail" == "1"
    let (s', out) := if st.spec then Spec.stepBS st.cfg rej st.store (argNat a "t") o
                     else stepBS st.cfg rej st.store (argNat a "t") o
    ({ st with store := s' }, outStr out (arg a "ns") (arg a "typ"))

end Cosi.Driver.Store
