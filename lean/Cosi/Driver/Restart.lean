/-
  Cosi.Driver.Restart — line protocol of engine `faults` (C16).

  The driver runs the machines of `Cosi.Model.Restart` (rruntime.Run loop, run-hook loop,
  task loop) and `Cosi.Model.Queue.decision` (per-item backoff of the q-runtime) for the
  probe "streams" of the harness, with restart TIMES kept as intervals: a loop that failed
  at a time in [flo, fhi] and drew its interval from the window [lo, hi] restarts at a time
  in [flo+lo, fhi+hi]. At an op instant `now` a restart has definitely happened if its
  upper bound is ≤ now, definitely not if its lower bound is > now; otherwise the state of
  that stream is unknown from then on and its tokens are printed as `*` (which matches
  anything on the implementation side); `viol` (restarts outside their window) is always
  predicted 0.

  header: trk=1 — the probe Controllers use the output tracker: every reconcile starts with
        StartTrackingOutputs and, when it succeeds, ends with CleanupOutputs (which also resets the restart
        backoff: `okn` behaves like `ok`); a failure / panic leaves the reconcile between the two. Model mode
        follows `Cosi.Model.Tracker` (stale tracker ⇒ the restarted run panics before it reconciles: no
        invocation, the loop backs off again); the specification knows no tracker.
  outcome `errz` (q, m): the error comes wrapped in a RequeueError with interval 0 — a failure like `error`.
  outcome `canceled` (an error wrapping context.Canceled while the context is alive): r, h — a clean exit by
        design (`RunEnd.finished`); q — the reconcile counts as succeeded; t — a FAILURE like any other error
        (pkg/task has no such exception; model mode asks `Cosi.Model.TaskLoop.genRules`).

  ops:  o s=<stream> o=<outcome> dur=<ns> lo=<ns> hi=<ns>   (before `start` only)
        om s=<stream> pat=<e|p|w…> lo=<ns,…> hi=<ns,…>       (before `start` only: a marathon)
        start | write id=a|b|m v=<n> | advance d=<ns> | watcherr | cancel | cancelerr mode=mid|race |
        converge v=<n> | end

  `cancelerr`: the context is cancelled while the batch that carries the watch failure is being
  processed. mode=mid: Run observes the cancellation first (machine schedule `cancel, watchErr`),
  mode=race: either order. What is printed is what the runtime machine of `Cosi.Model.Restart`
  does under the shutdown schedule: `run=returned` iff `Sys.returned`, the return value from
  `Sys.retval` (`*` for mode=race when the two orders differ). In spec mode: `run=returned`
  always ("on cancellation Run returns"), `ret=nil` when the cancellation certainly came first.
-/
import Cosi.Base
import Cosi.Model.Restart
import Cosi.Model.Tracker
import Cosi.Model.TaskLoop
import Cosi.Spec.Restart

namespace Cosi.Driver.Restart

open Cosi Cosi.Queue Cosi.Restart

inductive SK where
  | r | q | m | h | t
deriving DecidableEq, Repr, Inhabited

structure Entry where
  o : String
  dur : Nat
  lo : Nat := 0
  hi : Nat := 0
deriving Repr, Inhabited

/-- the model machine behind a stream -/
inductive Mach where
  | r (l : RLoop)            -- rruntime.Run
  | q (bo : Backoff.Map)     -- the backoff of ONE QKey (key 0 of a private map)
  | b (l : BLoop)            -- runWithBackoff / runWithRestarts
  | s (n : Nat)              -- spec mode: only the streak of `Cosi.Spec.Restart`
deriving Repr, Inhabited

inductive SSt where
  | idle                         -- waiting for an input event (r, q, m) / not yet started
  | backoff (tlo thi : Nat)      -- next invocation at a time in [tlo, thi]
  | stopped
deriving DecidableEq, Repr, Inhabited

structure Stream where
  name : String
  kind : SK
  script : List Entry := []
  sm : Mach                      -- positional copy: checks the lo/hi of script lines
  sdead : Bool := false
  mach : Mach                    -- live
  st : SSt := .idle
  count : Nat := 0
  consumed : Nat := 0
  wild : Bool := false           -- state unknown
  lost : Bool := false           -- invocation index unknown: tokens are `*`
  mayStop : Bool := false        -- the script contains finish / canceled
  trkSet : Bool := false         -- model mode, tracking controllers: `adapter.outputTracker != nil` between runs
  out : Option String := none
  toks : List String := []
deriving Repr, Inhabited

structure St where
  streams : List Stream := []
  nr : Nat := 0
  q : Bool := false
  va : Option Nat := none
  vb : Option Nat := none
  vm : Option Nat := none
  now : Nat := 0
  started : Bool := false
  rtStopped : Bool := false      -- the runtime has stopped (watch error or cancellation)
  allStopped : Bool := false     -- cancelled: tasks too
  ret : String := "notstarted"
  hung : Bool := false           -- Run never returns (a goroutine is stuck): `leak=1` at the end
  dead : Bool := false
  spec : Bool := false
  trk : Bool := false            -- the probe Controllers use the output tracker
deriving Repr, Inhabited

def kindOf (name : String) : SK :=
  if name.startsWith "r" then .r
  else if name == "q1/m" then .m
  else if name == "q1/h" then .h
  else if name == "t1" then .t
  else .q

def freshMach (spec : Bool) : SK → Mach
  | .r => if spec then .s 0 else .r {}
  | .q | .m => if spec then .s 0 else .q []
  | .h | .t => if spec then .s 0 else .b {}

def mkStream (spec : Bool) (name : String) : Stream :=
  let k := kindOf name
  { name := name, kind := k, sm := freshMach spec k, mach := freshMach spec k }

def specKind : SK → Spec.Restart.Kind
  | .r => .controller
  | .q | .m => .item
  | .h => .hook
  | .t => .task

def init (spec : Bool) (a : List (String × String)) : St :=
  let nr := min (argNat a "nr") 3
  let q := arg a "q" == "1"
  let hook := q && arg a "hook" == "1"
  let task := arg a "task" == "1"
  let names := ((List.range nr).map fun i => s!"r{i+1}") ++
    (if q then ["q1/a", "q1/b", "q1/m"] ++ (if hook then ["q1/h"] else []) else []) ++
    (if task then ["t1"] else [])
  { streams := names.map (mkStream spec), nr := nr, q := q, spec := spec, trk := arg a "trk" == "1" }

/-! ### machines -/

def failing (o : String) : Bool := o == "error" || o == "panic" || o == "errw" || o == "errz"

/-- is this outcome of a stream of kind `k` a failure (followed by a backoff and a restart)? An error
    that wraps context.Canceled is one for a task: by the property in spec mode, by the regenerated
    exit rule of task.runWithRestarts in model mode -/
def failingK (spec : Bool) (k : SK) (o : String) : Bool :=
  failing o || (k == .t && o == "canceled" && (spec || !TaskLoop.genRules.finishes .canceledErr))

/-- does a successful reconcile WITHOUT an explicit ResetRestartBackoff (`okn`) still reset the restart
    backoff? Yes for a tracking controller: CleanupOutputs reports the success -/
def oknResets (spec trk : Bool) : Bool := trk && (spec || Tracker.genRules.cleanupResets)

/-- apply a failure (error or panic after `dur` ns of run time) to a machine; the window of the
    backoff it enters, `none` if the machine does not back off (crash, unknown) -/
def machFail (k : SK) (m : Mach) (o : String) (dur : Nat) (elo ehi : Nat) : Mach × Option (Nat × Nat) :=
  let panic := o == "panic"
  let e : RunEnd := if panic then .panicked else .failed
  match m with
  | .s n =>
    -- spec mode: error and panic alike are followed by a restart; the window is the one on the
    -- script line (checked against `Spec.Restart.window` when the line was read)
    (.s (Spec.Restart.afterFailure (specKind k) n dur), some (elo, ehi))
  | .r l =>
    let l' := rstep l (.runEnds e)
    (.r l', match l'.phase with | .backingOff lo hi => some (lo, hi) | _ => none)
  | .q bo =>
    if panic && !Gen.Restart.qRecovers then (.q bo, none) else
    -- `errz`: the failure comes wrapped in a RequeueError whose interval is 0 (controller.NewRequeueError(err, 0))
    let r := decision bo 0 (if o == "errz" then Outcome.requeueErr 0 else Outcome.error)
    (.q r.1, match r.2 with | .requeueIn lo hi => some (lo, hi) | .release => none)
  | .b l =>
    let l' := if k == .h then hstep l (.runEnds e dur) else tstep l (.runEnds e dur)
    (.b l', match l'.phase with | .backingOff lo hi => some (lo, hi) | _ => none)

/-- the backoff timer fires -/
def machRevive (k : SK) : Mach → Mach
  | .r l => .r (rstep l .timerFires)
  | .q bo => .q bo
  | .b l => .b (if k == .h then hstep l .timerFires else tstep l .timerFires)
  | .s n => .s n

/-- a successful run: `reset` = the controller called ResetRestartBackoff / the item's backoff is cleared -/
def machOk (k : SK) (m : Mach) (reset : Bool) : Mach :=
  match m with
  | .r l => .r (if reset then rstep l .reset else l)
  | .q bo => .q (decision bo 0 Outcome.ok).1
  | .b l => .b l
  | .s n => .s (Spec.Restart.afterSuccess (specKind k) n reset)

def validOutcomes : SK → List String
  | .r => ["ok", "okn", "error", "panic", "errw", "finish", "canceled"]
  | .q => ["ok", "error", "panic", "errw", "errz", "canceled"]
  | .m => ["ok", "error", "panic", "errz"]
  | _ => ["ok", "error", "panic", "canceled"]

/-- a script line: the window written on it must be the one the model assigns to that
    position of the script -/
def scriptEntry (spec trk : Bool) (s : Stream) (o : String) (dur0 lo hi : Nat) : Stream × String :=
  let dur := if s.kind == .h || s.kind == .t then dur0 else 0
  if !(validOutcomes s.kind).contains o then (s, "bad-outcome")
  else if s.sdead then (s, "script-unreachable")
  else if s.lost then
    ({ s with script := s.script ++ [⟨o, dur, lo, hi⟩], mayStop := s.mayStop || o == "finish" || (o == "canceled" && s.kind != .q) }, "*")
  else if failingK spec s.kind o then
    match s.sm with
    | .s n =>
      -- the window of the specification, up to the few ns the code's repeated truncation loses
      let w := Spec.Restart.window (Spec.Restart.streakAtFailure (specKind s.kind) n dur)
      let near (x y slack : Nat) : Bool := x ≤ y + slack && y ≤ x + slack
      if near lo w.1 2 && near hi w.2 4 then
        ({ s with sm := .s (Spec.Restart.afterFailure (specKind s.kind) n dur),
                  script := s.script ++ [⟨o, dur, lo, hi⟩] }, "script")
      else (s, "bounds-differ")
    | sm =>
    let sm0 := match sm with | .r l => Mach.r (rstep l .takeEvent) | m => m
    let (sm', w) := machFail s.kind sm0 o dur lo hi
    -- the regenerated facts do not say how this loop backs off (constructor / MaxElapsedTime not the
    -- recognised ones: the model's window is (0,0), a queue item is simply released): the model has
    -- no prediction for this stream. Its tokens are `*` from here on; the obligation that broke is
    -- reported by the theorems, a failing input by the spec-mode comparison (which knows no facts).
    let unknown : Bool := match w, sm with
      | some (0, 0), _ => true
      | none, .q _ => !(o == "panic" && !Gen.Restart.qRecovers)
      | _, _ => false
    if unknown then
      ({ s with wild := true, lost := true, script := s.script ++ [⟨o, dur, lo, hi⟩] }, "*")
    else
    match w with
    | some (wlo, whi) =>
      if wlo == lo && whi == hi then
        ({ s with sm := machRevive s.kind sm', script := s.script ++ [⟨o, dur, lo, hi⟩] }, "script")
      else (s, "bounds-differ")
    | none => (s, "bounds-differ")
  else if lo != 0 || hi != 0 then (s, "bounds-differ")
  else
    let stops := o == "finish" || (o == "canceled" && s.kind != .q) || s.kind == .h || s.kind == .t
    let sm' := if o == "okn" && s.kind == .r && !oknResets spec trk then s.sm else machOk s.kind s.sm true
    ({ s with sm := sm', sdead := stops, mayStop := s.mayStop || o == "finish" || (o == "canceled" && s.kind != .q),
              script := s.script ++ [⟨o, dur, 0, 0⟩] }, "script")

def scriptLine (spec trk : Bool) (s : Stream) (a : List (String × String)) : Stream × String :=
  scriptEntry spec trk s (arg a "o") (argNat a "dur") (argNat a "lo") (argNat a "hi")

def patOutcome : Char → String
  | 'e' => "error"
  | 'p' => "panic"
  | 'w' => "errw"
  | 'z' => "errz"
  | _ => "?"

/-- a marathon line `om s=<stream> pat=<e|p|w…> lo=<list> hi=<list>`: as many script entries as
    the pattern has letters (error / panic / errw, run time 0), each with its window, taken all
    or nothing: the verdict of the first entry that is not accepted, and then no entry at all -/
def marathonLine (spec trk : Bool) (s : Stream) (a : List (String × String)) : Stream × String :=
  let pat := (arg a "pat").toList
  let los := (argList a "lo").map fun x => x.toNat?.getD 0
  let his := (argList a "hi").map fun x => x.toNat?.getD 0
  if pat.isEmpty || los.length != pat.length || his.length != pat.length then (s, "bad-marathon") else
  let step (acc : Stream × String) (x : Char × Nat × Nat) : Stream × String :=
    if acc.2 != "script" && acc.2 != "*" then acc else
    let (s', v) := scriptEntry spec trk acc.1 (patOutcome x.1) 0 x.2.1 x.2.2
    if v == "script" then (s', acc.2) else (s', v)
  let r := (pat.zip (los.zip his)).foldl step (s, "script")
  if r.2 == "script" || r.2 == "*" then r else (s, r.2)

/-! ### invocations -/

def vStr : Option Nat → String
  | some v => toString v
  | none => "-"

def obsOf (st : St) (s : Stream) : String :=
  match s.kind with
  | .r => "a" ++ vStr st.va ++ "b" ++ vStr st.vb
  | .q => vStr (if s.name == "q1/a" then st.va else st.vb)
  | .m => "m" ++ vStr st.vm
  | _ => "x"

/-- one invocation of stream `s` at a time in [ilo, ihi]; the Bool says that a MapInput
    succeeded (a reconcile of In/a is queued at that time). The r-machine has already
    been handed its event. -/
def invoke (st : St) (s : Stream) (ilo ihi : Nat) (cls : String) : Stream × Bool :=
  -- model mode, a tracking controller: its reconcile starts with StartTrackingOutputs, which panics on a stale
  -- tracker before anything is read or written — no invocation is seen, the run ends `panicked`
  let tracking := s.kind == .r && st.trk && !st.spec
  match tracking && s.trkSet, s.mach with
  | true, .r l =>
    let l' := rstep (rstep l .takeEvent) (.runEnds .panicked)
    let t' := Tracker.afterEnd Tracker.genRules true .panicked
    match l'.phase with
    | .backingOff lo hi => ({ s with mach := .r l', trkSet := t', st := .backoff (ilo + lo) (ihi + hi) }, false)
    | _ => ({ s with mach := .r l', trkSet := t', st := .stopped }, false)
  | _, _ =>
  let dflt : Entry := if s.kind == .h || s.kind == .t then ⟨"block", 0, 0, 0⟩ else ⟨"ok", 0, 0, 0⟩
  let e := s.script.head?.getD dflt
  let obs := obsOf st s
  let cls := if s.count == 0 then "first" else cls
  let s := { s with script := s.script.tail, consumed := if s.script.isEmpty then s.consumed else s.consumed + 1,
                    count := s.count + 1, toks := s!"{s.count}:{cls}:{obs}" :: s.toks }
  -- the controller takes the event
  let s := match s.mach with | .r l => { s with mach := .r (rstep l .takeEvent) } | _ => s
  let s := if (s.kind == .r || s.kind == .q) && (e.o == "ok" || e.o == "okn" || e.o == "errw") then { s with out := some obs } else s
  -- the tracker the adapter is left with when this execution of ctrl.Run has ended as `x`
  let endTrk (x : RunEnd) : Bool := tracking && Tracker.afterEnd Tracker.genRules true x
  if failingK st.spec s.kind e.o then
    let (m', w) := machFail s.kind s.mach e.o e.dur e.lo e.hi
    let s := { s with trkSet := endTrk (if e.o == "panic" then .panicked else .failed) }
    match w with
    | some (lo, hi) => ({ s with mach := m', st := .backoff (ilo + e.dur + lo) (ihi + e.dur + hi) }, false)
    | none => ({ s with mach := m', st := .stopped }, false)
  else if e.o == "finish" || (e.o == "canceled" && s.kind != .q) then
    let m' := match s.mach with | .r l => Mach.r (rstep l (.runEnds .finished)) | m => m
    ({ s with mach := m', st := .stopped, trkSet := endTrk .finished }, false)
  else if s.kind == .h || s.kind == .t then
    -- ok: the loop ends; block: runs until the context is cancelled
    ({ s with st := .stopped }, false)
  else
    -- the reconcile succeeded; a tracking controller has called CleanupOutputs
    ({ s with mach := machOk s.kind s.mach (e.o == "ok" || (s.kind == .r && oknResets st.spec st.trk)), st := .idle,
              trkSet := tracking && !Tracker.genRules.cleanupClears }, s.kind == .m)

/-- an input event reaches an r-stream: WatchTrigger; an idle controller reconciles at once -/
def wakeR (st : St) (s : Stream) : Stream :=
  match s.mach, s.st with
  | .r l, .idle =>
    let l' := rstep l .trigger
    if REv.takeEvent.enabled l' then (invoke st { s with mach := .r l' } st.now st.now "touch").1
    else { s with mach := .r l' }
  | .r l, .backoff _ _ => { s with mach := .r (rstep l .trigger) }
  | .s _, .idle => (invoke st s st.now st.now "touch").1
  | _, _ => s

/-- the backoff timer of a stream fires at a time in [tlo, thi] -/
def restart (st : St) (s : Stream) (tlo thi : Nat) : Stream × Bool :=
  let m := machRevive s.kind s.mach
  let s := { s with mach := m, st := .idle }
  match m with
  | .r l => if REv.takeEvent.enabled l then invoke st s tlo thi "in" else (s, false)
  | _ => invoke st s tlo thi "in"

/-- a queue item is put (input event or mapped) at a time in [plo, phi] -/
def putQ (st : St) (s : Stream) (plo phi : Nat) : Stream × Bool :=
  if s.wild || s.st == .stopped then (s, false) else
  match s.st with
  | .backoff tlo thi =>
    -- Put re-inserts the held-back entry with release time = now (PriorityQueue.Push): it is
    -- reconciled at once, provided the backoff timer has definitely not fired yet
    if phi < tlo then invoke st s plo phi "touch"
    else if thi < plo then
      let (s', _) := restart st s tlo thi
      if s'.st == .idle then invoke st s' plo phi "touch" else ({ s' with wild := true, lost := true }, false)
    else ({ s with wild := true, lost := true }, false)
  | _ => invoke st s plo phi "touch"

def markWild (now : Nat) (s : Stream) : Stream :=
  match s.st with
  | .backoff tlo thi => if tlo ≤ now && now < thi then { s with wild := true, lost := true } else s
  | _ => s

/-- restarts of an independent stream that have definitely happened by `now` -/
def catchUp (st : St) : Nat → Stream → Stream
  | 0, s => s
  | fuel + 1, s =>
    if s.wild then s else
    match s.st with
    | .backoff tlo thi => if thi ≤ st.now then catchUp st fuel (restart st s tlo thi).1 else s
    | _ => s

def due (now : Nat) (s : Stream) : Option (Nat × Nat) :=
  if s.wild then none else
  match s.st with
  | .backoff tlo thi => if thi ≤ now then some (tlo, thi) else none
  | _ => none

/-- the coupled pair In/a (reconcile) and Aux/m (map → put In/a): restarts in time order -/
def catchUpQ (st : St) : Nat → Stream → Stream → Stream × Stream
  | 0, a, m => (a, m)
  | fuel + 1, a, m =>
    let m := markWild st.now m
    let a := if m.wild && !a.wild then { a with wild := true, lost := true } else a
    match due st.now a, due st.now m with
    | none, none => (a, m)
    | some (alo, ahi), none => catchUpQ st fuel (restart st a alo ahi).1 m
    | none, some (mlo, mhi) =>
      let (m', mapped) := restart st m mlo mhi
      if mapped then catchUpQ st fuel (putQ st a mlo mhi).1 m' else catchUpQ st fuel a m'
    | some (alo, ahi), some (mlo, mhi) =>
      if ahi < mlo then catchUpQ st fuel (restart st a alo ahi).1 m
      else
        let (m', mapped) := restart st m mlo mhi
        if mapped then catchUpQ st fuel (putQ st a mlo mhi).1 m' else catchUpQ st fuel a m'

def getS (st : St) (name : String) : Option Stream := st.streams.find? (·.name == name)

def setS (st : St) (s : Stream) : St :=
  { st with streams := st.streams.map fun x => if x.name == s.name then s else x }

def fuelOf (st : St) : Nat := (st.streams.map fun s => s.script.length).sum + 8

def runtimeStream (s : Stream) : Bool := s.kind != .t

/-- process every restart that has definitely happened by `st.now`, then mark the undecidable ones -/
def settleNow (st : St) : St :=
  if !st.started then st else
  let fuel := fuelOf st
  let live (s : Stream) : Bool := if runtimeStream s then !st.rtStopped else !st.allStopped
  let st1 := { st with streams := st.streams.map fun s =>
    if s.name == "q1/a" || s.name == "q1/m" || !live s then s else markWild st.now (catchUp st fuel s) }
  match getS st1 "q1/a", getS st1 "q1/m" with
  | some a, some m =>
    if st1.rtStopped then st1 else
    let (a', m') := catchUpQ st1 (2 * fuel) a m
    let m' := markWild st1.now m'
    let a' := markWild st1.now a'
    let a' := if m'.wild && !a'.wild then { a' with wild := true, lost := true } else a'
    setS (setS st1 a') m'
  | _, _ => st1

/-! ### output -/

def tokens (st : St) : St × String :=
  let parts := st.streams.map fun s =>
    s.name ++ "=" ++ (if s.lost then "*" else if s.toks.isEmpty then "-" else "+".intercalate s.toks.reverse)
  ({ st with streams := st.streams.map fun s => { s with toks := [] } }, " ".intercalate (parts ++ ["viol=0"]))

/-- the runtime stops: every runtime stream is stopped for good (known state again) -/
def stopRuntime (st : St) (tasksToo : Bool) : St :=
  { st with rtStopped := true, allStopped := st.allStopped || tasksToo,
            streams := st.streams.map fun s =>
              if runtimeStream s || tasksToo then { s with st := .stopped, wild := false } else s }

def doWrite (st : St) (id : String) (v : Nat) : St :=
  let st := match id with
    | "a" => { st with va := some v }
    | "b" => { st with vb := some v }
    | _ => { st with vm := some v }
  if !st.started || st.rtStopped then st else
  if id == "m" then
    match getS st "q1/m" with
    | some m =>
      if m.wild then st else
      let (m', mapped) := putQ st m st.now st.now
      let st := setS st m'
      if mapped then
        match getS st "q1/a" with
        | some a => setS st (putQ st a st.now st.now).1
        | none => st
      else st
    | none => st
  else
    let st := { st with streams := st.streams.map fun s => if s.kind == .r && !s.wild then wakeR st s else s }
    match getS st ("q1/" ++ id) with
    | some s => setS st (putQ st s st.now st.now).1
    | none => st

def doStart (st : St) : St :=
  let st := { st with started := true, ret := "running" }
  { st with streams := st.streams.map fun s =>
      match s.kind, s.mach with
      | .r, .r l => if REv.takeEvent.enabled l then (invoke st s st.now st.now "first").1 else s
      | .r, _ => (invoke st s st.now st.now "first").1
      | .q, _ =>
        -- listPrimary: existing primary inputs are queued at start
        if (if s.name == "q1/a" then st.va else st.vb).isSome then (invoke st s st.now st.now "first").1 else s
      | .m, _ => s
      | _, _ => (invoke st s st.now st.now "first").1 }

def listing (st : St) : String :=
  let items := st.streams.filterMap fun s =>
    match s.kind, s.out with
    | .q, some o => some ("OutQ/" ++ (s.name.drop 3).toString ++ ":" ++ o)
    | .r, some o => some ("OutR" ++ (s.name.drop 1).toString ++ "/o:" ++ o)
    | _, _ => none
  -- q items come first in the stream order? no: r streams do; sort as the harness does
  let sorted := sortBy (fun x y => x < y) items
  if sorted.isEmpty then "-" else ",".intercalate sorted

def twinListing (st : St) : String :=
  if !st.started then "-" else
  let obs := "a" ++ vStr st.va ++ "b" ++ vStr st.vb
  let qs := if st.q then ["OutQ/a:" ++ vStr st.va, "OutQ/b:" ++ vStr st.vb] else []
  let rs := (List.range st.nr).map fun i => s!"OutR{i+1}/o:" ++ obs
  let all := qs ++ rs
  if all.isEmpty then "-" else ",".intercalate all

def settleNs : Nat := 2000000000000

def doConverge (st : St) (v : Nat) : St × String :=
  -- faults cease: scripts are dropped
  let st := { st with streams := st.streams.map fun (s : Stream) => { s with script := [] } }
  let st := settleNow { st with now := st.now + settleNs }
  -- an undetermined stream that cannot have stopped is idle (or blocked) by now, with a cleared backoff
  -- (not so a tracking controller under rules that can leave a stale tracker behind: it may be in a crash loop)
  let trackerSafe : Bool := Tracker.genRules.clearsOn .failed && Tracker.genRules.clearsOn .panicked &&
    Tracker.genRules.clearsOn .finished && Tracker.genRules.cleanupClears
  let st := { st with streams := st.streams.map fun s =>
    if s.wild && !s.mayStop && !(if runtimeStream s then st.rtStopped else st.allStopped) &&
        (s.kind != .r || !st.trk || st.spec || trackerSafe) then
      { s with wild := false, mach := freshMach st.spec s.kind,
               st := if s.kind == .h || s.kind == .t then .stopped else .idle,
               out := if s.kind == .r || s.kind == .q then some "?" else s.out }
    else s }
  let (st, settle) := tokens st
  let st := doWrite st "a" v
  let st := doWrite st "b" (v + 1)
  let st := if st.q then doWrite st "m" (v + 2) else st
  let (st, final) := tokens st
  let unknown := st.streams.any fun s => s.wild && (s.kind == .r || s.kind == .q)
  let mine := listing st
  let head := if unknown then "converge same=* out=*" else s!"converge same={boolStr (mine == twinListing st)} out={mine}"
  (st, s!"{head} settle[ {settle} ] final[ {final} ]")

def stepLine (st : St) (op : String) (a : List (String × String)) : St × String :=
  if st.dead then (st, "dead") else
  match op with
  | "o" =>
    match getS st (arg a "s") with
    | none => (st, "no-stream")
    | some s =>
      if st.started then (st, "script-late") else
      let (s', out) := scriptLine st.spec st.trk s a
      (setS st s', out)
  | "om" =>
    match getS st (arg a "s") with
    | none => (st, "no-stream")
    | some s =>
      if st.started then (st, "script-late") else
      let (s', out) := marathonLine st.spec st.trk s a
      (setS st s', out)
  | "start" =>
    if st.started then (st, "already") else
    if st.allStopped then (st, "stopped") else
    let (st, t) := tokens (doStart st)
    (st, "start " ++ t)
  | "write" =>
    let id := arg a "id"
    if id != "a" && id != "b" && id != "m" then (st, "bad-id") else
    let (st, t) := tokens (doWrite st id (argNat a "v"))
    (st, "write " ++ t)
  | "advance" =>
    let (st, t) := tokens (settleNow { st with now := st.now + argNat a "d" })
    (st, "advance " ++ t)
  | "watcherr" =>
    if !st.started || st.allStopped then
      let (st, t) := tokens st
      (st, s!"watcherr ret={st.ret} {t}")
    else
      -- the machine decides what the Errored event does to a running runtime
      let sys := Cosi.Restart.step (fun _ v => v) (Cosi.Restart.init 0 0) (.watchErr 0)
      let aborted := st.spec || sys.status == .cancelled (some 0)
      let st := if aborted then
          let r := if st.rtStopped then st.ret else "wrapped"
          let st' := stopRuntime st false
          { st' with ret := r }
        else st
      let (st, t) := tokens st
      (st, s!"watcherr ret={st.ret} {t}")
  | "cancel" =>
    let st := stopRuntime st true
    let st := { st with ret := if !st.started then "notstarted" else if st.ret == "running" && !st.hung then "nil" else st.ret }
    let (st, t) := tokens st
    (st, s!"cancel ret={st.ret} {t}")
  | "cancelerr" =>
    if !st.started || st.rtStopped then
      -- nothing left to race with: a plain cancellation
      let st := stopRuntime st true
      let st := { st with ret := if !st.started then "notstarted" else if st.ret == "running" && !st.hung then "nil" else st.ret }
      let (st, t) := tokens st
      (st, s!"cancelerr run={if !st.started then "notstarted" else if st.hung then "hung" else "returned"} ret={st.ret} {t}")
    else
      let idf : Nat → Nat → Nat := fun _ v => v
      -- Run observes the cancellation, then processEvents meets the Errored event; and the other order
      let a1 := Cosi.Restart.run idf (Cosi.Restart.init 0 0) ([.cancel, .watchErr 0] ++ shutdownEvs 0)
      let a2 := Cosi.Restart.run idf (Cosi.Restart.init 0 0) ([.watchErr 0, .cancel] ++ shutdownEvs 0)
      let retStr (s : Sys) : String :=
        match s.retval with
        | some none => "nil"
        | some (some _) => "wrapped"
        | none => "running"
      let race := arg a "mode" == "race"
      let returned := st.spec || (a1.returned && (!race || a2.returned))
      let ret :=
        if st.spec then (if race then "*" else "nil")
        else if !returned then (if race then "*" else "running")
        else if race && retStr a1 != retStr a2 then "*" else retStr a1
      let st := stopRuntime st true
      let st := { st with ret := ret, hung := !returned }
      let (st, t) := tokens st
      -- with mode=race a hang depends on the order the scheduler picked: not predicted
      (st, s!"cancelerr run={if returned then "returned" else if race then "*" else "hung"} ret={st.ret} {t}")
  | "converge" => doConverge st (argNat a "v")
  | "end" =>
    let st := stopRuntime st true
    let st := { st with ret := if !st.started then "notstarted" else if st.ret == "running" && !st.hung then "nil" else st.ret, dead := true }
    let cons := st.streams.map fun s => s.name ++ "=" ++ (if s.lost then "*" else toString s.consumed)
    (st, s!"end ret={st.ret} {" ".intercalate cons} after=0 invafter=0 shut=true watches=closed leak={if st.hung then (if st.ret == "*" then "*" else "1") else "0"}")
  | _ => (st, "bad-op")

end Cosi.Driver.Restart
