/-
  Cosi.Driver.Pipeline — line protocol of engine `pipeline` (C05): registrations of probe
  controllers with their input declarations, external writes, and `quiesce`, at which
  both sides print, per probe and per key matching its inputs, the version the probe
  observed at its last reconcile. The driver prints the version the property demands
  (`*` where nothing is demanded). In model mode keys of a (namespace,type) group that
  mixes a destroy-ready input with other inputs are `*` as well: there the real
  adapter's behaviour depends on the Go scheduler (D5); spec mode demands them.

  `stall t p in` / `unstall t`: a stall window — a registration (R probe) that the harness holds
  inside RegisterController while the `w` ops of the same tick are issued, so the delivery
  goroutine is parked between lookup and trigger (the window of Cosi.Model.Handoff). For the
  property the stalled probe is an ordinary registration: what is demanded at the next
  `quiesce` is the same formula (Cosi.C05H.quiescent_means_current holds for every schedule,
  parked deliveries and registrations in between included). The window stays open across `w`
  ops of the same tick only; any other op closes it first; a `stall` inside an open window is
  ignored; `unstall` without a window prints `ok`.
-/
import Cosi.Model.Wrap
import Cosi.Gen.Pipeline
import Cosi.Driver.Helpers

namespace Cosi.Driver.Pipeline
open Cosi Cosi.Driver.Store Cosi.Driver.Helpers

structure PDecl where
  typ : String
  id : Option String
  kind : String     -- weak strong dr qprimary qmapped qmappeddr
deriving Repr

structure Probe where
  pid : Nat
  flavour : String
  decls : List PDecl
  live : Bool := false            -- registered and the runtime is running
  active : List String := []      -- q flavour: item ids certainly reconciled at least once since live
deriving Repr

structure St where
  spec : Bool := false
  hs : HSys := {}
  probes : List Probe := []
  started : Bool := false
  stall : Option String := none   -- tick of the open stall window
  stallRejected : Bool := false   -- the registration held in the open window will be rejected
  types : List String := ["T1", "T2", "T3"]
  ids : List String := ["a", "b", "c"]

def parseDecls (s : String) : List PDecl :=
  (splitList s).filterMap fun d =>
    match d.splitOn "/" with
    | [t, i, k] => some { typ := t, id := if i == "-" then none else some i, kind := k }
    | _ => none

def init (spec : Bool) (a : List (String × String)) : St :=
  { spec := spec, hs := { ws := Cosi.Driver.Watch.init false a } }

def isDR (r : Res) : Bool := r.phase == .tearingDown && r.fins.isEmpty

def expected (st : St) (p : Probe) (typ id : String) : Option String :=
  let ms := p.decls.filter fun d => d.typ == typ && (d.id.isNone || d.id == some id || d.kind == "qmapped" || d.kind == "qmappeddr" || d.kind == "qprimary")
  if ms.isEmpty then none else
  if p.flavour == "q" && !p.active.contains id then some "*" else
  let cur := st.hs.ws.store.get (st.hs.ws.cfg.key "n1" typ id)
  let ver := match cur with
    | some r => toString (r.ver.getD 0)
    | none => "0"
  let drKinds := ["dr", "qmappeddr"]
  let always := ms.any fun d => !drKinds.contains d.kind
  let groupHasDR := p.flavour == "r" && p.decls.any fun d => d.typ == typ && d.kind == "dr"
  if always then
    if groupHasDR && !st.spec && Gen.Pipeline.filterRule != .perInput then
      -- mixed group: triggered only when the value is destroy-ready
      (match cur with
        | some r => if isDR r then some ver else some "*"
        | none => some "*")
    else some ver
  else match cur with
    | some r => if isDR r then some ver else some "*"
    | none => some "*"

/-- the q-runtime lists and enqueues every existing primary when the adapter starts -/
def goLive (st : St) (p : Probe) : Probe :=
  let prim := (p.decls.find? (·.kind == "qprimary")).map (·.typ)
  let act := match prim with
    | some t => st.ids.filter fun i => (st.hs.ws.store.get (st.hs.ws.cfg.key "n1" t i)).isSome
    | none => []
  { p with live := true, active := act }

/-- a committed write to typ/id certainly triggers item `id` of every live q probe that
    has a primary or (unfiltered) mapped input of that type -/
def noteWrite (st : St) (typ id : String) : St :=
  { st with probes := st.probes.map fun p =>
      if p.live && p.flavour == "q" && (p.decls.any fun d => d.typ == typ && (d.kind == "qprimary" || d.kind == "qmapped"))
         && !p.active.contains id
      then { p with active := id :: p.active } else p }

def quiesceLine (st : St) : String :=
  let ps := sortBy (fun a b => a.pid < b.pid) st.probes
  " ".intercalate (ps.map fun p =>
    let items := st.types.flatMap fun t => st.ids.filterMap fun i =>
      (expected st p t i).map fun v => s!"{t}/{i}={v}"
    s!"p{p.pid}: {" ".intercalate items} ;")

def dupKeys : List PDecl → Bool
  | [] => false
  | d :: ds => ds.any (fun e => e.typ == d.typ && e.id == d.id) || dupKeys ds

def stepLine (st0 : St) (op : String) (a : List (String × String)) : St × String :=
  -- a stall window stays open only across `w` ops of its own tick (and ignored `stall` ops)
  let keep := op == "stall" || op == "unstall" || (op == "w" && st0.stall == some (arg a "t"))
  let st := if keep then st0 else { st0 with stall := none }
  match op with
  | "stall" =>
    if st.stall.isSome then (st, "ok") else
    let p : Probe := { pid := argNat a "p", flavour := "r", decls := parseDecls (arg a "in") }
    -- two inputs with equal keys (namespace, type, id): AddControllerInput rejects the second one, the
    -- registration fails and is rolled back: no controller, nothing demanded, nothing notified
    if dupKeys p.decls then ({ st with stall := some (arg a "t"), stallRejected := true }, "ok") else
    let p := if st.started then goLive st p else p
    ({ st with probes := st.probes.filter (·.pid != argNat a "p") ++ [p], stall := some (arg a "t") }, "ok")
  | "unstall" =>
    ({ st with stall := none, stallRejected := false }, if st0.stallRejected then "reject" else "ok")
  | "reg" =>
    let p : Probe := { pid := argNat a "p", flavour := arg a "fl", decls := parseDecls (arg a "in") }
    let p := if st.started then goLive st p else p
    ({ st with probes := st.probes.filter (·.pid != argNat a "p") ++ [p] }, "ok")
  | "updin" =>
    ({ st with probes := st.probes.map fun p =>
        if p.pid == argNat a "p" then { p with decls := parseDecls (arg a "in") } else p }, "ok")
  | "start" => ({ st with started := true, probes := st.probes.map (goLive st) }, "ok")
  | "w" =>
    let typ := arg a "typ"; let id := arg a "id"; let t := argNat a "t"
    let k := st.hs.ws.cfg.key "n1" typ id
    match arg a "mut", st.hs.ws.store.get k with
    | "destroy", some cur =>
      let (hs', o) := st.hs.envOp t (.destroy "n1" typ id cur.owner)
      let st' := { st with hs := hs' }
      ((if o.isOk then noteWrite st' typ id else st'), outStr o "n1" typ)
    | "destroy", none => (st, "absent")
    | m, some _ =>
      let (hs', o) := st.hs.envMod t "n1" typ id (parseMut m)
      let st' := { st with hs := hs' }
      let wrote := match o with
        | some (.wrote _) => true
        | _ => false
      ((if wrote then noteWrite st' typ id else st'), match o with
        | some out => outStr out "n1" typ
        | none => "mutfail")
    | _, none =>
      let r : Res := { ns := "n1", typ := typ, id := id, ver := none, owner := "", phase := .running, fins := [],
                       labels := [], created := 0, updated := 0, spec := "s0" }
      let (hs', o) := st.hs.envOp t (.create r "")
      let st' := { st with hs := hs' }
      ((if o.isOk then noteWrite st' typ id else st'), outStr o "n1" typ)
  | "quiesce" => (st, if st.started then quiesceLine st else "not-started")
  | _ => (st, "bad-op")

end Cosi.Driver.Pipeline
