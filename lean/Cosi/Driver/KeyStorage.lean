/-
  Cosi.Driver.KeyStorage — line protocol of engine `keystorage` (property C20).

  PGP ciphertexts are randomised, so the protocol is symbolic: key texts are named
  `k<n>p` (armored public key of pair n), `k<n>s` (armored private key of pair n),
  `none` (empty string), `junk` (non-empty text that is no key); master keys `m1`, `m2`
  (32 bytes), `short` (31), `long` (33), `empty`; blobs print as `enc(k<n>;m<j>)`,
  `empty`, `junk`. The model runs `Cosi.KeyStorage` over the symbolic primitives
  `symCrypto 4`; the harness runs the real KeyStorage with four generated key pairs
  and names what it sees (by decrypting with its private keys).

    init mk=m1 id=b pub=k1p              add new=d pub=k2p old=b priv=k1s
    delete id=b priv=k1s                 get id=b priv=k1s
    reload                               save            load into=new|cur
    dump
    tamper kind=flipblob|emptyblob|drop|alg id=b         tamper kind=fliptag|striptag|trunctag n=k
    tamper kind=addslot id=c blob=empty|junk|copy:b|enc:k3p:m1
    tamper kind=rename from=b to=c order=same|changed    tamper kind=version v=0|2

  Outputs: `ok` | `ok key=m1` | `err class=<tag>` | `skip` (a tamper whose precondition or
  order claim does not hold in the current state, or a second tamper in one case) |
  `dump ver=… slots=… tag=…`. Once a tamper has been APPLIED, every init/add/delete/get/
  reload output carries ` tampered=<label>`, the label classifying what was actually done
  (`addslot-empty`, `rename-same`, `flipblob`, …) — the known-finding signatures key on it.

  `spec = true`: the API operations print what the property demands
  (`Cosi.Spec.KeyStorage`): before any tampering the specification's verdict
  (`ok`, `ok key=…`, `err class=*`); after a tampering the property names
  (`Spec.mustDetect`) EVERY retrieval / add / delete must be refused (`err class=*`).
  Lines the property says nothing about (dump, tamper, save/load, everything after a
  stale load or an algorithm-field edit) print the model's line.
-/
import Cosi.Spec.KeyStorage

namespace Cosi.Driver.KeyStorage
open Cosi Cosi.KeyStorage

def nPairs : Nat := 4
def C : Crypto := symCrypto nPairs
def pairs : List (KeyStr × KeyStr) := symPairs nPairs

/-- `none` | `junk` | `k<n>p` | `k<n>s` -/
def parseKey (s : String) : KeyStr :=
  if s == "none" || s == "" then 0
  else if s == "junk" then 1
  else
    let cs := s.toList
    match cs with
    | 'k' :: rest =>
      let digits := rest.takeWhile Char.isDigit
      let suffix := rest.dropWhile Char.isDigit
      match (String.ofList digits).toNat? with
      | some n => if suffix == ['s'] then 2 * n + 1 else if suffix == ['p'] then 2 * n else 1
      | none => 1
    | _ => 1

def parseMk (s : String) : Bytes :=
  if s == "m1" then List.replicate 32 1
  else if s == "m2" then List.replicate 32 2
  else if s == "short" then List.replicate 31 7
  else if s == "long" then List.replicate 33 7
  else []

def mkName (m : Bytes) : String :=
  if m == List.replicate 32 1 then "m1" else if m == List.replicate 32 2 then "m2" else "other"

def blobName (b : Bytes) : String :=
  match b with
  | [] => "empty"
  | 1 :: k :: _ :: m => s!"enc(k{k};{mkName m})"
  | _ => "junk"

/-- the documented tag format, written out independently of `Gen`: HMAC keyed with the
    master key over the blobs concatenated in id order -/
def tagName (s : State) : String :=
  if s.tag == [] then "empty"
  else
    let input := s.slots.flatMap (fun e => e.2.blob)
    if s.tag == C.hmac (List.replicate 32 1) input then "hmac(m1)"
    else if s.tag == C.hmac (List.replicate 32 2) input then "hmac(m2)"
    else "other"

def dumpStr (s : State) : String :=
  let slots := s.slots.map fun (id, sl) => s!"{id}:{sl.alg}:{blobName sl.blob}"
  s!"dump ver={s.version} slots={if slots.isEmpty then "-" else joinList slots} tag={tagName s}"

def outStr : Out → String
  | .ok => "ok"
  | .key mk => "ok key=" ++ mkName mk
  | .err e => "err class=" ++ e.str

def specOutStr : Spec.KeyStorage.SOut → String
  | .ok => "ok"
  | .key mk => "ok key=" ++ mkName mk
  | .refused => "err class=*"

inductive Mode where
  | normal      -- the specification tracks the storage
  | tampered    -- a tampering the property names was applied: everything must be refused
  | free        -- outside the property: the model's output is printed
deriving DecidableEq

structure St where
  spec : Bool := false
  m : State := {}
  sp : Spec.KeyStorage.St := none
  mode : Mode := .normal
  didTamper : Bool := false
  label : String := ""      -- what the applied tamper actually did
  saved : Proto := {}
  nonce : Nat := 0

def init (spec : Bool) (_ : List (String × String)) : St := { spec := spec }

def parseOp (op : String) (a : List (String × String)) (nonce : Nat) : Option Op :=
  match op with
  | "init" => some (.init (parseMk (arg a "mk")) (arg a "id") (parseKey (arg a "pub")) nonce)
  -- four identical Initialize calls at once behave as one (the storage's mutex is held from the check to the install)
  | "initrace" => some (.init (parseMk (arg a "mk")) (arg a "id") (parseKey (arg a "pub")) nonce)
  | "add" => some (.add (arg a "new") (parseKey (arg a "pub")) (arg a "old") (parseKey (arg a "priv")) nonce)
  | "delete" => some (.delete (arg a "id") (parseKey (arg a "priv")))
  | "get" => some (.get (arg a "id") (parseKey (arg a "priv")))
  | "reload" => some .reload
  | _ => none

/-- `blob=` of an injected slot -/
def parseBlob (s : State) (v : String) (nonce : Nat) : Option Bytes :=
  if v == "empty" then some []
  else if v == "junk" then some [9, 9, nonce]
  else match v.splitOn ":" with
    | ["copy", src] => (alLookup src s.slots).map (·.blob)
    | ["enc", k, m] => C.enc (parseKey k) (parseMk m) nonce
    | _ => none

def flipHead : Bytes → Bytes
  | [] => []
  | x :: t => (x + 8) :: t

/-- does replacing key `src` by `dst` keep every slot at its position in id order? -/
def renameKeepsOrder (s : State) (src dst : SlotId) : Bool :=
  alKeys (tamper s (.renameSlot src dst)).slots == (alKeys s.slots).map (fun k => if k = src then dst else k)

/-- the tamper op of a line, if its precondition (and order claim) holds in `s` -/
def parseTamper (s : State) (a : List (String × String)) (nonce : Nat) : Option Tamper :=
  let id := arg a "id"
  match arg a "kind" with
  | "flipblob" =>
    match alLookup id s.slots with
    | some sl => if sl.blob ≠ [] then some (.alterBlob id (flipHead sl.blob)) else none
    | none => none
  | "emptyblob" =>
    match alLookup id s.slots with
    | some sl => if sl.blob ≠ [] then some (.alterBlob id []) else none
    | none => none
  | "fliptag" => if s.tag ≠ [] then some (.alterTag (flipHead s.tag)) else none
  | "striptag" => if s.tag ≠ [] then some (.alterTag []) else none
  | "trunctag" => if s.tag ≠ [] ∧ argNat a "n" < s.tag.length then some (.alterTag (s.tag.take (argNat a "n"))) else none
  | "drop" => if (alLookup id s.slots).isSome then some (.removeSlot id) else none
  | "addslot" =>
    if id ≠ "" ∧ (alLookup id s.slots).isNone then
      (parseBlob s (arg a "blob") nonce).map fun b => .addSlot id algPGP b
    else none
  | "rename" =>
    let src := arg a "from"
    let dst := arg a "to"
    if (alLookup src s.slots).isSome ∧ (alLookup dst s.slots).isNone ∧ dst ≠ "" then
      let keeps := renameKeepsOrder s src dst
      if (arg a "order" == "same") == keeps then some (.renameSlot src dst) else none
    else none
  | "alg" => if (alLookup id s.slots).isSome then some (.alterAlg id algUnknown) else none
  | "version" =>
    let v := argNat a "v"
    if v ≠ s.version then some (.alterVersion v) else none
  | _ => none

/-- classification of an applied tamper by what it actually did -/
def tamperLabel (a : List (String × String)) : Tamper → String
  | .addSlot _ _ b =>
    if b == [] then "addslot-empty"
    else match (arg a "blob").splitOn ":" with
      | k :: _ => "addslot-" ++ k
      | [] => "addslot"
  | .renameSlot _ _ => "rename-" ++ arg a "order"     -- the claim was checked against the state
  | _ => arg a "kind"

def withLabel (st : St) (s : String) : String :=
  if st.label == "" then s else s ++ " tampered=" ++ st.label

def loadStr : Option Err → String
  | none => "ok"
  | some e => "err class=" ++ e.str

def stepLine (st : St) (op : String) (a : List (String × String)) : St × String :=
  let st := { st with nonce := st.nonce + 1 }
  match op with
  | "dump" => (st, dumpStr st.m)
  | "save" => ({ st with saved := marshal st.m }, "ok")
  | "load" =>
    let (m', e) := if arg a "into" == "cur" then unmarshalInto st.m st.saved else unmarshal st.saved
    ({ st with m := m', mode := if st.mode == .normal then .free else st.mode }, loadStr e)
  | "tamper" =>
    if st.didTamper then (st, "skip")
    else match parseTamper st.m a st.nonce with
      | none => (st, "skip")
      | some t =>
        -- edit the serialized form, load it into a fresh KeyStorage
        let (m', e) := unmarshal (marshal (tamper st.m t))
        let mode := if st.mode == .normal then (if Spec.KeyStorage.mustDetect t then .tampered else .free) else st.mode
        ({ st with m := m', didTamper := true, mode := mode, label := tamperLabel a t }, loadStr e)
  | _ =>
    match parseOp op a st.nonce with
    | none => (st, "bad-op")
    | some o =>
      let (m', out) := step C st.m o
      if !st.spec then ({ st with m := m' }, withLabel st (outStr out))
      else
        match st.mode with
        | .normal =>
          let (sp', so) := Spec.KeyStorage.step pairs st.sp o
          ({ st with m := m', sp := sp' }, withLabel st (specOutStr so))
        | .tampered =>
          match o with
          | .reload => ({ st with m := m' }, withLabel st (outStr out))
          | _ => ({ st with m := m' }, withLabel st (specOutStr Spec.KeyStorage.getTampered))
        | .free => ({ st with m := m' }, withLabel st (outStr out))

end Cosi.Driver.KeyStorage
