/-
  Cosi.Driver.Watch — line protocol of engine `watch` (C02, C12): store ops as in
  `store-seq`, plus wstart / recv / wstop. After every op all watcher goroutines
  run until they block (`WSys.settle`), mirroring `synctest.Wait()` in the harness.
-/
import Cosi.Model.Watch
import Cosi.Model.HistOpts
import Cosi.Model.Bookmark
import Cosi.Driver.Store

namespace Cosi.Driver.Watch
open Cosi Cosi.Driver.Store

/-- bookmarks are printed as the bytes the code produces (cookie → placeholder) -/
def bmStr : Option Int → String
  | none => "-"
  | some p => bytesToHex (encodeBookmark placeholderCookie p)

/-- bookmark bytes from an op line → what `decodeBookmark` sees -/
def parseBm (hex : String) : BookmarkArg :=
  let bs := (hexToBytes hex).getD []
  -- `binary.BigEndian.Uint64(bookmark[8:])` reads the 8 bytes after the cookie, whatever follows them
  { len := bs.length, cookieOk := bs.take 8 == placeholderCookie, pos := toI64 (fromBe64 ((bs.drop 8).take 8)) }

def evStr (e : Event) : String :=
  match e.typ with
  | .errored => "errored"
  | .bootstrapped | .noop => s!"{e.typ.str}~bm={bmStr e.bm}"
  | _ =>
    let old := match e.old with
      | some o => resStr o
      | none => "-"
    s!"{e.typ.str}~{resStr e.res}~old={old}~bm={bmStr e.bm}"

def deliveryStr (agg : Bool) (d : Delivery) : String :=
  if agg then "batch [" ++ ";".intercalate (d.map evStr) ++ "]"
  else match d with
    | [e] => "ev " ++ evStr e
    | _ => "batch? [" ++ ";".intercalate (d.map evStr) ++ "]"

/-- `opts=i9,m4,g2,c7`: the history options in the order the state is built with
    (WithHistoryInitialCapacity / MaxCapacity / Gap / Capacity) -/
def parseOpts (s : String) : List HistOpts.Opt :=
  (splitList s).filterMap fun t =>
    match t.toList with
    | 'i' :: r => (String.mk r).toNat?.map .initCap
    | 'm' :: r => (String.mk r).toNat?.map .maxCap
    | 'g' :: r => (String.mk r).toNat?.map .gap
    | 'c' :: r => (String.mk r).toNat?.map .cap
    | _ => none

/-- `preload=k`: the backing store held k resources (type T1, ids a, b, version 1, spec "pre") before the first
    call; the initial load injects each of them once, publishing Created — the same as creating them in this order. -/
def preloadArgs (id : String) : List (String × String) :=
  [("ns", "n1"), ("typ", "T1"), ("id", id), ("ver", "undefined"), ("owner", ""), ("phase", "running"),
   ("fins", ""), ("labels", ""), ("c", "0"), ("u", "0"), ("spec", "pre"), ("as", "")]

def preload (k : Nat) (s : WSys) : WSys :=
  (["a", "b"].take k).foldl (fun s id =>
    match parseOp "create" (preloadArgs id) with
    | some o => (s.storeOpBS false 0 o).1.settle
    | none => s) s

def init0 (_spec : Bool) (a : List (String × String)) : WSys :=
  if arg a "opts" != "" then
    -- what the options make of the configuration (Cosi.Model.HistOpts, regenerated rules)
    let c := HistOpts.applyOpts (parseOpts (arg a "opts"))
    { cfg := { nsAware := arg a "nsaware" != "0" }, initCap := c.init, maxCap := c.max, gap := c.gap }
  else
  { cfg := { nsAware := arg a "nsaware" != "0" },
    initCap := argNat a "initcap", maxCap := argNat a "maxcap", gap := argNat a "gap" }

def init (spec : Bool) (a : List (String × String)) : WSys :=
  preload (argNat a "preload") (init0 spec a)

def parseSel (s : String) : Option (String × String) :=
  if s == "" then none else
  match s.splitOn ":" with
  | [k, v] => some (k, v)
  | [k] => some (k, "")
  | _ => none

def stepLine (s : WSys) (op : String) (a : List (String × String)) : WSys × String :=
  match op with
  | "wstart" =>
    let kind : WKind := match arg a "kind" with
      | "single" => .single (arg a "id")
      | "agg" => .agg
      | _ => .kind
    let bm : Option BookmarkArg :=
      if hasArg a "bm" then some (parseBm (arg a "bm")) else none
    let o : StartOpts := { bootstrap := arg a "boot" == "1", bootstrapBookmark := arg a "bb" == "1",
                           tail := argNat a "tail", bookmark := bm }
    let (s', e) := s.startWatch (argNat a "w") (arg a "ns") (arg a "typ") kind (parseSel (arg a "sel")) (argNat a "buf") o
    match e with
    | some .invalidBookmark => (s', "err class=invalidBookmark")
    | some .other => (s', "err class=other")
    | none => (s'.settle, "ok")
  | "recv" =>
    let wid := argNat a "w"
    let agg := match s.watchers.find? (·.wid = wid) with
      | some w => w.kind == .agg
      | none => false
    let (s', d) := s.recv wid
    match d with
    | none => (s', "none")
    | some d => (s'.settle, deliveryStr agg d)
  | "wstop" => (s.stopWatch (argNat a "w"), "ok")
  | _ =>
    match parseOp op a with
    | none => (s, "bad-op")
    | some o =>
      let (s', out) := s.storeOpBS (arg a "bsfail" == "1") (argNat a "t") o
      (s'.settle, outStr out (arg a "ns") (arg a "typ"))

end Cosi.Driver.Watch
