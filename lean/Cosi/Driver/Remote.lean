/-
  Cosi.Driver.Remote — line protocol of engine `grpc` (property C11).

  Header  `# engine=grpc mode=lock|raw td=<0|1> tad=<0|1> case=<n>`
          td / tad: does the server implement the Teardown / TeardownAndDestroy RPC

  mode=lock: every op is applied to a DIRECT handle and to a REMOTE handle (client adapter →
  grpc → server) over two identical states; one line `direct=<R> remote=<R> ...` per op.
    create|update|destroy|get        as engine store-seq
    list ns= typ= q=<queries> [re=<hex src> idm=<id:bit,..>]   (query tokens as engine selector)
    wstart|wstop                     as engine watch (w < 1000)
    recv w=                          everything deliverable now, flattened: `direct=[ev;..] remote=[ev;..]`
    teardown a=<call id> ns= typ= id= as=       `direct=<H> remote=<H> tdrpc=<n>`
    tad a=<call id> ns= typ= id= as=            `direct=<H> remote=<H> tadrpc=<n>`  (H may be `blocked`)
    join a=<call id>                 the result of a TeardownAndDestroy that had blocked
    envmod ns= typ= id= mut=         another actor: Get, mutate, Update (on each side through that side's handle)
  <R> = ok | ok~<res> | res~<res> | items~[<res>;..] | err~<class> | mutfail | PANIC
  <H> = ready~<bool> | ok | err~<class> | blocked | PANIC

  mode=raw: one wire-level request per op straight at the server:
    raw cid=<call id> rpc=<rpc> ...    `raw crash=<bool> iserr=<bool> st=<status code>`

  `spec = true`: the remote side is not simulated; it is what the property demands of it, computed
  from the direct side (`Cosi.Spec.Remote`): same results, classes, write-back of version / owner /
  update-time, same events; the Teardown RPCs are sent until the first Unimplemented; a raw
  request never crashes the server and a malformed one is answered with an error status
  (`*` where the property leaves the answer open).
-/
import Cosi.Spec.Remote
import Cosi.Driver.Watch
import Cosi.Driver.Helpers
import Cosi.Driver.Selector

namespace Cosi.Driver.Remote
open Cosi Cosi.Remote Cosi.Gen Cosi.Driver.Store

def fuel : Nat := 64

structure St where
  spec : Bool := false
  raw : Bool := false
  d : WSys := {}                              -- the state behind the direct handle
  dcalls : List (Nat × Local) := []           -- blocked direct TeardownAndDestroy calls
  ddone : List (Nat × HRes) := []
  r : RSys := {}                              -- server state + client adapter
  rdone : List (Nat × HRes) := []
  watches : List Nat := []
  wcalls : List (Nat × Gen.WatchCall) := []   -- the adapter method behind each remote watch
  stall : Bool := false                        -- header stall=1: both states behind the harness' staller
  wbuf : List (Nat × Nat) := []                -- subscriber channel capacity of each watch
  heldD : List (Nat × Nat) := []               -- held watches: deliveries already past the forwarder (direct side)
  heldR : List (Nat × Nat) := []               --   … remote side
  tdCalls : Nat := 0                          -- spec mode: calls of the client methods so far
  tadCalls : Nat := 0
deriving Inhabited

def init (spec : Bool) (a : List (String × String)) : St :=
  let stall := arg a "stall" == "1"
  let ws : WSys := if stall then { cfg := { nsAware := true }, initCap := argNat a "initcap", maxCap := argNat a "maxcap",
                                   gap := argNat a "gap" }
                   else { cfg := { nsAware := true } }
  { spec := spec, raw := arg a "mode" == "raw", d := ws, stall := stall,
    r := { srv := { ws := ws, caps := { hasTeardown := arg a "td" != "0", hasTad := arg a "tad" != "0" } } } }

/-! ### printing -/

def rStr : Out → String
  | .ok => "ok"
  | .wrote r => "ok~" ++ resStr r
  | .res r => "res~" ++ resStr r
  | .items l => "items~[" ++ ";".intercalate (l.map resStr) ++ "]"
  | .err e => "err~" ++ clsStr (clsOfCtor e.ctor)

def rrStr : RRes → String
  | .out o => rStr o
  | .panic => "PANIC"

def hStr : HRes → String
  | .finished (.ready b) => "ready~" ++ boolStr b
  | .finished .ok => "ok"
  | .finished (.err c) => "err~" ++ c
  | .finished (.okRes r) => "res~" ++ resStr r
  | .finished (.cancelled _) => "cancelled"
  | .blocked => "blocked"
  | .panic => "PANIC"

def evsStr (l : List Event) : String := "[" ++ ";".intercalate (l.map Cosi.Driver.Watch.evStr) ++ "]"

def codeStr : Code → String
  | .notFound => "NotFound" | .permissionDenied => "PermissionDenied" | .alreadyExists => "AlreadyExists"
  | .invalidArgument => "InvalidArgument" | .failedPrecondition => "FailedPrecondition"
  | .unimplemented => "Unimplemented" | .unclassified => "Unknown" | .any => "?" | .unknown => "?"

/-! ### parsing -/

def parseROp (op : String) (a : List (String × String)) : Option ROp :=
  match op with
  | "create" => some (.create (parseRes a) (arg a "as"))
  | "update" =>
    let exp := match arg a "exp" with
      | "any" => none
      | p => some (Phase.parse p)
    some (.update (parseRes a) (arg a "as") exp)
  | "destroy" => some (.destroy (arg a "ns") (arg a "typ") (arg a "id") (arg a "as"))
  | "get" => some (.get (arg a "ns") (arg a "typ") (arg a "id"))
  | "list" =>
    match Cosi.Driver.Selector.parseQueries (arg a "q") with
    | none => none
    | some qs =>
      let idq : Option IdQ :=
        if hasArg a "re" then
          let tab := splitMap (arg a "idm")
          some { src := (Cosi.Driver.Selector.hexStr (arg a "re")).getD "",
                 matchBit := fun id => tab.lookup id == some "1" }
        else none
      some (.list (arg a "ns") (arg a "typ") qs idq)
  | _ => none

/-! ### pending TeardownAndDestroy calls -/

/-- let the blocked direct calls run (a write of another actor may have woken them) -/
def resumeDirect (st : St) (now : Nat) : St :=
  st.dcalls.foldl (fun st (cid, l) =>
    let (ws', l') := runVia directExec fuel st.d cid now l
    match l'.pc with
    | .done r => { st with d := ws', dcalls := st.dcalls.filter (·.1 ≠ cid), ddone := (cid, .finished r) :: st.ddone }
    | _ => { st with d := ws', dcalls := (cid, l') :: st.dcalls.filter (·.1 ≠ cid) }) st

def pendingRemote (st : St) : List Nat :=
  (st.r.srv.calls.map (·.1)) ++ (st.r.cli.calls.map (·.1))

def resumeRemote (st : St) (now : Nat) : St :=
  (pendingRemote st).foldl (fun st cid =>
    let (r', res) := st.r.resumeTad fuel cid now
    match res with
    | .blocked => { st with r := r' }
    | res => { st with r := r', rdone := (cid, res) :: st.rdone }) st

def resumeAll (st : St) (now : Nat) : St := resumeRemote (resumeDirect st now) now

/-! ### watches -/

/-- everything a watcher can receive now -/
def drain : Nat → WSys → Nat → WSys × List Event
  | 0, ws, _ => (ws, [])
  | f + 1, ws, wid =>
    match ws.recv wid with
    | (ws', some d) =>
      let (ws'', rest) := drain f ws'.settle wid
      (ws'', d ++ rest)
    | (_, none) => (ws, [])

/-! ### another actor's read-modify-write -/

def envModVia (x : Exec) (ws : WSys) (now : Nat) (ns typ id : String) (m : Mut) : WSys × Option Out × Option ROp :=
  let (ws1, o) := x.op ws now (.get ns typ id)
  let ws1 := ws1.settle
  match o with
  | .res cur =>
    match m.apply cur with
    | none => (ws1, none, none)
    | some new =>
      let (ws2, o2) := x.op ws1 now (.update new cur.owner none)
      (ws2.settle, some o2, some (.update new cur.owner none))
  | other => (ws1, some other, none)

/-! ### raw requests -/

def wireOpOfNum : String → Option WireOp
  | "0" => some .wExists | "1" => some .wEqual | "2" => some .wNotExists | "3" => some .wIn
  | "4" => some .wLT | "5" => some .wLTE | "6" => some .wLTNumeric | "7" => some .wLTENumeric
  | _ => none

def parseWTerm (s : String) : Option WTermX :=
  match s.splitOn "." with
  | [k, op, inv, vals] =>
    match Cosi.Driver.Selector.hexStr k, Cosi.Driver.Selector.parseValues vals with
    | some k, some vs => some { key := k, value := vs, op := wireOpOfNum op, invert := inv == "1" }
    | _, _ => none
  | _ => none

def parseWQueries (s : String) : List (List WTermX) :=
  if s == "" then [] else
  (s.splitOn "|").map fun q => if q == "-" then [] else (q.splitOn "+").filterMap parseWTerm

/-- `idq=nil` or `idq=<hex src>:<compiles>` -/
def parseWIdq (s : String) : Option WIdQuery :=
  if s == "nil" || s == "" then none else
  match s.splitOn ":" with
  | [src, c] => some { regexp := (Cosi.Driver.Selector.hexStr src).getD "", compiles := c == "1", matchBit := fun _ => true }
  | _ => none

def parseWRes (a : List (String × String)) : Option WRes :=
  let r := parseRes a
  let full := encodeRes r
  match arg a "res" with
  | "nil" => none
  | "nomd" => some { full with md := none }
  | "nospec" => some { full with spec := none }
  | "badver" => some { full with md := full.md.map fun m => { m with ver := .garbage } }
  | "badphase" => some { full with md := full.md.map fun m => { m with phase := .garbage } }
  | _ => some full

def optOwner (a : List (String × String)) : Option String :=
  if arg a "opts" == "0" then none else some (arg a "as")

def parseRaw (a : List (String × String)) : Option WReq :=
  let ns := arg a "ns"; let typ := arg a "typ"; let id := arg a "id"
  match arg a "rpc" with
  | "get" => some (.get ns typ id (if arg a "opts" == "0" then none else some ()))
  | "list" =>
    some (.list ns typ (if arg a "opts" == "0" then none else
      some { labelQuery := parseWQueries (arg a "lq"), idQuery := parseWIdq (arg a "idq") }))
  | "create" => some (.create (parseWRes a) (optOwner a))
  | "update" =>
    let exp : Option WPhase := match arg a "exp" with
      | "none" => none
      | "running" => some .running
      | "tearingDown" => some .tearingDown
      | _ => some .garbage
    some (.update (parseWRes a) (if arg a "opts" == "0" then none else some (arg a "as", exp)))
  | "destroy" => some (.destroy ns typ id (optOwner a))
  | "teardown" => some (.teardown ns typ id (optOwner a))
  | "tad" => some (.teardownAndDestroy ns typ id (optOwner a))
  | "watch" =>
    let wid := if arg a "wid" == "nil" then none else some (arg a "wid")
    let opts : Option WWatchOpts :=
      if arg a "opts" == "0" then none else
      some { bootstrapContents := arg a "boot" == "1", bootstrapBookmark := arg a "bb" == "1",
             aggregated := arg a "agg" == "1", tail := argInt a "tail",
             bookmark := if hasArg a "bm" then some (Cosi.Driver.Watch.parseBm (arg a "bm")) else none,
             labelQuery := parseWQueries (arg a "lq"), idQuery := parseWIdq (arg a "idq") }
    some (.watch ns typ wid opts (argInt a "api"))
  | _ => none

def rawLine (st : St) (a : List (String × String)) : St × String :=
  match parseRaw a with
  | none => (st, "bad-op")
  | some req =>
    if st.spec then
      (st, if Spec.Remote.malformed req then "raw crash=false iserr=true st=*" else "raw crash=false iserr=* st=*")
    else
      let cid := argNat a "cid"
      let (srv', out) := serverHandle fuel st.r.srv cid (argNat a "t") req
      -- a raw watch is cancelled as soon as its first response is in
      let srv' := match out with
        | .started => { srv' with ws := srv'.ws.stopWatch cid }
        | _ => srv'
      let st := { st with r := { st.r with srv := srv' } }
      (st, match out with
        | .panic => "raw crash=true iserr=true st=PANIC"
        | .err c => s!"raw crash=false iserr=true st={codeStr c}"
        | .pending => "raw crash=false iserr=false st=PENDING"
        | _ => "raw crash=false iserr=false st=OK")

/-! ### the harness' staller (header stall=1)

Between each state and its watchers' consumers sits ONE forwarder goroutine per harness watch:
behind it the gRPC pipeline (remote side) resp. a subscriber channel made just as deep (direct
side): both absorb whatever a case can produce, so only a HELD forwarder makes a watch lag. While held
the forwarder keeps the one event it has (or takes next) and passes nothing on. -/

def setCap (ws : WSys) (wid : Nat) (f : Watcher → Nat) : WSys :=
  { ws with watchers := ws.watchers.map fun w => if w.wid = wid then { w with chanCap := f w } else w }

def pipelineCap : Nat := 100000

/-- receive from a HELD watch: only what had passed the forwarder when it was stopped (`n` deliveries
    left); the forwarder keeps its one slot, so the room behind it shrinks as the subscriber drains -/
def drainHeld : Nat → WSys → Nat → Nat → WSys × List Event × Nat
  | 0, ws, _, n => (ws, [], n)
  | _ + 1, ws, _, 0 => (ws, [], 0)
  | f + 1, ws, wid, n + 1 =>
    match ws.recv wid with
    | (ws', some d) =>
      let ws' := setCap ws' wid fun w => w.chanCap - 1
      let (ws'', rest, m) := drainHeld f ws'.settle wid n
      (ws'', d ++ rest, m)
    | (_, none) => (ws, [], n + 1)

def chanLen (ws : WSys) (wid : Nat) : Nat :=
  match ws.watchers.find? (·.wid = wid) with
  | some w => w.chan.length
  | none => 0

/-! ### one op -/

def stepLock (st : St) (op : String) (a : List (String × String)) : St × String :=
  let now := argNat a "t"
  match op with
  | "wstart" =>
    let wid := argNat a "w"
    let kind : WKind := match arg a "kind" with
      | "single" => .single (arg a "id")
      | "agg" => .agg
      | _ => .kind
    let bm : Option BookmarkArg := if hasArg a "bm" then some (Cosi.Driver.Watch.parseBm (arg a "bm")) else none
    let o : StartOpts := { bootstrap := arg a "boot" == "1", bootstrapBookmark := arg a "bb" == "1",
                           tail := argNat a "tail", bookmark := bm }
    let sel := Cosi.Driver.Watch.parseSel (arg a "sel")
    let dcap := if st.stall then pipelineCap else argNat a "buf"
    let (d', e) := st.d.startWatch wid (arg a "ns") (arg a "typ") kind sel dcap o
    let ds := match e with
      | some .invalidBookmark => "err~invalidBookmark"
      | some .other => "err~other"
      | none => "ok"
    let d' := if e.isNone then d'.settle else d'
    if st.spec then
      ({ st with d := d', watches := wid :: st.watches, wbuf := (wid, argNat a "buf") :: st.wbuf }, s!"direct={ds} remote={ds}")
    else
      let (r', re, crashed) := st.r.startWatch wid now (arg a "ns") (arg a "typ") kind sel o
      let r' := if st.stall then { r' with srv := { r'.srv with ws := (setCap r'.srv.ws wid fun _ => pipelineCap).settle } } else r' 
      let rs := if crashed then "PANIC" else match re with
        | none => "ok"
        | some c => "err~" ++ clsStr c
      ({ st with d := d', r := r', watches := wid :: st.watches, wcalls := (wid, callOf kind) :: st.wcalls,
                 wbuf := (wid, argNat a "buf") :: st.wbuf },
       s!"direct={ds} remote={rs}")
  | "recv" =>
    let wid := argNat a "w"
    let (d', evs, hd) := match st.heldD.lookup wid with
      | some n => let (d', evs, m) := drainHeld fuel st.d wid n; (d', evs, (wid, m) :: st.heldD.filter (·.1 ≠ wid))
      | none => let (d', evs) := drain fuel st.d wid; (d', evs, st.heldD)
    if st.spec then
      ({ st with d := d', heldD := hd }, s!"direct={evsStr evs} remote={evsStr (evs.map Spec.Remote.wireImage)}")
    else
      let (ws', revs, hr) := match st.heldR.lookup wid with
        | some n => let (ws', revs, m) := drainHeld fuel st.r.srv.ws wid n; (ws', revs, (wid, m) :: st.heldR.filter (·.1 ≠ wid))
        | none => let (ws', revs) := drain fuel st.r.srv.ws wid; (ws', revs, st.heldR)
      ({ st with d := d', heldD := hd, heldR := hr, r := { st.r with srv := { st.r.srv with ws := ws' } } },
       s!"direct={evsStr evs} remote={evsStr (revs.filterMap (wireDeliver ((st.wcalls.lookup wid).getD .watchKind)))}")
  | "hold" =>
    -- the forwarder stops passing events on: it keeps the next one it takes
    let wid := argNat a "w"
    if (st.heldD.lookup wid).isSome || !st.stall then (st, "direct=ok remote=ok") else
    let f (w : Watcher) : Nat := w.chan.length + 1
    ({ st with d := setCap st.d wid f, r := { st.r with srv := { st.r.srv with ws := setCap st.r.srv.ws wid f } },
               heldD := (wid, chanLen st.d wid) :: st.heldD, heldR := (wid, chanLen st.r.srv.ws wid) :: st.heldR },
     "direct=ok remote=ok")
  | "release" =>
    let wid := argNat a "w"
    if (st.heldD.lookup wid).isNone then (st, "direct=ok remote=ok") else
    ({ st with d := (setCap st.d wid fun _ => pipelineCap).settle,
               r := { st.r with srv := { st.r.srv with ws := (setCap st.r.srv.ws wid fun _ => pipelineCap).settle } },
               heldD := st.heldD.filter (·.1 ≠ wid), heldR := st.heldR.filter (·.1 ≠ wid) },
     "direct=ok remote=ok")
  | "wstop" =>
    let wid := argNat a "w"
    ({ st with d := st.d.stopWatch wid, r := { st.r with srv := { st.r.srv with ws := st.r.srv.ws.stopWatch wid } },
               heldD := st.heldD.filter (·.1 ≠ wid), heldR := st.heldR.filter (·.1 ≠ wid) },
     "direct=ok remote=ok")
  | "teardown" =>
    let cid := argNat a "a"
    let (d', l) := runVia directExec fuel st.d cid now (HCall.teardown (arg a "ns") (arg a "typ") (arg a "id") (arg a "as")).start
    let dres := localResult l
    let st := { st with d := d', tdCalls := st.tdCalls + 1 }
    if st.spec then
      let st := resumeDirect st now
      (st, s!"direct={hStr dres} remote={hStr dres} tdrpc={Spec.Remote.expectedRpcs st.r.srv.caps.hasTeardown st.tdCalls}")
    else
      let (r', rres) := st.r.teardown fuel cid now (arg a "ns") (arg a "typ") (arg a "id") (arg a "as")
      let st := resumeAll { st with r := r' } now
      (st, s!"direct={hStr dres} remote={hStr rres} tdrpc={st.r.cli.tdRpcs}")
  | "tad" =>
    let cid := argNat a "a"
    let (d', l) := runVia directExec fuel st.d cid now (HCall.tad (arg a "ns") (arg a "typ") (arg a "id") (arg a "as")).start
    let dres := localResult l
    let st := { st with d := d', tadCalls := st.tadCalls + 1 }
    let st := match l.pc with
      | .done _ => { st with ddone := (cid, dres) :: st.ddone }
      | _ => { st with dcalls := (cid, l) :: st.dcalls.filter (·.1 ≠ cid) }
    if st.spec then
      let st := resumeDirect st now
      (st, s!"direct={hStr dres} remote={hStr dres} tadrpc={Spec.Remote.expectedRpcs st.r.srv.caps.hasTad st.tadCalls}")
    else
      let (r', rres) := st.r.tad fuel cid now (arg a "ns") (arg a "typ") (arg a "id") (arg a "as")
      let st := if rres == .blocked then st else { st with rdone := (cid, rres) :: st.rdone }
      let st := resumeAll { st with r := r' } now
      (st, s!"direct={hStr dres} remote={hStr rres} tadrpc={st.r.cli.tadRpcs}")
  | "join" =>
    let cid := argNat a "a"
    let st := if st.spec then resumeDirect st now else resumeAll st now
    let look (done : List (Nat × HRes)) (pending : Bool) : String :=
      match done.lookup cid with
      | some r => hStr r
      | none => if pending then "blocked" else "none"
    let ds := look st.ddone ((st.dcalls.lookup cid).isSome)
    let rs := if st.spec then ds else look st.rdone ((pendingRemote st).contains cid)
    (st, s!"direct={ds} remote={rs}")
  | "envmod" =>
    let m := Cosi.Driver.Helpers.parseMut (arg a "mut")
    let (d', o, rop) := envModVia directExec st.d now (arg a "ns") (arg a "typ") (arg a "id") m
    let ds := match o with
      | none => "mutfail"
      | some o => rStr o
    if st.spec then
      let rs := match o, rop with
        | some o, some rop => rStr (Spec.Remote.viewOf rop o)
        | some o, none => rStr (Spec.Remote.viewOf (.get "" "" "") o)
        | none, _ => "mutfail"
      (resumeDirect { st with d := d' } now, s!"direct={ds} remote={rs}")
    else
      let (ws', ro, _) := envModVia remoteExec st.r.srv.ws now (arg a "ns") (arg a "typ") (arg a "id") m
      let rs := match ro with
        | none => "mutfail"
        | some o => rStr o
      (resumeAll { st with d := d', r := { st.r with srv := { st.r.srv with ws := ws' } } } now, s!"direct={ds} remote={rs}")
  | _ =>
    match parseROp op a with
    | none => (st, "bad-op")
    | some rop =>
      let (d', o) := st.d.storeOp now rop.direct
      let d' := d'.settle
      if st.spec then
        (resumeDirect { st with d := d' } now, s!"direct={rStr o} remote={rStr (Spec.Remote.viewOf rop o)}")
      else
        let (ws', ro) := remoteOp st.r.srv.ws now rop
        (resumeAll { st with d := d', r := { st.r with srv := { st.r.srv with ws := ws'.settle } } } now,
         s!"direct={rStr o} remote={rrStr ro}")

def stepLine (st : St) (op : String) (a : List (String × String)) : St × String :=
  if op == "raw" then rawLine st a else stepLock st op a

end Cosi.Driver.Remote
