/-
  Cosi.Driver.DepDB — line protocols of the engines `depdb` (operations on the dependency
  database) and `registry` (registration histories on the controller runtime), C17.

  Tokens: input `ns/typ/<id>/kind` with `<id>` = `none` | `s:<value>` (so that the absent
  and the empty ID are distinct), output `typ:kind`, edge `ctrl:etype:ns:typ:id`; lists
  comma separated. `spec = true` prints what the property determines (Cosi.Spec.DepDB):
  `order=*` where only the set is determined, `*` once the case is no longer constrained.
-/
import Cosi.Spec.DepDB

namespace Cosi.Driver.DepDB
open Cosi Cosi.DepDB

def parseId (s : String) : Option String :=
  if s == "none" then none else some (s.drop 2).toString

def idStr : Option String → String
  | none => "none"
  | some v => "s:" ++ v

def parseInput (tok : String) : Input :=
  match tok.splitOn "/" with
  | [ns, typ, id, k] => { ns := ns, typ := typ, id := parseId id, kind := k.toNat?.getD 0 }
  | _ => default

def inputStr (i : Input) : String := s!"{i.ns}/{i.typ}/{idStr i.id}/{i.kind}"

def parseOutput (tok : String) : Output :=
  match tok.splitOn ":" with
  | [t, k] => { typ := t, kind := k.toNat?.getD 0 }
  | _ => default

def outputStr (o : Output) : String := s!"{o.typ}:{o.kind}"

def edgeStr (e : Edge) : String := s!"{e.ctrl}:{e.etype}:{e.ns}:{e.typ}:{e.id}"

def sortStr (l : List String) : List String := sortBy (fun a b => decide (a < b)) l

def graphStr (es : List Edge) : String := joinList (sortStr (es.map edgeStr))

def okStr (b : Bool) : String := if b then "ok" else "err"

/-! ### engine depdb -/

structure St where
  spec : Bool := false
  db : DB := {}
  sdb : Spec.DepDB.SDB := []

def init (spec : Bool) (_ : List (String × String)) : St := { spec := spec }

def stepModel (st : St) (op : String) (a : List (String × String)) : St × String :=
  let c := arg a "c"
  match op with
  | "addout" =>
    let r := addOutput st.db c { typ := arg a "typ", kind := argNat a "kind" }
    ({ st with db := r.1 }, okStr r.2)
  | "addin" =>
    let r := addInput st.db c (parseInput (arg a "in"))
    ({ st with db := r.1 }, okStr r.2)
  | "delin" =>
    let r := deleteInput st.db c (parseInput (arg a "in"))
    ({ st with db := r.1 }, okStr r.2)
  | "deps" =>
    match getDependents st.db (arg a "ns") (arg a "typ") (parseId (arg a "id")) with
    | none => (st, "err")
    | some l => (st, s!"deps order={joinList l} set={joinList (sortStr l)}")
  | "export" => (st, s!"export edges={graphStr (exportGraph st.db)} gosorted=true")
  | "inputs" =>
    let l := (st.db.getInputs c).map inputStr
    (st, s!"inputs order={joinList l} set={joinList (sortStr l)}")
  | "outputs" => (st, s!"outputs outs={joinList ((getOutputs st.db c).map outputStr)}")
  | "excl" => (st, s!"excl c={getExclusive st.db (arg a "typ")}")
  | _ => (st, "bad-op")

def stepSpec (st : St) (op : String) (a : List (String × String)) : St × String :=
  let c := arg a "c"
  match op with
  | "addout" =>
    let r := Spec.DepDB.addOutput st.sdb c { typ := arg a "typ", kind := argNat a "kind" }
    ({ st with sdb := r.1 }, okStr r.2)
  | "addin" =>
    let r := Spec.DepDB.addInput st.sdb c (parseInput (arg a "in"))
    ({ st with sdb := r.1 }, okStr r.2)
  | "delin" =>
    let r := Spec.DepDB.deleteInput st.sdb c (parseInput (arg a "in"))
    ({ st with sdb := r.1 }, okStr r.2)
  | "deps" =>
    match parseId (arg a "id") with
    | none => (st, "err")
    | some id =>
      (st, s!"deps order=* set={joinList (sortStr (Spec.DepDB.dependents st.sdb (arg a "ns") (arg a "typ") id))}")
  | "export" => (st, s!"export edges={graphStr (Spec.DepDB.edges st.sdb)} gosorted=true")
  | "inputs" =>
    (st, s!"inputs order=* set={joinList (sortStr ((Spec.DepDB.inputsOf st.sdb c).map inputStr))}")
  | "outputs" =>
    let l := sortBy (fun (x y : Output) => if x.kind ≠ y.kind then x.kind < y.kind else x.typ < y.typ)
      (Spec.DepDB.outputsOf st.sdb c)
    (st, s!"outputs outs={joinList (l.map outputStr)}")
  | "excl" => (st, s!"excl c={Spec.DepDB.exclusiveOf st.sdb (arg a "typ")}")
  | _ => (st, "bad-op")

def stepLine (st : St) (op : String) (a : List (String × String)) : St × String :=
  if st.spec then stepSpec st op a else stepModel st op a

/-! ### engine registry -/

structure RSt where
  spec : Bool := false
  nograph : Bool := false
  sys : Sys := {}
  ssys : Spec.DepDB.SSys := {}
  dead : Bool := false

def rinit (spec : Bool) (a : List (String × String)) : RSt :=
  { spec := spec, nograph := arg a "nograph" == "1" }

def parseInputs (s : String) : List Input := (splitList s).map parseInput
def parseOutputs (s : String) : List Output := (splitList s).map parseOutput

def parseConc (s : String) : Option Nat := if s == "default" || s == "" then none else s.toNat?

def withGraph (st : RSt) (verdict : String) (g : String) : String :=
  if st.nograph then verdict else s!"{verdict} graph={g}"

def resStr : Res → String
  | .accepted => "accept"
  | .rejected => "reject"
  | .nohandle => "nohandle"
  | .ok => "ok"
  | .already => "already"

def rstepModel (st : RSt) (op : String) (a : List (String × String)) : RSt × String :=
  if st.dead then (st, "dead") else
  let c := arg a "c"
  let run (o : Op) : RSt × String :=
    let r := step st.sys o
    let st' := { st with sys := r.1 }
    (st', withGraph st' (resStr r.2) (graphStr (exportGraph r.1.db)))
  match op with
  | "reg" => run (.register c (parseInputs (arg a "in")) (parseOutputs (arg a "out")))
  | "regq" => run (.registerQ c (parseInputs (arg a "in")) (parseOutputs (arg a "out")) (parseConc (arg a "conc")))
  | "upd" => run (.updateInputs c (parseInputs (arg a "in")))
  | "start" =>
    let r := step st.sys .start
    ({ st with sys := r.1 }, resStr r.2)
  | "graph" => (st, s!"graph g={graphStr (exportGraph st.sys.db)}")
  | "poke" =>
    match deliver st.sys (arg a "ns") (arg a "typ") (arg a "id") with
    | .crash => ({ st with dead := true }, "CRASH:nilptr")
    | .woken l => (st, s!"woken l={joinList (sortStr l)}")
  | _ => (st, "bad-op")

def rstepSpec (st : RSt) (op : String) (a : List (String × String)) : RSt × String :=
  let c := arg a "c"
  let g (s : Spec.DepDB.SSys) : String := graphStr (Spec.DepDB.edges s.db)
  let out (st' : RSt) (verdict : String) : RSt × String :=
    if st'.ssys.unspec then (st', if st.nograph then "*" else "* graph=*")
    else (st', withGraph st' verdict (g st'.ssys))
  match op with
  | "reg" =>
    let r := Spec.DepDB.register st.ssys false c (parseInputs (arg a "in")) (parseOutputs (arg a "out")) none
    out { st with ssys := r.1 } (if r.2 then "accept" else "reject")
  | "regq" =>
    let r := Spec.DepDB.register st.ssys true c (parseInputs (arg a "in")) (parseOutputs (arg a "out"))
      (parseConc (arg a "conc"))
    out { st with ssys := r.1 } (if r.2 then "accept" else "reject")
  | "upd" =>
    let r := Spec.DepDB.updateInputs st.ssys c (parseInputs (arg a "in"))
    out { st with ssys := r.1 } (match r.2 with
      | .ok => "ok"
      | .rejected => "reject"
      | .nohandle => "nohandle")
  | "start" =>
    if st.ssys.started then (st, "already")
    else ({ st with ssys := { st.ssys with started := true } }, "ok")
  | "graph" => (st, if st.ssys.unspec then "graph g=*" else s!"graph g={g st.ssys}")
  | "poke" =>
    if st.ssys.unspec then (st, "woken l=*")
    else (st, s!"woken l={joinList (sortStr (Spec.DepDB.woken st.ssys (arg a "ns") (arg a "typ") (arg a "id")))}")
  | _ => (st, "bad-op")

def rstepLine (st : RSt) (op : String) (a : List (String × String)) : RSt × String :=
  if st.spec then rstepSpec st op a else rstepModel st op a

end Cosi.Driver.DepDB
