/-
  Cosi.Driver.Helpers — line protocol of engine `helpers` (C03, C04): environment
  store ops as in `store-seq`, `spawn` a helper call as an actor, `step` one actor by
  one atomic action (store op or watch delivery).

  Header `remote=1`: every actor's state handle is the gRPC client adapter in front of a server
  wrapping the (gated) state — `Cosi.Model.WrapRemote`. Model mode runs `genVia` (status-code
  tables, write-back, the three watch rules: all regenerated); spec mode runs what C03 + C11 demand
  of that path: results as the direct call's seen through the client API, EVERY watch event handed
  to the helper (a failed watch included), the error class of a native Teardown RPC left open.

  Direct cases (no `remote=1`), model mode: the machine whose decision points are regenerated from the current
  wrap.go / condition.go / owned/state.go (Cosi.Model.WrapRules + WrapGen: `RHSys.stepActor = stepActorWith genRules`,
  `Owned.forward genORules`); spec mode: the hand-written machine of Cosi.Model.Wrap (`HSys.stepActor`) and the
  intended forwarding (`Owned.forward goodORules`) — what the helpers are meant to do, independent of the regenerated
  facts. `C04Gen.stepActor_gen` proves the two equal while the facts have their intended values. (Remote cases run
  the hand-written helper machine behind the regenerated gRPC path in both modes.)

  `spawn … via=owned ctrl=<owner of the owned.State> fn=modify|teardown|addfin|removefin [noowner=1] [oexp=any|<phase>] [oas=<owner>]`
  calls the helper through `owned.State`; `odestroy … ctrl= [oas=]` is `owned.State.Destroy`.
-/
import Cosi.Model.WrapRemote
import Cosi.Model.WrapGen
import Cosi.Spec.Remote
import Cosi.Driver.Watch

namespace Cosi.Driver.Helpers
open Cosi Cosi.Driver.Store Cosi.Driver.Watch

def parseMut (s : String) : Mut :=
  match s.splitOn ":" with
  | ["setLabel", k, v] => .setLabel k v
  | ["addFins", fs] => .addFins (fs.splitOn "+")
  | ["removeFins", fs] => .removeFins (fs.splitOn "+")
  | ["setSpec", v] => .setSpec v
  | ["appendSpec", v] => .appendSpec v
  | ["setPhaseTD"] => .setPhaseTD
  | ["fail"] => .fail
  | _ => .noop

def parseExp (s : String) : Option Phase :=
  if s == "any" then none else some (Phase.parse s)

def parseEvType (s : String) : EvType :=
  match s with
  | "created" => .created | "updated" => .updated | "destroyed" => .destroyed
  | "bootstrapped" => .bootstrapped | "errored" => .errored | _ => .noop

def parseCall (a : List (String × String)) : Option HCall :=
  let ns := arg a "ns"; let typ := arg a "typ"; let id := arg a "id"
  match arg a "fn" with
  | "uwc" => some (.uwc ns typ id (parseMut (arg a "mut")) (arg a "as") (parseExp (arg a "exp")))
  | "teardown" => some (.teardown ns typ id (arg a "as"))
  | "addfin" => some (.addFin ns typ id (argList a "fins"))
  | "removefin" => some (.removeFin ns typ id (argList a "fins"))
  | "modify" => some (.modify (parseRes a) (parseMut (arg a "mut")) (arg a "as") (parseExp (arg a "exp")))
  | "tad" => some (.tad ns typ id (arg a "as"))
  | "watchfor" =>
    some (.watchFor ns typ id
      { eventTypes := if hasArg a "evtypes" then some ((argList a "evtypes").map parseEvType) else none,
        finsEmpty := arg a "finsempty" == "1",
        phases := if hasArg a "phases" then some ((argList a "phases").map Phase.parse) else none })
  | "ctx" => some (.ctxTeardown ns typ id)
  | _ => none

def retStr : HRet → String
  | .ok => "ok"
  | .okRes r => "res " ++ resStr r
  | .ready b => "ready=" ++ boolStr b
  | .err c => "err class=" ++ c
  | .cancelled c => "cancelled cause=" ++ (if c == "" then "canceled" else c)

def reqName : Req → String
  | .get .. => "get" | .update .. => "update" | .create .. => "create" | .destroy .. => "destroy"
  | .watch .. => "watch" | .recv => "recv"

def reqPtr : Req → String × String
  | .get ns typ _ => (ns, typ)
  | .update r _ _ => (r.ns, r.typ)
  | .create r _ => (r.ns, r.typ)
  | .destroy ns typ _ _ => (ns, typ)
  | .watch ns typ _ => (ns, typ)
  | .recv => ("", "")

def respStr (req : Req) : Resp → String
  | .out o => let (ns, typ) := reqPtr req; outStr o ns typ
  | .event e => evStr e
  | .watchOk => "watchok"

/-- a helper call made through `owned.State` (pkg/state/owned/state.go) -/
def parseOCall (a : List (String × String)) : Option Owned.OCall :=
  let ns := arg a "ns"; let typ := arg a "typ"; let id := arg a "id"
  match arg a "fn" with
  | "modify" =>
    let exp : Owned.OExp :=
      if !hasArg a "oexp" then .dflt else if arg a "oexp" == "any" then .any else .explicit (Phase.parse (arg a "oexp"))
    some (.modify (parseRes a) (parseMut (arg a "mut")) (arg a "noowner" == "1") exp)
  | "teardown" => some (.teardown ns typ id (if hasArg a "oas" then some (arg a "oas") else none))
  | "addfin" => some (.addFin ns typ id (argList a "fins"))
  | "removefin" => some (.removeFin ns typ id (argList a "fins"))
  | _ => none

structure St where
  /-- spec mode and every remote case: the hand-written machine -/
  h : HSys := {}
  /-- model mode, direct cases: the machine generated from the source -/
  g : WR.RHSys := {}
  remote : Bool := false
  spec : Bool := false
deriving Inhabited

def init (spec : Bool) (a : List (String × String)) : St :=
  { h := { ws := Cosi.Driver.Watch.init false a }, g := { ws := Cosi.Driver.Watch.init false a },
    remote := arg a "remote" == "1", spec := spec }

/-- what the properties demand of the remote path, independent of the regenerated gRPC facts -/
def specVia : Via :=
  { rules := Remote.goodWatchRules,
    op := fun ws now o => let (ws', out) := ws.storeOp now o; (ws', Spec.Remote.viewOf (Remote.ROp.ofOp o) out),
    ret := fun _ _ r => match r with
      | .err _ => .err "*"
      | r => r }

def stepOutStr : StepOut → String
  | .noActor => "noactor"
  | .finished _ => "finished"
  | .blocked => "blocked"
  | .did req resp fin =>
    let base := s!"did {reqName req} {respStr req resp}"
    match fin with
    | some r => base ++ " -> done " ++ retStr r
    | none => base

/-- the helper call a `spawn` line names: directly, or through owned.State with the forwarding rules `orules` -/
def spawnCall (orules : Owned.ORules) (a : List (String × String)) : Option HCall :=
  if arg a "via" == "owned" then (parseOCall a).map (Owned.forward orules (arg a "ctrl")) else parseCall a

/-- an environment operation line (`odestroy` = owned.State.Destroy) -/
def envOpOf (orules : Owned.ORules) (op : String) (a : List (String × String)) : Option Op :=
  if op == "odestroy" then
    some (Owned.forwardDestroy orules (arg a "ctrl") (arg a "ns") (arg a "typ") (arg a "id")
      (if hasArg a "oas" then some (arg a "oas") else none))
  else parseOp op a

def mutOutStr (a : List (String × String)) : Option Out → String
  | none => "mutfail"
  | some out => outStr out (arg a "ns") (arg a "typ")

/-- the hand-written machine (spec mode; remote cases in both modes) -/
def stepHSys (remote spec : Bool) (s : HSys) (op : String) (a : List (String × String)) : HSys × String :=
  let orules := if spec then Owned.goodORules else Owned.genORules
  match op with
  | "spawn" =>
    match spawnCall orules a with
    | some c => (s.spawn (argNat a "a") c, "ok")
    | none => (s, "bad-op")
  | "step" =>
    let (s', o) := if remote then s.stepActorVia (if spec then specVia else genVia) (argNat a "a") (argNat a "t")
                   else s.stepActor (argNat a "a") (argNat a "t")
    (s', stepOutStr o)
  | "envmod" =>
    let (s', o) := s.envMod (argNat a "t") (arg a "ns") (arg a "typ") (arg a "id") (parseMut (arg a "mut"))
    (s', mutOutStr a o)
  | _ =>
    match envOpOf orules op a with
    | none => (s, "bad-op")
    | some o =>
      let (s', out) := s.envOp (argNat a "t") o
      (s', outStr out (arg a "ns") (arg a "typ"))

/-- the machine generated from the current source (model mode, direct cases) -/
def stepRHSys (s : WR.RHSys) (op : String) (a : List (String × String)) : WR.RHSys × String :=
  match op with
  | "spawn" =>
    match spawnCall Owned.genORules a with
    | some c => (s.spawn (argNat a "a") c, "ok")
    | none => (s, "bad-op")
  | "step" =>
    let (s', o) := s.stepActor (argNat a "a") (argNat a "t")
    (s', stepOutStr o)
  | "envmod" =>
    let (s', o) := s.envMod (argNat a "t") (arg a "ns") (arg a "typ") (arg a "id") (parseMut (arg a "mut"))
    (s', mutOutStr a o)
  | _ =>
    match envOpOf Owned.genORules op a with
    | none => (s, "bad-op")
    | some o =>
      let (s', out) := s.envOp (argNat a "t") o
      (s', outStr out (arg a "ns") (arg a "typ"))

def stepLine (s : St) (op : String) (a : List (String × String)) : St × String :=
  if !s.spec && !s.remote then
    let (g', o) := stepRHSys s.g op a
    ({ s with g := g' }, o)
  else
    let (h', o) := stepHSys s.remote s.spec s.h op a
    ({ s with h := h' }, o)

end Cosi.Driver.Helpers
