/-
  Cosi.Driver.RWatch — line protocol of engine `rwatch` (C13).

  The server is a `WSys` (real side: inmem state behind the real `server.State`), each
  remote watch is an `RClient` (real side: `client.Adapter` over the harness' in-memory
  transport) plus the plumbing the harness adds around it:
    outq      what the client goroutine has forwarded (subscriber channel of capacity
              `buf` + the one send it is blocked on); the client calls Recv again only
              when everything fits into the channel
    broken    the transport failed, the client has not called Recv since
    failAfter the transport fails after that many further messages
    clean     the fault is a CLEAN end of stream: Recv returns io.EOF (the server side finished the
              stream with status OK) instead of a status error — for the stream itself and for the
              failed first Recv of the re-establishments of that fault
    reestFail / forever / hold   faults injected into the re-establishment
  After every op every goroutine runs until it blocks (`pumpAll`, mirroring
  `synctest.Wait()` plus the harness waiting out the retry back-off in virtual time).

  Clock: both sides keep a nominal clock in seconds. An op lasts 1 s plus `padOf i` for
  every back-off delay the client sleeps in it (i = NextBackOff calls since the last
  Reset; `padOf i` ≥ the largest value NextBackOff can return at that index) plus the
  same allowance when the harness has to time out waiting for a retry that never comes
  (the client terminated). `age` adds 2000 s. Only the store's timestamps and the
  MaxElapsedTime test see the clock.

  Model mode runs `Cosi.rstep` (every regenerated fact read, the event loop's error branch by
  `genRRules`); spec mode runs `Cosi.rstepCore` — the machine C13's theorems are about — and leaves
  delivery contents and call counts open, but not WHETHER a receive yields an `Errored` (`e=`): the
  property's "…or terminates with an Errored event".
-/
import Cosi.Model.RWatch
import Cosi.Driver.Watch

namespace Cosi.Driver.RWatch
open Cosi Cosi.Driver.Store Cosi.Driver.Watch

structure RW where
  wid : Nat
  c : RClient
  buf : Nat := 0
  outq : List Delivery := []
  broken : Bool := false
  restart : Bool := false
  failAfter : Option Nat := none
  reestFail : Nat := 0
  modeFirst : Bool := false
  forever : Bool := false
  clean : Bool := false       -- Recv errors of the current fault are io.EOF
  hold : Bool := false        -- the next dial hangs until `heal`
  dialing : Bool := false     -- inside adapter.client.Watch of the retry loop
  blocked : Bool := false     -- … and hanging
  dialAt : Nat := 0           -- nominal time of the NextBackOff call of the current attempt
  idx : Nat := 0              -- NextBackOff calls since NewExponentialBackOff / Reset
  calls : Nat := 0            -- re-issued Watch calls seen by the transport
  exited : Bool := false
deriving Inhabited

structure St where
  spec : Bool := false
  sys : WSys := {}
  wire : Nat := 0
  now : Nat := 0
  rws : List RW := []
deriving Inhabited

/-- upper bound (whole seconds) of NextBackOff's value at interval index `i`:
    1.5 · min(0.5 s · 1.5^i, 60 s), rounded up -/
def padOf (i : Nat) : Nat := ([1, 2, 2, 3, 4, 6, 9, 13, 20, 29, 44, 65][i]?).getD 91

/-- allowance when the harness times out waiting for the next Watch call -/
def RW.termPad (rw : RW) : Nat := if rw.forever then 1300 else padOf rw.idx

def srvSettle (r : Ring) (c : RClient) : RClient :=
  c.withSrv fun w => w.settle r (r.writePos + w.pending.length + w.chanCap + 4)

/-- the client's own Errored event; the harness classifies its error with the public
    predicate state.IsInvalidWatchBookmarkError (true exactly for client.go:685) -/
def finEvent (c : RClient) : Event :=
  match c.phase with
  | .done .invalidBookmark => { erroredEvent with res := tombstone "" "" "invalidBookmark" }
  | _ => erroredEvent

/-- the client goroutine has returned; `c0` is its state before the step that ended it. The
    subscriber gets the terminal Errored iff that step handed one over (it does not when the
    event loop's error branch swallows the error: `withRules`). -/
def RW.finish (rw : RW) (c0 c : RClient) : RW :=
  let loud := c.delivered.length > c0.delivered.length
  { rw with c := c, outq := if loud then rw.outq ++ [[finEvent c]] else rw.outq, exited := true, dialing := false,
            blocked := false }

def RW.err (rw : RW) : RecvErr := if rw.clean then .eof else .status

def evStrC (e : Event) : String :=
  if e.typ == .errored && e.res.id == "invalidBookmark" then "errored~invalidBookmark" else evStr e

def isDone (c : RClient) : Bool :=
  match c.phase with
  | .done _ => true
  | _ => false

/-- run the client goroutine (and the server side of its stream) until it blocks;
    returns the watch and the back-off allowance accumulated in this op -/
def pump (stp : Ring × RClient → RStep → Ring × RClient) (r : Ring) (cur : Option Res) (now : Nat) :
    Nat → RW × Nat → RW × Nat
  | 0, x => x
  | fuel + 1, (rw, pad) =>
    if rw.exited then (rw, pad) else
    let c := srvSettle r rw.c
    let rw := { rw with c := c }
    match c.phase with
    | .done _ => (rw, pad)
    | .retrying =>
      if rw.dialing then
        if rw.blocked then (rw, pad)
        else
          -- the Watch call of this attempt meets the (possibly faulty) transport
          let a : Attempt := if rw.reestFail > 0 then (if rw.modeFirst then .firstRecvFail rw.err else .dialFail)
                             else .connect cur
          let (_, c') := stp (r, c) (.attempt rw.dialAt 0 a)
          let rw := { rw with dialing := false, reestFail := rw.reestFail - 1 }
          if isDone c' then (rw.finish c c', pad) else pump stp r cur now fuel ({ rw with c := c' }, pad)
      else
        -- NextBackOff (client.go:651)
        let t := now + pad
        if t - c.boStart > c.maxElapsed then
          ((rw.finish c (stp (r, c) (.attempt t 0 .dialFail)).2), pad + rw.termPad)
        else if rw.forever then
          -- every re-establishment fails (dial error, or the first Recv of the new stream) until the
          -- back-off gives up; the error it wraps then is the last of them
          let a : Attempt := if rw.modeFirst then .firstRecvFail rw.err else .dialFail
          let c1 := (stp (r, c) (.attempt t 0 a)).2
          ((rw.finish c1 (stp (r, c1) (.attempt (c.boStart + c.maxElapsed + 1) 0 .dialFail)).2), pad + rw.termPad)
        else
          let rw' := { rw with dialing := true, dialAt := t, idx := rw.idx + 1, calls := rw.calls + 1,
                               blocked := rw.hold, hold := false }
          pump stp r cur now fuel (rw', pad + padOf rw.idx)
    | .streaming w | .waitFirst w =>
      if rw.outq.length > rw.buf then (rw, pad)       -- blocked forwarding to the subscriber
      else if rw.broken then
        -- cli.Recv returns the transport error, or io.EOF
        let (_, c') := stp (r, c) (.fail rw.restart rw.err)
        let rw := { rw with broken := false, restart := false, failAfter := none }
        if isDone c' then (rw.finish c c', pad + rw.termPad) else pump stp r cur now fuel ({ rw with c := c' }, pad)
      else
        match w.recv.1 with
        | none => (rw, pad)
        | some d =>
          let wasWait := match c.phase with
            | .waitFirst _ => true
            | _ => false
          let (_, c') := stp (r, c) (.recv (now + pad))
          let fa : Option Nat := rw.failAfter.map (· - 1)
          let rw := { rw with c := c', outq := rw.outq ++ [d], idx := if wasWait then 0 else rw.idx,
                              failAfter := if fa == some 0 then none else fa,
                              broken := fa == some 0 }
          pump stp r cur now fuel (rw, pad)

def St.ringOf (s : St) (rw : RW) : Ring := s.sys.ring (s.sys.rkey rw.c.ns rw.c.typ)

def St.curOf (s : St) (rw : RW) : Option Res :=
  match rw.c.kind with
  | .single id => s.sys.store.get (s.sys.cfg.key rw.c.ns rw.c.typ id)
  | _ => none

/-- all goroutines run until they block; the op ends 1 s + allowances later -/
def St.pumpAll (s : St) (extra : Nat := 0) : St :=
  let (rws, pad) := s.rws.foldl (fun (acc : List RW × Nat) rw =>
      -- every client lives its own (virtual) time inside the op; the op lasts for the sum of the allowances
      let (rw', p) := pump (if s.spec then rstepCore else rstep) (s.ringOf rw) (s.curOf rw) s.now 400 (rw, 0)
      (acc.1 ++ [rw'], acc.2 + p)) ([], 0)
  { s with rws := rws, now := s.now + 1 + pad + extra }

def init (spec : Bool) (a : List (String × String)) : St :=
  { spec := spec,
    sys := { cfg := { nsAware := false }, initCap := argNat a "initcap", maxCap := argNat a "maxcap",
             gap := argNat a "gap" },
    wire := argNat a "wire" }

def St.upd (s : St) (wid : Nat) (f : RW → RW) : St :=
  { s with rws := s.rws.map fun rw => if rw.wid = wid then f rw else rw }

def delivStr (agg : Bool) (d : Delivery) : String :=
  if agg then "batch:[" ++ ";".intercalate (d.map evStrC) ++ "]"
  else match d with
    | [e] => "ev:" ++ evStrC e
    | _ => "batch?:[" ++ ";".intercalate (d.map evStrC) ++ "]"

def stepLine (s : St) (op : String) (a : List (String × String)) : St × String :=
  match op with
  | "wstart" =>
    let wid := argNat a "w"
    let ns := arg a "ns"
    let typ := arg a "typ"
    let kind : WKind := match arg a "kind" with
      | "single" => .single (arg a "id")
      | "agg" => .agg
      | _ => .kind
    let sel := parseSel (arg a "sel")
    let o : StartOpts := { bootstrap := arg a "boot" == "1", bootstrapBookmark := arg a "bb" == "1",
                           tail := argNat a "tail" }
    let k := s.sys.rkey ns typ
    let r := s.sys.ring k
    let res := match kind with
      | .single id => startSingle r (s.sys.store.get (s.sys.cfg.key ns typ id)) ns typ id o
      | .kind => startKind r (s.sys.contents ns typ sel) ns typ false o
      | .agg => startKind r (s.sys.contents ns typ sel) ns typ true o
    match res with
    | .error .invalidBookmark => (s.pumpAll, "err class=invalidBookmark")
    | .error .other => (s.pumpAll, "err class=other")
    | .ok (pos, ini) =>
      let c := RClient.establish ns typ kind sel (1 + s.wire) (arg a "retry" != "0") s.now pos ini o
      let rw : RW := { wid := wid, c := c, buf := argNat a "buf" }
      let s := { s with sys := s.sys.setRing k r, rws := s.rws ++ [rw] }
      (s.pumpAll, "ok")
  | "recv" =>
    let wid := argNat a "w"
    match s.rws.find? (·.wid = wid) with
    | none => (s.pumpAll, "rv pfx=ok e=0 d=none")
    | some rw =>
      match rw.outq with
      | [] => (s.pumpAll, "rv pfx=ok e=0 d=none")
      | d :: ds =>
        let s' := (s.upd wid fun rw => { rw with outq := ds }).pumpAll
        let e := if d.any (·.typ == .errored) then "1" else "0"
        (s', if s.spec then s!"rv pfx=ok e={e} d=*" else s!"rv pfx=ok e={e} d=" ++ delivStr (rw.c.kind == .agg) d)
  | "fail" =>
    let wid := argNat a "w"
    let n := argNat a "after"
    let s' := s.upd wid fun rw =>
      if rw.exited then rw else
      let live := match rw.c.phase with
        | .streaming _ | .waitFirst _ => true
        | _ => false
      if !live || rw.broken then rw else
      { rw with broken := n == 0, failAfter := if n == 0 then none else some n,
                reestFail := if arg a "reest" == "inf" then 0 else argNat a "reest",
                forever := arg a "reest" == "inf", modeFirst := arg a "mode" == "first",
                clean := arg a "clean" == "1", hold := arg a "hold" == "1" }
    (s'.pumpAll, "ok")
  | "heal" =>
    let s' := s.upd (argNat a "w") fun rw => { rw with blocked := false, hold := false }
    (s'.pumpAll, "ok")
  | "restart" =>
    -- the serving process is replaced: every stream breaks, the new state is empty and
    -- bookmarks of the old incarnation are foreign to it
    let s' := { s with sys := { s.sys with store := [], rings := [] },
                       rws := s.rws.map fun (rw : RW) =>
                         if rw.exited then rw else
                         let live := match rw.c.phase with
                           | .streaming _ | .waitFirst _ => true
                           | _ => false
                         if live then { rw with broken := true, restart := true, failAfter := none, clean := false }
                         else { rw with c := { rw.c with cookieOk := false } } }
    (s'.pumpAll, "ok")
  | "age" => (s.pumpAll 2000, "ok")
  | "rstat" =>
    match s.rws.find? (·.wid = argNat a "w") with
    | none => (s.pumpAll, "stat none")
    | some rw =>
      let calls := if s.spec then "*" else if rw.forever then "inf" else toString rw.calls
      (s.pumpAll, s!"stat calls={calls}")
  | "wstop" =>
    let wid := argNat a "w"
    ({ s with rws := s.rws.filter (·.wid ≠ wid) }.pumpAll, "ok pfx=ok")
  | _ =>
    match parseOp op a with
    | none => (s.pumpAll, "bad-op")
    | some o =>
      let (sys', out) := s.sys.storeOp s.now o
      ({ s with sys := sys' }.pumpAll, outStr out (arg a "ns") (arg a "typ"))

end Cosi.Driver.RWatch
