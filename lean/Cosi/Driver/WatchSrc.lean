/-
  Cosi.Driver.WatchSrc — line protocol of engine `watch` (C02, C12) over the rules-parametrised machinery
  (Cosi.Model.WatchRules): store ops as in `store-seq`, plus wstart / recv / wstop; after every op all watcher
  goroutines run until they block (`WSys.settleWith`), mirroring `synctest.Wait()` in the harness.

  Model mode runs the machinery over the rules REGENERATED from collection.go (`genRules`: Cosi.Gen.Watch), spec
  mode over the intended rules (`goodRules`; by Cosi.Props.C02Rules / C12Rules `…With goodRules` are the
  hand-written intended definitions of Cosi.Model.Watch the property theorems are about). On the unchanged tree
  the two are the same rules (`Cosi.C02.genRules_good`). Parsing and printing are those of Cosi.Driver.Watch.
-/
import Cosi.Model.WatchRules
import Cosi.Driver.Watch

namespace Cosi.Driver.WatchSrc
open Cosi Cosi.Driver.Store Cosi.Driver.Watch

/-- the state of engine `watch`: the system and the rules it runs under -/
structure St where
  sys : WSys
  rules : Rules

def initSt (spec : Bool) (a : List (String × String)) : St :=
  { sys := Cosi.Driver.Watch.init spec a, rules := if spec then goodRules else genRules }

def parseSel (s : String) : Option (String × String) :=
  if s == "" then none else
  match s.splitOn ":" with
  | [k, v] => some (k, v)
  | [k] => some (k, "")
  | _ => none

def stepSt (st : St) (op : String) (a : List (String × String)) : St × String :=
  let s := st.sys
  let R := st.rules
  let ret (x : WSys × String) : St × String := ({ st with sys := x.1 }, x.2)
  ret <|
  match op with
  | "wstart" =>
    let wk : WKind := match arg a "kind" with
      | "single" => .single (arg a "id")
      | "agg" => .agg
      | _ => .kind
    let bm : Option BookmarkArg :=
      if hasArg a "bm" then some (parseBm (arg a "bm")) else none
    let o : StartOpts := { bootstrap := arg a "boot" == "1", bootstrapBookmark := arg a "bb" == "1",
                           tail := argNat a "tail", bookmark := bm }
    let (s', e) := s.startWatchWith R (argNat a "w") (arg a "ns") (arg a "typ") wk (parseSel (arg a "sel")) (argNat a "buf") o
    match e with
    | some .invalidBookmark => (s', "err class=invalidBookmark")
    | some .other => (s', "err class=other")
    | none => (s'.settleWith R, "ok")
  | "recv" =>
    let wid := argNat a "w"
    let agg := match s.watchers.find? (·.wid = wid) with
      | some w => w.kind == .agg
      | none => false
    let (s', d) := s.recv wid
    match d with
    | none => (s', "none")
    | some d => (s'.settleWith R, deliveryStr agg d)
  | "wstop" => (s.stopWatch (argNat a "w"), "ok")
  | _ =>
    match parseOp op a with
    | none => (s, "bad-op")
    | some o =>
      let (s', out) := s.storeOpBSWith R (arg a "bsfail" == "1") (argNat a "t") o
      (s'.settleWith R, outStr out (arg a "ns") (arg a "typ"))

end Cosi.Driver.WatchSrc
