/-
  Cosi.Driver.Conc — engine `store-conc` (C01, real threads): decides linearizability of a
  recorded concurrent history against the recorded commit order.

  The harness runs N real goroutines against the real state; a recording backing store
  (called under the collection lock) stamps every successful write with a global counter
  value `commit`; every call records the counter at invocation (`lo`) and response (`hi`).
  The derived case lists first the successful writes in commit order, then every other
  call. The driver replays the writes through `Cosi.step` (each must reproduce its recorded
  response, with lo < commit < hi) and keeps the snapshots; a read or failed call is
  linearizable iff some snapshot that was current at an instant of [lo, hi] yields its
  recorded response. This is exact given that the commit order is the order under the lock.
-/
import Cosi.Driver.Store

namespace Cosi.Driver.Conc
open Cosi Cosi.Driver.Store

structure St where
  cfg : Cfg := {}
  store : Store := []
  snaps : List (Nat × Store) := [(0, [])]     -- (instant the snapshot became current, contents), oldest first

def init (_spec : Bool) (a : List (String × String)) : St :=
  { cfg := { nsAware := arg a "nsaware" != "0" } }

/-- mask the wall-clock timestamps of a canonical line -/
def mask (s : String) : String :=
  "|".intercalate ((s.splitOn "|").map fun f =>
    if f.startsWith "c=" then "c=*" else if f.startsWith "u=" then "u=*" else f)

def stepLine (st : St) (op : String) (a : List (String × String)) : St × String :=
  match parseOp op a with
  | none => (st, "bad-op")
  | some o =>
    let lo := argNat a "lo"; let hi := argNat a "hi"
    match (arg a "commit").toNat? with
    | some t =>
      -- a successful write, in commit order
      let (s', out) := step st.cfg st.store 0 o
      let okT := lo < t && t < hi
      ({ st with store := s', snaps := st.snaps ++ [(t, s')] },
        mask (outStr out (arg a "ns") (arg a "typ")) ++ (if okT then " lin=ok" else " lin=COMMIT-OUTSIDE-CALL"))
    | none =>
      -- a read or failed call: find a snapshot current during [lo, hi] that explains the response
      let want := arg a "resp"
      let rec go (l : List (Nat × Store)) : Bool :=
        match l with
        | [] => false
        | (t, s) :: rest =>
          let next := match rest with
            | (t', _) :: _ => t'
            | [] => hi + 1
          (t < hi && next > lo &&
            (mask (outStr (step st.cfg s 0 o).2 (arg a "ns") (arg a "typ"))).replace " " "_" == want) || go rest
      (st, if go st.snaps then "lin=ok" else "lin=NONE")

end Cosi.Driver.Conc
