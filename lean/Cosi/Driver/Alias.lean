/-
  Cosi.Driver.Alias — line protocol of engine `alias` (property C19).

  Every op line is one step of a caller program over numbered handles; the output line
  is `<result> | <snapshot>` where the snapshot is the canonical observable content of
  every live handle (>= 2; 0 and 1 are the model's scratch handles), every caller-owned
  finalizer slice, the store (what List returns), the cache and the watch replica.
  Model mode runs `Cosi.Heap.step` under the REGENERATED facts; spec mode runs the
  value-semantics specification `Cosi.Spec.Alias.step`.

    new h=2 id=a | copy dst=3 src=2 | copymd dst=3 src=2 | drop h=2
    setlabel h=2 k=k1 v=x | dellabel h=2 k=k1 | dolabels h=2 es=s:k1:v1,d:k2   (same with anno)
    finadd h=2 f=x | finremove h=2 f=x | finsetlit h=2 l=a,b | finsetfrom h=2 src=3 | finsetraw h=2 r=1
    setphase h=2 p=tearingDown | setver h=2 v=3 | setowner h=2 o=A | setspec h=2 s=s1
    rawnew r=1 l=a,b | rawwrite r=1 i=0 v=z
    create h=2 as=A | update h=2 as=A exp=any | destroy id=a as=A
    modify h=2 as=A ms=setlabel/k1/v1;finadd/x | updatewc id=a dst=4 as=A ms=...
    get id=a dst=5 via=direct|cached | list base=10 via=direct|cached [q=<label key>] | sync | snap
-/
import Cosi.Spec.Alias

namespace Cosi.Driver.Alias
open Cosi Cosi.Heap

def verStr : Option Nat → String
  | none => "undefined"
  | some n => toString n

def parseVer (s : String) : Option Nat := if s == "undefined" then none else s.toNat?

def kvsStr (m : KVs) : String := joinMap (sortBy (fun a b => a.1 < b.1) m)

def objStr (o : VObj) : String :=
  s!"{o.md.id}@{verStr o.md.ver}|o={o.md.owner}|{if o.md.tearing then "tearingDown" else "running"}|l={kvsStr o.md.labels}|a={kvsStr o.md.annos}|f={joinList o.md.fins}|s={o.spec}"

def tableStr (t : List (String × VObj)) : String :=
  "[" ++ ";".intercalate ((sortBy (fun a b => a.1 < b.1) t).map fun p => objStr p.2) ++ "]"

def snapStr (v : Spec.Alias.VSt) : String :=
  let hs := (sortBy (fun a b => a.1 < b.1) (v.hs.filter fun p => p.1 ≥ 2)).map fun p => s!"h{p.1}={objStr p.2}"
  let rs := (sortBy (fun a b => a.1 < b.1) v.raws).map fun p => s!"r{p.1}={joinList p.2}"
  " ".intercalate (hs ++ rs ++ [s!"store={tableStr v.store}", s!"cache={tableStr v.cache}", s!"watch={tableStr v.cache}"])

def outStr : Out → String
  | .ok => "ok"
  | .bool b => boolStr b
  | .err .notFound => "err notFound"
  | .err .conflict => "err conflict"
  | .err .ownerConflict => "err ownerConflict"
  | .err .phaseConflict => "err phaseConflict"
  | .err .ownerSet => "err other"
  | .noHandle => "nohandle"
  | .oob => "oob"
  | .ids l => "ids " ++ joinList l
  | .noop => "ok"     -- UpdateWithConflicts/Modify return nil when the callback changed nothing

def parseEdits (s : String) : List KVEdit :=
  (splitList s).filterMap fun e =>
    match e.splitOn ":" with
    | ["s", k, v] => some (.set k v)
    | ["s", k] => some (.set k "")
    | ["d", k] => some (.del k)
    | _ => none

def parsePhase (s : String) : Bool := s == "tearingDown"

/-- `name/arg/arg` (inside `ms=`), lists inside use `+` instead of `,` -/
def parseMutTok (t : String) : Option Mut :=
  match t.splitOn "/" with
  | ["setlabel", k, v] => some (.setLabel k v)
  | ["dellabel", k] => some (.delLabel k)
  | ["dolabels", es] => some (.doLabels (parseEdits (es.replace "+" ",")))
  | ["setanno", k, v] => some (.setAnno k v)
  | ["delanno", k] => some (.delAnno k)
  | ["doannos", es] => some (.doAnnos (parseEdits (es.replace "+" ",")))
  | ["finadd", f] => some (.finAdd f)
  | ["finremove", f] => some (.finRemove f)
  | ["finsetlit", l] => some (.finSetLit (splitList (l.replace "+" ",")))
  | ["setphase", p] => some (.setPhase (parsePhase p))
  | ["setver", v] => some (.setVersion (parseVer v))
  | ["setowner", o] => some (.setOwner o)
  | ["setowner"] => some (.setOwner "")
  | ["setspec", s] => some (.setSpec s)
  | _ => none

def parseMuts (s : String) : List Mut :=
  if s == "" then [] else (s.splitOn ";").filterMap parseMutTok

def parseVia (a : List (String × String)) : Via :=
  if arg a "via" == "cached" then .cached else .direct

def parseExp (s : String) : Exp :=
  if s == "any" then .any else if s == "tearingDown" then .tearing else .running

def parseStep (op : String) (a : List (String × String)) : Option Step :=
  let h := argNat a "h"
  match op with
  | "new" => some (.prim (.new h (arg a "id")))
  | "copy" => some (.prim (.copy (argNat a "dst") (argNat a "src")))
  | "copymd" => some (.prim (.copyMd (argNat a "dst") (argNat a "src")))
  | "drop" => some (.prim (.drop h))
  | "setlabel" => some (.prim (.mutate h (.setLabel (arg a "k") (arg a "v"))))
  | "dellabel" => some (.prim (.mutate h (.delLabel (arg a "k"))))
  | "dolabels" => some (.prim (.mutate h (.doLabels (parseEdits (arg a "es")))))
  | "setanno" => some (.prim (.mutate h (.setAnno (arg a "k") (arg a "v"))))
  | "delanno" => some (.prim (.mutate h (.delAnno (arg a "k"))))
  | "doannos" => some (.prim (.mutate h (.doAnnos (parseEdits (arg a "es")))))
  | "finadd" => some (.prim (.mutate h (.finAdd (arg a "f"))))
  | "finremove" => some (.prim (.mutate h (.finRemove (arg a "f"))))
  | "finsetlit" => some (.prim (.mutate h (.finSetLit (argList a "l"))))
  | "finsetfrom" => some (.prim (.finSetFrom h (argNat a "src")))
  | "finsetraw" => some (.prim (.finSetRaw h (argNat a "r")))
  | "setphase" => some (.prim (.mutate h (.setPhase (parsePhase (arg a "p")))))
  | "setver" => some (.prim (.mutate h (.setVersion (parseVer (arg a "v")))))
  | "setowner" => some (.prim (.mutate h (.setOwner (arg a "o"))))
  | "setspec" => some (.prim (.mutate h (.setSpec (arg a "s"))))
  | "rawnew" => some (.prim (.rawNew (argNat a "r") (argList a "l")))
  | "rawwrite" => some (.prim (.rawWrite (argNat a "r") (argNat a "i") (arg a "v")))
  | "create" => some (.prim (.create h (arg a "as")))
  | "update" => some (.prim (.update h (arg a "as") (parseExp (arg a "exp"))))
  | "destroy" => some (.prim (.destroy (arg a "id") (arg a "as")))
  | "get" => some (.prim (.get (arg a "id") (argNat a "dst") (parseVia a) false))
  | "sync" => some (.prim .sync)
  | "list" => some (.list (argNat a "base") (parseVia a))
  | "modify" => some (.modify h (parseMuts (arg a "ms")) (arg a "as"))
  | "updatewc" => some (.updateWC (arg a "id") (parseMuts (arg a "ms")) (argNat a "dst") (arg a "as"))
  | _ => none

structure St where
  spec : Bool := false
  m : Heap.St := {}
  v : Spec.Alias.VSt := {}

def init (spec : Bool) (_ : List (String × String)) : St := { spec := spec }

/-- `list … q=<label key>`: List with a label query (exists key). The same reads as an unfiltered
    List — one copy-out per id at the List site, bound to consecutive handles — for the ids whose
    stored / cached object carries the label (the filtered path of collection.List and of
    cacheHandler.list). -/
def filteredList (st : St) (base : Nat) (via : Via) (key : String) : St × String :=
  if st.spec then
    let ids := sortStrs (((Spec.Alias.vTable st.v via).filter fun p => (aget p.2.md.labels key).isSome).map (·.1))
    let v' := Spec.Alias.runPrims st.v (listPrims ids base via)
    ({ st with v := v' }, outStr (.ids ids) ++ " | " ++ snapStr v')
  else
    let ids := sortStrs (((viaTable st.m via).filter fun p =>
      (aget (viewObj st.m.heap (objAt st.m.objs p.2)).md.labels key).isSome).map (·.1))
    let m' := runPrims Heap.facts st.m (listPrims ids base via)
    ({ st with m := m' }, outStr (.ids ids) ++ " | " ++ snapStr (Spec.Alias.abs m'))

def stepLine (st : St) (op : String) (a : List (String × String)) : St × String :=
  if op == "snap" then
    (st, "snap | " ++ snapStr (if st.spec then st.v else Spec.Alias.abs st.m))
  else if op == "list" && arg a "q" != "" then
    filteredList st (argNat a "base") (parseVia a) (arg a "q")
  else
  match parseStep op a with
  | none => (st, "bad-op")
  | some s =>
    if st.spec then
      let r := Spec.Alias.step st.v s
      ({ st with v := r.1 }, outStr r.2 ++ " | " ++ snapStr r.1)
    else
      let r := Heap.step Heap.facts st.m s
      ({ st with m := r.1 }, outStr r.2 ++ " | " ++ snapStr (Spec.Alias.abs r.1))

end Cosi.Driver.Alias
