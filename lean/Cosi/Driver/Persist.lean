/-
  Cosi.Driver.Persist — line protocol of engine `persist` (C10).

  One `PSys` per `inmem.State`: flavour `namespaced` has one per namespace (the namespaced
  wrapper dispatches by namespace; every namespace is its own state object, its own bbolt
  bucket and its own fault schedule), flavour `inmem` has a single one. Lines:

    store ops as in `store-seq`, plus `ann=k:v,…` (annotations; the opaque payload field of the
      model carries spec and annotations jointly — both are replaced wholesale by Create/Update
      and read by no precondition)
    wstart / recv / wstop as in `watch` (plus `ns=` on recv/wstop for routing)
    fault kind=put|destroy n=<k> ns=<ns>   the k-th Put/Destroy from now on is rejected
    fault kind=load after=<k> ns=<ns>      one more Load fails, after <k> injected resources
    reopen                                 the process dies; a fresh state on the same file

  After every op all watcher goroutines run until they block (`synctest.Wait()`).
  The marshaler stack named in the header does not reach the model: by the property the
  outputs do not depend on it (identity codec here; the round-trip law is C18's).
  `spec = true` runs `Cosi.Spec.Persist.exec`.
-/
import Cosi.Spec.Persist
import Cosi.Driver.Watch

namespace Cosi.Driver.Persist
open Cosi Cosi.Driver.Store Cosi.Driver.Watch

def idCodec : Codec Res := { enc := id, dec := some }

structure St where
  spec : Bool := false
  nsaware : Bool := true
  proto : WSys := {}                       -- options of every state object
  comps : List (String × PSys) := []

def init (spec : Bool) (a : List (String × String)) : St :=
  { spec := spec, nsaware := arg a "nsaware" != "0",
    proto := { cfg := { nsAware := false }, initCap := argNat a "initcap", maxCap := argNat a "maxcap",
               gap := argNat a "gap" } }

def St.ckey (st : St) (ns : String) : String := if st.nsaware then ns else ""

def St.comp (st : St) (k : String) : PSys :=
  match st.comps.find? (·.1 == k) with
  | some (_, p) => p
  | none => { mem := st.proto }

def St.setComp (st : St) (k : String) (p : PSys) : St :=
  { st with comps := (k, p) :: st.comps.filter (·.1 != k) }

def setAt (l : List Bool) (i : Nat) : List Bool :=
  (l ++ List.replicate (i + 1 - l.length) false).set i true

def errOther : String := "err class=other qns=false qtyp=false qboth=false qother=false"

/-- store lines: annotations ride in the payload -/
def parsePRes (a : List (String × String)) : List (String × String) :=
  a.map fun (k, v) => if k == "spec" then (k, v ++ "|a=" ++ arg a "ann") else (k, v)

def poutStr (o : POut) (ns typ : String) (agg : Bool) : String :=
  match o with
  | .loadErr | .storeErr => errOther
  | .out o => outStr o ns typ
  | .started (some .invalidBookmark) => "err class=invalidBookmark"
  | .started (some .other) => "err class=other"
  | .started none => "ok"
  | .delivery none => "none"
  | .delivery (some d) => deliveryStr agg d
  | .done => "ok"

def settle (p : PSys) : PSys := { p with mem := p.mem.settle }

def stepLine (st : St) (op : String) (a : List (String × String)) : St × String :=
  let k := st.ckey (arg a "ns")
  let p := st.comp k
  let run (pop : POp) (agg : Bool) : St × String :=
    let (p', o) := if st.spec then Cosi.Spec.Persist.exec idCodec p pop else p.exec idCodec pop
    let o' := match pop, o with
      | .wstart .., .loadErr => "err class=other"
      | _, _ => poutStr o (arg a "ns") (arg a "typ") agg
    (st.setComp k (settle p'), o')
  match op with
  | "reopen" =>
    ({ st with comps := st.comps.map fun (k, p) => (k, p.crash) }, "ok")
  | "fault" =>
    let f : Faults → Faults := match arg a "kind" with
      | "put" => fun f => { f with put := setAt f.put (argNat a "n" - 1) }
      | "destroy" => fun f => { f with destroy := setAt f.destroy (argNat a "n" - 1) }
      | "load" => fun f => { f with load := f.load ++ [some (argNat a "after")] }
      | _ => id
    run (.arm f) false
  | "wstart" =>
    let kind : WKind := match arg a "kind" with
      | "single" => .single (arg a "id")
      | "agg" => .agg
      | _ => .kind
    let bm : Option BookmarkArg := if hasArg a "bm" then some (parseBm (arg a "bm")) else none
    let o : StartOpts := { bootstrap := arg a "boot" == "1", bootstrapBookmark := arg a "bb" == "1",
                           tail := argNat a "tail", bookmark := bm }
    run (.wstart (argNat a "w") (arg a "ns") (arg a "typ") kind (parseSel (arg a "sel")) (argNat a "buf") o) false
  | "recv" =>
    let wid := argNat a "w"
    let agg := match p.mem.watchers.find? (·.wid = wid) with
      | some w => w.kind == .agg
      | none => false
    run (.recv wid) agg
  | "wstop" => run (.wstop (argNat a "w")) false
  | _ =>
    match parseOp op (parsePRes a) with
    | none => (st, "bad-op")
    | some o => run (.store (argNat a "t") o) false

end Cosi.Driver.Persist
