/-
  Cosi.Driver.Ctrl — engine `ctrl` (C06, C07): replays the recorded write log of the real
  controller on the store model and evaluates the monitors of Cosi.Model.CtrlMonitor. In model
  mode every successful controller write of a transform / cleanup run must also be a write of the
  machine of Cosi.Model.Transform / Cosi.Model.Cleanup (`Ctrl.machineViolations`: trace inclusion,
  sound by `C07T.machine_writes_ok` / `C07C.machine_writes_ok`).
-/
import Cosi.Model.CtrlMonitor
import Cosi.Model.CtrlMachine
import Cosi.Driver.Store

namespace Cosi.Driver.Ctrl
open Cosi Cosi.Driver.Store Cosi.Ctrl

structure St where
  cfg : Ctrl.Cfg := { kind := "" }
  store : Store := []
  spec : Bool := false

def init (spec : Bool) (a : List (String × String)) : St :=
  { cfg := { kind := arg a "ctl" }, spec := spec }

def stepLine (st : St) (op : String) (a : List (String × String)) : St × String :=
  if op == "quiesce" then
    if arg a "settled" != "true" then (st, "spec=ok")   -- the harness gave up waiting: nothing is demanded
    else
      let v := specViolations st.cfg st.store ["a", "b"]
      (st, if v.isEmpty then "spec=ok" else "spec=VIOLATED:" ++ ",".intercalate v)
  else
    match parseOp op a with
    | none => (st, "bad-op")
    | some o =>
      let (s', out) := step {} st.store (argNat a "t") o
      let v := violations st.cfg (arg a "a") o out.isOk st.store s' ++
        (if st.spec then [] else machineViolations st.cfg (arg a "a") out.isOk st.store s')
      ({ st with store := s' },
        outStr out (arg a "ns") (arg a "typ") ++ (if v.isEmpty then " inv=ok" else " inv=VIOLATED:" ++ ",".intercalate v))

end Cosi.Driver.Ctrl
