/-
  Cosi.Driver.Ctrl — engine `ctrl` (C06, C07): replays the recorded write log of the real
  controller on the store model and evaluates the monitors of Cosi.Model.CtrlMonitor. In model
  mode every successful controller write of a transform / cleanup run must also be a write of the
  machine of Cosi.Model.Transform / Cosi.Model.Cleanup (`Ctrl.machineViolations`: trace inclusion,
  sound by `C07T.machine_writes_ok` / `C07C.machine_writes_ok`).
-/
import Cosi.Model.CtrlMonitor
import Cosi.Model.CtrlMachine
import Cosi.Driver.Store

namespace Cosi.Driver.Ctrl
open Cosi Cosi.Driver.Store Cosi.Ctrl

structure St where
  cfg : Ctrl.Cfg := { kind := "" }
  store : Store := []
  spec : Bool := false
  /-- per key: the highest version an EARLIER incarnation (destroyed since) reached. While the current incarnation's
      version is not above it, a read-modify-write helper that read the earlier incarnation can still commit
      (versions restart at 1: the store's ABA window, DESIGN §5 "observed") — such a write is the helper's mutator
      applied to the OLD incarnation, which the controller machines do not model: trace inclusion is not demanded -/
  prevMax : List (Key × Nat) := []

def init (spec : Bool) (a : List (String × String)) : St :=
  { cfg := { kind := arg a "ctl" }, spec := spec }

def stepLine (st : St) (op : String) (a : List (String × String)) : St × String :=
  if op == "quiesce" then
    if arg a "settled" != "true" then (st, "spec=ok")   -- the harness gave up waiting: nothing is demanded
    else
      let v := specViolations st.cfg st.store ["a", "b"]
      (st, if v.isEmpty then "spec=ok" else "spec=VIOLATED:" ++ ",".intercalate v)
  else
    match parseOp op a with
    | none => (st, "bad-op")
    | some o =>
      let (s', out) := step {} st.store (argNat a "t") o
      -- the key written and its version before the write
      let key : Option Key := match o with
        | .update r _ _ => some (r.key {})
        | .create r _ => some (r.key {})
        | .destroy ns typ id _ => some (({} : Cfg).key ns typ id)
        | _ => none
      let curVer : Nat := match key.bind st.store.get with
        | some r => r.ver.getD 0
        | none => 0
      let abaWindow := match key with
        | some k => curVer != 0 && curVer ≤ ((st.prevMax.lookup k).getD 0)
        | none => false
      let v := violations st.cfg (arg a "a") o out.isOk st.store s' ++
        (if st.spec || abaWindow then [] else machineViolations st.cfg (arg a "a") out.isOk st.store s')
      -- a successful destroy ends an incarnation
      let prevMax' := match o, key with
        | .destroy .., some k =>
          if out.isOk then (k, max curVer ((st.prevMax.lookup k).getD 0)) :: st.prevMax.filter (·.1 != k) else st.prevMax
        | _, _ => st.prevMax
      ({ st with store := s', prevMax := prevMax' },
        outStr out (arg a "ns") (arg a "typ") ++ (if v.isEmpty then " inv=ok" else " inv=VIOLATED:" ++ ",".intercalate v))

end Cosi.Driver.Ctrl
