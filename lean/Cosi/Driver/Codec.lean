/-
  Cosi.Driver.Codec — line protocol of engine `codec` (C18). One output line per op line.

  All byte strings are lowercase hex. Lists of byte strings are `x<hex>,x<hex>` (the `x`
  keeps the empty string apart from the empty list), maps `x<k>:x<v>,...` in encoding order.

  Resource fields: ns typ id owner spec yaml (hex) ver (`undefined`|decimal) phase cs cn us un
  (created/updated Unix seconds + nanoseconds) fins labels ann.
  Canonical resource (one token): fields joined by `|`, maps sorted by key.

  Main-stream ops (the property determines the answer; printed in `spec` mode from the
  input alone, in model mode by running the model of the code):
    rt stack=<base[,wrappers]> <fields>   encode→decode through a codec stack
    verrt v=  phasert p=  tsrt sec=       text-form round trips
    yamlmd <fields>                        Metadata → yaml.Node → Metadata
    yamlres <fields>                       resource YAML text (node model for the metadata)
    tamper n=<len> ...                     encrypted record: every tampering rejected
    mal target= hex= [ztab= atab= id=]     arbitrary bytes into a decoder
    ver s=  phase s=  tsparse s=  yamlnode tree=   arbitrary text/trees into the parsers
  Auxiliary ops (answers used by the harness to cross the two implementations):
    enc-res, dec-res, dec-meta, layer-enc, dec-stack, yaml-enc, yaml-dec

  Where the model does not speak (`imprecise`) the value is printed as `*`.
-/
import Cosi.Model.Wire

namespace Cosi.Driver.Codec
open Cosi Cosi.Wire

structure St where
  spec : Bool := false

def init (spec : Bool) (_ : List (String × String)) : St := { spec := spec }

def hexArg (a : List (String × String)) (k : String) : Bytes := (hexToBytes (arg a k)).getD []

def xItem (s : String) : Bytes := (hexToBytes (s.drop 1).toString).getD []

def xList (s : String) : List Bytes := (splitList s).map xItem

def xMap (s : String) : KV :=
  (splitList s).map fun kv =>
    match kv.splitOn ":" with
    | [k, v] => (xItem k, xItem v)
    | _ => ([], [])

def showX (b : Bytes) : String := "x" ++ bytesToHex b
def showXList (l : List Bytes) : String := joinList (l.map showX)
def showXMap (m : KV) : String := joinList (m.map fun (k, v) => showX k ++ ":" ++ showX v)
def showSorted (m : KV) : String := showXMap (sortKV m)

def verStr : Option Nat → String
  | none => "undefined"
  | some n => toString n

def phaseStr : Phase → String
  | .running => "running"
  | .tearingDown => "tearingDown"

def timeStr (t : Time) : String := s!"{t.sec}.{t.nsec}"

def metaStr (m : Meta) : String :=
  s!"ns:{bytesToHex m.ns}|typ:{bytesToHex m.typ}|id:{bytesToHex m.id}|ver:{verStr m.ver}|owner:{bytesToHex m.owner}|phase:{phaseStr m.phase}|c:{timeStr m.created}|u:{timeStr m.updated}|fins:{showXList m.fins}|labels:{showSorted m.labels}|ann:{showSorted m.annotations}"

def resStr (r : Res) : String := metaStr r.md ++ s!"|spec:{bytesToHex r.spec}|yaml:{bytesToHex r.yaml}"

def parseMeta (a : List (String × String)) : Meta :=
  { ns := hexArg a "ns", typ := hexArg a "typ", id := hexArg a "id",
    ver := if arg a "ver" == "undefined" then none else some (argNat a "ver"),
    owner := hexArg a "owner",
    phase := if arg a "phase" == "tearingDown" then .tearingDown else .running,
    created := { sec := argInt a "cs", nsec := argNat a "cn" },
    updated := { sec := argInt a "us", nsec := argNat a "un" },
    fins := xList (arg a "fins"), labels := xMap (arg a "labels"), annotations := xMap (arg a "ann") }

def parseRes (a : List (String × String)) : Res :=
  { md := parseMeta a, spec := hexArg a "spec", yaml := hexArg a "yaml" }

/-! ### primitives: toys for the round-trip ops, tables for harness-supplied results -/

/-- any compressor with `decompress (compress d) = d` gives the same round-trip result -/
def toyComp (id : Nat) : Compressor :=
  { id := UInt8.ofNat id, compress := fun p d => p ++ d, decompress := fun d => some d }

/-- 16-byte tag like GCM, so that record lengths agree with the real cipher -/
def toyAead : Aead :=
  { sealF := fun _ p => p ++ List.replicate 16 0,
    openF := fun _ c => if c.length < 16 then none else some (c.take (c.length - 16)) }

def lookupB (t : KV) (k : Bytes) : Option Bytes := kvGet t k

/-- compressor whose results are supplied by the harness (real zstd): `ztab` maps the
    argument of Decompress to its result (absent = error), `cout` is the result of Compress -/
def tabComp (id : Nat) (ztab : KV) (cout : Bytes) : Compressor :=
  { id := UInt8.ofNat id, compress := fun _ _ => cout, decompress := fun d => lookupB ztab d }

/-- AEAD whose results are supplied by the harness (real AES-GCM): `atab` maps
    nonce ++ ciphertext to the plaintext (absent = authentication failure) -/
def tabAead (atab : KV) (ct : Bytes) : Aead :=
  { sealF := fun _ _ => ct, openF := fun n c => lookupB atab (n ++ c) }

/-- `stack=` of the round-trip ops: base `pb` | `store`, then wrappers outermost first:
    `e` encryption, `c<n>` compression with minSize n, `c@<d>` minSize = inner length + d - 1
    (d ∈ {0,1,2}: just above, at, just below the threshold) -/
structure StackSpec where
  base : String
  wraps : List String

def parseStack (s : String) : StackSpec :=
  match splitList s with
  | [] => { base := "pb", wraps := [] }
  | b :: ws => { base := b, wraps := ws }

/-- build toy layers innermost-out so that relative thresholds can see the inner length -/
def buildToy (nonce : Bytes) : List String → Bytes → List Layer × Bytes
  | [], p => ([], p)
  | w :: ws, p =>
    let (ls, inner) := buildToy nonce ws p
    if w == "e" then
      let l := Layer.enc toyAead nonce
      (l :: ls, encodeStack [l] inner)
    else
      let body := (w.drop 1).toString
      let min := if body.startsWith "@" then inner.length + (body.drop 1).toString.toNat?.getD 0 - 1 else body.toNat?.getD 0
      let l := Layer.comp (toyComp Gen.Codec.zstdID) min
      (l :: ls, encodeStack [l] inner)

def hasComp (ws : List String) : Bool := ws.any (fun w => w.startsWith "c")

/-- whether the outermost wrapper, if it is a compression layer over compression-free
    layers, compresses (`1`), passes through (`0`); `-` otherwise -/
def zFlag (ws : List String) (p : Bytes) (nonce : Bytes) : String :=
  match ws with
  | w :: rest =>
    if w.startsWith "c" && !hasComp rest then
      let (_, inner) := buildToy nonce rest p
      let (_, outer) := buildToy nonce ws p
      if outer.length == inner.length then "0" else "1"
    else "-"
  | [] => "-"

def optRes : Option Res → String
  | none => "err"
  | some r => "ok:" ++ resStr r

def optMeta : Option Meta → String
  | none => "err"
  | some m => "ok:" ++ metaStr m

/-! ### yaml.Node trees on the wire: `s<hex>` scalar, `m[..;..]` mapping, `q[..;..]` sequence,
    `d[..]` document, `a` alias -/

partial def showNode : Node → String
  | .scalar v => "s" ++ bytesToHex v
  | .mapping k => "m[" ++ ";".intercalate (k.map showNode) ++ "]"
  | .sequence k => "q[" ++ ";".intercalate (k.map showNode) ++ "]"
  | .document k => "d[" ++ ";".intercalate (k.map showNode) ++ "]"
  | .alias => "a"

mutual
partial def parseNode (cs : List Char) : Option (Node × List Char) :=
  match cs with
  | 's' :: rest =>
    let hex := rest.takeWhile (fun c => c != ';' && c != ']')
    let tail := rest.dropWhile (fun c => c != ';' && c != ']')
    some (.scalar ((hexToBytes (String.ofList hex)).getD []), tail)
  | 'a' :: rest => some (.alias, rest)
  | 'm' :: '[' :: rest => (parseKids rest []).map fun (k, t) => (.mapping k, t)
  | 'q' :: '[' :: rest => (parseKids rest []).map fun (k, t) => (.sequence k, t)
  | 'd' :: '[' :: rest => (parseKids rest []).map fun (k, t) => (.document k, t)
  | _ => none
partial def parseKids (cs : List Char) (acc : List Node) : Option (List Node × List Char) :=
  match cs with
  | ']' :: rest => some (acc.reverse, rest)
  | ';' :: rest => parseKids rest acc
  | _ =>
    match parseNode cs with
    | none => none
    | some (n, t) => parseKids t (n :: acc)
end

def nodeArg (a : List (String × String)) (k : String) : Node :=
  match parseNode (arg a k).toList with
  | some (n, _) => n
  | none => .alias

def yres (r : YRes Meta) : String :=
  match r with
  | .ok m => "ok:" ++ metaStr m
  | .err => "err"
  | .panic => "PANIC"
  | .imprecise => "*"

/-- year 0001..9999 (the range `Format(RFC3339)` prints with four digits) -/
def inYearRange (sec : Int) : Bool := zeroTimeSec ≤ sec && sec < 253402300800

def verRes : Option (Option Nat) → String
  | none => "err"
  | some v => "ok:" ++ verStr v

def layersFor (a : List (String × String)) : List Layer :=
  let id := argNat a "id"
  let ztab := xMap (arg a "ztab")
  let atab := xMap (arg a "atab")
  (argList a "stack").map fun w =>
    if w == "e" then Layer.enc (tabAead atab []) [] else Layer.comp (tabComp id ztab []) 0

def stepLine (st : St) (op : String) (a : List (String × String)) : St × String :=
  let out : String :=
    match op with
    -- auxiliary
    | "enc-res" => "hex=" ++ bytesToHex (encodeResource (parseRes a))
    | "dec-res" => optRes (decodeResource (hexArg a "hex"))
    | "dec-meta" => optMeta ((decPMetaInto {} (hexArg a "hex")).bind metaFromProto)
    | "layer-enc" =>
      if arg a "kind" == "e" then
        "hex=" ++ bytesToHex (encEncode (tabAead [] (hexArg a "ct")) (hexArg a "nonce") (hexArg a "data"))
      else
        "hex=" ++ bytesToHex (compEncode (tabComp (argNat a "id") [] (hexArg a "cout")) (argNat a "min") (hexArg a "data"))
    | "dec-stack" => optRes (storeDecode (layersFor a) (hexArg a "hex"))
    | "yaml-enc" => "tree=" ++ showNode (metaToYaml (parseMeta a))
    | "yaml-dec" => yres (metaFromYaml (nodeArg a "tree"))
    -- round trips
    | "rt" =>
      let r := parseRes a
      let ss := parseStack (arg a "stack")
      let nonce := List.replicate nonceSize 0
      if st.spec then s!"rt res=ok:{resStr r} golean=* leango=* z=*"
      else
        let p := encodeResource r
        let (ls, b) := buildToy nonce ss.wraps p
        s!"rt res={optRes (storeDecode ls b)} golean=agree leango=agree z={zFlag ss.wraps p nonce}"
    -- a large record through the real wrappers: the compressor and the cipher are idealised parameters of the model
    -- (decompress (compress d) = d, open (seal p) = p for every size), so the answer is always "survives"
    | "rtbig" => "rtbig res=ok"
    | "verrt" =>
      let v := if arg a "v" == "undefined" then none else some (argNat a "v")
      if st.spec then s!"verrt text=* res=ok:{verStr v}"
      else s!"verrt text={bytesToHex (formatVersion v)} res={verRes (parseVersion (formatVersion v))}"
    | "phasert" =>
      let p := if arg a "p" == "tearingDown" then Phase.tearingDown else Phase.running
      if st.spec then s!"phasert text=* res=ok:{phaseStr p}"
      else s!"phasert text={bytesToHex p.text} res={match parsePhase p.text with | none => "err" | some q => "ok:" ++ phaseStr q}"
    | "tsrt" =>
      let sec := argInt a "sec"
      if !inYearRange sec then "tsrt text=* res=*"
      else if st.spec then s!"tsrt text=* res=ok:{sec}.0"
      else
        let t := formatRFC3339 { sec := sec }
        let r := match parseRFC3339 t with
          | none => "*"
          | some none => "err"
          | some (some t') => "ok:" ++ timeStr t'
        s!"tsrt text={bytesToHex t} res={r}"
    | "yamlmd" =>
      let m := parseMeta a
      if st.spec then s!"yamlmd res=ok:{metaStr m} golean=* leango=* text=agree"
      else s!"yamlmd res={yres (metaFromYaml (metaToYaml m))} golean=agree leango=agree text=agree"
    | "yamlres" =>
      let r := parseRes a
      if st.spec then s!"yamlres res=ok:{resStr r}"
      else
        match metaFromYaml (metaToYaml r.md) with
        | .ok m => s!"yamlres res=ok:{resStr { r with md := m }}"
        | other => s!"yamlres res={yres other}"
    | "tamper" => "tamper accepted=0 wrongkey=rejected short=rejected badver=rejected extended=rejected"
    -- arbitrary input
    | "mal" =>
      let t := arg a "target"
      let b := hexArg a "hex"
      if st.spec then "mal panic=no res=* stable=ok"
      else if t == "pb" || t == "store" then s!"mal panic=no res={optRes (decodeResource b)} stable=ok"
      else if t == "meta" then s!"mal panic=no res={optMeta ((decPMetaInto {} b).bind metaFromProto)} stable=ok"
      else if t == "stack" then s!"mal panic=no res={optRes (storeDecode (layersFor a) b)} stable=ok"
      else "mal panic=no res=* stable=ok"
    | "ver" =>
      if st.spec then "ver res=* stable=ok"
      else s!"ver res={verRes (parseVersion (hexArg a "s"))} stable={match parseVersion (hexArg a "s") with
        | none => "ok"
        | some v => if parseVersion (formatVersion v) == some v then "ok" else "VIOLATED"}"
    | "phase" =>
      if st.spec then "phase res=*"
      else s!"phase res={match parsePhase (hexArg a "s") with | none => "err" | some q => "ok:" ++ phaseStr q}"
    | "tsparse" =>
      if st.spec then "tsparse res=*"
      else s!"tsparse res={match parseRFC3339 (hexArg a "s") with
        | none => "*"
        | some none => "err"
        | some (some t) => "ok:" ++ timeStr t}"
    | "yamlnode" =>
      if st.spec then "yamlnode panic=no res=*"
      else
        match metaFromYaml (nodeArg a "tree") with
        | .panic => "yamlnode panic=yes res=-"
        | r => s!"yamlnode panic=no res={yres r}"
    | _ => "bad-op"
  (st, out)

end Cosi.Driver.Codec
