/-
  Cosi.Driver.Cache — line protocols of the engines of property C15.

  Tokens  item   = `<id>@<ver>:<r|t>:<spec>{k:v,k:v}`; list = `[item;item]`
          ctxs   = `<cid>:<0|1>,..` sorted by cid (`-` = none)
          sel    = `q=<queries> [re=<hex> idm=<id:bit,..>]`, queries in the token grammar of
                   Cosi.Driver.Selector (hex keys/values); the ID regexp is trusted: its match
                   bit per ID comes with the op line.

  engine `cache` (white box; one handler, kind n1/T1)
    append|put id= ver= phase= l= s=   → `ok len=N` / `ok len=N ctxs=..`
    remove id=                          → `ok len=N ctxs=..`
    mark                                → `ok released=r<n>=<out>|..`  or `PANIC` (second close)
    get r= id= / list r= sel / ctx r= id=   a reader goroutine: its result, or `blocked`
      … rop=put rid= rver= rphase= rl= rs= at=<k> | rop=remove rid= at=<k>
                                        the same reader with a racing CachePut / CacheRemove started from inside its
                                        cache call (at the k-th Metadata()/DeepCopy() call of the cache on a cached
                                        object) → `<op> out=<reader> len=N ctxs=..` once everything has settled.
                                        Every handler method being one critical section (Cosi.Model.CacheConc,
                                        regenerated), the answer is that of [reader; racing op] whatever k is.
    cancel r=                           → `canceled` (blocked reader) / `ok ctxs=..` (ctx reader) / `noop`
    len → `len N`;  handled typ= → `handled <b> boot=<b>`

  engine `cacherun` (black box; the real runtime, kinds n1/T1 and n1/T2, `cached=` in the header)
    burst ws=<typ>/<kind>/<id>/<k:v+k:v>/<spec>;..   kind ∈ create update teardown destroy
          before start → `burst r=ok,fail,..`; after start additionally the quiescent observation
          `woken=.. fresh=.. mono=.. T1=[..] T2=[..] eq=.. ctxs=.. early=..`
    early r= typ= id=   a reader through Runtime.CachedState(): result or `blocked`
    start wait=<0|1>    → `started boot=<b> ...`
    sel p= typ= sel     → `items [..] eq=true`;   ctx p= c= typ= id= → `ctx cancelled=<b>`

  `spec = true` prints what the property determines (Cosi.Spec.Cache; `fresh=ok mono=ok eq=true`);
  outside the property's domain (bootstrap contents not in ID order, a second mark) it prints `*`.
-/
import Cosi.Spec.Cache
import Cosi.Model.CacheConc
import Cosi.Driver.Selector

namespace Cosi.Driver.Cache
open Cosi Cosi.Cache

def phaseTok : Phase → String
  | .running => "r"
  | .tearingDown => "t"

def itemStr (r : Res) : String :=
  s!"{r.id}@{r.ver.getD 0}:{phaseTok r.phase}:{r.spec}\{{joinMap r.labels}}"

def itemsStr (l : List Res) : String := "[" ++ ";".intercalate (l.map itemStr) ++ "]"

def ctxsStr (l : List TCtx) : String :=
  if l.isEmpty then "-" else
  joinList ((sortBy (fun a b : TCtx => decide (a.cid < b.cid)) l).map fun c => s!"{c.cid}:{if c.cancelled then "1" else "0"}")

def parseRes (typ : String) (a : List (String × String)) : Res :=
  mkRes "n1" typ (arg a "id") (argNat a "ver") (Phase.parse (arg a "phase")) (splitMap (arg a "l"))
    (if hasArg a "s" then arg a "s" else "-")

def parseSel (a : List (String × String)) : Selector.Sel :=
  { idQ := if hasArg a "re" then
      let tab := splitMap (arg a "idm")
      some fun id => tab.lookup id == some "1"
    else none,
    queries := (Driver.Selector.parseQueries (arg a "q")).getD [] }

/-! ### engine cache -/

inductive PRead where
  | get (id : String)
  | list (s : Selector.Sel)
  | ctx (id : String)

structure St where
  spec : Bool := false
  h : Handler := {}
  v : Spec.Cache.View := {}
  pending : List (Nat × PRead) := []
  ctxReaders : List Nat := []

def init (spec : Bool) (_ : List (String × String)) : St := { spec := spec }

def St.both (st : St) (op : Cosi.Cache.Op) : St := { st with h := st.h.step op, v := st.v.step op }

def St.len (st : St) : Nat := if st.spec then st.v.contents.length else st.h.resources.length

def St.ctxs (st : St) : String := ctxsStr (if st.spec then st.v.ctxs else st.h.ctxs)

def St.enabled (st : St) (waits : Bool) : Bool := if st.spec then st.v.booted else st.h.enabled waits

/-- run a read that is enabled; returns the new state and the reader's output (`sep` joins the parts) -/
def St.read (st : St) (r : Nat) (p : PRead) (sep : String) : St × String :=
  match p with
  | .get id =>
    let res := if st.spec then find st.v.contents id else getRes st.h.resources id
    (st, match res with
      | some x => "res" ++ sep ++ itemStr x
      | none => "notfound")
  | .list s =>
    let l := if st.spec then st.v.contents.filter (fun x => s.matches (toItem x)) else listRes st.h.resources s
    (st, "items" ++ sep ++ itemsStr l)
  | .ctx id =>
    let st' := { st.both (.ctx r id) with ctxReaders := st.ctxReaders ++ [r] }
    let c := (if st'.spec then st'.v.ctxs else st'.h.ctxs).find? (·.cid = r)
    (st', "ctx" ++ sep ++ (match c with
      | some c => boolStr c.cancelled
      | none => "?"))

def PRead.waits : PRead → Bool
  | .get _ => Gen.Cache.getWaits
  | .list _ => Gen.Cache.listWaits
  | .ctx _ => Gen.Cache.ctxWaits

def St.reader (st : St) (op : String) (r : Nat) (p : PRead) : St × String :=
  if st.enabled p.waits then
    let (st', o) := st.read r p "~"
    match p with
    | .ctx _ => (st', s!"{op} out={o} ctxs={st'.ctxs}")
    | _ => (st', s!"{op} out={o}")
  else
    let st' := { st with pending := st.pending ++ [(r, p)] }
    match p with
    | .ctx _ => (st', s!"{op} out=blocked ctxs={st'.ctxs}")
    | _ => (st', s!"{op} out=blocked")

def releaseAll (st : St) : List (Nat × PRead) → St × List String
  | [] => (st, [])
  | (r, p) :: rest =>
    let (st', o) := st.read r p "~"
    let (st'', os) := releaseAll st' rest
    (st'', s!"r{r}={o}" :: os)

/-- outside the property's domain the spec determines nothing: keep the op word, star the values -/
def star (s : String) : String :=
  match s.splitOn " " with
  | [] => s
  | w :: rest => " ".intercalate (w :: rest.map fun t =>
      match t.splitOn "=" with
      | [_] => "*"
      | k :: _ => k ++ "=*"
      | [] => "*")

/-- the racing operation of a reader line (`rop=`, keys prefixed with `r`) -/
def parseRace (a : List (String × String)) : Cosi.Cache.Op :=
  let x := parseRes "T1" ([("id", arg a "rid"), ("ver", arg a "rver"), ("phase", arg a "rphase"), ("l", arg a "rl")] ++
    (if hasArg a "rs" then [("s", arg a "rs")] else []))
  if arg a "rop" == "remove" then .remove x else .put x

/-- a whole call of the watch goroutine, through the concurrent model of the current source (model mode) and the
    specification's view (spec mode) -/
def St.call (st : St) (op : Cosi.Cache.Op) : St :=
  { st with h := (CacheConc.step { h := st.h } (.call op)).h, v := st.v.step op }

/-- a reader with a racing put / remove: the schedule [reader's sections; racing call] of Cosi.Model.CacheConc -/
def St.raced (st : St) (op : String) (r : Nat) (p : PRead) (rop : Cosi.Cache.Op) : St × String :=
  if st.enabled p.waits then
    let (st1, o1) := match p with
      | .ctx id =>
        ({ st with h := (CacheConc.run { h := st.h } [.ctxBegin r id, .ctxEnd r]).h, v := st.v.step (.ctx r id),
                   ctxReaders := st.ctxReaders ++ [r] }, "")
      | _ => st.read r p "~"
    let st2 := st1.call rop
    let o := match p with
      | .ctx _ =>
        "ctx~" ++ (match (if st2.spec then st2.v.ctxs else st2.h.ctxs).find? (fun (c : TCtx) => c.cid = r) with
          | some c => boolStr c.cancelled
          | none => "?")
      | _ => o1
    (st2, s!"{op} out={o} len={st2.len} ctxs={st2.ctxs}")
  else
    let st2 := ({ st with pending := st.pending ++ [(r, p)] }).call rop
    (st2, s!"{op} out=blocked len={st2.len} ctxs={st2.ctxs}")

def stepCache (st : St) (op : String) (a : List (String × String)) : St × String :=
  let dom (st : St) (s : String) : String := if st.spec && !st.v.inDomain then star s else s
  match op with
  | "append" =>
    let st' := st.both (.append (parseRes "T1" a))
    (st', dom st' s!"ok len={st'.len}")
  | "put" =>
    let st' := st.both (.put (parseRes "T1" a))
    (st', dom st' s!"ok len={st'.len} ctxs={st'.ctxs}")
  | "remove" =>
    let st' := st.both (.remove (parseRes "T1" a))
    (st', dom st' s!"ok len={st'.len} ctxs={st'.ctxs}")
  | "mark" =>
    if !st.spec && st.h.markPanics then (st, "mark out=PANIC released=-")
    else
      let st' := st.both .mark
      let ps := sortBy (fun x y : Nat × PRead => decide (x.1 < y.1)) st'.pending
      let (st'', outs) := releaseAll { st' with pending := [] } ps
      (st'', dom st'' ("mark out=ok released=" ++ (if outs.isEmpty then "-" else "|".intercalate outs)))
  | "get" | "list" | "ctx" =>
    let p : PRead := if op == "get" then .get (arg a "id") else if op == "list" then .list (parseSel a) else .ctx (arg a "id")
    let (st', o) := if hasArg a "rop" then st.raced op (argNat a "r") p (parseRace a) else st.reader op (argNat a "r") p
    (st', dom st' o)
  | "cancel" =>
    let r := argNat a "r"
    if st.pending.any (·.1 == r) then
      let st' := { st with pending := st.pending.filter (·.1 != r) }
      (st', dom st' s!"cancel out=canceled ctxs={st'.ctxs}")
    else if st.ctxReaders.contains r then
      let st' := st.both (.cancel r)
      (st', dom st' s!"cancel out=ok ctxs={st'.ctxs}")
    else (st, dom st s!"cancel out=noop ctxs={st.ctxs}")
  | "len" => (st, dom st s!"len {st.len}")
  | "handled" =>
    let hd := arg a "typ" == "T1"
    let boot := if st.spec then st.v.booted else st.h.bootstrapped
    (st, dom st s!"handled {boolStr hd} boot={boolStr (hd && boot)}")
  | _ => (st, "bad-op")

/-! ### engine cacherun -/

/-- one kind behind the runtime: the state's contents, the cache pipeline fed from the watch -/
structure KSt where
  typ : String
  cached : Bool
  stg : List Res := []
  pipe : Pipe := {}
  v : Spec.Cache.View := {}        -- the property's own view of the kind (spec mode)

structure RSt where
  spec : Bool := false
  kinds : List KSt := []
  probes : List String := []
  qprobe : Bool := false
  started : Bool := false
  visible : Bool := false          -- a quiescence point has been reached since start
  early : List (Nat × String × String) := []     -- parked readers (r, typ, id)
  ctxTyp : List (Nat × String) := []

def rinit (spec : Bool) (a : List (String × String)) : RSt :=
  let cached := argList a "cached"
  { spec := spec,
    kinds := ["T1", "T2"].map fun t => { typ := t, cached := cached.contains t },
    probes := (List.range (argNat a "probes")).map fun i => s!"p{i + 1}",
    qprobe := arg a "q" == "1" }

def RSt.kind (st : RSt) (typ : String) : KSt :=
  (st.kinds.find? (·.typ == typ)).getD { typ := typ, cached := false }

def RSt.setKind (st : RSt) (k : KSt) : RSt :=
  { st with kinds := st.kinds.map fun x => if x.typ == k.typ then k else x }

def parseWrite (tok : String) : Option (String × Write) :=
  match tok.splitOn "/" with
  | [typ, kind, id, labels, spec] =>
    let l := if labels == "" then [] else (labels.splitOn "+").map fun kv =>
      match kv.splitOn ":" with
      | [k, v] => (k, v)
      | _ => (kv, "")
    match kind with
    | "create" => some (typ, .create id l spec)
    | "update" => some (typ, .update id l spec)
    | "teardown" => some (typ, .teardown id spec)
    | "destroy" => some (typ, .destroy id)
    | _ => none
  | _ => none

/-- what the cache of a kind shows: the model's cache (the spec: the state itself) -/
def RSt.view (st : RSt) (k : KSt) : List Res :=
  if st.spec || !k.cached then k.stg else k.pipe.h.resources

def RSt.allCtxs (st : RSt) : String :=
  ctxsStr (st.kinds.flatMap fun k => if st.spec then k.v.ctxs else k.pipe.h.ctxs)

/-- the spec's view follows the change log directly -/
def specFeed (v : Spec.Cache.View) (e : Event) : Spec.Cache.View :=
  match e.typ with
  | .created | .updated => v.step (.put e.res)
  | .destroyed => v.step (.remove e.res)
  | _ => v

/-- the quiescent observation printed after start / a burst -/
def RSt.quiet (st : RSt) (fresh : Bool) (released : List Nat) : String :=
  let eq := st.kinds.all fun k => st.view k == k.stg
  let t (n : String) := itemsStr (st.view (st.kind n))
  let rel := if released.isEmpty then "-" else joinList (released.map fun r => s!"r{r}:ok")
  s!"fresh={if fresh then "ok" else "STALE"} mono=ok T1={t "T1"} T2={t "T2"} eq={boolStr eq} ctxs={st.allCtxs} early={rel}"

def sortStrs (l : List String) : List String := sortBy (fun a b => decide (a < b)) l

def stepRun (st : RSt) (op : String) (a : List (String × String)) : RSt × String :=
  match op with
  | "burst" =>
    let toks := if arg a "ws" == "" then [] else (arg a "ws").splitOn ";"
    -- apply the writes in order; per kind collect the events
    let (st1, results, evs) := toks.foldl (fun (acc : RSt × List String × List (String × Event)) tok =>
      let (s, rs, es) := acc
      match parseWrite tok with
      | none => (s, rs ++ ["bad"], es)
      | some (typ, w) =>
        let k := s.kind typ
        let (stg', ev) := applyWrite "n1" typ k.stg w
        let s' := s.setKind { k with stg := stg' }
        match ev with
        | none => (s', rs ++ ["fail"], es)
        | some e => (s', rs ++ ["ok"], es ++ [(typ, e)])) (st, [], [])
    let r := "burst r=" ++ (if results.isEmpty then "-" else joinList results)
    if !st1.started then (st1, r)
    else
      -- every kind's events go through the pipeline as one group
      let (st2, fresh) := st1.kinds.foldl (fun (acc : RSt × Bool) k =>
        let (s, f) := acc
        let mine := (evs.filter (·.1 == k.typ)).map (·.2)
        let p' := k.pipe.group mine
        let newHo := p'.handoffs.drop k.pipe.handoffs.length
        let ok := newHo.all fun ho => ho.view.resources == p'.h.resources
        (s.setKind { k with pipe := p', v := mine.foldl specFeed k.v }, f && (s.spec || ok))) (st1, true)
      let released := if st2.visible then [] else sortBy (fun x y : Nat => decide (x < y)) (st2.early.map (·.1))
      let st3 := { st2 with visible := true, early := if st2.visible then st2.early else [] }
      let wokenP := if evs.isEmpty then [] else st3.probes
      let qids := sortStrs ((evs.filter (·.1 == "T1")).map (·.2.res.id)).eraseDups
      let wokenQ := if st3.qprobe && !qids.isEmpty then ["q1:" ++ "+".intercalate qids] else []
      let woken := wokenP ++ wokenQ
      -- the first quiescence point after `start wait=0`: the initial triggers, not change notifications
      let w := if !st2.visible then "init" else if woken.isEmpty then "-" else joinList woken
      (st3, s!"{r} woken={w} {st3.quiet fresh released}")
  | "early" =>
    let k := st.kind (arg a "typ")
    let id := arg a "id"
    if k.cached && !st.visible then
      ({ st with early := st.early ++ [(argNat a "r", k.typ, id)] }, "blocked")
    else
      (st, match find (st.view k) id with
        | some x => "res " ++ itemStr x
        | none => "notfound")
  | "start" =>
    if st.started then (st, "already") else
    let st1 := { st with started := true,
                         kinds := st.kinds.map fun k =>
                           { k with pipe := Pipe.run {} [bootBatch "n1" k.typ k.stg],
                                    v := { booted := true, contents := k.stg } } }
    if arg a "wait" == "0" then (st1, "started boot=false")
    else
      let released := sortBy (fun x y : Nat => decide (x < y)) (st1.early.map (·.1))
      let st2 := { st1 with visible := true, early := [] }
      (st2, s!"started boot=true {st2.quiet true released}")
  | "sel" =>
    let k := st.kind (arg a "typ")
    if !st.started then (st, "nohandle")
    else if k.cached && !st.visible then (st, "blocked")
    else
      let s := parseSel a
      let l := if st.spec || !k.cached then k.stg.filter (fun x => s.matches (toItem x)) else listRes k.pipe.h.resources s
      let exact := k.stg.filter (fun x => s.matches (toItem x))
      (st, s!"items {itemsStr l} eq={boolStr (st.spec || l == exact)}")
  | "ctx" =>
    let k := st.kind (arg a "typ")
    if !st.started then (st, "nohandle")
    else if k.cached && !st.visible then (st, "blocked")
    else
      let cid := argNat a "c"
      let v' := k.v.step (.ctx cid (arg a "id"))
      match k.pipe.h.ctxTeardown cid (arg a "id") with
      | none => (st, "blocked")
      | some h' =>
        let c := (if st.spec then v'.ctxs else h'.ctxs).find? (·.cid = cid)
        (st.setKind { k with pipe := { k.pipe with h := h' }, v := v' },
         s!"ctx cancelled={match c with
           | some c => boolStr c.cancelled
           | none => "?"}")
  | _ => (st, "bad-op")

end Cosi.Driver.Cache
