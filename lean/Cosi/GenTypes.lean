/-
  Cosi.GenTypes — the fixed vocabulary the fact extractor (tools/extract) emits.
  Hand-written; the files under Cosi/Gen/ are REGENERATED from /repo on every run and
  only contain `def`s over these types. `unknown` is the fail-closed sentinel: the
  extractor emits it for any source shape it does not recognise, the model treats it
  pessimistically, and no property theorem can be proved about it.
-/
namespace Cosi.Gen

/-- a precondition of a store operation, recognised from a guard `if <cond> { return ErrX(..) }` -/
inductive Check where
  | present        -- `_, exists := storage[id]; if !exists { return ErrNotFound }`
  | absent         -- `if _, exists := storage[id]; exists { return ErrAlreadyExists }`
  | setOwner       -- `if err := resCopy.Metadata().SetOwner(owner); err != nil { return err }`
  | ownerEq        -- `if cur.Metadata().Owner() != owner { return ErrOwnerConflict }`
  | versionEq      -- `if !cur.Metadata().Version().Equal(newVersion) { return ErrVersionConflict }`
  | phaseExpected  -- `if options.ExpectedPhase != nil && cur.Metadata().Phase() != *options.ExpectedPhase { return ErrPhaseConflict }`
  | finsEmpty      -- `if !res.Metadata().Finalizers().Empty() { return ErrPendingFinalizers }`
  | unknown
deriving DecidableEq, Repr, Inhabited

end Cosi.Gen
