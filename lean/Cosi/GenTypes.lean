/-
  Cosi.GenTypes — the fixed vocabulary the fact extractor (tools/extract) emits.
  Hand-written; the files under Cosi/Gen/ are REGENERATED from /repo on every run and
  only contain `def`s over these types. `unknown` is the fail-closed sentinel: the
  extractor emits it for any source shape it does not recognise, the model treats it
  pessimistically, and no property theorem can be proved about it.
-/
namespace Cosi.Gen

/-- a precondition of a store operation, recognised from a guard `if <cond> { return ErrX(..) }` -/
inductive Check where
  | present        -- `_, exists := storage[id]; if !exists { return ErrNotFound }`
  | absent         -- `if _, exists := storage[id]; exists { return ErrAlreadyExists }`
  | setOwner       -- `if err := resCopy.Metadata().SetOwner(owner); err != nil { return err }`
  | ownerEq        -- `if cur.Metadata().Owner() != owner { return ErrOwnerConflict }`
  | versionEq      -- `if !cur.Metadata().Version().Equal(newVersion) { return ErrVersionConflict }`
  | phaseExpected  -- `if options.ExpectedPhase != nil && cur.Metadata().Phase() != *options.ExpectedPhase { return ErrPhaseConflict }`
  | finsEmpty      -- `if !res.Metadata().Finalizers().Empty() { return ErrPendingFinalizers }`
  | unknown
deriving DecidableEq, Repr, Inhabited

/-- C20: a field of a key slot that `KeyStorage.hashSlots` feeds into the HMAC, in write order
    (`hash.Write(keySlots[key].EncryptedKey)` ⇒ `.blob`). -/
inductive HmacField where
  | blob      -- `keySlots[key].EncryptedKey`
  | id        -- `[]byte(key)`
  | alg       -- the slot's algorithm
  | unknown
deriving DecidableEq, Repr, Inhabited

/-- C20: a guard of pkg/keystorage/keystorage.go, recognised from `switch { case <cond>: return <err> }`,
    `switch len(slots) { case n: return <err> }` or `if <cond> { return <err> }`. -/
inductive KsGuard where
  | mkLen32      -- `len(masterKey) != 32` ⇒ untagged error
  | emptyId      -- `slotID == ""` / `newSlotID == ""` ⇒ untagged error
  | emptyKey     -- `slotPublicKey == ""` / `newSlotPublicKey == ""` / `slotPrivateKey == ""` ⇒ untagged error
  | alreadyInit  -- `!isZero(&ks.underlying)` ⇒ AlreadyInitializedTag
  | notInit      -- `isZero(&ks.underlying)` ⇒ NotInitializedTag
  | version      -- `GetStorageVersion() != STORAGE_VERSION_1` ⇒ VersionMismatchTag
  | slotExists   -- `GetKeySlots()[newSlotID] != nil` ⇒ SlotAlreadyExists
  | noSlots      -- `len(slots) == 0` ⇒ NotInitializedTag
  | lastSlot     -- `len(slots) == 1` ⇒ LastKeyTag
  | unknown
deriving DecidableEq, Repr, Inhabited

end Cosi.Gen
