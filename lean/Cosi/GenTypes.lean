/-
  Cosi.GenTypes — the fixed vocabulary the fact extractor (tools/extract) emits.
  Hand-written; the files under Cosi/Gen/ are REGENERATED from /repo on every run and
  only contain `def`s over these types. `unknown` is the fail-closed sentinel: the
  extractor emits it for any source shape it does not recognise, the model treats it
  pessimistically, and no property theorem can be proved about it.
-/
namespace Cosi.Gen

/-- a precondition of a store operation, recognised from a guard `if <cond> { return ErrX(..) }` -/
inductive Check where
  | present        -- `_, exists := storage[id]; if !exists { return ErrNotFound }`
  | absent         -- `if _, exists := storage[id]; exists { return ErrAlreadyExists }`
  | setOwner       -- `if err := resCopy.Metadata().SetOwner(owner); err != nil { return err }`
  | ownerEq        -- `if cur.Metadata().Owner() != owner { return ErrOwnerConflict }`
  | versionEq      -- `if !cur.Metadata().Version().Equal(newVersion) { return ErrVersionConflict }`
  | phaseExpected  -- `if options.ExpectedPhase != nil && cur.Metadata().Phase() != *options.ExpectedPhase { return ErrPhaseConflict }`
  | finsEmpty      -- `if !res.Metadata().Finalizers().Empty() { return ErrPendingFinalizers }`
  | unknown
deriving DecidableEq, Repr, Inhabited

/-- C20: a field of a key slot that `KeyStorage.hashSlots` feeds into the HMAC, in write order
    (`hash.Write(keySlots[key].EncryptedKey)` ⇒ `.blob`). -/
inductive HmacField where
  | blob      -- `keySlots[key].EncryptedKey`
  | id        -- `[]byte(key)`
  | alg       -- the slot's algorithm
  | unknown
deriving DecidableEq, Repr, Inhabited

/-- C20: a guard of pkg/keystorage/keystorage.go, recognised from `switch { case <cond>: return <err> }`,
    `switch len(slots) { case n: return <err> }` or `if <cond> { return <err> }`. -/
inductive KsGuard where
  | mkLen32      -- `len(masterKey) != 32` ⇒ untagged error
  | emptyId      -- `slotID == ""` / `newSlotID == ""` ⇒ untagged error
  | emptyKey     -- `slotPublicKey == ""` / `newSlotPublicKey == ""` / `slotPrivateKey == ""` ⇒ untagged error
  | alreadyInit  -- `!isZero(&ks.underlying)` ⇒ AlreadyInitializedTag
  | notInit      -- `isZero(&ks.underlying)` ⇒ NotInitializedTag
  | version      -- `GetStorageVersion() != STORAGE_VERSION_1` ⇒ VersionMismatchTag
  | slotExists   -- `GetKeySlots()[newSlotID] != nil` ⇒ SlotAlreadyExists
  | noSlots      -- `len(slots) == 0` ⇒ NotInitializedTag
  | lastSlot     -- `len(slots) == 1` ⇒ LastKeyTag
  | unknown
deriving DecidableEq, Repr, Inhabited

/-- a `resource.LabelOp` constant (pkg/resource/label_query.go) -/
inductive LOp where
  | opExists | opEqual | opIn | opLT | opLTE | opLTNumeric | opLTENumeric | unknown
deriving DecidableEq, Repr, Inhabited

/-- a `v1alpha1.LabelTerm_*` wire enum constant -/
inductive WireOp where
  | wEqual | wExists | wNotExists | wIn | wLT | wLTE | wLTNumeric | wLTENumeric | unknown
deriving DecidableEq, Repr, Inhabited

/-- a `resource.Label*` query-option constructor -/
inductive LCtor where
  | cExists | cEqual | cIn | cLT | cLTE | cLTNumeric | cLTENumeric | unknown
deriving DecidableEq, Repr, Inhabited

/-- how a struct-literal field / call argument is filled: copied from the source term
    (`Key: term.Key`), left out, or something the extractor does not recognise -/
inductive FieldUse where
  | copied | absent | unknown
deriving DecidableEq, Repr, Inhabited

/-- value argument the server passes to the constructor: nothing, `term.Value[0]`, `term.Value` -/
inductive ValueUse where
  | noValue | first | all | unknown
deriving DecidableEq, Repr, Inhabited

/-- trailing term options the server passes: `opts...` (built from `term.Invert`),
    the literal `resource.NotMatches`, or nothing -/
inductive InvertUse where
  | fromTerm | always | never | unknown
deriving DecidableEq, Repr, Inhabited

/-- `Value:` of the `LabelTerm` a constructor builds: absent, `[]string{value}`, the set parameter -/
inductive ValueShape where
  | noValue | single | set | unknown
deriving DecidableEq, Repr, Inhabited

/-- one `case resource.LabelOpX:` of client/label_query.go `transformLabelQuery` -/
structure ClientRow where
  op : LOp
  wire : WireOp
  key : FieldUse
  value : FieldUse
  invert : FieldUse
deriving DecidableEq, Repr, Inhabited

/-- one `case v1alpha1.LabelTerm_X:` of server/helpers.go `ConvertLabelQuery` -/
structure ServerRow where
  wire : WireOp
  ctor : LCtor
  key : FieldUse
  value : ValueUse
  invert : InvertUse
deriving DecidableEq, Repr, Inhabited

/-- one `func LabelX(label, value, opts...)` of pkg/resource/label_query.go -/
structure CtorRow where
  ctor : LCtor
  op : LOp
  key : FieldUse
  value : ValueShape
  invert : FieldUse
deriving DecidableEq, Repr, Inhabited

/-- what the filter closure of `WatchAll` does with an `Updated` event for one combination
    of (old matches, new matches): retype to Created / Destroyed (dropping `Old`), pass it
    through, or skip it -/
inductive RewriteAct where
  | toCreated | toDestroyed | pass | drop | unknown
deriving DecidableEq, Repr, Inhabited

/-- the argument of a `matches(…)` call in the `Updated` branch of WatchAll's filter closure -/
inductive UpdArg where
  | old        -- `event.Old`
  | resource   -- `event.Resource`
  | unknown    -- anything else (another expression, another predicate, a value derived some other way)
deriving DecidableEq, Repr, Inhabited

/-- the predicate a site applies to a resource: `IDQuery.Matches(md) && LabelQueries.Matches(labels)` -/
inductive SelPred where
  | idAndLabels | unknown
deriving DecidableEq, Repr, Inhabited

/-- how rruntime.(*Adapter).WatchTrigger applies the destroy-ready filter -/
inductive FilterRule where
  | perInput   -- drop only if every input matching the resource is DestroyReady and the resource is not destroy-ready
  | perGroup   -- one filter per (namespace,type), whatever the other inputs of that group are
  | unknown
deriving DecidableEq, Repr, Inhabited

/-- C05 hand-off: where deduplicateWatchEvents acquires the single dedup map from -/
inductive MapAcquire where
  | emptyOrCh   -- `select { case m = <-empty: case m = <-ch: … }`
  | unknown
deriving DecidableEq, Repr, Inhabited

/-- C05 hand-off: where deduplicateWatchEvents sends the map after a batch -/
inductive DedupRoute where
  | emptyIffEmpty   -- `if len(m) == 0 { send empty; continue }` … drain … `send ch`
  | unknown
deriving DecidableEq, Repr, Inhabited

/-- C05 hand-off: where deliverDeduplicatedEvents sends the map after takeOne -/
inductive DeliverRoute where
  | chIffNonEmpty   -- `if len(m) > 0 { send ch } else { send empty }`
  | unknown
deriving DecidableEq, Repr, Inhabited

/-- C19: the public metadata mutators whose clone-before-write shape is regenerated
    (finalizer.go Add/Remove/Set, internal/kv/kv.go Set/Delete/Do) -/
inductive Mutator where
  | finAdd | finRemove | finSet | kvSet | kvDelete | kvDo
deriving DecidableEq, Repr, Inhabited

/-- C19: the sites where a resource object crosses the store boundary
    (inmem/collection.go Create/Update/Get/List, cache/handler.go get/list) -/
inductive CopySite where
  | collCreate | collUpdate | collGet | collList | cacheGet | cacheList
deriving DecidableEq, Repr, Inhabited

/-- C19: the regenerated aliasing facts as one value, so that the heap model can be
    instantiated both with the regenerated table and with counter-factual tables -/
structure AliasFacts where
  cloneBeforeWrite : Mutator → Bool
  deepCopyIn : CopySite → Bool
  deepCopyOut : CopySite → Bool

/-- C08: an exported method of `controllerstate.StateAdapter` (adapter.go) -/
inductive AMethod where
  | get | getUncached | list | listUncached | ctxTeardown
  | create | update | modify | modifyWithResult | teardown | destroy
  | addFinalizer | removeFinalizer
deriving DecidableEq, Repr, Inhabited

/-- C08: the access guard an adapter method evaluates before it delegates:
    `checkReadAccess(ns, typ, optional.Some(id))` ⇒ `.readId`, `checkReadAccess(ns, typ, optional.None)` ⇒
    `.readKind`, `!adapter.isOutput(typ)` ⇒ `.output`, `checkFinalizerAccess(ns, typ, id)` ⇒ `.finalizer`,
    a recognised body without any guard ⇒ `.noGuard`. -/
inductive AGuard where
  | readId | readKind | output | finalizer | noGuard | unknown
deriving DecidableEq, Repr, Inhabited

/-- C08: what a declared input does for a request inside the `for _, dep := range adapter.Inputs` loop of a guard:
    `return nil` ⇒ `.allow`, `if dep.ID == id { return nil }` ⇒ `.ifEqual`, `continue` / no such request ⇒ `.skip` -/
inductive IdMatch where
  | allow | ifEqual | skip | unknown
deriving DecidableEq, Repr, Inhabited

/-- C08: the `dep.Kind == …` condition of a guard loop: none ⇒ `.all`, a disjunction of
    `dep.Kind == controller.InputX` ⇒ `.only [numeric values]` -/
inductive KindSel where
  | all | only (kinds : List Nat) | unknown
deriving DecidableEq, Repr, Inhabited

/-- C08: whether a read method consults the runtime cache: `cacheHandled && !disableCache` with
    `disableCache = false` (or no such flag) ⇒ `.ifHandled`, with `disableCache = true` ⇒ `.never` -/
inductive CacheUse where
  | ifHandled | never | unknown
deriving DecidableEq, Repr, Inhabited

/-- C08: a method of `owned.State` (pkg/state/owned/state.go) an adapter method ends in -/
inductive OMethod where
  | get | list | ctxTeardown | create | update | modify | modifyWithResult | teardown | destroy
  | addFinalizer | removeFinalizer | unknown
deriving DecidableEq, Repr, Inhabited

/-- C08: the owner an `owned.State` method hands to the underlying state:
    `WithXOwner(st.owner)` ⇒ `.name`; `owner := st.owner; if opts.WithNoOwner { owner = "" }` ⇒ `.nameOrNone`;
    `if opOpt.Owner != nil { WithXOwner(*opOpt.Owner) } else { WithXOwner(st.owner) }` ⇒ `.explicitOrName`;
    plain pass-through without an owner option ⇒ `.noOption` -/
inductive OwnerOpt where
  | name | nameOrNone | explicitOrName | noOption | unknown
deriving DecidableEq, Repr, Inhabited

/-- C08: how a runtime adapter keeps a declaration slice (inputs / outputs) the controller hands to it:
    `slices.Clone(x)` ⇒ `.clone` (a private copy); the caller's slice itself ⇒ `.alias` (the adapter's access
    checks read the CALLER's backing array) -/
inductive SliceKeep where
  | clone | alias | unknown
deriving DecidableEq, Repr, Inhabited

/-- C08: the places where a declaration slice enters an adapter:
    rruntime `(*Adapter).UpdateInputs` (`adapter.Inputs = …`, also the registration path: NewAdapter calls
    UpdateInputs(ctrl.Inputs())), rruntime NewAdapter (`Outputs: …ctrl.Outputs()`), qruntime NewAdapter
    (`Inputs: …settings.Inputs`, `Outputs: …settings.Outputs`) -/
inductive DeclSite where
  | rInputs | rOutputs | qInputs | qOutputs
deriving DecidableEq, Repr, Inhabited

/-- C15: a `state.EventType` constant as tested by `runtime.processEvents` (`e.Type == state.X`) -/
inductive EvKind where
  | created | updated | destroyed | bootstrapped | noop | errored | unknown
deriving DecidableEq, Repr, Inhabited

/-- C15: what `runtime.processEvents` does to the read cache for one event of a cached kind:
    `CacheAppend` / `CachePut` / `CacheRemove` / `MarkBootstrapped`, nothing, or abort of the
    watch loop (`return false`) -/
inductive CacheAct where
  | append | put | remove | mark | skip | abort | unknown
deriving DecidableEq, Repr, Inhabited

/-- which strconv function `resource.ParseVersion` applies to the version text (C18) -/
inductive IntParser where
  | parseInt    -- `strconv.ParseInt(ver, 10, 64)` then `uint64(..)`
  | parseUint   -- `strconv.ParseUint(ver, 10, 64)`
  | unknown
deriving DecidableEq, Repr, Inhabited

/-- C11: an RPC of `service State` (api/v1alpha1/state.proto) -/
inductive Rpc where
  | get | list | create | update | destroy | teardown | teardownAndDestroy | watch | unknown
deriving DecidableEq, Repr, Inhabited

/-- C11: a `case` condition of a server handler's error switch (server/server.go):
    `state.IsXError(err)`; `nonNil` is `case err != nil:` / `default:` (any remaining error) -/
inductive ErrPred where
  | isNotFound | isOwnerConflict | isPhaseConflict | isConflict | isInvalidBookmark | nonNil | unknown
deriving DecidableEq, Repr, Inhabited

/-- C11: a gRPC status code as far as the state service uses them. `unclassified` is what a
    plain Go error returned by a handler travels as (codes.Unknown); `any` is the `default:`
    arm of a client-side `switch status.Code(err)` -/
inductive Code where
  | notFound | permissionDenied | alreadyExists | invalidArgument | failedPrecondition | unimplemented
  | unclassified | any | unknown
deriving DecidableEq, Repr, Inhabited

/-- C11: the class of the error the client adapter builds (marker methods of client/errors.go);
    `other` = the status error returned as is; `fallback` = the Unimplemented arm of
    Teardown / TeardownAndDestroy (store the sticky flag, run the fallback) -/
inductive ErrClass where
  | notFound | ownerConflict | phaseConflict | conflict | invalidBookmark | other | fallback | unknown
deriving DecidableEq, Repr, Inhabited

/-- C11: a nil-able (message-typed or `optional`) field of a request message -/
inductive ReqField where
  | options | resource | newResource | idQuery | id | unknown
deriving DecidableEq, Repr, Inhabited

/-- C11: a metadata field `updateResourceMetadata` (client.go) copies from the response into
    the caller's object -/
inductive WbField where
  | version | updated | owner | created | phase | unknown
deriving DecidableEq, Repr, Inhabited

/-- C11: a `state.EventType` constant -/
inductive EvT where
  | created | updated | destroyed | bootstrapped | errored | noop | unknown
deriving DecidableEq, Repr, Inhabited

/-- C11: a `v1alpha1.EventType_*` wire constant -/
inductive WireEv where
  | created | updated | destroyed | bootstrapped | errored | noop | unknown
deriving DecidableEq, Repr, Inhabited

/-- C11/C03: a watch method of the client adapter (client/client.go) -/
inductive WatchCall where
  | watch | watchKind | watchKindAggregated
deriving DecidableEq, Repr, Inhabited

/-- C11: what the server's Watch handler looks at to choose between a kind watch and a
    single-resource watch (server/server.go) -/
inductive WatchDispatch where
  | idAbsent   -- `req.Id == nil`: the optional field is not on the wire
  | idEmpty    -- `req.GetId() == ""`: the VALUE is looked at, an empty ID is taken for "no ID"
  | unknown
deriving DecidableEq, Repr, Inhabited

/-- C11: the `Id` field of the WatchRequest literal a client watch method builds -/
inductive IdField where
  | pointerId  -- `Id: new(resourcePointer.ID())`: always on the wire, possibly empty
  | absent     -- no `Id:` in the literal
  | unknown
deriving DecidableEq, Repr, Inhabited

/-- qtransform.reconcileRunning: the condition under which the input finalizer is added -/
inductive AddFinRule where
  | whenMissing              -- `!Has(name)`
  | whenMissingAndRunning    -- `!Has(name) && Phase == Running` (the tree before the D7 fix)
  | unknown
deriving DecidableEq, Repr, Inhabited

/-- C16: how `runtime.processEvents` reports the error of a failed watch on `runtime.watchErrors` -/
inductive SendKind where
  | plain        -- `runtime.watchErrors <- e.Error`: needs a free buffer slot or a receiver, ignores the context
  | ctxAware     -- `select { case runtime.watchErrors <- e.Error: case <-runtime.runCtx.Done(): }`
  | nonBlocking  -- `select { case runtime.watchErrors <- e.Error: default: }`
  | unknown
deriving DecidableEq, Repr, Inhabited

/-- transform.cleanupOutputs: the ways one iteration of the per-output loop can end -/
inductive CleanupExit where
  | notOwned       -- `out.Owner() != ctrl.Name()` → continue
  | touched        -- not tearing down and in touchedOutputIDs → continue
  | teardownErr    -- Teardown returned an error → continue
  | notReady       -- Teardown said not ready → continue
  | destroyErr     -- Destroy returned an error (any exit taken under `err != nil`)
  | destroyOk      -- Destroy succeeded: the end of the loop body
deriving DecidableEq, Repr, Inhabited

/-- transform: where an input is entered into `runState.removeInputFinalizers` -/
inductive ReleaseSource where
  | tornDownFinRemovalOk   -- only in reconcileTearingDownInput, after the finalizer is present and finalizerRemovalFunc returned nil
  | unknown
deriving DecidableEq, Repr, Inhabited

/-- cleanup.combinedHandler.FinalizerRemoval -/
inductive CombineRule where
  | firstNonNil            -- returns the first non-nil handler result; nil when every handler returned nil
  | unknown
deriving DecidableEq, Repr, Inhabited

/-- cleanup.Controller.processInput, tearing-down input carrying the finalizer: what follows the handler's result -/
inductive CleanupReleaseRule where
  | onlyOnNil              -- SkipReconcile-tagged → return nil; other error → return it; nil → RemoveFinalizer
  | unknown
deriving DecidableEq, Repr, Inhabited

/-- C02: what a history-capacity option of inmem does to the OTHER capacity when the two would cross -/
inductive CapAdjust where
  | raiseMax     -- the maximum is raised to the initial capacity
  | lowerInit    -- the initial capacity is lowered to the maximum
  | unknown
deriving DecidableEq, Repr, Inhabited

/-- C09: qruntime.runReconcile, `case reconcileError != nil`: the guard under which the per-item error
    backoff supplies the requeue interval (`interval = adapter.getBackoffInterval(item.Key())`) -/
inductive FailGuard where
  | intervalZero   -- `if interval == 0 { … }`: whenever the failure carries no interval of its own
  | notRequeued    -- `if !requeued { … }`: only when the error is not a RequeueError at all
  | always         -- unguarded: the backoff interval replaces whatever the RequeueError asked for
  | unknown
deriving DecidableEq, Repr, Inhabited

/-- C16: where rruntime.runOnce clears `adapter.outputTracker` -/
inductive TrackerReset where
  | deferred   -- a top-level statement of a deferred function of runOnce: on EVERY exit of ctrl.Run, a panic included
  | afterRun   -- a plain statement after `err = adapter.ctrl.Run(…)`: not reached when ctrl.Run panics
  | never      -- runOnce does not clear it
  | unknown
deriving DecidableEq, Repr, Inhabited

/-- C16: the condition under which task.runWithRestarts takes the value of runWithPanicHandler for "finished" -/
inductive TaskFinish where
  | errNil             -- `err == nil`
  | errNilOrCanceled   -- `err == nil || errors.Is(err, context.Canceled)`: an error wrapping context.Canceled ends the loop too
  | unknown
deriving DecidableEq, Repr, Inhabited

/-! ### C03/C04: the generic helpers of pkg/state/wrap.go, condition.go and pkg/state/owned/state.go -/

/-- which `res` the final `return res.Metadata().Finalizers().Empty(), nil` of `coreWrapper.Teardown` reads -/
inductive ReadySrc where
  | uwcResult    -- `res, err = state.UpdateWithConflicts(…)`: the value the teardown update wrote
  | initialGet   -- the result of UpdateWithConflicts is discarded: `res` is still what the first Get read
  | unknown
deriving DecidableEq, Repr, Inhabited

/-- what one `case` of a `switch event.Type` of wrap.go does (a type not listed in the switch: `.ignore`) -/
inductive EvAct where
  | retDestroyed      -- waitFinalizersEmpty: `return true, nil`
  | checkFins         -- waitFinalizersEmpty: `if event.Resource != nil && …Finalizers().Empty() { return false, nil }`
  | retError          -- waitFinalizersEmpty: `return false, event.Error`
  | checkTearingDown  -- ContextWithTeardown: `if ev.Resource.Metadata().Phase() == resource.PhaseTearingDown { return }`
  | cancel            -- ContextWithTeardown: `return` (the deferred cancel(nil) fires)
  | cancelWithError   -- ContextWithTeardown: `cancel(ev.Error); return`
  | ignore            -- empty case body / not listed
  | unknown
deriving DecidableEq, Repr, Inhabited

/-- a top-level guard of `WatchForCondition.Matches` (condition.go), in source order -/
inductive MatchGuard where
  | eventTypes    -- `if condition.EventTypes != nil { … slices.Contains(condition.EventTypes, event.Type) … }`
  | resourceNil   -- `if event.Resource == nil { return false, nil }`
  | condFunc      -- `if condition.Condition != nil { … }`
  | finsEmpty     -- `if condition.FinalizersEmpty { Destroyed ⇒ false; !Finalizers().Empty() ⇒ false }`
  | phases        -- `if condition.Phases != nil { … slices.Contains(condition.Phases, …Phase()) … }`
  | unknown
deriving DecidableEq, Repr, Inhabited

/-- how a guard of `Matches` can leave the function -/
inductive GuardExit where
  | denyOnly   -- every return inside the guard is `return false, …`; otherwise control falls through to the next guard
  | decides    -- the guard returns its own test as the result (`return <expr>, nil`): later guards are never reached
  | unknown
deriving DecidableEq, Repr, Inhabited

/-- a statement on the path of `coreWrapper.UpdateWithConflicts` from its entry (or from the retry decision) to the Update -/
inductive UwcStmt where
  | get          -- `current, err := state.Get(ctx, resourcePointer)`; an error is returned
  | phaseCheck   -- `if options.ExpectedPhase != nil && *options.ExpectedPhase != current.Metadata().Phase() { return nil, errPhaseConflict(…) }`
  | copy         -- `newResource := current.DeepCopy()`
  | mutate       -- `if err = f(newResource); err != nil { return nil, err }`
  | noopReturn   -- `if resource.Equal(current, newResource) { return newResource, nil }`
  | update       -- `err = state.Update(ctx, newResource, opts...)`; nil ⇒ `return newResource, nil`
  | unknown
deriving DecidableEq, Repr, Inhabited

/-- which errors of the Update send UpdateWithConflicts back for another attempt -/
inductive RetryRule where
  | versionConflict   -- `IsConflictError(err) && !IsOwnerConflictError(err) && !IsPhaseConflictError(err)`
  | anyConflict       -- `IsConflictError(err)` alone
  | unknown
deriving DecidableEq, Repr, Inhabited

/-- what `coreWrapper.ModifyWithResult` does with an error of its Create -/
inductive CreateErrAct where
  | returnErr   -- `return nil, err`: the create path is tried once
  | restart     -- some error makes the function call itself again with the (already mutated) emptyResource
  | unknown
deriving DecidableEq, Repr, Inhabited

/-- the expected-phase option an `owned.State` method hands to the wrapped state -/
inductive PhaseFwd where
  | explicitOrAny   -- `if o.ExpectedPhase != nil { WithExpectedPhase(*o.ExpectedPhase) } else { WithExpectedPhaseAny() }`
  | anyOnly         -- only the `nil ⇒ WithExpectedPhaseAny()` half: an explicit phase is dropped
  | noOption        -- the method has no phase option
  | unknown
deriving DecidableEq, Repr, Inhabited

/-! ### C02 / C12: the in-memory watch machinery (pkg/state/impl/inmem/collection.go publish / Watch / WatchAll /
    encodeBookmark / decodeBookmark), emitted by tools/extract/watch.go -/

/-- a comparison operator of a recognised test; `.unknown` when the operands are not the expected ones -/
inductive Cmp where
  | lt | le | gt | ge | eq | ne | unknown
deriving DecidableEq, Repr, Inhabited

/-- an operand of a recognised comparison / index / assignment -/
inductive WOperand where
  | writePos          -- `collection.writePos`
  | pos               -- the watcher's local `pos`
  | posMinus1         -- `pos - 1`
  | lag               -- `collection.writePos - pos`
  | capacity          -- `int64(collection.capacity)`: the field, read where it is used
  | capacityLocal     -- a local variable holding `int64(collection.capacity)`, assigned earlier
  | maxCapacity       -- `collection.maxCapacity`
  | windowStart       -- `collection.writePos - int64(collection.capacity) + int64(collection.gap)`
  | windowStartLocal  -- the same with a local copy of the capacity
  | window            -- `collection.capacity - collection.gap`
  | tailEvents        -- `options.TailEvents`
  | foundEvents       -- the local counter of the tail walk-back
  | minPos            -- the local floor of the tail walk-back
  | first | last      -- the slot indices of the batch copy
  | lenBookmark       -- `len(bookmark)`
  | lit (n : Int)     -- an integer literal
  | unknown
deriving DecidableEq, Repr, Inhabited

/-- where a use site takes the ring capacity from -/
inductive CapSrc where
  | field      -- `collection.capacity` is read at the use site (under the lock that is held there)
  | snapshot   -- a local variable assigned from `collection.capacity` before the goroutine loop
  | unknown
deriving DecidableEq, Repr, Inhabited

/-- publish: what happens to the ring when the growth test holds -/
inductive GrowRule where
  | doubleClampMax   -- `capacity *= 2; if capacity > maxCapacity { capacity = maxCapacity }; stream = append(stream, make(.., capacity-oldCapacity)...)`
  | unknown
deriving DecidableEq, Repr, Inhabited

/-- WatchAll: where the bookmark of the initial Bootstrapped / Noop event is computed -/
inductive InitBmAt where
  | afterSwitch    -- `encodeBookmark(pos - 1)` evaluated in the goroutine, i.e. with `pos` as the TailEvents / StartFromBookmark switch left it
  | beforeSwitch   -- evaluated from `pos` before that switch ran
  | unknown
deriving DecidableEq, Repr, Inhabited

/-- WatchAll: how the pending events leave the ring -/
inductive BatchCopy where
  | cloneOrConcat  -- `slices.Clone(stream[first:last])` / `slices.Concat(stream[first:], stream[:last])`: a private copy
  | unknown
deriving DecidableEq, Repr, Inhabited

/-- WatchAll filter closure: how an Updated event becomes Created / Destroyed -/
inductive RewriteMode where
  | inPlace        -- assigns `event.Type` and `event.Old = nil` only: every other field (the Bookmark) is kept
  | freshEvent     -- `*event = state.Event{…}` without the Bookmark
  | unknown
deriving DecidableEq, Repr, Inhabited

/-- decodeBookmark: how the cookie is compared -/
inductive CookieTest where
  | equalFirst8    -- `slices.Equal(bookmark[:8], bookmarkCookie())` / `bytes.Equal`
  | hasPrefix      -- `bytes.HasPrefix(bookmark, cookie)`
  | unknown
deriving DecidableEq, Repr, Inhabited

/-- WatchAll: what the TailEvents branch of the start switch does -/
inductive KindTailRule where
  | clampWindowFloor0   -- `if TailEvents > capacity-gap { TailEvents = capacity-gap }; pos -= int64(TailEvents); if pos < 0 { pos = 0 }`
  | unknown
deriving DecidableEq, Repr, Inhabited

/-- a recognised comparison: operator and both operands -/
structure Test where
  lhs : WOperand
  cmp : Cmp
  rhs : WOperand
deriving DecidableEq, Repr, Inhabited

end Cosi.Gen
