import Cosi.Base
import Cosi.Model.Store
