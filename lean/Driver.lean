/-
  driver — the executable side of the model. Usage: driver <engine> [spec]
  Reads op lines on stdin, writes exactly one line per input line on stdout.
  A line starting with `#` (re)initialises the engine from its key=value header and
  is echoed. Core Lean only.
-/
import Cosi.Driver.Store
import Cosi.Driver.Watch
import Cosi.Driver.WatchSrc
import Cosi.Driver.Helpers
import Cosi.Driver.Pipeline
import Cosi.Driver.Ctrl
import Cosi.Driver.Conc
import Cosi.Driver.KeyStorage
import Cosi.Driver.Queue
import Cosi.Driver.DepDB
import Cosi.Driver.Selector
import Cosi.Driver.Alias
import Cosi.Driver.Access
import Cosi.Driver.Persist
import Cosi.Driver.Cache
import Cosi.Driver.Restart
import Cosi.Driver.Codec
import Cosi.Driver.RWatch
import Cosi.Driver.Remote

open Cosi

structure Engine where
  σ : Type
  init : Bool → List (String × String) → σ
  step : σ → String → List (String × String) → σ × String

def engines : List (String × Engine) := [
  ("store-seq", ⟨Driver.Store.St, Driver.Store.init, Driver.Store.stepLine⟩),
  ("watch", ⟨Driver.WatchSrc.St, Driver.WatchSrc.initSt, Driver.WatchSrc.stepSt⟩),
  ("helpers", ⟨Driver.Helpers.St, Driver.Helpers.init, Driver.Helpers.stepLine⟩),
  ("keystorage", ⟨Driver.KeyStorage.St, Driver.KeyStorage.init, Driver.KeyStorage.stepLine⟩),
  ("queue", ⟨Driver.Queue.St, Driver.Queue.init, Driver.Queue.stepQueue⟩),
  ("qreconcile", ⟨Driver.Queue.St, Driver.Queue.init, Driver.Queue.stepReconcileAny⟩),
  ("depdb", ⟨Driver.DepDB.St, Driver.DepDB.init, Driver.DepDB.stepLine⟩),
  ("registry", ⟨Driver.DepDB.RSt, Driver.DepDB.rinit, Driver.DepDB.rstepLine⟩),
  ("selector", ⟨Driver.Selector.St, Driver.Selector.init, Driver.Selector.stepLine⟩),
  ("pipeline", ⟨Driver.Pipeline.St, Driver.Pipeline.init, Driver.Pipeline.stepLine⟩),
  ("ctrl", ⟨Driver.Ctrl.St, Driver.Ctrl.init, Driver.Ctrl.stepLine⟩),
  ("alias", ⟨Driver.Alias.St, Driver.Alias.init, Driver.Alias.stepLine⟩),
  ("access", ⟨Driver.Access.St, Driver.Access.init, Driver.Access.stepLine⟩),
  ("persist", ⟨Driver.Persist.St, Driver.Persist.init, Driver.Persist.stepLine⟩),
  ("cache", ⟨Driver.Cache.St, Driver.Cache.init, Driver.Cache.stepCache⟩),
  ("cacherun", ⟨Driver.Cache.RSt, Driver.Cache.rinit, Driver.Cache.stepRun⟩),
  ("faults", ⟨Driver.Restart.St, Driver.Restart.init, Driver.Restart.stepLine⟩),
  ("codec", ⟨Driver.Codec.St, Driver.Codec.init, Driver.Codec.stepLine⟩),
  ("rwatch", ⟨Driver.RWatch.St, Driver.RWatch.init, Driver.RWatch.stepLine⟩),
  ("grpc", ⟨Driver.Remote.St, Driver.Remote.init, Driver.Remote.stepLine⟩),
  ("store-conc", ⟨Driver.Conc.St, Driver.Conc.init, Driver.Conc.stepLine⟩)
]

partial def loop (e : Engine) (spec : Bool) (inp : IO.FS.Stream) (out : IO.FS.Stream) (st : e.σ) : IO Unit := do
  let line ← inp.getLine
  if line.isEmpty then return ()
  let line := (line.dropEndWhile (fun c => c == '\n' || c == '\r')).toString
  if line.startsWith "#" then
    let (_, a) := parseLine (line.drop 1).toString
    out.putStrLn line
    loop e spec inp out (e.init spec a)
  else
    let (op, a) := parseLine line
    let (st', o) := e.step st op a
    out.putStrLn o
    loop e spec inp out st'

def main (args : List String) : IO UInt32 := do
  match args with
  | name :: rest =>
    match engines.find? (·.1 == name) with
    | none => IO.eprintln s!"unknown engine {name}"; return 2
    | some (_, e) =>
      let spec := rest.contains "spec"
      let inp ← IO.getStdin
      let out ← IO.getStdout
      loop e spec inp out (e.init spec [])
      out.flush
      return 0
  | [] => IO.eprintln "usage: driver <engine> [spec]"; return 2
