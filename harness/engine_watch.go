package harness

import (
	"context"
	"encoding/binary"
	"encoding/hex"
	"fmt"
	"regexp"
	"strings"
	"testing"
	"testing/synctest"
	"time"

	"github.com/cosi-project/runtime/pkg/resource"
	"github.com/cosi-project/runtime/pkg/state"
	"github.com/cosi-project/runtime/pkg/state/impl/inmem"
)

// engine watch: the real inmem state under synctest; random writes, watchers of each
// flavour started at random points with bootstrap / tail / bookmark options, random
// consumption (a stalled consumer is one that is not scheduled). Compared delivery by
// delivery with Cosi.Model.Watch (C02, C12).

func init() { Register("watch", func() Engine { return &watchEng{} }) }

type watchEng struct{}

func (*watchEng) Name() string { return "watch" }

func (*watchEng) Cases(thorough bool) int {
	if thorough {
		return 3000
	}

	return 300
}

func (*watchEng) Rule() string {
	return "random history configs (initCap 1..6, maxCap>=initCap, gap<initCap), writes to 2 kinds x 3 ids, up to 4 watchers (single/kind/aggregated; bootstrap, bootstrap-bookmark, tail, resume from bookmarks drawn half of the time from the exact edges of the retained window [the generator tracks write position and grown capacity per kind: one before / at / after writePos-capacity+gap, writePos-1, writePos, writePos+1, -2, -1, 0] and otherwise around it, malformed / foreign / over-long / doubled bookmarks, label selector, channel buffer 0..2), random recv; two structured families: `lag` (readers of every flavour established before or after the ring grows, stalled until they lag by capacity-1 / capacity / capacity+1 events of the capacity in force, then released) and `edges` (resumption of every flavour from every edge of the window in every byte-level variant, with bootstrap-bookmark and tail combinations); non-trivial = the ring of some kind wrapped (more writes than its initial capacity) and some watcher received >= 3 deliveries and an Errored or invalid-bookmark outcome or a resumed watch occurred; distinct by hash of the op lines"
}

func (*watchEng) NonTrivial(c Case, out []string) bool {
	_, h := ParseLine(strings.TrimPrefix(c.Header, "#"))
	writes, recvd, special := 0, 0, false

	for i, o := range out {
		op := opName(c.Ops[i])
		if (op == "create" || op == "update" || op == "destroy") && strings.HasPrefix(o, "ok") {
			writes++
		}

		if op == "recv" && o != "none" {
			recvd++
		}

		if strings.Contains(o, "errored") || strings.Contains(o, "invalidBookmark") || (op == "wstart" && strings.Contains(c.Ops[i], " bm=") && o == "ok") {
			special = true
		}
	}

	return writes > h.Int("initcap") && recvd >= 3 && special
}

type wshadow struct {
	exists bool
	ver    int
	fins   string
}

// watchApplyOpts is the generator's own reading of the history options (only to bias the cases and to state the
// non-triviality rule; the model's reading is Cosi.Model.HistOpts, the code's is options.go).
func watchApplyOpts(opts string) (initcap, maxcap, gap int) {
	initcap, maxcap, gap = 100, 100, 5

	for _, o := range strings.Split(opts, ",") {
		if len(o) < 2 {
			continue
		}

		var n int

		fmt.Sscanf(o[1:], "%d", &n)

		switch o[0] {
		case 'i':
			initcap = n
			maxcap = max(maxcap, n)
		case 'm':
			maxcap = n
			initcap = min(initcap, n)
		case 'c':
			initcap, maxcap = n, n
		case 'g':
			gap = n
		}
	}

	return initcap, maxcap, gap
}

func watchStateOptions(opts string) []inmem.StateOption {
	var res []inmem.StateOption

	for _, o := range strings.Split(opts, ",") {
		if len(o) < 2 {
			continue
		}

		var n int

		fmt.Sscanf(o[1:], "%d", &n)

		switch o[0] {
		case 'i':
			res = append(res, inmem.WithHistoryInitialCapacity(n))
		case 'm':
			res = append(res, inmem.WithHistoryMaxCapacity(n))
		case 'c':
			res = append(res, inmem.WithHistoryCapacity(n))
		case 'g':
			res = append(res, inmem.WithHistoryGap(n))
		}
	}

	return res
}

func (e *watchEng) Gen(r *Rand, thorough bool, idx int) Case {
	initcap := 1 + r.Intn(6)
	maxcap := initcap

	if r.Chance(1, 2) {
		maxcap = initcap + r.Intn(2*initcap+1)
	}

	gap := r.Intn(initcap)
	if r.Chance(1, 3) {
		gap = 0
	}

	n := 40
	if thorough {
		n = 120
	}

	// the options in the order the state is built with; in a quarter of the cases another order, a single
	// WithHistoryCapacity, or options that cross (initial above the maximum in force, maximum below the initial)
	opts := fmt.Sprintf("i%d,m%d,g%d", initcap, maxcap, gap)

	switch idx % 16 {
	case 3:
		opts = fmt.Sprintf("m%d,g%d,i%d", maxcap, gap, initcap)
	case 7:
		opts = fmt.Sprintf("g%d,c%d", gap, initcap)
	case 11:
		opts = fmt.Sprintf("i%d,g%d,m%d", maxcap+1+r.Intn(3), gap, initcap)
	case 15:
		// an initial capacity above the default maximum, nothing else: a reader lagging by more than the default
		// capacity, but by less than the configured one, must not be errored
		opts = fmt.Sprintf("i%d", 108+r.Intn(8))
	}

	switch idx % 16 {
	case 5, 13:
		return e.genLag(r, idx)
	case 9:
		return e.genEdges(r, idx)
	}

	initcap, maxcap, gap = watchApplyOpts(opts)

	if idx%16 == 15 {
		// stalled readers of every kind, then more events than the default capacity but fewer than the configured one
		c := Case{Header: fmt.Sprintf("# engine=watch flavour=inmem nsaware=0 initcap=%d maxcap=%d gap=%d bs=0 opts=%s case=%d", initcap, maxcap, gap, opts, idx)}
		t := 1
		add := func(format string, a ...any) {
			c.Ops = append(c.Ops, fmt.Sprintf("%s t=%d ", strings.SplitN(format, " ", 2)[0], t)+fmt.Sprintf(strings.SplitN(format, " ", 2)[1], a...))
			t++
		}

		add("create ns=n1 typ=T1 id=a ver=undefined owner= phase=running fins= labels= c=0 u=0 spec=s0 as=")
		add("create ns=n1 typ=T1 id=b ver=undefined owner= phase=running fins= labels= c=0 u=0 spec=s0 as=")
		add("wstart w=1 ns=n1 typ=T1 kind=kind buf=0")
		add("wstart w=2 ns=n1 typ=T1 kind=single id=a buf=0")
		add("wstart w=3 ns=n1 typ=T1 kind=agg buf=0")
		add("recv w=2") // the initial event of the single watch

		k := 101 + r.Intn(initcap-gap-101)
		va, vb := 1, 1

		for i := 0; i < k; i++ {
			if i%2 == 0 {
				add("update ns=n1 typ=T1 id=a ver=%d owner= phase=running fins= labels= c=0 u=0 spec=s%d as= exp=any", va, i%3)
				va++
			} else {
				add("update ns=n1 typ=T1 id=b ver=%d owner= phase=running fins= labels= c=0 u=0 spec=s%d as= exp=any", vb, i%3)
				vb++
			}
		}

		for i := 0; i < 3; i++ {
			add("recv w=1")
			add("recv w=2")
			add("recv w=3")
		}

		add("update ns=n1 typ=T1 id=a ver=%d owner= phase=running fins= labels= c=0 u=0 spec=s9 as= exp=any", va)
		add("recv w=1")
		add("recv w=3")
		add("list ns=n1 typ=T1")

		return c
	}

	// every other case runs over a backing store which rejects the writes marked bsfail=1: they must fail, change
	// nothing and publish nothing
	bs := idx % 2

	c := Case{Header: fmt.Sprintf("# engine=watch flavour=inmem nsaware=0 initcap=%d maxcap=%d gap=%d bs=%d opts=%s case=%d", initcap, maxcap, gap, bs, opts, idx)}
	sh := map[string]*wshadow{}

	// one case in sixteen starts from a backing store that already holds resources, with two requests racing for the
	// initial load (see Exec): the state the watches and writes see is the one in which they were created once
	preload := 0
	if idx%16 == 1 {
		preload = len(watchPreloadIDs)
		c.Header = fmt.Sprintf("# engine=watch flavour=inmem nsaware=0 initcap=%d maxcap=%d gap=%d bs=%d opts=%s preload=%d release=%d case=%d",
			initcap, maxcap, gap, bs, opts, preload, 2+r.Intn(n/2), idx)
	}
	types := []string{"T1", "T1", "T1", "T2"}
	ids := []string{"a", "b", "c"}
	nextW := 1

	var live []int
	// positions written per type and the capacity the ring of that type has grown to (to aim bookmarks at the
	// exact edges of the retained window)
	written := map[string]int{}
	curCap := map[string]int{}
	wrote := func(typ string) {
		if curCap[typ] == 0 {
			curCap[typ] = initcap
		}

		curCap[typ] = watchGrow(written[typ], curCap[typ], maxcap)
		written[typ]++
	}

	for _, id := range watchPreloadIDs[:preload] {
		sh["T1/"+id] = &wshadow{exists: true, ver: 1}
		wrote("T1")
	}

	for i := 0; i < n; i++ {
		t := i + 1
		typ, id := Pick(r, types), Pick(r, ids)
		k := typ + "/" + id

		if sh[k] == nil {
			sh[k] = &wshadow{}
		}

		s := sh[k]

		switch x := r.Intn(100); {
		case x < 45: // write
			lab := ""
			if r.Chance(1, 2) {
				lab = "k1:v1"
			}

			switch {
			case bs == 1 && r.Chance(1, 8): // a write the backing store rejects
				switch {
				case !s.exists:
					c.Ops = append(c.Ops, fmt.Sprintf("create t=%d ns=n1 typ=%s id=%s ver=undefined owner= phase=running fins= labels=%s c=0 u=0 spec=s%d as= bsfail=1", t, typ, id, lab, r.Intn(3)))
				case r.Chance(1, 3):
					c.Ops = append(c.Ops, fmt.Sprintf("destroy t=%d ns=n1 typ=%s id=%s as= bsfail=1", t, typ, id))
				default:
					c.Ops = append(c.Ops, fmt.Sprintf("update t=%d ns=n1 typ=%s id=%s ver=%d owner= phase=running fins=%s labels=%s c=0 u=0 spec=s%d as= exp=any bsfail=1", t, typ, id, s.ver, s.fins, lab, r.Intn(3)))
				}
			case !s.exists:
				c.Ops = append(c.Ops, fmt.Sprintf("create t=%d ns=n1 typ=%s id=%s ver=undefined owner= phase=running fins= labels=%s c=0 u=0 spec=s%d as=", t, typ, id, lab, r.Intn(3)))
				s.exists, s.ver, s.fins = true, 1, ""
				wrote(typ)
			case r.Chance(1, 5) && s.fins == "":
				c.Ops = append(c.Ops, fmt.Sprintf("destroy t=%d ns=n1 typ=%s id=%s as=", t, typ, id))
				s.exists = false
				wrote(typ)
			default:
				ver := s.ver
				if r.Chance(1, 10) {
					ver++ // stale: fails, publishes nothing
				}

				fins := ""
				if r.Chance(1, 6) {
					fins = "x"
				}

				c.Ops = append(c.Ops, fmt.Sprintf("update t=%d ns=n1 typ=%s id=%s ver=%d owner= phase=running fins=%s labels=%s c=0 u=0 spec=s%d as= exp=any", t, typ, id, ver, fins, lab, r.Intn(3)))

				if ver == s.ver {
					s.ver++
					s.fins = fins
					wrote(typ)
				}
			}
		case x < 60 && len(live) < 4: // start a watcher
			w := nextW
			nextW++
			kind := Pick(r, []string{"single", "kind", "agg"})
			op := fmt.Sprintf("wstart t=%d w=%d ns=n1 typ=%s kind=%s", t, w, typ, kind)

			if kind == "single" {
				op += " id=" + id
			} else {
				if r.Chance(1, 2) {
					op += " boot=1"
				}

				if r.Chance(1, 3) {
					op += " bb=1"
				}

				if r.Chance(1, 3) {
					op += " sel=" + Pick(r, []string{"k1:v1", "k1:v1", "@id:a"})
				}
			}

			if r.Chance(1, 3) {
				op += fmt.Sprintf(" tail=%d", 1+r.Intn(5))
			}

			if r.Chance(1, 3) {
				// bookmark: mostly plausible positions around the retained window, half of the time one of its exact edges
				pos := written[typ] - 1 - r.Intn(initcap+3)
				if r.Chance(1, 6) {
					pos = written[typ] + r.Intn(2)
				}

				if r.Chance(1, 2) {
					cp := curCap[typ]
					if cp == 0 {
						cp = initcap
					}

					pos = Pick(r, watchEdges(written[typ], cp, gap))
				}

				op += fmt.Sprintf(" bm=%x", watchBookmarkBytes(r, pos, r.Intn(16)))
			}

			op += fmt.Sprintf(" buf=%d", Pick(r, []int{0, 0, 1, 2}))
			c.Ops = append(c.Ops, op)
			live = append(live, w) // may fail to start; recv then prints none
		case x < 95 && len(live) > 0:
			c.Ops = append(c.Ops, fmt.Sprintf("recv t=%d w=%d", t, Pick(r, live)))
		case len(live) > 0 && r.Chance(1, 3):
			j := r.Intn(len(live))
			c.Ops = append(c.Ops, fmt.Sprintf("wstop t=%d w=%d", t, live[j]))
			live = append(live[:j], live[j+1:]...)
		default:
			c.Ops = append(c.Ops, fmt.Sprintf("list t=%d ns=n1 typ=%s", t, typ))
		}
	}

	// drain: everything still in flight must come out identically
	for _, w := range live {
		for j := 0; j < 6; j++ {
			c.Ops = append(c.Ops, fmt.Sprintf("recv t=%d w=%d", n+1, w))
		}
	}

	return c
}

// watchGrow is publish's growth step: the capacity in force for the event published at position wp.
func watchGrow(wp, capacity, maxcap int) int {
	if wp == capacity && capacity < maxcap {
		capacity *= 2
		if capacity > maxcap {
			capacity = maxcap
		}
	}

	return capacity
}

// watchEdges lists the positions at and next to every edge of the bookmark acceptance window.
func watchEdges(wp, capacity, gap int) []int {
	lo := wp - capacity + gap

	return []int{lo - 1, lo, lo + 1, wp - 2, wp - 1, wp, wp + 1, -2, -1, 0}
}

// watchBookmarkBytes builds the bytes of a bookmark for pos in one of the byte-level variants: 0 truncated,
// 1 one trailing byte, 2 foreign cookie, 3 arbitrary position bytes, 4 trailing garbage, 5 two bookmarks
// concatenated, anything else well-formed.
func watchBookmarkBytes(r *Rand, pos int, variant int) []byte {
	bm := append([]byte("COOKIE!!"), binary.BigEndian.AppendUint64(nil, uint64(int64(pos)))...)

	switch variant {
	case 0:
		bm = bm[:Pick(r, []int{0, 8, 15})]
	case 1:
		bm = append(bm, 0)
	case 2:
		bm[r.Intn(8)] ^= byte(1 + r.Intn(255)) // foreign cookie
	case 3:
		for j := range bm[8:] {
			bm[8+j] = byte(r.Next()) // arbitrary position bytes
		}
	case 4:
		for j, n := 0, 1+r.Intn(9); j < n; j++ {
			bm = append(bm, byte(r.Next()))
		}
	case 5:
		bm = append(bm, bm...)
	}

	return bm
}

// watchScript builds the op lines of a structured case and keeps the exact shadow of one kind (T1): versions of
// its resources, write position, capacity in force.
type watchScript struct {
	c                    Case
	t                    int
	initcap, maxcap, gap int
	wp, capacity         int
	ver                  map[string]int
	nextW                int
}

func newWatchScript(r *Rand, idx int, family string) *watchScript {
	initcap := 1 + r.Intn(4)
	maxcap := Pick(r, []int{initcap, initcap, 2 * initcap, 4 * initcap, 3*initcap + 1})
	gap := r.Intn(initcap)

	if r.Chance(1, 3) {
		gap = 0
	}

	return &watchScript{
		c: Case{Header: fmt.Sprintf("# engine=watch flavour=inmem nsaware=0 initcap=%d maxcap=%d gap=%d bs=0 opts=i%d,m%d,g%d family=%s case=%d",
			initcap, maxcap, gap, initcap, maxcap, gap, family, idx)},
		t: 1, initcap: initcap, maxcap: maxcap, gap: gap, capacity: initcap, ver: map[string]int{}, nextW: 1,
	}
}

func (ws *watchScript) add(op, rest string) {
	ws.c.Ops = append(ws.c.Ops, fmt.Sprintf("%s t=%d %s", op, ws.t, rest))
	ws.t++
}

// write commits one event of T1/id (create or update; a label that comes and goes so that a selector sees rewrites).
func (ws *watchScript) write(r *Rand, id string) {
	lab := ""
	if r.Chance(1, 2) {
		lab = "k1:v1"
	}

	if ws.ver[id] == 0 {
		ws.add("create", fmt.Sprintf("ns=n1 typ=T1 id=%s ver=undefined owner= phase=running fins= labels=%s c=0 u=0 spec=s%d as=", id, lab, r.Intn(3)))
	} else {
		ws.add("update", fmt.Sprintf("ns=n1 typ=T1 id=%s ver=%d owner= phase=running fins= labels=%s c=0 u=0 spec=s%d as= exp=any", id, ws.ver[id], lab, r.Intn(3)))
	}

	ws.ver[id]++
	ws.capacity = watchGrow(ws.wp, ws.capacity, ws.maxcap)
	ws.wp++
}

func (ws *watchScript) start(rest string) int {
	w := ws.nextW
	ws.nextW++
	ws.add("wstart", fmt.Sprintf("w=%d ns=n1 typ=T1 %s", w, rest))

	return w
}

func (ws *watchScript) recv(w int) { ws.add("recv", fmt.Sprintf("w=%d", w)) }

// genLag: readers of every flavour, established before or after the ring grows, are stalled behind one undelivered
// event until they lag by exactly capacity-1 / capacity / capacity+1 events of the capacity then in force, and
// released: the first must read on, the second must read the whole ring, the third must be errored — whatever
// the capacity was when they were established.
func (e *watchEng) genLag(r *Rand, idx int) Case {
	ws := newWatchScript(r, idx, "lag")
	ids := []string{"a", "b"}

	for i, n := 0, r.Intn(2*ws.initcap+1); i < n; i++ {
		ws.write(r, Pick(r, ids))
	}

	buf := Pick(r, []int{0, 0, 1})
	watchers := []int{
		ws.start(fmt.Sprintf("kind=kind buf=%d", buf)),
		ws.start(fmt.Sprintf("kind=single id=a buf=%d", buf)),
		ws.start(fmt.Sprintf("kind=agg buf=%d", buf)),
		ws.start(fmt.Sprintf("kind=kind sel=k1:v1 buf=%d", buf)),
	}

	ws.recv(watchers[1]) // the initial event of the single watch

	// the events every plain reader takes and then sits on (one in its hands, `buf` in the channel)
	for i := 0; i <= buf; i++ {
		ws.write(r, "a")
	}

	pos := ws.wp
	target := Pick(r, []int{-1, 0, 0, 1})
	occurrence := 1 + r.Intn(2)

	for i := 0; i < 8*ws.maxcap+4; i++ {
		ws.write(r, Pick(r, ids))

		if (ws.wp-pos)-ws.capacity == target {
			if occurrence--; occurrence == 0 {
				break
			}
		}
	}

	for round := 0; round < 3+buf; round++ {
		for _, w := range watchers {
			ws.recv(w)
		}
	}

	ws.write(r, "a")

	for round := 0; round < 2; round++ {
		for _, w := range watchers {
			ws.recv(w)
		}
	}

	ws.add("list", "ns=n1 typ=T1")

	return ws.c
}

// genEdges: after a history that fills (and possibly grows and wraps) the ring, watches of every flavour are resumed
// from the positions at and next to every edge of the acceptance window, in every byte-level variant of the
// bookmark, alone and combined with bootstrap-bookmark; tail requests with bootstrap-bookmark in between.
func (e *watchEng) genEdges(r *Rand, idx int) Case {
	ws := newWatchScript(r, idx, "edges")
	ids := []string{"a", "b"}

	for i, n := 0, 1+r.Intn(3*ws.maxcap+2); i < n; i++ {
		ws.write(r, Pick(r, ids))
	}

	for k := 0; k < 10; k++ {
		flavour := Pick(r, []string{"kind=single id=a", "kind=kind", "kind=agg", "kind=kind sel=k1:v1"})
		rest := flavour

		if !strings.HasPrefix(flavour, "kind=single") && r.Chance(1, 2) {
			rest += " bb=1"
		}

		if r.Chance(1, 5) {
			rest += fmt.Sprintf(" tail=%d", 1+r.Intn(ws.capacity+1))
		} else {
			variant := 15
			if r.Chance(1, 3) {
				variant = r.Intn(6)
			}

			rest += fmt.Sprintf(" bm=%x", watchBookmarkBytes(r, Pick(r, watchEdges(ws.wp, ws.capacity, ws.gap)), variant))
		}

		w := ws.start(rest + fmt.Sprintf(" buf=%d", Pick(r, []int{0, 1, 2})))

		for j := 0; j < 3; j++ {
			ws.recv(w)
		}

		if r.Chance(1, 2) {
			ws.write(r, Pick(r, ids))
			ws.recv(w)
		}

		ws.add("wstop", fmt.Sprintf("w=%d", w))
	}

	return ws.c
}

var processCookie []byte

// cookie obtains this process' bookmark cookie from a bootstrap bookmark.
func cookie(t *testing.T) []byte {
	if processCookie != nil {
		return processCookie
	}

	synctest.Test(t, func(t *testing.T) {
		ctx, cancel := context.WithCancel(context.Background())
		defer cancel()

		st := inmem.NewState("n1")
		ch := make(chan state.Event, 1)

		if err := st.WatchKind(ctx, resource.NewMetadata("n1", "Tc", "", resource.VersionUndefined), ch, state.WithBootstrapBookmark(true)); err != nil {
			panic(err)
		}

		ev := <-ch
		processCookie = append([]byte{}, ev.Bookmark[:8]...)
	})

	return processCookie
}

// BmStr prints bookmark bytes with this process' cookie replaced by the placeholder.
func BmStr(b state.Bookmark) string {
	if b == nil {
		return "-"
	}

	c := append([]byte{}, b...)
	if len(c) >= 8 && processCookie != nil && string(c[:8]) == string(processCookie) {
		copy(c, "COOKIE!!")
	}

	return fmt.Sprintf("%x", c)
}

// EvStr is the canonical form of an event (same as Cosi.Driver.Watch.evStr).
func EvStr(e state.Event) string {
	switch e.Type {
	case state.Errored:
		return "errored"
	case state.Bootstrapped:
		return "bootstrapped~bm=" + BmStr(e.Bookmark)
	case state.Noop:
		return "noop~bm=" + BmStr(e.Bookmark)
	}

	old := "-"
	if e.Old != nil {
		old = ResStr(e.Old)
	}

	return fmt.Sprintf("%s~%s~old=%s~bm=%s", strings.ToLower(e.Type.String()), ResStr(e.Resource), old, BmStr(e.Bookmark))
}

type liveWatch struct {
	cancel context.CancelFunc
	single chan state.Event
	agg    chan []state.Event
}

// MakeBookmark builds the bookmark bytes an op line describes (placeholder → real cookie).
func MakeBookmark(ck []byte, a Args) state.Bookmark {
	b, err := hex.DecodeString(a["bm"])
	if err != nil {
		panic(err)
	}

	if len(b) >= 8 && string(b[:8]) == "COOKIE!!" {
		copy(b, ck)
	} else if len(b) >= 8 && string(b[:8]) == string(ck) {
		b[0] ^= 0xff // keep foreign cookies foreign
	}

	if b == nil {
		b = []byte{}
	}

	return b
}

func startWatch(ctx context.Context, st state.CoreState, ck []byte, a Args) (*liveWatch, error) {
	wctx, cancel := context.WithCancel(ctx)
	lw := &liveWatch{cancel: cancel}
	buf := a.Int("buf")
	md := resource.NewMetadata(a["ns"], a["typ"], a["id"], resource.VersionUndefined)

	var err error

	if a["kind"] == "single" {
		var opts []state.WatchOption

		if a["tail"] != "" {
			opts = append(opts, state.WithTailEvents(a.Int("tail")))
		}

		if _, ok := a["bm"]; ok {
			opts = append(opts, state.WithStartFromBookmark(MakeBookmark(ck, a)))
		}

		lw.single = make(chan state.Event, buf)
		err = st.Watch(wctx, md, lw.single, opts...)
	} else {
		var opts []state.WatchKindOption

		if a["boot"] == "1" {
			opts = append(opts, state.WithBootstrapContents(true))
		}

		if a["bb"] == "1" {
			opts = append(opts, state.WithBootstrapBookmark(true))
		}

		if a["tail"] != "" {
			opts = append(opts, state.WithKindTailEvents(a.Int("tail")))
		}

		if _, ok := a["bm"]; ok {
			opts = append(opts, state.WithKindStartFromBookmark(MakeBookmark(ck, a)))
		}

		if a["sel"] != "" {
			k, v, _ := strings.Cut(a["sel"], ":")

			if k == "@id" { // an ID query: ids starting with v
				opts = append(opts, state.WatchWithIDQuery(resource.IDRegexpMatch(regexp.MustCompile("^"+regexp.QuoteMeta(v)))))
			} else {
				opts = append(opts, state.WatchWithLabelQuery(resource.LabelEqual(k, v)))
			}
		}

		if a["kind"] == "agg" {
			lw.agg = make(chan []state.Event, buf)
			err = st.WatchKindAggregated(wctx, md, lw.agg, opts...)
		} else {
			lw.single = make(chan state.Event, buf)
			err = st.WatchKind(wctx, md, lw.single, opts...)
		}
	}

	if err != nil {
		cancel()

		return nil, err
	}

	return lw, nil
}

func (lw *liveWatch) recv() string {
	if lw.agg != nil {
		select {
		case evs := <-lw.agg:
			parts := make([]string, 0, len(evs))
			for _, e := range evs {
				parts = append(parts, EvStr(e))
			}

			return "batch [" + strings.Join(parts, ";") + "]"
		default:
			return "none"
		}
	}

	select {
	case e := <-lw.single:
		return "ev " + EvStr(e)
	default:
		return "none"
	}
}

func watchStartErr(err error) string {
	// the classification must survive wrapping (a layer in between annotating the error with %w)
	direct, wrapped := state.IsInvalidWatchBookmarkError(err), state.IsInvalidWatchBookmarkError(fmt.Errorf("annotated: %w", err))
	if direct != wrapped {
		return fmt.Sprintf("err class=UNSTABLE-UNDER-WRAPPING(direct=%v,wrapped=%v)", direct, wrapped)
	}

	if direct {
		return "err class=invalidBookmark"
	}

	return "err class=other"
}

// watchBackingStore accepts every write except while `fail` is set. With `preload` it holds resources before the
// first call: Load delivers them, the first Load after waiting for gate1 and any later Load (there must be none: the
// initial load happens once) after waiting for gate2.
type watchBackingStore struct {
	fail    bool
	preload []resource.Resource
	loads   int
	entered chan struct{}
	gate1   chan struct{}
	gate2   chan struct{}
}

// watchPreloadIDs are the resources (type T1, version 1, spec "pre") of a preloaded backing store; the model starts
// from a state in which they were created in this order.
var watchPreloadIDs = []string{"a", "b"}

var errWatchBacking = fmt.Errorf("backing store rejected the write")

func (s *watchBackingStore) Put(context.Context, resource.Type, resource.Resource) error {
	if s.fail {
		return errWatchBacking
	}

	return nil
}

func (s *watchBackingStore) Destroy(context.Context, resource.Type, resource.Pointer) error {
	if s.fail {
		return errWatchBacking
	}

	return nil
}

func (s *watchBackingStore) Load(_ context.Context, h inmem.LoadHandler) error {
	if s.preload == nil {
		return nil
	}

	s.loads++

	if s.loads == 1 {
		close(s.entered)
		<-s.gate1
	} else {
		<-s.gate2
	}

	for _, r := range s.preload {
		if err := h(r.Metadata().Type(), r.DeepCopy()); err != nil {
			return err
		}
	}

	return nil
}

func (e *watchEng) Exec(t *testing.T, c Case) []string {
	_, h := ParseLine(strings.TrimPrefix(c.Header, "#"))
	out := make([]string, 0, len(c.Ops))
	ck := cookie(t)

	synctest.Test(t, func(t *testing.T) {
		ctx, cancel := context.WithCancel(context.Background())
		defer cancel()

		stOpts := []inmem.StateOption{
			inmem.WithHistoryInitialCapacity(h.Int("initcap")),
			inmem.WithHistoryMaxCapacity(h.Int("maxcap")),
			inmem.WithHistoryGap(h.Int("gap")),
		}

		if h["opts"] != "" {
			stOpts = watchStateOptions(h["opts"])
		}

		wbs := &watchBackingStore{}
		if h["bs"] == "1" {
			stOpts = append(stOpts, inmem.WithBackingStore(wbs))
		}

		var st state.CoreState = inmem.NewStateWithOptions(stOpts...)("n1")

		watches := map[string]*liveWatch{}
		release := -1

		if k := h.Int("preload"); k > 0 {
			// the backing store holds k resources; two requests race for the initial (slow) load: the second arrives
			// while the first is loading and waits for it. A second Load, if the state runs one, is held back until
			// operation `release` — by then watches are established and resources may have changed.
			for _, id := range watchPreloadIDs[:k] {
				_, pa := ParseLine(fmt.Sprintf("create ns=n1 typ=T1 id=%s ver=undefined owner= phase=running fins= labels= c=0 u=0 spec=pre as=", id))
				r := BuildRes(pa)
				r.md.SetVersion(resource.VersionUndefined.Next())
				wbs.preload = append(wbs.preload, r)
			}

			wbs.entered, wbs.gate1, wbs.gate2 = make(chan struct{}), make(chan struct{}), make(chan struct{})
			release = h.Int("release")
			ptr := resource.NewMetadata("n1", "T1", watchPreloadIDs[0], resource.VersionUndefined)

			go st.Get(ctx, ptr) //nolint:errcheck

			<-wbs.entered

			go st.Get(ctx, ptr) //nolint:errcheck

			pipeSettle()
			close(wbs.gate1)
			synctest.Wait()
		}

		for i, line := range c.Ops {
			// (a shrunk case may be shorter than `release`: then before its last operation)
			if release >= 0 && (i == release || i == len(c.Ops)-1) {
				close(wbs.gate2)
				synctest.Wait()

				release = -1
			}

			op, a := ParseLine(line)
			if d := fromTick(a.Int("t")).Sub(time.Now()); d > 0 {
				time.Sleep(d)
			}

			res := func() (res string) {
				defer func() {
					if r := recover(); r != nil {
						res = fmt.Sprintf("PANIC %v", r)
					}
				}()

				switch op {
				case "wstart":
					lw, err := startWatch(ctx, st, ck, a)
					if err != nil {
						return watchStartErr(err)
					}

					watches[a["w"]] = lw

					return "ok"
				case "recv":
					lw := watches[a["w"]]
					if lw == nil {
						return "none"
					}

					return lw.recv()
				case "wstop":
					if lw := watches[a["w"]]; lw != nil {
						lw.cancel()
						delete(watches, a["w"])
					}

					return "ok"
				default:
					wbs.fail = a["bsfail"] == "1"
					defer func() { wbs.fail = false }()

					return ExecStoreOp(ctx, st, line)
				}
			}()

			synctest.Wait()

			out = append(out, res)
		}

		if release >= 0 {
			close(wbs.gate2)
		}

		cancel()
		synctest.Wait()
	})

	return out
}
