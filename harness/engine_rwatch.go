package harness

import (
	"context"
	"fmt"
	"io"
	"regexp"
	"sort"
	"strings"
	"sync"
	"testing"
	"testing/synctest"
	"time"

	"google.golang.org/grpc"
	"google.golang.org/grpc/codes"
	"google.golang.org/grpc/metadata"
	"google.golang.org/grpc/status"
	"google.golang.org/protobuf/proto"

	"github.com/cosi-project/runtime/api/v1alpha1"
	"github.com/cosi-project/runtime/pkg/resource"
	"github.com/cosi-project/runtime/pkg/resource/protobuf"
	"github.com/cosi-project/runtime/pkg/state"
	"github.com/cosi-project/runtime/pkg/state/impl/inmem"
	"github.com/cosi-project/runtime/pkg/state/protobuf/client"
	"github.com/cosi-project/runtime/pkg/state/protobuf/server"
)

// engine rwatch (C13): the real client.Adapter watch loop (watchAdapter / recvMessage with
// its retry loop and back-off) over the real server.State Watch handler over the real
// inmem state with a small history, connected by an IN-MEMORY TRANSPORT implemented here
// (rwShim: v1alpha1.StateClient whose Watch runs the server handler in a goroutine and
// couples the generated stream interfaces by a channel; every message goes through a
// protobuf marshal/unmarshal round trip). No sockets: everything runs inside a synctest
// bubble, the retry back-off costs no wall time. Faults: break a stream now / after n
// more messages (Recv returns codes.Unavailable, everything in flight is dropped, the
// handler's context is cancelled) — or END it CLEANLY (clean=1: Recv returns io.EOF, what the
// client sees when the server side finishes the stream with status OK: a draining server, a
// proxy) —, fail the next k re-establishments (dial error or first Recv error, the latter
// again either way), fail them until the back-off gives up, let a dial hang while writes go on
// (hold … heal), replace the serving process (restart: new empty state, old bookmarks are
// foreign), let virtual time pass (age). Compared op by op with Cosi.Model.RWatch
// (Cosi.Driver.RWatch) and, on every recv, the concatenated client-side stream with a
// DIRECT watch on the backing state started in the same op (`pfx=ok`: client stream minus
// its terminal Errored events is a prefix of the direct stream; the bootstrap-bookmark
// Noop is ignored on both sides).

func init() { Register("rwatch", func() Engine { return &rwEng{} }) }

type rwEng struct {
	stats map[string]int
}

func (e *rwEng) count(k string, n int) {
	if e.stats == nil {
		e.stats = map[string]int{}
	}

	e.stats[k] += n
}

// Notes reports what the executed cases exercised (evidence only).
func (e *rwEng) Notes() []string {
	ks := make([]string, 0, len(e.stats))
	for k := range e.stats {
		ks = append(ks, k)
	}

	sort.Strings(ks)

	parts := make([]string, 0, len(ks))
	for _, k := range ks {
		parts = append(parts, fmt.Sprintf("%s=%d", k, e.stats[k]))
	}

	return []string{"rwatch exercised: " + strings.Join(parts, " ")}
}

func (*rwEng) Name() string { return "rwatch" }

var _ = sort.Strings

func (*rwEng) Cases(thorough bool) int {
	if thorough {
		return 25000
	}

	return 500
}

func (*rwEng) Rule() string {
	return "corpus: for single / kind / aggregated (bootstrap, bootstrap-bookmark, label selector) watches a fixed script of writes and receives with a transport failure inserted at EVERY op position, combined with 0,1,2,3,5 writes during a hanging re-establishment (history 4, gap 1: straddles the bookmark window and the overrun bound), 0..2 failed re-establishments (dial / first Recv), two wire/buffer settings, plus all pairs of failure positions; random: history 1..6, up to 2 remote watches, writes, receives, failures now / after n messages — a third of them a CLEAN end of stream (io.EOF) instead of a transport error, also for the first Recv of failed re-establishments —, failed re-establishments, hanging dials with writes, retries disabled, persistent failure until the back-off stops, ageing beyond MaxElapsedTime, server restarts; non-trivial = >= 1 failure injected, >= 3 deliveries received and (a re-issued Watch call was seen or an Errored was delivered); distinct by hash of the op lines"
}

func (*rwEng) NonTrivial(c Case, out []string) bool {
	fails, recvd, special := 0, 0, false

	for i, o := range out {
		op := opName(c.Ops[i])
		if op == "fail" || op == "restart" {
			fails++
		}

		if op == "recv" && !strings.HasSuffix(o, "d=none") {
			recvd++
		}

		if strings.Contains(o, "errored") || (strings.HasPrefix(o, "stat calls=") && o != "stat calls=0") {
			special = true
		}
	}

	return fails >= 1 && recvd >= 3 && special
}

// ---------------------------------------------------------------------------
// the in-memory transport

// rwPadOf: upper bound in whole seconds of NextBackOff at interval index i (see Cosi.Driver.RWatch.padOf).
func rwPadOf(i int) int {
	t := []int{1, 2, 2, 3, 4, 6, 9, 13, 20, 29, 44, 65}
	if i < len(t) {
		return t[i]
	}

	return 91
}

const rwForeverPad = 1300

type rwKey struct{}

type rwAwait struct {
	deadline time.Time
	idx      int
}

type rwWatchState struct {
	stream    *rwStream
	await     *rwAwait
	release   chan struct{}
	wid       int
	inc       int
	idx       int
	calls     int
	failAfter int
	reestFail int
	modeFirst bool
	forever   bool
	clean     bool // Recv errors of the current fault are io.EOF (clean end of stream), not a status error
	hold      bool
	ended     bool // the client goroutine returned (inferred)
}

type rwShim struct {
	core     state.CoreState
	srv      *server.State
	progress chan struct{}
	watches  map[int]*rwWatchState
	newCore  func() state.CoreState
	panicMsg string
	mu       sync.Mutex
	inc      int
	wire     int
	pad      int
}

func (s *rwShim) signal() {
	select {
	case s.progress <- struct{}{}:
	default:
	}
}

type rwStream struct {
	ctx       context.Context //nolint:containedctx
	cctx      context.Context //nolint:containedctx // the client's context
	err       error
	shim      *rwShim
	ws        *rwWatchState
	cancel    context.CancelFunc
	wire      chan *v1alpha1.WatchResponse
	failCh    chan struct{}
	done      chan struct{}
	inc       int
	recvd     int
	retry     bool
	failFirst bool
	failed    bool
	gotMsg    bool
}

// failLocked breaks the stream: Recv returns a transport error from now on, everything
// in flight is dropped, the handler's context is cancelled.
func (st *rwStream) failLocked() {
	if st.failed {
		return
	}

	st.failed = true
	close(st.failCh)

	if st.cancel != nil {
		st.cancel()
	}
}

func rwRoundTrip[T proto.Message](m T, fresh T) T {
	b, err := proto.Marshal(m)
	if err != nil {
		panic(err)
	}

	if err = proto.Unmarshal(b, fresh); err != nil {
		panic(err)
	}

	return fresh
}

// handErrLocked returns a transport error (or, for a clean end of stream, io.EOF from Recv) to
// the client and starts waiting for its reaction (a re-issued Watch call within the largest
// possible back-off delay, or nothing).
func (s *rwShim) handErrLocked(ws *rwWatchState, ctx context.Context, dial bool) error {
	ws.stream = nil

	if ctx.Err() == nil {
		ws.await = &rwAwait{idx: ws.idx, deadline: time.Now().Add(time.Duration(rwPadOf(ws.idx)) * time.Second)}
	}

	s.signal()

	if ws.clean && !dial {
		return io.EOF
	}

	return status.Error(codes.Unavailable, "injected transport failure")
}

func (s *rwShim) Watch(ctx context.Context, req *v1alpha1.WatchRequest, _ ...grpc.CallOption) (grpc.ServerStreamingClient[v1alpha1.WatchResponse], error) {
	ws, _ := ctx.Value(rwKey{}).(*rwWatchState)
	if ws == nil {
		return nil, status.Error(codes.Internal, "harness: watch without state")
	}

	s.mu.Lock()

	retry := ws.await != nil

	if retry {
		if !ws.forever {
			s.pad += rwPadOf(ws.await.idx)
		}

		ws.idx++
		ws.calls++
		ws.await = nil
		s.signal()

		if ws.hold {
			ws.hold = false
			rel := make(chan struct{})
			ws.release = rel
			s.mu.Unlock()

			select {
			case <-rel:
			case <-ctx.Done():
				return nil, status.FromContextError(ctx.Err()).Err()
			}

			s.mu.Lock()
		}

		if ws.forever || ws.reestFail > 0 {
			if !ws.forever {
				ws.reestFail--
			}

			if !ws.modeFirst {
				err := s.handErrLocked(ws, ctx, true)
				s.mu.Unlock()

				return nil, err
			}

			st := &rwStream{shim: s, ws: ws, ctx: ctx, cctx: ctx, failFirst: true, retry: true, failCh: make(chan struct{}), done: make(chan struct{})}
			ws.stream = st
			s.mu.Unlock()

			return rwCliStream{st}, nil
		}
	}

	req2 := rwRoundTrip(req, &v1alpha1.WatchRequest{})
	if b := req2.GetOptions().GetStartFromBookmark(); len(b) > 0 {
		b[0] ^= byte(s.inc) // a bookmark of another incarnation carries a foreign cookie
	}

	sctx, cancel := context.WithCancel(ctx)
	st := &rwStream{
		shim: s, ws: ws, ctx: sctx, cctx: ctx, cancel: cancel, inc: s.inc, retry: retry,
		wire: make(chan *v1alpha1.WatchResponse, s.wire), failCh: make(chan struct{}), done: make(chan struct{}),
	}
	ws.stream = st
	srv := s.srv
	s.mu.Unlock()

	go func() {
		defer close(st.done)
		defer func() {
			if r := recover(); r != nil {
				s.mu.Lock()
				s.panicMsg = fmt.Sprint(r)
				s.mu.Unlock()

				st.err = status.Error(codes.Internal, "handler panic")
			}
		}()

		st.err = srv.Watch(req2, rwSrvStream{st})
	}()

	return rwCliStream{st}, nil
}

type rwSrvStream struct{ st *rwStream }

func (x rwSrvStream) Send(m *v1alpha1.WatchResponse) error {
	m2 := rwRoundTrip(m, &v1alpha1.WatchResponse{})

	for _, ev := range m2.GetEvent() {
		if len(ev.Bookmark) > 0 {
			ev.Bookmark[0] ^= byte(x.st.inc)
		}
	}

	select {
	case x.st.wire <- m2:
		return nil
	case <-x.st.ctx.Done():
		return status.Error(codes.Unavailable, "transport is closing")
	}
}

func (x rwSrvStream) SetHeader(metadata.MD) error  { return nil }
func (x rwSrvStream) SendHeader(metadata.MD) error { return nil }
func (x rwSrvStream) SetTrailer(metadata.MD)       {}
func (x rwSrvStream) Context() context.Context     { return x.st.ctx }
func (x rwSrvStream) SendMsg(any) error            { return status.Error(codes.Internal, "not used") }
func (x rwSrvStream) RecvMsg(any) error            { return status.Error(codes.Internal, "not used") }

type rwCliStream struct{ st *rwStream }

func (x rwCliStream) Recv() (*v1alpha1.WatchResponse, error) {
	st := x.st
	s := st.shim

	s.mu.Lock()

	if st.failFirst || st.failed {
		st.failed = true
		err := s.handErrLocked(st.ws, st.cctx, false)
		s.mu.Unlock()

		return nil, err
	}

	s.mu.Unlock()

	select {
	case m := <-st.wire:
		s.mu.Lock()
		defer s.mu.Unlock()

		if st.failed { // the failure won the race: the message is lost
			return nil, s.handErrLocked(st.ws, st.cctx, false)
		}

		st.recvd++

		if st.recvd > 1 { // the first message is the empty "watch is ready" signal
			if st.retry && !st.gotMsg {
				st.ws.idx = 0 // client.go:693 backoff.Reset()
			}

			st.gotMsg = true

			if st.ws.failAfter > 0 {
				st.ws.failAfter--
				if st.ws.failAfter == 0 {
					st.failLocked()
				}
			}
		}

		return m, nil
	case <-st.failCh:
		s.mu.Lock()
		defer s.mu.Unlock()

		return nil, s.handErrLocked(st.ws, st.cctx, false)
	case <-st.done:
		s.mu.Lock()
		defer s.mu.Unlock()

		if st.failed {
			return nil, s.handErrLocked(st.ws, st.cctx, false)
		}

		err := st.err

		switch {
		case err == nil:
			err = status.Error(codes.Unavailable, "stream closed by the server")
		case status.Code(err) == codes.FailedPrecondition:
			// the client gives up (client.go:472 / :685)
			st.ws.stream = nil
			st.ws.ended = true
			s.signal()

			return nil, err
		default:
			if _, ok := status.FromError(err); !ok {
				err = status.Error(codes.Unknown, err.Error())
			}
		}

		if !st.retry && st.recvd == 0 { // initial establishment refused: Adapter.Watch returns the error
			st.ws.stream = nil

			return nil, err
		}

		_ = s.handErrLocked(st.ws, st.cctx, false)

		return nil, err
	case <-st.ctx.Done():
		return nil, status.FromContextError(st.ctx.Err()).Err()
	}
}

func (x rwCliStream) Header() (metadata.MD, error) { return nil, nil }
func (x rwCliStream) Trailer() metadata.MD         { return nil }
func (x rwCliStream) CloseSend() error             { return nil }
func (x rwCliStream) Context() context.Context     { return x.st.ctx }
func (x rwCliStream) SendMsg(any) error            { return status.Error(codes.Internal, "not used") }
func (x rwCliStream) RecvMsg(any) error            { return status.Error(codes.Internal, "not used") }

var errRwUnimplemented = status.Error(codes.Unimplemented, "harness transport: only Watch is wired")

func (s *rwShim) Get(context.Context, *v1alpha1.GetRequest, ...grpc.CallOption) (*v1alpha1.GetResponse, error) {
	return nil, errRwUnimplemented
}

func (s *rwShim) List(context.Context, *v1alpha1.ListRequest, ...grpc.CallOption) (grpc.ServerStreamingClient[v1alpha1.ListResponse], error) {
	return nil, errRwUnimplemented
}

func (s *rwShim) Create(context.Context, *v1alpha1.CreateRequest, ...grpc.CallOption) (*v1alpha1.CreateResponse, error) {
	return nil, errRwUnimplemented
}

func (s *rwShim) Update(context.Context, *v1alpha1.UpdateRequest, ...grpc.CallOption) (*v1alpha1.UpdateResponse, error) {
	return nil, errRwUnimplemented
}

func (s *rwShim) Destroy(context.Context, *v1alpha1.DestroyRequest, ...grpc.CallOption) (*v1alpha1.DestroyResponse, error) {
	return nil, errRwUnimplemented
}

func (s *rwShim) Teardown(context.Context, *v1alpha1.TeardownRequest, ...grpc.CallOption) (*v1alpha1.TeardownResponse, error) {
	return nil, errRwUnimplemented
}

func (s *rwShim) TeardownAndDestroy(context.Context, *v1alpha1.TeardownAndDestroyRequest, ...grpc.CallOption) (*v1alpha1.TeardownAndDestroyResponse, error) {
	return nil, errRwUnimplemented
}

// settle lets every goroutine run until it blocks and waits out (in virtual time) the
// client's reaction to every transport error handed to it; s.pad accumulates the
// allowance the nominal clock is advanced by.
func (s *rwShim) settle() {
	for {
		synctest.Wait()

		s.mu.Lock()

		var ws *rwWatchState

		for _, w := range s.watches {
			if w.await != nil && (ws == nil || w.wid < ws.wid) {
				ws = w
			}
		}

		if ws == nil {
			s.mu.Unlock()

			return
		}

		aw := ws.await
		d := time.Until(aw.deadline)

		if d <= 0 { // no re-issued Watch call: the client goroutine returned
			if ws.forever {
				s.pad += rwForeverPad
			} else {
				s.pad += rwPadOf(aw.idx)
			}

			ws.await = nil
			ws.ended = true
			s.mu.Unlock()

			continue
		}

		s.mu.Unlock()

		t := time.NewTimer(d)

		select {
		case <-s.progress:
			t.Stop()
		case <-t.C:
		}
	}
}

// ---------------------------------------------------------------------------
// the engine

var rwRegister sync.Once

type rwLive struct {
	ws     *rwWatchState
	direct *liveWatch
	cancel context.CancelFunc
	single chan state.Event
	agg    chan []state.Event
	got    []string
	dgot   []string
}

// rwEvStr is EvStr for an event that went through the wire: the incarnation mark is
// taken off the bookmark and a resource that was a tombstone on the server (undefined
// version; it arrives as a spec-less resource) is printed as one.
func rwEvStr(e state.Event, inc int) string {
	if e.Type == state.Errored && state.IsInvalidWatchBookmarkError(e.Error) {
		return "errored~invalidBookmark"
	}

	if e.Bookmark != nil {
		b := append([]byte{}, e.Bookmark...)
		if len(b) > 0 {
			b[0] ^= byte(inc)
		}

		e.Bookmark = b
	}

	if e.Type == state.Destroyed && e.Resource != nil && e.Resource.Metadata().Version().String() == resource.VersionUndefined.String() {
		e.Resource = resource.NewTombstone(*e.Resource.Metadata())
	}

	return EvStr(e)
}

func (lw *rwLive) recv() string {
	if lw.agg != nil {
		select {
		case evs := <-lw.agg:
			parts := make([]string, 0, len(evs))
			for _, e := range evs {
				parts = append(parts, rwEvStr(e, lw.ws.inc))
			}

			lw.got = append(lw.got, parts...)

			return "batch:[" + strings.Join(parts, ";") + "]"
		default:
			return "none"
		}
	}

	select {
	case e := <-lw.single:
		s := rwEvStr(e, lw.ws.inc)
		lw.got = append(lw.got, s)

		return "ev:" + s
	default:
		return "none"
	}
}

// pfx compares what the subscriber of the remote watch has received so far with the
// direct watch on the backing state.
func (lw *rwLive) pfx() string {
	for {
		var evs []state.Event

		if lw.direct.agg != nil {
			select {
			case evs = <-lw.direct.agg:
			default:
			}
		} else {
			select {
			case e := <-lw.direct.single:
				evs = []state.Event{e}
			default:
			}
		}

		if evs == nil {
			break
		}

		for _, e := range evs {
			lw.dgot = append(lw.dgot, EvStr(e))
		}
	}

	noNoop := func(l []string) []string {
		r := make([]string, 0, len(l))

		for _, x := range l {
			if !strings.HasPrefix(x, "noop~") {
				r = append(r, x)
			}
		}

		return r
	}

	got, dgot := noNoop(lw.got), noNoop(lw.dgot)

	// at most two terminal Errored events: the server's overrun error and the client's own
	for k := 0; k < 2 && len(got) > 0 && strings.HasPrefix(got[len(got)-1], "errored"); k++ {
		got = got[:len(got)-1]
	}

	if len(got) > len(dgot) {
		return fmt.Sprintf("LONGER(%d>%d)", len(got), len(dgot))
	}

	for i := range got {
		if got[i] != dgot[i] {
			return fmt.Sprintf("MISMATCH(at=%d)", i)
		}
	}

	return "ok"
}

func (e *rwEng) Exec(t *testing.T, c Case) []string {
	_, h := ParseLine(strings.TrimPrefix(c.Header, "#"))
	out := make([]string, 0, len(c.Ops))
	ck := cookie(t)

	rwRegister.Do(func() {
		for _, typ := range []string{"R1", "R2"} {
			if err := protobuf.RegisterResource(typ, &TRes{}); err != nil {
				panic(err)
			}
		}
	})

	synctest.Test(t, func(t *testing.T) {
		ctx, cancel := context.WithCancel(context.Background())
		defer cancel()

		newCore := func() state.CoreState {
			return inmem.NewStateWithOptions(
				inmem.WithHistoryInitialCapacity(h.Int("initcap")),
				inmem.WithHistoryMaxCapacity(h.Int("maxcap")),
				inmem.WithHistoryGap(h.Int("gap")),
			)("n1")
		}

		shim := &rwShim{progress: make(chan struct{}, 1), watches: map[int]*rwWatchState{}, wire: h.Int("wire")}
		shim.core = newCore()
		shim.srv = server.NewState(shim.core)

		watches := map[string]*rwLive{}
		nominal := time.Now()

		for _, line := range c.Ops {
			op, a := ParseLine(line)

			if d := time.Until(nominal); d > 0 {
				time.Sleep(d)
			}

			shim.mu.Lock()
			shim.pad = 0
			shim.mu.Unlock()

			extra := 0

			res := func() (res string) {
				defer func() {
					if r := recover(); r != nil {
						res = fmt.Sprintf("PANIC %v", r)
					}
				}()

				switch op {
				case "wstart":
					ws := &rwWatchState{wid: a.Int("w"), inc: shim.inc}
					wctx, wcancel := context.WithCancel(context.WithValue(ctx, rwKey{}, ws))
					lw := &rwLive{ws: ws, cancel: wcancel}

					shim.mu.Lock()
					shim.watches[ws.wid] = ws
					shim.mu.Unlock()

					var copts []client.AdapterOption
					if a["retry"] == "0" {
						copts = append(copts, client.WithDisableWatchRetry())
					}

					adapter := client.NewAdapter(shim, copts...)
					md := resource.NewMetadata(a["ns"], a["typ"], a["id"], resource.VersionUndefined)

					var err error

					if a["kind"] == "single" {
						var opts []state.WatchOption

						if a["tail"] != "" {
							opts = append(opts, state.WithTailEvents(a.Int("tail")))
						}

						lw.single = make(chan state.Event, a.Int("buf"))
						err = adapter.Watch(wctx, md, lw.single, opts...)
					} else {
						var opts []state.WatchKindOption

						if a["boot"] == "1" {
							opts = append(opts, state.WithBootstrapContents(true))
						}

						if a["bb"] == "1" {
							opts = append(opts, state.WithBootstrapBookmark(true))
						}

						if a["tail"] != "" {
							opts = append(opts, state.WithKindTailEvents(a.Int("tail")))
						}

						if a["sel"] != "" {
							k, v, _ := strings.Cut(a["sel"], ":")

							if k == "@id" { // an ID query: ids starting with v
								opts = append(opts, state.WatchWithIDQuery(resource.IDRegexpMatch(regexp.MustCompile("^"+regexp.QuoteMeta(v)))))
							} else {
								opts = append(opts, state.WatchWithLabelQuery(resource.LabelEqual(k, v)))
							}
						}

						if a["kind"] == "agg" {
							lw.agg = make(chan []state.Event, a.Int("buf"))
							err = adapter.WatchKindAggregated(wctx, md, lw.agg, opts...)
						} else {
							lw.single = make(chan state.Event, a.Int("buf"))
							err = adapter.WatchKind(wctx, md, lw.single, opts...)
						}
					}

					if err != nil {
						wcancel()

						shim.mu.Lock()
						delete(shim.watches, ws.wid)
						shim.mu.Unlock()

						return watchStartErr(err)
					}

					// the reference: a direct watch on the backing state, same options, same instant
					da := Args{}
					for k, v := range a {
						da[k] = v
					}

					da["buf"] = "8192"

					direct, derr := startWatch(wctx, shim.core, ck, da)
					if derr != nil {
						wcancel()

						return "err direct-watch-failed"
					}

					lw.direct = direct
					watches[a["w"]] = lw

					return "ok"
				case "recv":
					lw := watches[a["w"]]
					if lw == nil {
						return "rv pfx=ok e=0 d=none"
					}

					d := lw.recv()
					e := 0

					if strings.Contains(d, "errored") {
						e = 1
					}

					return fmt.Sprintf("rv pfx=%s e=%d d=%s", lw.pfx(), e, d)
				case "fail":
					shim.mu.Lock()
					defer shim.mu.Unlock()

					ws := shim.watches[a.Int("w")]
					if ws == nil || ws.ended || ws.stream == nil || ws.stream.failed {
						return "ok"
					}

					ws.reestFail, ws.forever = a.Int("reest"), a["reest"] == "inf"
					ws.modeFirst, ws.hold, ws.clean = a["mode"] == "first", a["hold"] == "1", a["clean"] == "1"
					ws.failAfter = a.Int("after")

					if ws.failAfter == 0 {
						ws.stream.failLocked()
					}

					return "ok"
				case "heal":
					shim.mu.Lock()
					defer shim.mu.Unlock()

					if ws := shim.watches[a.Int("w")]; ws != nil {
						ws.hold = false

						if ws.release != nil {
							close(ws.release)
							ws.release = nil
						}
					}

					return "ok"
				case "restart":
					shim.mu.Lock()
					defer shim.mu.Unlock()

					shim.inc++
					shim.core = newCore()
					shim.srv = server.NewState(shim.core)

					for _, ws := range shim.watches {
						if ws.stream != nil && !ws.stream.failed && !ws.ended {
							ws.failAfter = 0
							ws.clean = false
							ws.stream.failLocked()
						}
					}

					return "ok"
				case "age":
					extra = 2000

					return "ok"
				case "rstat":
					shim.mu.Lock()
					defer shim.mu.Unlock()

					ws := shim.watches[a.Int("w")]
					if ws == nil || watches[a["w"]] == nil {
						return "stat none"
					}

					if ws.forever {
						return "stat calls=inf"
					}

					return fmt.Sprintf("stat calls=%d", ws.calls)
				case "wstop":
					lw := watches[a["w"]]
					if lw == nil {
						return "ok pfx=ok"
					}

					p := lw.pfx()
					lw.cancel()
					delete(watches, a["w"])

					shim.mu.Lock()
					if ws := shim.watches[a.Int("w")]; ws != nil {
						ws.await = nil
						ws.ended = true

						if ws.release != nil {
							close(ws.release)
							ws.release = nil
						}
					}

					delete(shim.watches, a.Int("w"))
					shim.mu.Unlock()

					return "ok pfx=" + p
				default:
					return ExecStoreOp(ctx, shim.core, line)
				}
			}()

			shim.settle()

			shim.mu.Lock()
			if shim.panicMsg != "" {
				res = "PANIC handler: " + shim.panicMsg
				shim.panicMsg = ""
			}

			nominal = nominal.Add(time.Duration(1+shim.pad+extra) * time.Second)
			shim.mu.Unlock()

			out = append(out, res)
		}

		cancel()
		synctest.Wait()
	})

	resumed := map[string]bool{}

	for i, o := range out {
		op, a := ParseLine(c.Ops[i])

		switch {
		case op == "recv" && strings.Contains(o, "errored~invalidBookmark"):
			e.count("terminal_invalid_bookmark", 1)
		case op == "recv" && strings.Contains(o, "errored"):
			e.count("terminal_or_overrun_errored", 1)
		case op == "recv" && !strings.HasSuffix(o, "d=none") && resumed[a["w"]]:
			e.count("deliveries_after_resumption", 1)
		case op == "rstat" && strings.HasPrefix(o, "stat calls=") && o != "stat calls=0":
			e.count("watches_with_reissued_watch", 1)
		case op == "fail":
			e.count("failures_injected", 1)
			resumed[a["w"]] = true
		case op == "restart":
			e.count("restarts", 1)
		}

		if strings.Contains(o, "pfx=") && !strings.Contains(o, "pfx=ok") {
			e.count("pfx_mismatch", 1)
		}
	}

	return out
}

// ---------------------------------------------------------------------------
// cases

type rwScript struct {
	ops  []string
	vers map[string]int
}

func (s *rwScript) write(id, lab string) {
	if s.vers == nil {
		s.vers = map[string]int{}
	}

	v := s.vers[id]
	if v == 0 {
		s.ops = append(s.ops, fmt.Sprintf("create ns=n1 typ=R1 id=%s ver=undefined owner= phase=running fins= labels=%s c=0 u=0 spec=s0 as=", id, lab))
	} else {
		s.ops = append(s.ops, fmt.Sprintf("update ns=n1 typ=R1 id=%s ver=%d owner= phase=running fins= labels=%s c=0 u=0 spec=s%d as= exp=any", id, v, lab, v%3))
	}

	s.vers[id] = v + 1
}

func (s *rwScript) destroy(id string) {
	s.ops = append(s.ops, fmt.Sprintf("destroy ns=n1 typ=R1 id=%s as=", id))
	s.vers[id] = 0
}

// rwFault is the block inserted at a failure position: break the stream (clean: end it with
// io.EOF instead of a transport error); with outage > 0 the first re-establishment hangs while
// `outage` writes to another id go on.
func rwFault(s *rwScript, outage, reest int, first, clean bool) {
	op := "fail w=1 after=0"
	if clean {
		op += " clean=1"
	}

	if reest > 0 {
		op += fmt.Sprintf(" reest=%d", reest)

		if first {
			op += " mode=first"
		}
	}

	if outage == 0 {
		s.ops = append(s.ops, op)

		return
	}

	s.ops = append(s.ops, op+" hold=1")

	for i := 0; i < outage; i++ {
		s.write("z", "")
	}

	s.ops = append(s.ops, "heal w=1")
}

// rwBase builds the corpus script with fault blocks inserted before the ops numbered in `at`.
func rwBase(wstart string, at map[int][4]int) []string {
	s := &rwScript{}
	s.write("a", "k1:v1")
	s.write("b", "")
	s.ops = append(s.ops, wstart)

	pos := 0
	step := func(f func()) {
		if x, ok := at[pos]; ok {
			rwFault(s, x[0], x[1], x[2] == 1, x[3] == 1)
		}

		pos++

		f()
	}
	recv := func() { s.ops = append(s.ops, "recv w=1") }

	step(recv)
	step(recv)
	step(recv)
	step(func() { s.write("a", "k1:v1") })
	step(recv)
	step(func() { s.write("b", "k1:v1") })
	step(recv)
	step(func() { s.write("c", "k1:v1") })
	step(recv)
	step(func() { s.write("a", "") })
	step(recv)
	step(func() { s.write("c", "k1:v1") })
	step(recv)
	step(func() { s.destroy("b") })
	step(recv)
	step(recv)
	step(recv)
	step(recv)
	s.ops = append(s.ops, "recv w=1", "recv w=1", "recv w=1", "rstat w=1", "wstop w=1")

	return s.ops
}

const rwBaseSteps = 19

func (*rwEng) Corpus(thorough bool) []Case {
	var cases []Case

	flavours := []string{
		"kind=single id=a",
		"kind=kind",
		"kind=kind boot=1",
		"kind=kind boot=1 bb=1 sel=k1:v1",
		"kind=agg",
		"kind=agg boot=1 bb=1",
		"kind=kind tail=1",
	}

	settings := [][2]int{{0, 0}, {1, 1}}
	if thorough {
		settings = [][2]int{{0, 0}, {0, 1}, {1, 0}, {1, 1}, {2, 2}, {0, 2}, {2, 0}}
	}

	n := 0
	add := func(wire, buf int, fl string, at map[int][4]int, tag string) {
		cases = append(cases, Case{
			Header: fmt.Sprintf("# engine=rwatch initcap=4 maxcap=4 gap=1 wire=%d case=corpus-%d-%s", wire, n, tag),
			Ops:    rwBase(fmt.Sprintf("wstart w=1 ns=n1 typ=R1 %s buf=%d retry=1", fl, buf), at),
		})
		n++
	}

	for _, set := range settings {
		for _, fl := range flavours {
			// no failure at all: the reference run
			add(set[0], set[1], fl, nil, "none")

			// one failure at every position x outage lengths around the bookmark window
			for p := 0; p < rwBaseSteps; p++ {
				for _, outage := range []int{0, 1, 2, 3, 5} {
					add(set[0], set[1], fl, map[int][4]int{p: {outage, (p + outage) % 3, p % 2, (p/2 + outage) % 2}}, fmt.Sprintf("p%d-o%d", p, outage))
				}
			}
		}

		// repetitions: all pairs of positions
		for _, fl := range []string{"kind=kind boot=1", "kind=agg", "kind=single id=a"} {
			for p := 0; p < rwBaseSteps; p++ {
				for q := p; q < rwBaseSteps; q++ {
					if q == p {
						continue
					}

					add(set[0], set[1], fl, map[int][4]int{p: {0, 0, 0, p % 2}, q: {(p + q) % 3, q % 2, q % 2, (p + q/2) % 2}}, fmt.Sprintf("p%d-q%d", p, q))
				}
			}
		}
	}

	// property-permitted quirks of the unchanged tree, pinned (see Cosi/Props/C13.lean examples):
	// A the bootstrap-bookmark Noop is lost when the stream fails between Bootstrapped and Noop,
	// B a watch older than MaxElapsedTime gives up on its first failure without re-issuing Watch,
	// C the server's overrun Errored followed by a transport failure yields a second Errored
	mk := func(id string) string {
		return fmt.Sprintf("create ns=n1 typ=R1 id=%s ver=undefined owner= phase=running fins= labels= c=0 u=0 spec=s0 as=", id)
	}

	cases = append(cases,
		Case{Header: "# engine=rwatch initcap=4 maxcap=4 gap=1 wire=0 case=quirk-A-noop-lost", Ops: []string{
			mk("a"), "wstart w=1 ns=n1 typ=R1 kind=kind boot=1 bb=1 buf=0 retry=1", "recv w=1", "fail w=1 after=0", "recv w=1",
			mk("b"), "recv w=1", "recv w=1", "rstat w=1", "wstop w=1",
		}},
		Case{Header: "# engine=rwatch initcap=4 maxcap=4 gap=1 wire=0 case=quirk-B-aged-watch-gives-up", Ops: []string{
			"wstart w=1 ns=n1 typ=R1 kind=kind buf=0 retry=1", mk("a"), "recv w=1", "age", "fail w=1 after=0", "recv w=1", "rstat w=1", "wstop w=1",
		}},
		Case{Header: "# engine=rwatch initcap=1 maxcap=1 gap=0 wire=0 case=quirk-C-two-errored", Ops: []string{
			"wstart w=1 ns=n1 typ=R1 kind=kind buf=0 retry=1", mk("a"), mk("b"), mk("c"), mk("d"), mk("e"),
			"recv w=1", "recv w=1", "recv w=1", "recv w=1", "fail w=1 after=0", "recv w=1", "recv w=1", "wstop w=1",
		}},
	)

	// the SERVER's own watch failure (the inner watcher falls behind a history of 2 while the
	// subscriber does not receive) must reach the subscriber of every kind of remote watch as an
	// Errored event — for the single-resource watch too, which has no other use for ApiVersion 1
	for _, fl := range []string{"kind=single id=a", "kind=kind", "kind=agg", "kind=single id=a tail=1"} {
		s := &rwScript{}
		s.write("a", "")
		s.ops = append(s.ops, "wstart w=1 ns=n1 typ=R1 "+fl+" buf=0 retry=1", "recv w=1")
		// more events of the watched resource than handler, transport and client goroutine hold …
		for i := 0; i < 5; i++ {
			s.write("a", "")
		}

		// … then the writers run away from the inner watcher
		for i := 0; i < 5; i++ {
			s.write("b", "")
		}

		s.ops = append(s.ops, "recv w=1", "recv w=1", "recv w=1", "recv w=1", "recv w=1", "recv w=1", "recv w=1", "recv w=1", "rstat w=1", "wstop w=1")
		cases = append(cases, Case{Header: "# engine=rwatch initcap=2 maxcap=2 gap=0 wire=0 case=server-overrun-" + strings.ReplaceAll(fl, " ", "-"), Ops: s.ops})
	}

	// a CLEAN end of stream (io.EOF) in each situation in which the property demands a terminal
	// Errored (no bookmark seen yet / retries disabled / back-off exhausted, also with the first
	// Recv of every re-established stream ending cleanly), and one in which the watch must resume
	for _, fl := range []string{"kind=single id=a", "kind=kind", "kind=agg", "kind=kind boot=1"} {
		cases = append(cases, Case{Header: "# engine=rwatch initcap=4 maxcap=4 gap=1 wire=0 case=eos-no-bookmark-" + strings.ReplaceAll(fl, " ", "-"), Ops: []string{
			mk("a"), "wstart w=1 ns=n1 typ=R1 " + fl + " buf=0 retry=1", "recv w=1", "fail w=1 after=0 clean=1", "recv w=1", mk("b"), "recv w=1",
			"rstat w=1", "wstop w=1",
		}})
	}

	cases = append(cases,
		Case{Header: "# engine=rwatch initcap=4 maxcap=4 gap=1 wire=0 case=eos-retry-disabled", Ops: []string{
			"wstart w=1 ns=n1 typ=R1 kind=kind buf=0 retry=0", mk("a"), "recv w=1", "fail w=1 after=0 clean=1", "recv w=1", mk("b"), "recv w=1",
			"rstat w=1", "wstop w=1",
		}},
		Case{Header: "# engine=rwatch initcap=4 maxcap=4 gap=1 wire=0 case=eos-aged-watch", Ops: []string{
			"wstart w=1 ns=n1 typ=R1 kind=kind buf=0 retry=1", mk("a"), "recv w=1", "age", "fail w=1 after=0 clean=1", "recv w=1", "rstat w=1", "wstop w=1",
		}},
		Case{Header: "# engine=rwatch initcap=4 maxcap=4 gap=1 wire=0 case=eos-every-reestablishment", Ops: []string{
			"wstart w=1 ns=n1 typ=R1 kind=agg buf=0 retry=1", mk("a"), "recv w=1", "fail w=1 after=0 reest=inf mode=first clean=1", "recv w=1", mk("b"),
			"recv w=1", "rstat w=1", "wstop w=1",
		}},
		Case{Header: "# engine=rwatch initcap=4 maxcap=4 gap=1 wire=1 case=eos-resumes", Ops: []string{
			"wstart w=1 ns=n1 typ=R1 kind=kind buf=1 retry=1", mk("a"), "recv w=1", "fail w=1 after=1 reest=2 mode=first clean=1", mk("b"), mk("c"),
			"recv w=1", "recv w=1", "recv w=1", "rstat w=1", "wstop w=1",
		}},
	)

	return cases
}

func (e *rwEng) Gen(r *Rand, thorough bool, idx int) Case {
	initcap := 1 + r.Intn(6)
	maxcap := initcap

	if r.Chance(1, 3) {
		maxcap = initcap + r.Intn(2*initcap+1)
	}

	gap := r.Intn(initcap)
	if r.Chance(1, 3) {
		gap = 0
	}

	n := 45
	c := Case{Header: fmt.Sprintf("# engine=rwatch initcap=%d maxcap=%d gap=%d wire=%d case=%d", initcap, maxcap, gap, r.Intn(3), idx)}
	s := &rwScript{}
	ids := []string{"a", "a", "b", "c"}
	nextW := 1
	budget := 12 // Watch re-issues per case: keeps the nominal clock away from MaxElapsedTime
	foreverUsed := false

	type lw struct {
		w      int
		held   bool
		single bool
	}

	var live []*lw

	for i := 0; i < n; i++ {
		id := Pick(r, ids)

		switch x := r.Intn(100); {
		case x < 34: // write
			lab := ""
			if r.Chance(1, 2) {
				lab = "k1:v1"
			}

			if s.vers[id] > 0 && r.Chance(1, 6) {
				s.destroy(id)
			} else {
				if s.vers == nil {
					s.vers = map[string]int{}
				}

				s.write(id, lab)
			}
		case x < 44 && len(live) < 2:
			w := nextW
			nextW++
			kind := Pick(r, []string{"single", "kind", "kind", "agg"})
			op := fmt.Sprintf("wstart w=%d ns=n1 typ=R1 kind=%s", w, kind)

			if kind == "single" {
				op += " id=" + id

				if r.Chance(1, 5) {
					op += fmt.Sprintf(" tail=%d", 1+r.Intn(3))
				}
			} else {
				switch r.Intn(4) {
				case 0:
					op += " boot=1"
				case 1:
					op += " boot=1 bb=1"
				case 2:
					if r.Chance(1, 2) {
						op += " bb=1"
					} else if r.Chance(1, 2) {
						op += fmt.Sprintf(" tail=%d", 1+r.Intn(3))
					}
				}

				if r.Chance(1, 3) {
					op += " sel=" + Pick(r, []string{"k1:v1", "k1:v1", "@id:a"})
				}
			}

			op += fmt.Sprintf(" buf=%d", Pick(r, []int{0, 0, 1, 2}))

			if r.Chance(1, 8) {
				op += " retry=0"
			} else {
				op += " retry=1"
			}

			s.ops = append(s.ops, op)
			live = append(live, &lw{w: w, single: kind == "single"})
		case x < 74 && len(live) > 0:
			s.ops = append(s.ops, fmt.Sprintf("recv w=%d", Pick(r, live).w))
		case x < 88 && len(live) > 0:
			l := Pick(r, live)

			if l.held {
				s.ops = append(s.ops, fmt.Sprintf("heal w=%d", l.w))
				l.held = false

				break
			}

			if budget <= 0 {
				s.ops = append(s.ops, fmt.Sprintf("recv w=%d", l.w))

				break
			}

			op := fmt.Sprintf("fail w=%d after=%d", l.w, Pick(r, []int{0, 0, 0, 1, 2}))
			cost := 1

			if r.Chance(1, 3) {
				op += " clean=1" // the server side ends the stream with status OK: Recv returns io.EOF
			}

			switch {
			case r.Chance(1, 25) && !foreverUsed:
				op += " reest=inf"

				if r.Chance(1, 2) {
					op += " mode=first"
				}

				foreverUsed = true
				budget = 0 // the clock jumps past MaxElapsedTime: nothing else may retry afterwards
			case r.Chance(1, 3):
				k := 1 + r.Intn(3)
				if k >= budget {
					k = 0
				}

				if k > 0 {
					op += fmt.Sprintf(" reest=%d", k)
					cost += k

					if r.Chance(1, 2) {
						op += " mode=first"
					}
				}
			}

			if !foreverUsed && r.Chance(1, 3) {
				op += " hold=1"
				l.held = true
			}

			budget -= cost
			s.ops = append(s.ops, op)
		case x < 90 && len(live) > 0:
			s.ops = append(s.ops, fmt.Sprintf("rstat w=%d", Pick(r, live).w))
		case x < 92 && len(live) > 0:
			j := r.Intn(len(live))
			s.ops = append(s.ops, fmt.Sprintf("wstop w=%d", live[j].w))
			live = append(live[:j], live[j+1:]...)
		case x < 94:
			s.ops = append(s.ops, "age")
		case x < 95:
			s.ops = append(s.ops, "restart")
			s.vers = map[string]int{}
		default:
			s.ops = append(s.ops, "list ns=n1 typ=R1")
		}
	}

	for _, l := range live {
		if l.held {
			s.ops = append(s.ops, fmt.Sprintf("heal w=%d", l.w))
		}

		for j := 0; j < 5; j++ {
			s.ops = append(s.ops, fmt.Sprintf("recv w=%d", l.w))
		}

		s.ops = append(s.ops, fmt.Sprintf("rstat w=%d", l.w), fmt.Sprintf("wstop w=%d", l.w))
	}

	c.Ops = s.ops

	return c
}
