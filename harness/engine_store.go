package harness

import (
	"context"
	"fmt"
	"strings"
	"testing"
	"testing/synctest"
	"time"

	"github.com/cosi-project/runtime/pkg/resource"
	"github.com/cosi-project/runtime/pkg/state"
	"github.com/cosi-project/runtime/pkg/state/impl/inmem"
	"github.com/cosi-project/runtime/pkg/state/impl/namespaced"
)

// engine store-seq: random sequential op sequences on every CoreState flavour,
// compared op by op with Cosi.Model.Store.step (C01).

func init() { Register("store-seq", func() Engine { return &storeSeq{} }) }

type storeSeq struct{}

func (*storeSeq) Name() string { return "store-seq" }

func (*storeSeq) Cases(thorough bool) int {
	if thorough {
		return 3000
	}

	return 400
}

func (*storeSeq) Rule() string {
	return "random op sequence over 2 namespaces x 2 types x 4 ids, owners {'',A,B}, stale/fresh/undefined versions, both phases; non-trivial = at least one failing op and at least 3 distinct output kinds (ok/res/items/err class); distinct by hash of the op lines"
}

func (*storeSeq) NonTrivial(_ Case, out []string) bool {
	kinds := map[string]bool{}
	errs := 0

	for _, o := range out {
		k := outKind(o)
		kinds[k] = true

		if strings.HasPrefix(k, "err") {
			errs++
		}
	}

	return errs >= 1 && len(kinds) >= 3
}

var (
	uNS     = []string{"n1", "n2"}
	uTyp    = []string{"T1", "T2"}
	uID     = []string{"a", "b", "c", "d"}
	uOwner  = []string{"", "", "A", "B"}
	uFins   = []string{"A", "B", "x", "y"}
	uLabels = []string{"k1:v1", "k2:5", "k3:", "k4:x"}
)

var storeFlavours = []string{"inmem", "namespaced"}

type shadowRes struct {
	ver   int
	owner string
	phase string
	fins  []string
}

func (e *storeSeq) Gen(r *Rand, thorough bool, idx int) Case {
	flav := storeFlavours[idx%len(storeFlavours)]
	nsaware := 1

	if flav == "inmem" {
		nsaware = 0
	}

	n := 30
	if thorough {
		n = 80
	}

	// every third case runs over a backing store that rejects the writes marked bsfail=1
	bs := 0
	if idx%3 == 2 {
		bs = 1
	}

	c := Case{Header: fmt.Sprintf("# engine=store-seq flavour=%s nsaware=%d bs=%d case=%d", flav, nsaware, bs, idx)}
	// shadow of what probably exists, only to bias the generator towards valid ops
	shadow := map[string]*shadowRes{}
	key := func(ns, typ, id string) string {
		if nsaware == 0 {
			return typ + "/" + id
		}

		return ns + "/" + typ + "/" + id
	}

	subset := func(xs []string) string {
		var out []string

		for _, x := range xs {
			if r.Chance(1, 4) {
				out = append(out, x)
			}
		}

		return strings.Join(out, ",")
	}

	for i := 0; i < n; i++ {
		ns, typ, id := Pick(r, uNS), Pick(r, uTyp), Pick(r, uID[:3])
		if r.Chance(1, 10) {
			id = "d"
		}

		k := key(ns, typ, id)
		sh := shadow[k]
		t := i + 1

		switch x := r.Intn(100); {
		case x < 25: // create
			owner := Pick(r, uOwner)
			objOwner := ""

			if r.Chance(1, 6) {
				objOwner = Pick(r, uOwner)
			}

			phase := "running"
			if r.Chance(1, 8) {
				phase = "tearingDown"
			}

			ver := "undefined"
			if r.Chance(1, 5) {
				ver = fmt.Sprint(r.Intn(4))
			}

			fins := ""
			if r.Chance(1, 3) {
				fins = subset(uFins)
			}

			c.Ops = append(c.Ops, fmt.Sprintf("create t=%d ns=%s typ=%s id=%s ver=%s owner=%s phase=%s fins=%s labels=%s c=%d u=%d spec=s%d as=%s",
				t, ns, typ, id, ver, objOwner, phase, fins, subset(uLabels), r.Intn(t+1), r.Intn(t+1), r.Intn(5), owner))

			if sh == nil && (objOwner == "" || objOwner == owner) {
				shadow[k] = &shadowRes{ver: 1, owner: owner, phase: phase, fins: splitNonEmpty(fins)}
			}
		case x < 60: // update
			as := Pick(r, uOwner)
			ver := "undefined"
			phase := "running"
			objOwner := as
			exp := Pick(r, []string{"running", "running", "running", "tearingDown", "any"})
			fins := ""

			if sh != nil {
				if r.Chance(4, 5) {
					as = sh.owner
				}

				objOwner = sh.owner
				if r.Chance(1, 10) {
					objOwner = Pick(r, uOwner)
				}

				ver = fmt.Sprint(sh.ver)
				if r.Chance(1, 5) {
					ver = Pick(r, []string{fmt.Sprint(sh.ver + 1), fmt.Sprint(max(sh.ver-1, 0)), "undefined"})
				}

				phase = sh.phase
				if r.Chance(1, 5) {
					phase = Pick(r, []string{"running", "tearingDown"})
				}

				if r.Chance(3, 5) {
					exp = Pick(r, []string{sh.phase, "any"})
				}

				fins = strings.Join(sh.fins, ",")
				if r.Chance(1, 3) {
					fins = subset(uFins)
				}
			} else if r.Chance(1, 2) {
				ver = fmt.Sprint(r.Intn(3))
			}

			c.Ops = append(c.Ops, fmt.Sprintf("update t=%d ns=%s typ=%s id=%s ver=%s owner=%s phase=%s fins=%s labels=%s c=%d u=%d spec=s%d as=%s exp=%s",
				t, ns, typ, id, ver, objOwner, phase, fins, subset(uLabels), r.Intn(t+1), r.Intn(t+1), r.Intn(5), as, exp))

			if sh != nil && as == sh.owner && ver == fmt.Sprint(sh.ver) && (exp == "any" || exp == sh.phase) {
				sh.ver++
				sh.owner = objOwner
				sh.phase = phase
				sh.fins = splitNonEmpty(fins)
			}
		case x < 75: // destroy
			as := Pick(r, uOwner)
			if sh != nil && r.Chance(4, 5) {
				as = sh.owner
			}

			c.Ops = append(c.Ops, fmt.Sprintf("destroy t=%d ns=%s typ=%s id=%s as=%s", t, ns, typ, id, as))

			if sh != nil && as == sh.owner && len(sh.fins) == 0 {
				delete(shadow, k)
			}
		case x < 88:
			c.Ops = append(c.Ops, fmt.Sprintf("get t=%d ns=%s typ=%s id=%s", t, ns, typ, id))
		default:
			c.Ops = append(c.Ops, fmt.Sprintf("list t=%d ns=%s typ=%s", t, ns, typ))
		}

		// full dump after every mutating op in a third of the cases, else at the end
		if idx%3 == 0 && r.Chance(1, 2) {
			c.Ops = append(c.Ops, fmt.Sprintf("list t=%d ns=%s typ=%s", t, ns, typ))
		}
	}

	for _, ns := range uNS {
		for _, typ := range uTyp {
			c.Ops = append(c.Ops, fmt.Sprintf("list t=%d ns=%s typ=%s", n+1, ns, typ))
		}
	}

	if bs == 1 {
		for i, op := range c.Ops {
			if name := opName(op); (name == "create" || name == "update" || name == "destroy") && r.Chance(1, 8) {
				c.Ops[i] = op + " bsfail=1"
			}
		}
	}

	return c
}

func splitNonEmpty(s string) []string {
	if s == "" {
		return nil
	}

	return strings.Split(s, ",")
}

// NewFlavour builds the CoreState flavour named in a case header.
func NewFlavour(flav string) state.CoreState { //nolint:ireturn
	switch flav {
	case "inmem":
		return inmem.NewState("n1")
	case "namespaced":
		return namespaced.NewState(inmem.Build)
	default:
		panic("unknown flavour " + flav)
	}
}

// NewFlavourBS is NewFlavour over a backing store.
func NewFlavourBS(flav string, bs inmem.BackingStore) state.CoreState { //nolint:ireturn
	build := inmem.NewStateWithOptions(inmem.WithBackingStore(bs))

	switch flav {
	case "inmem":
		return build("n1")
	case "namespaced":
		return namespaced.NewState(func(ns resource.Namespace) state.CoreState { return build(ns) })
	default:
		panic("unknown flavour " + flav)
	}
}

// ErrClass maps an error to the small enum via the public predicates only.
func ErrClass(err error) string {
	// the classification must survive wrapping (a layer in between annotating the error with %w)
	if err != nil {
		if a, b := errClass1(err), errClass1(fmt.Errorf("annotated: %w", err)); a != b {
			return "UNSTABLE-UNDER-WRAPPING(" + a + "/" + b + ")"
		}
	}

	return errClass1(err)
}

func errClass1(err error) string {
	switch {
	case err == nil:
		return "nil"
	case state.IsNotFoundError(err):
		return "notFound"
	case state.IsOwnerConflictError(err):
		return "ownerConflict"
	case state.IsPhaseConflictError(err):
		return "phaseConflict"
	case state.IsConflictError(err):
		return "conflict"
	default:
		return "other"
	}
}

func qualified(err error, opts ...state.ErrcheckOption) (res string) {
	defer func() {
		if r := recover(); r != nil {
			res = "PANIC"
		}
	}()

	return fmt.Sprint(state.IsConflictError(err, opts...))
}

// ErrLine is the canonical error line (same as Cosi.Driver.Store.errStr).
func ErrLine(err error, ns, typ string) string {
	return fmt.Sprintf("err class=%s qns=%s qtyp=%s qboth=%s qother=%s", ErrClass(err),
		qualified(err, state.WithResourceNamespace(ns)),
		qualified(err, state.WithResourceType(typ)),
		qualified(err, state.WithResourceNamespace(ns), state.WithResourceType(typ)),
		qualified(err, state.WithResourceNamespace("zz")))
}

// ExecStoreOp runs one store op line against st and returns the canonical output.
func ExecStoreOp(ctx context.Context, st state.CoreState, line string) (out string) {
	defer func() {
		if r := recover(); r != nil {
			out = fmt.Sprintf("PANIC %v", r)
		}
	}()

	op, a := ParseLine(line)
	ns, typ, id := a["ns"], a["typ"], a["id"]

	switch op {
	case "create":
		r := BuildRes(a)
		if err := st.Create(ctx, r, state.WithCreateOwner(a["as"])); err != nil {
			return ErrLine(err, ns, typ)
		}

		return "ok " + ResStr(r)
	case "update":
		r := BuildRes(a)
		opts := []state.UpdateOption{state.WithUpdateOwner(a["as"])}

		if a["exp"] == "any" {
			opts = append(opts, state.WithExpectedPhaseAny())
		} else {
			opts = append(opts, state.WithExpectedPhase(phaseOf(a["exp"])))
		}

		if err := st.Update(ctx, r, opts...); err != nil {
			return ErrLine(err, ns, typ)
		}

		return "ok " + ResStr(r)
	case "destroy":
		if err := st.Destroy(ctx, resource.NewMetadata(ns, typ, id, resource.VersionUndefined), state.WithDestroyOwner(a["as"])); err != nil {
			return ErrLine(err, ns, typ)
		}

		return "ok"
	case "get":
		r, err := st.Get(ctx, resource.NewMetadata(ns, typ, id, resource.VersionUndefined))
		if err != nil {
			return ErrLine(err, ns, typ)
		}

		return "res " + ResStr(r)
	case "list":
		l, err := st.List(ctx, resource.NewMetadata(ns, typ, "", resource.VersionUndefined))
		if err != nil {
			return ErrLine(err, ns, typ)
		}

		items := make([]string, 0, len(l.Items))
		for _, r := range l.Items {
			items = append(items, ResStr(r))
		}

		return "items [" + strings.Join(items, ";") + "]"
	}

	return "bad-op"
}

func (e *storeSeq) Exec(t *testing.T, c Case) []string {
	_, h := ParseLine(strings.TrimPrefix(c.Header, "#"))
	out := make([]string, 0, len(c.Ops))

	synctest.Test(t, func(t *testing.T) {
		ctx, cancel := context.WithCancel(context.Background())
		defer cancel()

		st := NewFlavour(h["flavour"])
		wbs := &watchBackingStore{}

		if h["bs"] == "1" {
			st = NewFlavourBS(h["flavour"], wbs)
		}

		for _, line := range c.Ops {
			_, a := ParseLine(line)
			if d := fromTick(a.Int("t")).Sub(time.Now()); d > 0 {
				time.Sleep(d)
			}

			wbs.fail = a["bsfail"] == "1"
			out = append(out, ExecStoreOp(ctx, st, line))
			wbs.fail = false
		}
	})

	return out
}
