package harness

import (
	"context"
	"errors"
	"fmt"
	"sort"
	"strings"
	"testing"
	"testing/synctest"
	"time"

	"github.com/cosi-project/runtime/pkg/resource"
	"github.com/cosi-project/runtime/pkg/state"
	"github.com/cosi-project/runtime/pkg/state/impl/inmem"
	"github.com/cosi-project/runtime/pkg/state/impl/namespaced"
	"github.com/cosi-project/runtime/pkg/state/owned"
)

// engine helpers: the generic helpers of pkg/state/wrap.go (UpdateWithConflicts,
// Modify, Add/RemoveFinalizer, Teardown, TeardownAndDestroy, WatchFor,
// ContextWithTeardown) run as actors behind the gate proxy; the schedule interleaves
// their individual store operations and watch deliveries with each other and with
// environment writes. Compared action by action with the machine generated from the current
// wrap.go / condition.go / owned/state.go (Cosi.Model.WrapRules, model mode) and with the
// hand-written machine of Cosi.Model.Wrap (spec mode) (C03, C04).
//
// Besides the random schedules the engine ships a systematic PREEMPTION corpus (helpersCorpus): every primary
// helper call x every initial state of the resource x every preemption point (after 1..4 of its store
// operations) x every disturbance from a closed family (finalizer added / removed, torn down, "the same change
// plus teardown", rival create, destroy, a whole other helper call), plus two-point preemptions.
// `via=owned` runs the call through owned.State (pkg/state/owned), `odestroy` is owned.State.Destroy.
//
// Header remote=1: every actor holds the state the way a REMOTE caller does — the real
// client.Adapter over real grpc-go (bufconn) to the real server.State wrapping that actor's gated
// state (grpcFront). The gate, and so the schedule and what is recorded, is the same: single
// store operations and watch deliveries ON THE WRAPPED STATE; Teardown / TeardownAndDestroy run in
// the server's handler (native RPCs), everything else in the client over the adapter's store RPCs
// and watch streams. Compared with Cosi.Model.WrapRemote.
//
// Small histories (capacity 2..6) and `churn` bursts of writes to a third resource of the type make
// a helper's watch — whose next event the gate holds back until the actor is scheduled: a stalled
// consumer — fall behind the history: the watch FAILS (Errored) and the helper must notice.

func init() { Register("helpers", func() Engine { return &helpersEng{} }) }

type helpersEng struct {
	stats map[string]int
}

func (e *helpersEng) count(k string, n int) {
	if e.stats == nil {
		e.stats = map[string]int{}
	}

	e.stats[k] += n
}

// Notes reports what the executed cases exercised (evidence only).
func (e *helpersEng) Notes() []string {
	ks := make([]string, 0, len(e.stats))
	for k := range e.stats {
		ks = append(ks, k)
	}

	sort.Strings(ks)

	parts := make([]string, 0, len(ks))
	for _, k := range ks {
		parts = append(parts, fmt.Sprintf("%s=%d", k, e.stats[k]))
	}

	return []string{"helpers exercised: " + strings.Join(parts, " ")}
}

func (*helpersEng) Name() string { return "helpers" }

func (*helpersEng) Cases(thorough bool) int {
	if thorough {
		return 4000
	}

	return 300
}

func (*helpersEng) Rule() string {
	return "corpus = every primary helper call (uwc/modify/teardown/tad/addfin/removefin/watchfor/ctx, direct and through owned.State with every owner / expected-phase option) x 5 initial states (absent, running, running+finalizer, tearing-down+finalizer, tearing-down) x preemption after 1..4 of its store operations x 10 disturbances (finalizer added/removed, teardown, same change + teardown, non-idempotent change, rival create, destroy, create+destroy, a whole AddFinalizer / Teardown call), plus two-point preemptions (Modify in the quick tier, every primary in the thorough tier); generated = 2-5 helper actors (direct or through owned.State, random mutators incl. a non-idempotent one, owners, expected phases) on 1-2 resources, scheduled one store op / watch delivery at a time, interleaved with environment create/modify/destroy; a third of the generated cases with every actor behind the real gRPC client adapter + server (remote=1), half of them with a history of 2..6 events and bursts of writes to a third resource, so that stalled helper watches overrun the history and fail; non-trivial = (generated) some helper retried after a version conflict or an environment write landed between a helper's read and its write, and at least 2 helpers finished, (corpus) the disturbance landed while the primary call was in progress and the call finished; distinct by hash of the op lines"
}

func (*helpersEng) NonTrivial(c Case, out []string) bool {
	done, retry := 0, false

	lastGet := map[string]bool{} // actor has read and not yet written

	for i, o := range out {
		op, a := ParseLine(c.Ops[i])
		if strings.Contains(o, "-> done") {
			done++
		}

		if op == "step" {
			if strings.HasPrefix(o, "did get res") {
				lastGet[a["a"]] = true
			}

			if strings.HasPrefix(o, "did update") {
				if strings.Contains(o, "err class=conflict") {
					retry = true
				}

				delete(lastGet, a["a"])
			}
		} else if (op == "envmod" || op == "destroy" || op == "odestroy" || op == "create") && strings.HasPrefix(o, "ok") && len(lastGet) > 0 {
			retry = true
		}
	}

	if strings.Contains(c.Header, "corpus=1") {
		return done >= 1 && retry
	}

	return done >= 2 && retry
}

var helperMuts = []string{"setLabel:k1:v1", "setLabel:k1:v2", "setLabel:k2:x", "addFins:A", "addFins:B", "addFins:A+B", "removeFins:A", "removeFins:B", "removeFins:A+B", "setSpec:s1", "setSpec:s2", "appendSpec:x", "noop", "fail", "setPhaseTD"}

func (e *helpersEng) Gen(r *Rand, thorough bool, idx int) Case {
	initcap, maxcap, gap, remote := 3+r.Intn(20), 40, 0, 0

	small := r.Chance(1, 2)
	if small {
		// a history the writers can run away from while the gate holds back a watcher's next event
		initcap = 2 + r.Intn(3)
		maxcap = initcap + r.Intn(3)

		if initcap > 2 && r.Chance(1, 3) {
			gap = 1
		}
	}

	if r.Chance(1, 3) {
		remote = 1
	}

	c := Case{Header: fmt.Sprintf("# engine=helpers flavour=namespaced nsaware=1 initcap=%d maxcap=%d gap=%d remote=%d case=%d", initcap, maxcap, gap, remote, idx)}
	churned := 0
	ids := []string{"a", "a", "a", "b"}
	t := 0
	tick := func() int { t++; return t }
	owners := []string{"", "", "A"}
	resOwner := map[string]string{}

	mkCreate := func(id string) {
		owner := Pick(r, owners)
		fins := ""

		if r.Chance(1, 3) {
			fins = Pick(r, []string{"A", "B", "A,B"})
		}

		c.Ops = append(c.Ops, fmt.Sprintf("create t=%d ns=n1 typ=T1 id=%s ver=undefined owner= phase=running fins=%s labels= c=0 u=0 spec=s0 as=%s", tick(), id, fins, owner))
		resOwner[id] = owner
	}

	if r.Chance(5, 6) {
		mkCreate("a")
	}

	if r.Chance(1, 3) {
		mkCreate("b")
	}

	nActors := 2 + r.Intn(4)
	if !thorough && nActors > 4 {
		nActors = 4
	}

	var actors []int

	spawn := func(a int) {
		id := Pick(r, ids)
		owner := resOwner[id]

		if r.Chance(1, 6) {
			owner = Pick(r, owners)
		}

		exp := Pick(r, []string{"running", "running", "any", "tearingDown"})
		op := fmt.Sprintf("spawn t=%d a=%d ns=n1 typ=T1 id=%s", tick(), a, id)

		if r.Chance(1, 5) {
			// the same helpers through owned.State (pkg/state/owned): owner and expected phase are forwarded
			ctrl := owner
			if ctrl == "" || r.Chance(1, 5) {
				ctrl = Pick(r, []string{"A", "B"})
			}

			op += " via=owned ctrl=" + ctrl

			switch x := r.Intn(10); {
			case x < 5:
				op += fmt.Sprintf(" fn=modify ver=undefined owner= phase=running fins= labels= c=0 u=0 spec=s0 mut=%s", Pick(r, helperMuts[:len(helperMuts)-1]))
				if r.Chance(1, 4) {
					op += " noowner=1"
				}

				if r.Chance(2, 3) {
					op += " oexp=" + Pick(r, []string{"any", "running", "tearingDown", "tearingDown"})
				}
			case x < 7:
				op += " fn=teardown"
				if r.Chance(1, 2) {
					op += " oas=" + Pick(r, owners)
				}
			case x < 9:
				op += " fn=addfin fins=" + Pick(r, []string{"A", "B", "A,B"})
			default:
				op += " fn=removefin fins=" + Pick(r, []string{"A", "B", "A,B"})
			}

			c.Ops = append(c.Ops, op)
			actors = append(actors, a)

			return
		}

		switch x := r.Intn(100); {
		case x < 25:
			op += fmt.Sprintf(" fn=uwc mut=%s as=%s exp=%s", Pick(r, helperMuts), owner, exp)
		case x < 40:
			op += fmt.Sprintf(" fn=modify ver=undefined owner= phase=running fins= labels= c=0 u=0 spec=s0 mut=%s as=%s exp=%s", Pick(r, helperMuts[:len(helperMuts)-1]), owner, exp)
		case x < 52:
			op += " fn=addfin fins=" + Pick(r, []string{"A", "B", "A,B", "x"})
		case x < 64:
			op += " fn=removefin fins=" + Pick(r, []string{"A", "B", "A,B", "x"})
		case x < 74:
			op += " fn=teardown as=" + owner
		case x < 86:
			op += " fn=tad as=" + owner
		case x < 94:
			op += " fn=watchfor"
			if r.Chance(1, 2) {
				op += " evtypes=" + Pick(r, []string{"created", "updated", "destroyed", "created,updated", "updated,destroyed"})
			}

			if r.Chance(1, 2) {
				op += " finsempty=1"
			}

			if r.Chance(1, 2) {
				op += " phases=" + Pick(r, []string{"running", "tearingDown"})
			}
		default:
			op += " fn=ctx"
		}

		c.Ops = append(c.Ops, op)
		actors = append(actors, a)
	}

	for a := 1; a <= nActors; a++ {
		spawn(a)
	}

	steps := 30 + r.Intn(30)
	if thorough {
		steps = 50 + r.Intn(70)
	}

	for i := 0; i < steps; i++ {
		switch x := r.Intn(100); {
		case small && x < 8:
			// a burst of writes to a third resource of the type: nobody watches it, every watcher of
			// the type has to get past it
			if churned == 0 {
				c.Ops = append(c.Ops, fmt.Sprintf("create t=%d ns=n1 typ=T1 id=z ver=undefined owner= phase=running fins= labels= c=0 u=0 spec=s0 as=", tick()))
			}

			for k := 2 + r.Intn(6); k > 0; k-- {
				churned++
				c.Ops = append(c.Ops, fmt.Sprintf("envmod t=%d ns=n1 typ=T1 id=z mut=setSpec:s%d", tick(), 1+churned%2))
			}
		case x < 60:
			// prefer recently spawned actors: older ones have mostly finished
			a := actors[len(actors)-1-r.Intn(min(3, len(actors)))]
			if r.Chance(1, 4) {
				a = Pick(r, actors)
			}

			c.Ops = append(c.Ops, fmt.Sprintf("step t=%d a=%d", tick(), a))
		case x < 76:
			c.Ops = append(c.Ops, fmt.Sprintf("envmod t=%d ns=n1 typ=T1 id=%s mut=%s", tick(), Pick(r, ids), Pick(r, helperMuts)))
		case x < 80:
			id := Pick(r, ids)
			if r.Chance(1, 4) {
				op := fmt.Sprintf("odestroy t=%d ns=n1 typ=T1 id=%s ctrl=%s", tick(), id, Pick(r, []string{"A", "B", resOwner[id]}))
				if r.Chance(1, 2) {
					op += " oas=" + resOwner[id]
				}

				c.Ops = append(c.Ops, op)

				break
			}

			c.Ops = append(c.Ops, fmt.Sprintf("destroy t=%d ns=n1 typ=T1 id=%s as=%s", tick(), id, resOwner[id]))
		case x < 85:
			mkCreate(Pick(r, ids))
		default:
			if len(actors) < 12 {
				spawn(len(actors) + 1)
			}
		}
	}

	// let everything that can finish do so, remove finalizers so that TAD completes
	for _, id := range []string{"a", "b"} {
		c.Ops = append(c.Ops, fmt.Sprintf("envmod t=%d ns=n1 typ=T1 id=%s mut=removeFins:A+B+x", tick(), id))
	}

	for round := 0; round < 5; round++ {
		for _, a := range actors {
			c.Ops = append(c.Ops, fmt.Sprintf("step t=%d a=%d", tick(), a))
		}
	}

	c.Ops = append(c.Ops, fmt.Sprintf("list t=%d ns=n1 typ=T1", tick()))

	return c
}

// ApplyMut applies the mutator an op line names (same family as Cosi.Model.Wrap.Mut).
func ApplyMut(m string) func(resource.Resource) error {
	return func(r resource.Resource) error {
		parts := strings.Split(m, ":")

		switch parts[0] {
		case "setLabel":
			r.Metadata().Labels().Set(parts[1], parts[2])
		case "addFins":
			for _, f := range strings.Split(parts[1], "+") {
				r.Metadata().Finalizers().Add(f)
			}
		case "removeFins":
			for _, f := range strings.Split(parts[1], "+") {
				r.Metadata().Finalizers().Remove(f)
			}
		case "setSpec":
			r.(*TRes).spec = TSpec{S: parts[1]}
		case "appendSpec": // not idempotent: a mutation applied twice shows
			r.(*TRes).spec = TSpec{S: specOf(r) + parts[1]}
		case "setPhaseTD":
			r.Metadata().SetPhase(resource.PhaseTearingDown)
		case "fail":
			return errors.New("mutator failed")
		}

		return nil
	}
}

func updateOpts(a Args) []state.UpdateOption {
	opts := []state.UpdateOption{state.WithUpdateOwner(a["as"])}
	if a["exp"] == "any" {
		opts = append(opts, state.WithExpectedPhaseAny())
	} else {
		opts = append(opts, state.WithExpectedPhase(phaseOf(a["exp"])))
	}

	return opts
}

func evTypeOf(s string) state.EventType {
	switch s {
	case "created":
		return state.Created
	case "updated":
		return state.Updated
	case "destroyed":
		return state.Destroyed
	case "bootstrapped":
		return state.Bootstrapped
	case "errored":
		return state.Errored
	}

	return state.Noop
}

// RunHelper executes the helper call an op line names on st and returns the canonical result.
func RunHelper(ctx context.Context, st state.State, a Args) string {
	ptr := resource.NewMetadata(a["ns"], a["typ"], a["id"], resource.VersionUndefined)
	errRet := func(err error) string { return "err class=" + ErrClass(err) }

	if a["via"] == "owned" {
		return runOwnedHelper(ctx, owned.New(st, a["ctrl"]), ptr, a)
	}

	switch a["fn"] {
	case "uwc":
		r, err := st.UpdateWithConflicts(ctx, ptr, ApplyMut(a["mut"]), updateOpts(a)...)
		if err != nil {
			return errRet(err)
		}

		return "res " + ResStr(r)
	case "modify":
		r, err := st.ModifyWithResult(ctx, BuildRes(a), ApplyMut(a["mut"]), updateOpts(a)...)
		if err != nil {
			return errRet(err)
		}

		return "res " + ResStr(r)
	case "addfin":
		if err := st.AddFinalizer(ctx, ptr, a.List("fins")...); err != nil {
			return errRet(err)
		}

		return "ok"
	case "removefin":
		if err := st.RemoveFinalizer(ctx, ptr, a.List("fins")...); err != nil {
			return errRet(err)
		}

		return "ok"
	case "teardown":
		ready, err := st.Teardown(ctx, ptr, state.WithTeardownOwner(a["as"]))
		if err != nil {
			return errRet(err)
		}

		return fmt.Sprintf("ready=%v", ready)
	case "tad":
		if err := st.TeardownAndDestroy(ctx, ptr, state.WithTeardownAndDestroyOwner(a["as"])); err != nil {
			return errRet(err)
		}

		return "ok"
	case "watchfor":
		var conds []state.WatchForConditionFunc

		if _, ok := a["evtypes"]; ok {
			var ts []state.EventType
			for _, s := range a.List("evtypes") {
				ts = append(ts, evTypeOf(s))
			}

			conds = append(conds, state.WithEventTypes(ts...))
		}

		if a["finsempty"] == "1" {
			conds = append(conds, state.WithFinalizerEmpty())
		}

		if _, ok := a["phases"]; ok {
			var ps []resource.Phase
			for _, s := range a.List("phases") {
				ps = append(ps, phaseOf(s))
			}

			conds = append(conds, state.WithPhases(ps...))
		}

		r, err := st.WatchFor(ctx, ptr, conds...)
		if err != nil {
			return errRet(err)
		}

		// the tombstone of a Destroyed event arrives over gRPC as a spec-less resource of undefined
		// version stamped with the wall clock of the watch start (resource.NewMetadata): not compared
		if !resource.IsTombstone(r) && r.Metadata().Version().String() == resource.VersionUndefined.String() {
			cp := r.DeepCopy()
			cp.Metadata().SetCreated(time.Time{})
			cp.Metadata().SetUpdated(time.Time{})
			r = cp
		}

		return "res " + ResStr(r)
	case "ctx":
		ctx2, err := st.ContextWithTeardown(ctx, ptr)
		if err != nil {
			return errRet(err)
		}

		<-ctx2.Done()

		if ctx.Err() != nil {
			return "parent-cancelled"
		}

		if cause := context.Cause(ctx2); cause != nil && !errors.Is(cause, context.Canceled) {
			return "cancelled cause=watch"
		}

		return "cancelled cause=canceled"
	}

	return "bad-fn"
}

// runOwnedHelper makes the call through owned.State (pkg/state/owned/state.go): the owner of the owned.State, the
// no-owner flag, the explicit owner and the expected phase are the caller's options.
func runOwnedHelper(ctx context.Context, ost *owned.State, ptr resource.Pointer, a Args) string {
	errRet := func(err error) string { return "err class=" + ErrClass(err) }

	switch a["fn"] {
	case "modify":
		var opts []owned.ModifyOption

		if a["noowner"] == "1" {
			opts = append(opts, owned.WithModifyNoOwner())
		}

		if v, ok := a["oexp"]; ok {
			if v == "any" {
				opts = append(opts, owned.WithExpectedPhaseAny())
			} else {
				opts = append(opts, owned.WithExpectedPhase(phaseOf(v)))
			}
		}

		r, err := ost.ModifyWithResult(ctx, BuildRes(a), ApplyMut(a["mut"]), opts...)
		if err != nil {
			return errRet(err)
		}

		return "res " + ResStr(r)
	case "teardown":
		var opts []owned.DeleteOption

		if v, ok := a["oas"]; ok {
			opts = append(opts, owned.WithOwner(v))
		}

		ready, err := ost.Teardown(ctx, ptr, opts...)
		if err != nil {
			return errRet(err)
		}

		return fmt.Sprintf("ready=%v", ready)
	case "addfin":
		if err := ost.AddFinalizer(ctx, ptr, a.List("fins")...); err != nil {
			return errRet(err)
		}

		return "ok"
	case "removefin":
		if err := ost.RemoveFinalizer(ctx, ptr, a.List("fins")...); err != nil {
			return errRet(err)
		}

		return "ok"
	}

	return "bad-fn"
}

// ---------------------------------------------------------------------------------------------
// the preemption corpus

const helpersEmpty = "ver=undefined owner= phase=running fins= labels= c=0 u=0 spec=s0"

// helpersPrimaries: the call under test (%o = the owner the resource was created with)
var helpersPrimaries = []string{
	"fn=uwc mut=setSpec:s1 as=%o exp=running",
	"fn=uwc mut=appendSpec:x as=%o exp=running",
	"fn=uwc mut=addFins:A as=%o exp=any",
	"fn=uwc mut=setSpec:s1 as=%o exp=tearingDown",
	"fn=modify " + helpersEmpty + " mut=appendSpec:x as=%o exp=running",
	"fn=modify " + helpersEmpty + " mut=setSpec:s1 as=%o exp=any",
	"via=owned ctrl=%c fn=modify " + helpersEmpty + " mut=setSpec:s1 oexp=tearingDown",
	"via=owned ctrl=%c fn=modify " + helpersEmpty + " mut=appendSpec:x",
	"via=owned ctrl=%c fn=modify " + helpersEmpty + " mut=setSpec:s1 oexp=any noowner=1",
	"via=owned ctrl=%c fn=modify " + helpersEmpty + " mut=setSpec:s1 oexp=running",
	"fn=teardown as=%o",
	"via=owned ctrl=%c fn=teardown",
	"via=owned ctrl=B fn=teardown oas=%o",
	"fn=tad as=%o",
	"fn=addfin fins=A",
	"fn=removefin fins=A",
	"via=owned ctrl=%c fn=addfin fins=B",
	"via=owned ctrl=%c fn=removefin fins=A",
	"fn=watchfor finsempty=1 phases=tearingDown",
	"fn=watchfor finsempty=1",
	"fn=watchfor evtypes=updated,destroyed phases=tearingDown",
	"fn=ctx",
}

// helpersInitial: how the resource looks when the call starts (create / teardown lines, %o = owner)
var helpersInitial = [][]string{
	nil, // absent
	{"create fins="},
	{"create fins=A"},
	{"create fins=A", "envmod mut=setPhaseTD"},
	{"create fins=", "envmod mut=setPhaseTD"},
}

// helpersBursts: what other parties do at a preemption point
var helpersBursts = [][]string{
	{"envmod mut=addFins:A"},
	{"envmod mut=removeFins:A"},
	{"envmod mut=setPhaseTD"},
	{"envmod mut=setSpec:s1", "envmod mut=setPhaseTD"}, // the very change the call makes, then teardown
	{"envmod mut=appendSpec:x"},
	{"create fins="},
	{"destroy"},
	{"create fins=", "destroy"},
	{"helper fn=addfin fins=B"}, // a whole other helper call, run to completion
	{"helper fn=teardown as=%o"},
}

// helpersCase builds one preemption case: initial state, the primary call, `ks[i]` of its steps followed by burst i,
// then the primary to completion, the finalizers removed and everything stepped until done.
func helpersCase(idx int, owner, primary string, initial []string, ks []int, bursts [][]string) Case {
	c := Case{Header: fmt.Sprintf("# engine=helpers flavour=namespaced nsaware=1 initcap=20 maxcap=40 gap=0 corpus=1 case=c%d", idx)}
	t := 0
	tick := func() int { t++; return t }
	ctrl := owner

	if ctrl == "" {
		ctrl = "A"
	}

	subst := func(s string) string {
		return strings.ReplaceAll(strings.ReplaceAll(s, "%o", owner), "%c", ctrl)
	}

	nextActor := 2

	env := func(line string) {
		line = subst(line)

		switch {
		case strings.HasPrefix(line, "create "):
			c.Ops = append(c.Ops, fmt.Sprintf("create t=%d ns=n1 typ=T1 id=a ver=undefined owner= phase=running %s labels= c=0 u=0 spec=s0 as=%s", tick(), strings.TrimPrefix(line, "create "), owner))
		case strings.HasPrefix(line, "envmod "):
			c.Ops = append(c.Ops, fmt.Sprintf("envmod t=%d ns=n1 typ=T1 id=a %s", tick(), strings.TrimPrefix(line, "envmod ")))
		case line == "destroy":
			c.Ops = append(c.Ops, fmt.Sprintf("destroy t=%d ns=n1 typ=T1 id=a as=%s", tick(), owner))
		case strings.HasPrefix(line, "helper "):
			a := nextActor
			nextActor++

			c.Ops = append(c.Ops, fmt.Sprintf("spawn t=%d a=%d ns=n1 typ=T1 id=a %s", tick(), a, strings.TrimPrefix(line, "helper ")))
			for i := 0; i < 4; i++ {
				c.Ops = append(c.Ops, fmt.Sprintf("step t=%d a=%d", tick(), a))
			}
		}
	}

	for _, l := range initial {
		env(l)
	}

	c.Ops = append(c.Ops, fmt.Sprintf("spawn t=%d a=1 ns=n1 typ=T1 id=a %s", tick(), subst(primary)))

	done := 0

	for i, k := range ks {
		for ; done < k; done++ {
			c.Ops = append(c.Ops, fmt.Sprintf("step t=%d a=1", tick()))
		}

		for _, l := range bursts[i] {
			env(l)
		}
	}

	for i := 0; i < 6; i++ {
		c.Ops = append(c.Ops, fmt.Sprintf("step t=%d a=1", tick()))
	}

	// let a blocked TeardownAndDestroy / WatchFor / context finish: drop the finalizers, tear down, step again
	c.Ops = append(c.Ops, fmt.Sprintf("envmod t=%d ns=n1 typ=T1 id=a mut=removeFins:A+B", tick()))
	c.Ops = append(c.Ops, fmt.Sprintf("envmod t=%d ns=n1 typ=T1 id=a mut=setPhaseTD", tick()))

	for i := 0; i < 4; i++ {
		c.Ops = append(c.Ops, fmt.Sprintf("step t=%d a=1", tick()))
	}

	c.Ops = append(c.Ops, fmt.Sprintf("list t=%d ns=n1 typ=T1", tick()))

	return c
}

// Corpus is the systematic preemption corpus (runs before the generated cases, independent of the seed).
func (*helpersEng) Corpus(thorough bool) []Case {
	var cs []Case

	ownerOf := func(primary string) string {
		if strings.Contains(primary, "via=owned") {
			return "A"
		}

		return ""
	}

	// one preemption point
	for _, p := range helpersPrimaries {
		for _, ini := range helpersInitial {
			for k := 1; k <= 4; k++ {
				for _, b := range helpersBursts {
					cs = append(cs, helpersCase(len(cs), ownerOf(p), p, ini, []int{k}, [][]string{b}))
				}
			}
		}
	}

	// two preemption points: Modify in the quick tier (the create race), every primary in the thorough tier
	for _, p := range helpersPrimaries {
		if !thorough && !strings.Contains(p, "fn=modify") {
			continue
		}

		for _, ini := range helpersInitial[:3] {
			for _, ks := range [][]int{{1, 2}, {1, 3}, {2, 3}} {
				for _, b1 := range helpersBursts[:8] {
					for _, b2 := range helpersBursts[:8] {
						if !thorough && len(b1)+len(b2) > 2 {
							continue
						}

						cs = append(cs, helpersCase(len(cs), ownerOf(p), p, ini, ks, [][]string{b1, b2}))
					}
				}
			}
		}
	}

	return cs
}

func (e *helpersEng) Exec(t *testing.T, c Case) []string {
	_, h := ParseLine(strings.TrimPrefix(c.Header, "#"))
	out := make([]string, 0, len(c.Ops))
	cookie(t)

	synctest.Test(t, func(t *testing.T) {
		ctx, cancel := context.WithCancel(context.Background())
		defer cancel()

		builder := inmem.NewStateWithOptions(
			inmem.WithHistoryInitialCapacity(h.Int("initcap")),
			inmem.WithHistoryMaxCapacity(h.Int("maxcap")),
			inmem.WithHistoryGap(h.Int("gap")),
		)
		inner := namespaced.NewState(func(ns resource.Namespace) state.CoreState { return builder(ns) })

		gates := map[string]*ActorGate{}
		remote := h["remote"] == "1"

		var stops []func()

		defer func() {
			cancel()

			for _, stop := range stops {
				stop()
			}

			synctest.Wait()
		}()

		for _, line := range c.Ops {
			op, a := ParseLine(line)
			if d := fromTick(a.Int("t")).Sub(time.Now()); d > 0 {
				time.Sleep(d)
			}

			res := func() (res string) {
				defer func() {
					if r := recover(); r != nil {
						res = fmt.Sprintf("PANIC %v", r)
					}
				}()

				switch op {
				case "spawn":
					g := NewActorGate(a["a"], nil)
					gates[a["a"]] = g
					actx, acancel := context.WithCancel(ctx)
					var core state.CoreState = NewGatedState(inner, g)

					if remote {
						front, stop := grpcFront(t, core)
						core = front
						stops = append(stops, stop)
					}

					st := state.WrapCore(core)

					go func() {
						ret := func() (ret string) {
							defer func() {
								if r := recover(); r != nil {
									ret = fmt.Sprintf("PANIC %v", r)
								}
							}()

							return RunHelper(actx, st, a)
						}()

						g.Finish(ret)
						acancel()
					}()

					return "ok"
				case "step":
					g := gates[a["a"]]
					if g == nil {
						return "noactor"
					}

					return g.Step()
				case "envmod":
					return envMod(ctx, inner, a)
				case "odestroy":
					var opts []owned.DeleteOption

					if v, ok := a["oas"]; ok {
						opts = append(opts, owned.WithOwner(v))
					}

					if err := owned.New(state.WrapCore(inner), a["ctrl"]).Destroy(ctx, resource.NewMetadata(a["ns"], a["typ"], a["id"], resource.VersionUndefined), opts...); err != nil {
						return ErrLine(err, a["ns"], a["typ"])
					}

					return "ok"
				default:
					return ExecStoreOp(ctx, inner, line)
				}
			}()

			synctest.Wait()

			out = append(out, res)
		}

		cancel()
		synctest.Wait()
	})

	tag := "direct_"
	if h["remote"] == "1" {
		tag = "remote_"
	}

	e.count(tag+"cases", 1)

	for _, o := range out {
		switch {
		case strings.Contains(o, "cancelled cause=watch"):
			e.count(tag+"ctx_cancelled_by_failed_watch", 1)
		case strings.HasPrefix(o, "did recv errored"):
			e.count(tag+"failed_watch_delivered_to_other_helper", 1)
		}

		if strings.Contains(o, "-> done") {
			e.count(tag+"helpers_finished", 1)
		}
	}

	return out
}

// envMod is an atomic read-modify-write by an environment actor (no interleaving):
// Get, apply the mutator, Update with the version read, the stored owner, any phase.
func envMod(ctx context.Context, st state.CoreState, a Args) string {
	ns, typ, id := a["ns"], a["typ"], a["id"]

	cur, err := st.Get(ctx, resource.NewMetadata(ns, typ, id, resource.VersionUndefined))
	if err != nil {
		return ErrLine(err, ns, typ)
	}

	if err = ApplyMut(a["mut"])(cur); err != nil {
		return "mutfail"
	}

	if err = st.Update(ctx, cur, state.WithUpdateOwner(cur.Metadata().Owner()), state.WithExpectedPhaseAny()); err != nil {
		return ErrLine(err, ns, typ)
	}

	return "ok " + ResStr(cur)
}
