package harness

import (
	"context"
	"errors"
	"fmt"
	"sort"
	"strings"
	"testing"
	"testing/synctest"
	"time"

	"github.com/cosi-project/runtime/pkg/resource"
	"github.com/cosi-project/runtime/pkg/state"
	"github.com/cosi-project/runtime/pkg/state/impl/inmem"
	"github.com/cosi-project/runtime/pkg/state/impl/namespaced"
)

// engine helpers: the generic helpers of pkg/state/wrap.go (UpdateWithConflicts,
// Modify, Add/RemoveFinalizer, Teardown, TeardownAndDestroy, WatchFor,
// ContextWithTeardown) run as actors behind the gate proxy; the schedule interleaves
// their individual store operations and watch deliveries with each other and with
// environment writes. Compared action by action with Cosi.Model.Wrap (C03, C04).
//
// Header remote=1: every actor holds the state the way a REMOTE caller does — the real
// client.Adapter over real grpc-go (bufconn) to the real server.State wrapping that actor's gated
// state (grpcFront). The gate, and so the schedule and what is recorded, is the same: single
// store operations and watch deliveries ON THE WRAPPED STATE; Teardown / TeardownAndDestroy run in
// the server's handler (native RPCs), everything else in the client over the adapter's store RPCs
// and watch streams. Compared with Cosi.Model.WrapRemote.
//
// Small histories (capacity 2..6) and `churn` bursts of writes to a third resource of the type make
// a helper's watch — whose next event the gate holds back until the actor is scheduled: a stalled
// consumer — fall behind the history: the watch FAILS (Errored) and the helper must notice.

func init() { Register("helpers", func() Engine { return &helpersEng{} }) }

type helpersEng struct {
	stats map[string]int
}

func (e *helpersEng) count(k string, n int) {
	if e.stats == nil {
		e.stats = map[string]int{}
	}

	e.stats[k] += n
}

// Notes reports what the executed cases exercised (evidence only).
func (e *helpersEng) Notes() []string {
	ks := make([]string, 0, len(e.stats))
	for k := range e.stats {
		ks = append(ks, k)
	}

	sort.Strings(ks)

	parts := make([]string, 0, len(ks))
	for _, k := range ks {
		parts = append(parts, fmt.Sprintf("%s=%d", k, e.stats[k]))
	}

	return []string{"helpers exercised: " + strings.Join(parts, " ")}
}

func (*helpersEng) Name() string { return "helpers" }

func (*helpersEng) Cases(thorough bool) int {
	if thorough {
		return 4000
	}

	return 300
}

func (*helpersEng) Rule() string {
	return "2-5 helper actors (uwc/modify/addfin/removefin/teardown/tad/watchfor/ctx with random mutators, owners, expected phases) on 1-2 resources, scheduled one store op / watch delivery at a time, interleaved with environment create/modify/destroy; a third of the cases with every actor behind the real gRPC client adapter + server (remote=1), half of the cases with a history of 2..6 events and bursts of writes to a third resource, so that stalled helper watches overrun the history and fail; non-trivial = some helper retried after a version conflict or an environment write landed between a helper's read and its write, and at least 2 helpers finished; distinct by hash of the op lines"
}

func (*helpersEng) NonTrivial(c Case, out []string) bool {
	done, retry := 0, false

	lastGet := map[string]bool{} // actor has read and not yet written

	for i, o := range out {
		op, a := ParseLine(c.Ops[i])
		if strings.Contains(o, "-> done") {
			done++
		}

		if op == "step" {
			if strings.HasPrefix(o, "did get res") {
				lastGet[a["a"]] = true
			}

			if strings.HasPrefix(o, "did update") {
				if strings.Contains(o, "err class=conflict") {
					retry = true
				}

				delete(lastGet, a["a"])
			}
		} else if (op == "envmod" || op == "destroy" || op == "create") && strings.HasPrefix(o, "ok") && len(lastGet) > 0 {
			retry = true
		}
	}

	return done >= 2 && retry
}

var helperMuts = []string{"setLabel:k1:v1", "setLabel:k1:v2", "setLabel:k2:x", "addFins:A", "addFins:B", "addFins:A+B", "removeFins:A", "removeFins:B", "removeFins:A+B", "setSpec:s1", "setSpec:s2", "noop", "fail", "setPhaseTD"}

func (e *helpersEng) Gen(r *Rand, thorough bool, idx int) Case {
	initcap, maxcap, gap, remote := 3+r.Intn(20), 40, 0, 0

	small := r.Chance(1, 2)
	if small {
		// a history the writers can run away from while the gate holds back a watcher's next event
		initcap = 2 + r.Intn(3)
		maxcap = initcap + r.Intn(3)

		if initcap > 2 && r.Chance(1, 3) {
			gap = 1
		}
	}

	if r.Chance(1, 3) {
		remote = 1
	}

	c := Case{Header: fmt.Sprintf("# engine=helpers flavour=namespaced nsaware=1 initcap=%d maxcap=%d gap=%d remote=%d case=%d", initcap, maxcap, gap, remote, idx)}
	churned := 0
	ids := []string{"a", "a", "a", "b"}
	t := 0
	tick := func() int { t++; return t }
	owners := []string{"", "", "A"}
	resOwner := map[string]string{}

	mkCreate := func(id string) {
		owner := Pick(r, owners)
		fins := ""

		if r.Chance(1, 3) {
			fins = Pick(r, []string{"A", "B", "A,B"})
		}

		c.Ops = append(c.Ops, fmt.Sprintf("create t=%d ns=n1 typ=T1 id=%s ver=undefined owner= phase=running fins=%s labels= c=0 u=0 spec=s0 as=%s", tick(), id, fins, owner))
		resOwner[id] = owner
	}

	if r.Chance(5, 6) {
		mkCreate("a")
	}

	if r.Chance(1, 3) {
		mkCreate("b")
	}

	nActors := 2 + r.Intn(4)
	if !thorough && nActors > 4 {
		nActors = 4
	}

	var actors []int

	spawn := func(a int) {
		id := Pick(r, ids)
		owner := resOwner[id]

		if r.Chance(1, 6) {
			owner = Pick(r, owners)
		}

		exp := Pick(r, []string{"running", "running", "any", "tearingDown"})
		op := fmt.Sprintf("spawn t=%d a=%d ns=n1 typ=T1 id=%s", tick(), a, id)

		switch x := r.Intn(100); {
		case x < 25:
			op += fmt.Sprintf(" fn=uwc mut=%s as=%s exp=%s", Pick(r, helperMuts), owner, exp)
		case x < 40:
			op += fmt.Sprintf(" fn=modify ver=undefined owner= phase=running fins= labels= c=0 u=0 spec=s0 mut=%s as=%s exp=%s", Pick(r, helperMuts[:len(helperMuts)-1]), owner, exp)
		case x < 52:
			op += " fn=addfin fins=" + Pick(r, []string{"A", "B", "A,B", "x"})
		case x < 64:
			op += " fn=removefin fins=" + Pick(r, []string{"A", "B", "A,B", "x"})
		case x < 74:
			op += " fn=teardown as=" + owner
		case x < 86:
			op += " fn=tad as=" + owner
		case x < 94:
			op += " fn=watchfor"
			if r.Chance(1, 2) {
				op += " evtypes=" + Pick(r, []string{"created", "updated", "destroyed", "created,updated", "updated,destroyed"})
			}

			if r.Chance(1, 2) {
				op += " finsempty=1"
			}

			if r.Chance(1, 2) {
				op += " phases=" + Pick(r, []string{"running", "tearingDown"})
			}
		default:
			op += " fn=ctx"
		}

		c.Ops = append(c.Ops, op)
		actors = append(actors, a)
	}

	for a := 1; a <= nActors; a++ {
		spawn(a)
	}

	steps := 30 + r.Intn(30)
	if thorough {
		steps = 50 + r.Intn(70)
	}

	for i := 0; i < steps; i++ {
		switch x := r.Intn(100); {
		case small && x < 8:
			// a burst of writes to a third resource of the type: nobody watches it, every watcher of
			// the type has to get past it
			if churned == 0 {
				c.Ops = append(c.Ops, fmt.Sprintf("create t=%d ns=n1 typ=T1 id=z ver=undefined owner= phase=running fins= labels= c=0 u=0 spec=s0 as=", tick()))
			}

			for k := 2 + r.Intn(6); k > 0; k-- {
				churned++
				c.Ops = append(c.Ops, fmt.Sprintf("envmod t=%d ns=n1 typ=T1 id=z mut=setSpec:s%d", tick(), 1+churned%2))
			}
		case x < 60:
			// prefer recently spawned actors: older ones have mostly finished
			a := actors[len(actors)-1-r.Intn(min(3, len(actors)))]
			if r.Chance(1, 4) {
				a = Pick(r, actors)
			}

			c.Ops = append(c.Ops, fmt.Sprintf("step t=%d a=%d", tick(), a))
		case x < 76:
			c.Ops = append(c.Ops, fmt.Sprintf("envmod t=%d ns=n1 typ=T1 id=%s mut=%s", tick(), Pick(r, ids), Pick(r, helperMuts)))
		case x < 80:
			id := Pick(r, ids)
			c.Ops = append(c.Ops, fmt.Sprintf("destroy t=%d ns=n1 typ=T1 id=%s as=%s", tick(), id, resOwner[id]))
		case x < 85:
			mkCreate(Pick(r, ids))
		default:
			if len(actors) < 12 {
				spawn(len(actors) + 1)
			}
		}
	}

	// let everything that can finish do so, remove finalizers so that TAD completes
	for _, id := range []string{"a", "b"} {
		c.Ops = append(c.Ops, fmt.Sprintf("envmod t=%d ns=n1 typ=T1 id=%s mut=removeFins:A+B+x", tick(), id))
	}

	for round := 0; round < 5; round++ {
		for _, a := range actors {
			c.Ops = append(c.Ops, fmt.Sprintf("step t=%d a=%d", tick(), a))
		}
	}

	c.Ops = append(c.Ops, fmt.Sprintf("list t=%d ns=n1 typ=T1", tick()))

	return c
}

// ApplyMut applies the mutator an op line names (same family as Cosi.Model.Wrap.Mut).
func ApplyMut(m string) func(resource.Resource) error {
	return func(r resource.Resource) error {
		parts := strings.Split(m, ":")

		switch parts[0] {
		case "setLabel":
			r.Metadata().Labels().Set(parts[1], parts[2])
		case "addFins":
			for _, f := range strings.Split(parts[1], "+") {
				r.Metadata().Finalizers().Add(f)
			}
		case "removeFins":
			for _, f := range strings.Split(parts[1], "+") {
				r.Metadata().Finalizers().Remove(f)
			}
		case "setSpec":
			r.(*TRes).spec = TSpec{S: parts[1]}
		case "setPhaseTD":
			r.Metadata().SetPhase(resource.PhaseTearingDown)
		case "fail":
			return errors.New("mutator failed")
		}

		return nil
	}
}

func updateOpts(a Args) []state.UpdateOption {
	opts := []state.UpdateOption{state.WithUpdateOwner(a["as"])}
	if a["exp"] == "any" {
		opts = append(opts, state.WithExpectedPhaseAny())
	} else {
		opts = append(opts, state.WithExpectedPhase(phaseOf(a["exp"])))
	}

	return opts
}

func evTypeOf(s string) state.EventType {
	switch s {
	case "created":
		return state.Created
	case "updated":
		return state.Updated
	case "destroyed":
		return state.Destroyed
	case "bootstrapped":
		return state.Bootstrapped
	case "errored":
		return state.Errored
	}

	return state.Noop
}

// RunHelper executes the helper call an op line names on st and returns the canonical result.
func RunHelper(ctx context.Context, st state.State, a Args) string {
	ptr := resource.NewMetadata(a["ns"], a["typ"], a["id"], resource.VersionUndefined)
	errRet := func(err error) string { return "err class=" + ErrClass(err) }

	switch a["fn"] {
	case "uwc":
		r, err := st.UpdateWithConflicts(ctx, ptr, ApplyMut(a["mut"]), updateOpts(a)...)
		if err != nil {
			return errRet(err)
		}

		return "res " + ResStr(r)
	case "modify":
		r, err := st.ModifyWithResult(ctx, BuildRes(a), ApplyMut(a["mut"]), updateOpts(a)...)
		if err != nil {
			return errRet(err)
		}

		return "res " + ResStr(r)
	case "addfin":
		if err := st.AddFinalizer(ctx, ptr, a.List("fins")...); err != nil {
			return errRet(err)
		}

		return "ok"
	case "removefin":
		if err := st.RemoveFinalizer(ctx, ptr, a.List("fins")...); err != nil {
			return errRet(err)
		}

		return "ok"
	case "teardown":
		ready, err := st.Teardown(ctx, ptr, state.WithTeardownOwner(a["as"]))
		if err != nil {
			return errRet(err)
		}

		return fmt.Sprintf("ready=%v", ready)
	case "tad":
		if err := st.TeardownAndDestroy(ctx, ptr, state.WithTeardownAndDestroyOwner(a["as"])); err != nil {
			return errRet(err)
		}

		return "ok"
	case "watchfor":
		var conds []state.WatchForConditionFunc

		if _, ok := a["evtypes"]; ok {
			var ts []state.EventType
			for _, s := range a.List("evtypes") {
				ts = append(ts, evTypeOf(s))
			}

			conds = append(conds, state.WithEventTypes(ts...))
		}

		if a["finsempty"] == "1" {
			conds = append(conds, state.WithFinalizerEmpty())
		}

		if _, ok := a["phases"]; ok {
			var ps []resource.Phase
			for _, s := range a.List("phases") {
				ps = append(ps, phaseOf(s))
			}

			conds = append(conds, state.WithPhases(ps...))
		}

		r, err := st.WatchFor(ctx, ptr, conds...)
		if err != nil {
			return errRet(err)
		}

		// the tombstone of a Destroyed event arrives over gRPC as a spec-less resource of undefined
		// version stamped with the wall clock of the watch start (resource.NewMetadata): not compared
		if !resource.IsTombstone(r) && r.Metadata().Version().String() == resource.VersionUndefined.String() {
			cp := r.DeepCopy()
			cp.Metadata().SetCreated(time.Time{})
			cp.Metadata().SetUpdated(time.Time{})
			r = cp
		}

		return "res " + ResStr(r)
	case "ctx":
		ctx2, err := st.ContextWithTeardown(ctx, ptr)
		if err != nil {
			return errRet(err)
		}

		<-ctx2.Done()

		if ctx.Err() != nil {
			return "parent-cancelled"
		}

		if cause := context.Cause(ctx2); cause != nil && !errors.Is(cause, context.Canceled) {
			return "cancelled cause=watch"
		}

		return "cancelled cause=canceled"
	}

	return "bad-fn"
}

func (e *helpersEng) Exec(t *testing.T, c Case) []string {
	_, h := ParseLine(strings.TrimPrefix(c.Header, "#"))
	out := make([]string, 0, len(c.Ops))
	cookie(t)

	synctest.Test(t, func(t *testing.T) {
		ctx, cancel := context.WithCancel(context.Background())
		defer cancel()

		builder := inmem.NewStateWithOptions(
			inmem.WithHistoryInitialCapacity(h.Int("initcap")),
			inmem.WithHistoryMaxCapacity(h.Int("maxcap")),
			inmem.WithHistoryGap(h.Int("gap")),
		)
		inner := namespaced.NewState(func(ns resource.Namespace) state.CoreState { return builder(ns) })

		gates := map[string]*ActorGate{}
		remote := h["remote"] == "1"

		var stops []func()

		defer func() {
			cancel()

			for _, stop := range stops {
				stop()
			}

			synctest.Wait()
		}()

		for _, line := range c.Ops {
			op, a := ParseLine(line)
			if d := fromTick(a.Int("t")).Sub(time.Now()); d > 0 {
				time.Sleep(d)
			}

			res := func() (res string) {
				defer func() {
					if r := recover(); r != nil {
						res = fmt.Sprintf("PANIC %v", r)
					}
				}()

				switch op {
				case "spawn":
					g := NewActorGate(a["a"], nil)
					gates[a["a"]] = g
					actx, acancel := context.WithCancel(ctx)
					var core state.CoreState = NewGatedState(inner, g)

					if remote {
						front, stop := grpcFront(t, core)
						core = front
						stops = append(stops, stop)
					}

					st := state.WrapCore(core)

					go func() {
						ret := func() (ret string) {
							defer func() {
								if r := recover(); r != nil {
									ret = fmt.Sprintf("PANIC %v", r)
								}
							}()

							return RunHelper(actx, st, a)
						}()

						g.Finish(ret)
						acancel()
					}()

					return "ok"
				case "step":
					g := gates[a["a"]]
					if g == nil {
						return "noactor"
					}

					return g.Step()
				case "envmod":
					return envMod(ctx, inner, a)
				default:
					return ExecStoreOp(ctx, inner, line)
				}
			}()

			synctest.Wait()

			out = append(out, res)
		}

		cancel()
		synctest.Wait()
	})

	tag := "direct_"
	if h["remote"] == "1" {
		tag = "remote_"
	}

	e.count(tag+"cases", 1)

	for _, o := range out {
		switch {
		case strings.Contains(o, "cancelled cause=watch"):
			e.count(tag+"ctx_cancelled_by_failed_watch", 1)
		case strings.HasPrefix(o, "did recv errored"):
			e.count(tag+"failed_watch_delivered_to_other_helper", 1)
		}

		if strings.Contains(o, "-> done") {
			e.count(tag+"helpers_finished", 1)
		}
	}

	return out
}

// envMod is an atomic read-modify-write by an environment actor (no interleaving):
// Get, apply the mutator, Update with the version read, the stored owner, any phase.
func envMod(ctx context.Context, st state.CoreState, a Args) string {
	ns, typ, id := a["ns"], a["typ"], a["id"]

	cur, err := st.Get(ctx, resource.NewMetadata(ns, typ, id, resource.VersionUndefined))
	if err != nil {
		return ErrLine(err, ns, typ)
	}

	if err = ApplyMut(a["mut"])(cur); err != nil {
		return "mutfail"
	}

	if err = st.Update(ctx, cur, state.WithUpdateOwner(cur.Metadata().Owner()), state.WithExpectedPhaseAny()); err != nil {
		return ErrLine(err, ns, typ)
	}

	return "ok " + ResStr(cur)
}
