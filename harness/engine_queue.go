package harness

import (
	"context"
	"fmt"
	"testing"
	"testing/synctest"
	"time"

	"github.com/cosi-project/runtime/pkg/controller/runtime"
)

// engine queue: random put/get/wait/release/requeue/advance sequences on the REAL
// per-controller reconcile queue (internal/qruntime/internal/queue, reached through
// runtime.VerifNewQueue) under testing/synctest, compared line by line with
// Cosi.Model.Queue (C09). Workers are harness-controlled: a worker is just a slot that
// holds the *Item it received last.

func init() { Register("queue", func() Engine { return &queueEngine{} }) }

type queueEngine struct{}

func (*queueEngine) Name() string { return "queue" }

func (*queueEngine) Cases(thorough bool) int {
	if thorough {
		return 20000
	}

	return 4000
}

func (*queueEngine) Rule() string {
	return "random put/get/wait/release/requeue/advance over 1-5 keys and 1-3 workers, virtual ms clock; non-trivial = some put hits a key that is on hold (parked), some requeue is accepted, and some get/wait returns none; distinct by hash of the op lines"
}

// NonTrivial replays the outputs: which keys are held when a put arrives.
func (*queueEngine) NonTrivial(c Case, out []string) bool {
	held := map[string]string{} // worker -> key ("" = released)
	parked, requeued, none := false, false, false

	for i, line := range c.Ops {
		if i >= len(out) {
			break
		}

		op, a := ParseLine(line)
		res, ra := ParseLine(out[i])

		switch op {
		case "put":
			for _, k := range held {
				if k != "" && k == a["k"] {
					parked = true
				}
			}
		case "get", "wait":
			if res == "item" {
				held[a["w"]] = ra["k"]
			} else {
				none = true
			}
		case "release":
			if res == "ok" {
				held[a["w"]] = ""
			}
		case "requeue":
			if res == "ok" {
				held[a["w"]] = ""
				requeued = true
			}
		}
	}

	return parked && requeued && none
}

// Corpus: the DESIGN.md appendix-C example and the orderings the property names.
func (*queueEngine) Corpus(bool) []Case {
	return []Case{
		{Header: "# engine=queue keys=1 workers=2 case=corpus-appendix-c", Ops: []string{
			"put k=1 v=10", "get w=1", "put k=1 v=11", "put k=1 v=12", "requeue w=1 after=500", "get w=2", "release w=2", "release w=2", "get w=1", "wait w=1 max=1000",
		}},
		{Header: "# engine=queue keys=2 workers=2 case=corpus-backoff", Ops: []string{
			"put k=1 v=1", "put k=2 v=2", "get w=1", "get w=2", "requeue w=1 after=300", "requeue w=2 after=100", "get w=1", "advance d=99", "get w=1",
			"advance d=1", "get w=1", "get w=2", "wait w=2 max=150", "wait w=2 max=100", "release w=1", "release w=2", "get w=1",
		}},
		{Header: "# engine=queue keys=3 workers=1 case=corpus-fifo-and-past", Ops: []string{
			"put k=3 v=1", "put k=1 v=2", "put k=2 v=3", "put k=3 v=4", "advance d=10", "put k=1 v=5", "get w=1", "requeue w=1 after=-5", "get w=1", "release w=1",
			"get w=1", "release w=1", "get w=1", "release w=1", "get w=1", "release w=1", "get w=1",
		}},
	}
}

func (e *queueEngine) Gen(r *Rand, thorough bool, idx int) Case {
	keys := 1 + r.Intn(5)
	workers := 1 + r.Intn(3)
	n := 50

	if thorough {
		n = 150
	}

	c := Case{Header: fmt.Sprintf("# engine=queue keys=%d workers=%d case=%d", keys, workers, idx)}
	holding := make([]bool, workers+1) // optimistic guess, only to bias the generator
	val := 0

	pickWorker := func(wantHolding bool) int {
		if r.Chance(4, 5) {
			var cand []int

			for w := 1; w <= workers; w++ {
				if holding[w] == wantHolding {
					cand = append(cand, w)
				}
			}

			if len(cand) > 0 {
				return Pick(r, cand)
			}
		}

		return 1 + r.Intn(workers)
	}

	anyHolding := func() bool {
		for w := 1; w <= workers; w++ {
			if holding[w] {
				return true
			}
		}

		return false
	}

	for range n {
		x := r.Intn(100)
		if x >= 60 && x < 87 && !anyHolding() && r.Chance(5, 6) {
			x = 32 + r.Intn(28) // nobody holds anything: receive instead of releasing
		}

		switch {
		case x < 32:
			val++
			c.Ops = append(c.Ops, fmt.Sprintf("put k=%d v=%d", 1+r.Intn(keys), val))
		case x < 52:
			w := pickWorker(false)
			holding[w] = true
			c.Ops = append(c.Ops, fmt.Sprintf("get w=%d", w))
		case x < 60:
			w := pickWorker(false)
			holding[w] = true
			c.Ops = append(c.Ops, fmt.Sprintf("wait w=%d max=%d", w, Pick(r, []int{1, 50, 100, 100, 500, 1000, 3000})))
		case x < 72:
			w := pickWorker(true)
			holding[w] = false
			c.Ops = append(c.Ops, fmt.Sprintf("release w=%d", w))
		case x < 87:
			w := pickWorker(true)
			holding[w] = false
			c.Ops = append(c.Ops, fmt.Sprintf("requeue w=%d after=%d", w, Pick(r, []int{-200, -1, 0, 1, 100, 100, 100, 250, 500, 1000, 2000})))
		default:
			c.Ops = append(c.Ops, fmt.Sprintf("advance d=%d", Pick(r, []int{1, 10, 99, 100, 100, 250, 500, 1000})))
		}
	}

	return c
}

func (e *queueEngine) Exec(t *testing.T, c Case) []string {
	out := make([]string, 0, len(c.Ops))

	synctest.Test(t, func(t *testing.T) {
		ctx, cancel := context.WithCancel(context.Background())
		base := time.Now()
		q := runtime.VerifNewQueue[int, int]()
		done := make(chan struct{})

		go func() {
			defer close(done)

			q.Run(ctx)
		}()

		items := map[int]*runtime.VerifItem[int, int]{}
		released := map[int]bool{}
		nowMs := func() int64 { return int64(time.Since(base) / time.Millisecond) }

		tryGet := func(w int) bool {
			select {
			case it := <-q.Get():
				items[w], released[w] = it, false

				return true
			default:
				return false
			}
		}

		getLine := func(w int, got bool) string {
			synctest.Wait()

			if got {
				k, v := items[w].Get()

				return fmt.Sprintf("item k=%d v=%d len=%d t=%d", k, v, q.Len(), nowMs())
			}

			return fmt.Sprintf("none len=%d t=%d", q.Len(), nowMs())
		}

		relLine := func(w int, f func(it *runtime.VerifItem[int, int])) string {
			it := items[w]
			if it == nil {
				return fmt.Sprintf("noitem len=%d", q.Len())
			}

			was := released[w]

			f(it) // also on an already released item: Item.released must make it a no-op
			released[w] = true

			synctest.Wait()

			if was {
				return fmt.Sprintf("already len=%d", q.Len())
			}

			return fmt.Sprintf("ok len=%d", q.Len())
		}

		one := func(line string) (res string) {
			defer func() {
				if r := recover(); r != nil {
					res = fmt.Sprintf("PANIC %v", r)
				}
			}()

			op, a := ParseLine(line)
			w := a.Int("w")

			synctest.Wait()

			switch op {
			case "put":
				q.Put(a.Int("k"), a.Int("v"))
				synctest.Wait()

				return fmt.Sprintf("queued len=%d", q.Len())
			case "get":
				return getLine(w, tryGet(w))
			case "wait":
				tm := time.NewTimer(time.Duration(a.Int("max")) * time.Millisecond)
				defer tm.Stop()

				select {
				case it := <-q.Get():
					items[w], released[w] = it, false

					return getLine(w, true)
				case <-tm.C:
					// an item that becomes due at the very instant of the timeout counts as delivered
					synctest.Wait()

					return getLine(w, tryGet(w))
				}
			case "release":
				return relLine(w, func(it *runtime.VerifItem[int, int]) { it.Release() })
			case "requeue":
				at := nowMs() + int64(a.Int("after"))
				if at < 0 { // the model's clock has no instants before the start of the bubble
					at = 0
				}

				return relLine(w, func(it *runtime.VerifItem[int, int]) {
					it.Requeue(base.Add(time.Duration(at) * time.Millisecond))
				})
			case "advance":
				time.Sleep(time.Duration(a.Int("d")) * time.Millisecond)
				synctest.Wait()

				return fmt.Sprintf("clock now=%d len=%d", nowMs(), q.Len())
			}

			return "bad-op"
		}

		for _, line := range c.Ops {
			out = append(out, one(line))
		}

		cancel()
		<-done
	})

	return out
}


