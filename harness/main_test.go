package harness

import (
	"encoding/json"
	"flag"
	"os"
	"testing"
)

var (
	flagEngine   = flag.String("engine", "", "engine name")
	flagSeed     = flag.Uint64("seed", 1, "seed")
	flagThorough = flag.Bool("thorough", false, "thorough tier")
	flagOut      = flag.String("out", "", "result json path")
	flagReplay   = flag.String("replay", "", "replay file (json with header, ops)")
	flagDriver   = flag.String("driver", "", "path of the Lean driver")
	flagJudge    = flag.String("judge", "", "divergence file (json with header, ops, impl_out): compare the recorded implementation output with the given driver, both modes")
)

var registry = map[string]func() Engine{}

func Register(name string, f func() Engine) { registry[name] = f }

func TestEngine(t *testing.T) {
	if *flagEngine == "" {
		t.Skip("no -engine given")
	}

	if *flagDriver != "" {
		driverPath = *flagDriver
	}

	mk, ok := registry[*flagEngine]
	if !ok {
		t.Fatalf("unknown engine %q", *flagEngine)
	}

	if *flagJudge != "" {
		judge(t, *flagEngine, *flagJudge, *flagOut)

		return
	}

	var replay *Case

	if *flagReplay != "" {
		b, err := os.ReadFile(*flagReplay)
		if err != nil {
			t.Fatal(err)
		}

		var d Divergence
		if err := json.Unmarshal(b, &d); err != nil {
			t.Fatal(err)
		}

		replay = &Case{Header: d.Header, Ops: d.Ops}
		if d.Scenario != nil {
			replay = &Case{Header: d.ScenarioHeader, Ops: d.Scenario}
		}
	}

	RunEngine(t, mk(), *flagSeed, *flagThorough, *flagOut, replay)
}

// judge compares the implementation output recorded in a divergence with what the driver at -driver says about the
// same case (model mode and spec mode). bin/check uses it with a driver built from the BASELINE facts (the facts of the
// unchanged tree, for which the model is proved to be the specification): the recorded behaviour is a concrete
// failing input only if it also differs from that driver.
func judge(t *testing.T, engine, file, out string) {
	b, err := os.ReadFile(file)
	if err != nil {
		t.Fatal(err)
	}

	var d Divergence
	if err := json.Unmarshal(b, &d); err != nil {
		t.Fatal(err)
	}

	res := map[string]string{}

	for _, spec := range []bool{false, true} {
		mode := map[bool]string{false: "model", true: "spec"}[spec]

		outs, err := runDriver(engine, spec, []Case{{Header: d.Header, Ops: d.Ops}})
		if err != nil || len(outs) != 1 || len(outs[0]) != len(d.Impl) {
			res[mode] = "error"

			continue
		}

		res[mode] = "agree"

		for i := range d.Impl {
			if !lineEq(d.Impl[i], outs[0][i]) {
				res[mode] = "differ"

				break
			}
		}
	}

	jb, _ := json.Marshal(res)
	_ = os.WriteFile(out, jb, 0o644)
}
