package harness

import (
	"encoding/json"
	"flag"
	"os"
	"testing"
)

var (
	flagEngine   = flag.String("engine", "", "engine name")
	flagSeed     = flag.Uint64("seed", 1, "seed")
	flagThorough = flag.Bool("thorough", false, "thorough tier")
	flagOut      = flag.String("out", "", "result json path")
	flagReplay   = flag.String("replay", "", "replay file (json with header, ops)")
	flagDriver   = flag.String("driver", "", "path of the Lean driver")
)

var registry = map[string]func() Engine{}

func Register(name string, f func() Engine) { registry[name] = f }

func TestEngine(t *testing.T) {
	if *flagEngine == "" {
		t.Skip("no -engine given")
	}

	if *flagDriver != "" {
		driverPath = *flagDriver
	}

	mk, ok := registry[*flagEngine]
	if !ok {
		t.Fatalf("unknown engine %q", *flagEngine)
	}

	var replay *Case

	if *flagReplay != "" {
		b, err := os.ReadFile(*flagReplay)
		if err != nil {
			t.Fatal(err)
		}

		var d Divergence
		if err := json.Unmarshal(b, &d); err != nil {
			t.Fatal(err)
		}

		replay = &Case{Header: d.Header, Ops: d.Ops}
		if d.Scenario != nil {
			replay = &Case{Header: d.ScenarioHeader, Ops: d.Scenario}
		}
	}

	RunEngine(t, mk(), *flagSeed, *flagThorough, *flagOut, replay)
}
