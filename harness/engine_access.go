package harness

import (
	"context"
	"errors"
	"fmt"
	"strings"
	"sync"
	"testing"
	"testing/synctest"
	"time"

	"go.uber.org/zap"

	"github.com/cosi-project/runtime/pkg/controller"
	"github.com/cosi-project/runtime/pkg/controller/runtime"
	"github.com/cosi-project/runtime/pkg/controller/runtime/options"
	"github.com/cosi-project/runtime/pkg/resource"
	"github.com/cosi-project/runtime/pkg/state"
	"github.com/cosi-project/runtime/pkg/state/impl/inmem"
	"github.com/cosi-project/runtime/pkg/state/impl/namespaced"
)

// engine access (property C08): the REAL controller runtime with one probe controller
// (controller.Controller or controller.QController, cached or uncached kinds) that
// executes harness-scripted calls through the controller.Runtime / controller.QRuntime
// handle it was given inside Run / RunHook / Reconcile. After every call the harness
// prints the result class, the core-store operations the call caused (counted by a
// proxy CoreState under the runtime) and the canonical state, so that
// `denied ⇒ state not even reached`, `failed ⇒ untouched` and owner stamping are visible.
// Compared with Cosi.Model.Access.exec (model) and Cosi.Spec.Access.exec (spec).
//
// WHICH declaration the guards read (Cosi.Model.AccessDecl): the probe keeps its declarations in buffers it
// owns (accBufs) — with `retain=1` its Inputs() / Outputs() / Settings() hand out those very slices —, rewrites
// them (`bufw`), passes them to UpdateInputs (`setinputs b= n=`: accepted, or rejected for queue kinds / duplicate
// keys) and then tries the calls again: the property's declared sets are the ones the runtime ACCEPTED.

func init() { Register("access", func() Engine { return &accEng{} }) }

const (
	accName    = "ctl" // the probe controller's name = the owner it must be confined to
	accForeign = "B"
	accTrigNS  = "nT"
	accTrigTyp = "Trig"
)

// accCount is the CoreState under the runtime; it records which store operations are reached.
type accCount struct {
	state.CoreState
	mu    sync.Mutex
	calls []string
}

func (c *accCount) rec(s string) {
	c.mu.Lock()
	c.calls = append(c.calls, s)
	c.mu.Unlock()
}

func (c *accCount) take() string {
	c.mu.Lock()
	defer c.mu.Unlock()

	l := c.calls
	c.calls = nil

	if len(l) == 0 {
		return "-"
	}

	return strings.Join(l, ",")
}

func (c *accCount) Get(ctx context.Context, p resource.Pointer, o ...state.GetOption) (resource.Resource, error) { //nolint:ireturn
	c.rec("get")

	return c.CoreState.Get(ctx, p, o...)
}

func (c *accCount) List(ctx context.Context, k resource.Kind, o ...state.ListOption) (resource.List, error) {
	c.rec("list")

	return c.CoreState.List(ctx, k, o...)
}

func (c *accCount) Create(ctx context.Context, r resource.Resource, o ...state.CreateOption) error {
	c.rec("create")

	return c.CoreState.Create(ctx, r, o...)
}

func (c *accCount) Update(ctx context.Context, r resource.Resource, o ...state.UpdateOption) error {
	c.rec("update")

	return c.CoreState.Update(ctx, r, o...)
}

func (c *accCount) Destroy(ctx context.Context, p resource.Pointer, o ...state.DestroyOption) error {
	c.rec("destroy")

	return c.CoreState.Destroy(ctx, p, o...)
}

func (c *accCount) Watch(ctx context.Context, p resource.Pointer, ch chan<- state.Event, o ...state.WatchOption) error {
	c.rec("watch")

	return c.CoreState.Watch(ctx, p, ch, o...)
}

// accReq is one scripted call handed to the probe.
type accReq struct {
	line  string
	reply chan accReply
}

type accReply struct {
	out  string
	cctx context.Context //nolint:containedctx
	stop context.CancelFunc
}

// accServe executes scripted calls through the handle until the context ends.
func accServe(ctx context.Context, rw controller.QRuntime, full controller.Runtime, events <-chan controller.ReconcileEvent, reqs <-chan accReq, inner state.CoreState, bufs *accBufs) {
	for {
		select {
		case <-ctx.Done():
			return
		case <-events:
		case rq := <-reqs:
			rq.reply <- accDo(ctx, rw, full, rq.line, inner, bufs)
		}
	}
}

// accBufCap is the capacity of the probe's declaration buffers (the generator stays below it).
const accBufCap = 16

// accBufs is the memory the probe controller keeps its declarations in: two input buffers (0 holds the
// initial inputs) and one output buffer. With retain the runtime is handed these very slices, else copies.
type accBufs struct {
	in     [2][]controller.Input
	out    []controller.Output
	n0, m0 int // lengths of the initial declaration
	retain bool
}

func newAccBufs(ins []controller.Input, outs []controller.Output, retain bool) *accBufs {
	b := &accBufs{n0: len(ins), m0: len(outs), retain: retain}
	b.in[0] = append(make([]controller.Input, 0, accBufCap), ins...)
	b.in[1] = make([]controller.Input, 0, accBufCap)
	b.out = append(make([]controller.Output, 0, accBufCap), outs...)

	return b
}

func (b *accBufs) inputs() []controller.Input {
	if b.retain {
		return b.in[0][:b.n0]
	}

	return append([]controller.Input{}, b.in[0][:b.n0]...)
}

func (b *accBufs) outputs() []controller.Output {
	if b.retain {
		return b.out[:b.m0]
	}

	return append([]controller.Output{}, b.out[:b.m0]...)
}

// accOverwrite is `copy(buf[at:], vs)` growing the slice inside its capacity (at beyond the length appends).
func accOverwrite[T any](buf []T, at int, vs []T) []T {
	at = min(at, len(buf))
	vs = vs[:min(len(vs), cap(buf)-at)]

	if at+len(vs) > len(buf) {
		buf = buf[:at+len(vs)]
	}

	copy(buf[at:], vs)

	return buf
}

// accProbeR is a controller.Controller.
type accProbeR struct {
	bufs  *accBufs
	reqs  chan accReq
	inner state.CoreState
}

func (p *accProbeR) Name() string                 { return accName }
func (p *accProbeR) Inputs() []controller.Input   { return p.bufs.inputs() }
func (p *accProbeR) Outputs() []controller.Output { return p.bufs.outputs() }

func (p *accProbeR) Run(ctx context.Context, r controller.Runtime, _ *zap.Logger) error {
	accServe(ctx, r, r, r.EventCh(), p.reqs, p.inner, p.bufs)

	return nil
}

// accProbeQ is a controller.QController serving either from its RunHook or from inside Reconcile.
type accProbeQ struct {
	bufs  *accBufs
	via   string
	reqs  chan accReq
	inner state.CoreState
}

func (p *accProbeQ) Name() string { return accName }

func (p *accProbeQ) Settings() controller.QSettings {
	s := controller.QSettings{
		Inputs:  p.bufs.inputs(),
		Outputs: p.bufs.outputs(),
	}

	if p.via == "hook" {
		s.RunHook = func(ctx context.Context, _ *zap.Logger, r controller.QRuntime) error {
			accServe(ctx, r, nil, nil, p.reqs, p.inner, p.bufs)

			return nil
		}
	}

	return s
}

func (p *accProbeQ) Reconcile(ctx context.Context, _ *zap.Logger, r controller.QRuntime, ptr resource.Pointer) error {
	if p.via == "reconcile" && ptr.Namespace() == accTrigNS && ptr.Type() == accTrigTyp {
		accServe(ctx, r, nil, nil, p.reqs, p.inner, p.bufs)
	}

	return nil
}

func (p *accProbeQ) MapInput(context.Context, *zap.Logger, controller.QRuntime, controller.ReducedResourceMetadata) ([]resource.Pointer, error) {
	return nil, nil
}

// accPanics runs f; the documented misuse panics of the output tracker are an outcome, not a crash.
func accPanics(f func()) (res string) {
	defer func() {
		if r := recover(); r != nil {
			res = "panic"
		}
	}()

	f()

	return "ok"
}

func accErr(err error) string { return "err class=" + ErrClass(err) }

func accOwnOpt(s string) []controller.DeleteOption {
	if strings.HasPrefix(s, "s:") {
		return []controller.DeleteOption{controller.WithOwner(strings.TrimPrefix(s, "s:"))}
	}

	return nil
}

// accDo performs one call through the runtime handle (full is nil for a QController:
// controller.QRuntime has neither UpdateInputs nor output tracking).
func accDo(ctx context.Context, rw controller.QRuntime, full controller.Runtime, line string, inner state.CoreState, bufs *accBufs) (rep accReply) {
	defer func() {
		if r := recover(); r != nil {
			rep = accReply{out: fmt.Sprintf("PANIC %v", r)}
		}
	}()

	op, a := ParseLine(line)
	ns, typ, id := a["ns"], a["typ"], a["id"]
	ptr := resource.NewMetadata(ns, typ, id, resource.VersionUndefined)
	out := func(s string) accReply { return accReply{out: s} }

	items := func(l resource.List, err error) accReply {
		if err != nil {
			return out(accErr(err))
		}

		rs := make([]string, 0, len(l.Items))
		for _, r := range l.Items {
			rs = append(rs, ResStr(r))
		}

		return out("items [" + strings.Join(rs, ";") + "]")
	}

	one := func(r resource.Resource, err error) accReply {
		if err != nil {
			return out(accErr(err))
		}

		return out("res " + ResStr(r))
	}

	plain := func(err error) accReply {
		if err != nil {
			return out(accErr(err))
		}

		return out("ok")
	}

	modOpts := func() []controller.ModifyOption {
		var o []controller.ModifyOption

		if a["opt"] == "noowner" {
			o = append(o, controller.WithModifyNoOwner())
		}

		switch a["exp"] {
		case "any":
			o = append(o, controller.WithExpectedPhaseAny())
		case "running", "tearingDown":
			o = append(o, controller.WithExpectedPhase(phaseOf(a["exp"])))
		}

		return o
	}

	mut := func(r resource.Resource) error {
		switch m := a["mut"]; {
		case m == "fail":
			return errors.New("mutator failed")
		case strings.HasPrefix(m, "set:"):
			r.(*TRes).spec = TSpec{S: strings.TrimPrefix(m, "set:")} //nolint:forcetypeassert
		}

		return nil
	}

	switch op {
	case "get":
		return one(rw.Get(ctx, ptr))
	case "getu":
		return one(rw.GetUncached(ctx, ptr))
	case "list":
		return items(rw.List(ctx, ptr))
	case "listu":
		return items(rw.ListUncached(ctx, ptr))
	case "ctx":
		c2, stop := context.WithCancel(ctx)

		cctx, err := rw.ContextWithTeardown(c2, ptr)
		if err != nil {
			stop()

			return out(accErr(err))
		}

		return accReply{out: "ok", cctx: cctx, stop: stop}
	case "create":
		r := NewTRes(ns, typ, id)
		if a["powner"] != "" {
			if err := r.md.SetOwner(a["powner"]); err != nil {
				panic(err)
			}
		}

		r.spec = TSpec{S: a["spec"]}

		var o []controller.CreateOption
		if a["opt"] == "noowner" {
			o = append(o, controller.WithCreateNoOwner())
		}

		return plain(rw.Create(ctx, r, o...))
	case "update":
		// the probe obtains the current object out of band (not through the adapter) and changes its spec
		var r *TRes

		if cur, err := inner.Get(ctx, ptr); err == nil {
			r = cur.DeepCopy().(*TRes) //nolint:forcetypeassert
		} else {
			r = NewTRes(ns, typ, id)
		}

		r.spec = TSpec{S: a["spec"]}

		return plain(rw.Update(ctx, r))
	case "modify":
		return plain(rw.Modify(ctx, NewTRes(ns, typ, id), mut, modOpts()...))
	case "modifyr":
		return one(rw.ModifyWithResult(ctx, NewTRes(ns, typ, id), mut, modOpts()...))
	case "teardown":
		ready, err := rw.Teardown(ctx, ptr, accOwnOpt(a["own"])...)
		if err != nil {
			return out(accErr(err))
		}

		return out(fmt.Sprintf("ok ready=%v", ready))
	case "destroy":
		return plain(rw.Destroy(ctx, ptr, accOwnOpt(a["own"])...))
	case "addfin":
		return plain(rw.AddFinalizer(ctx, ptr, a.List("fins")...))
	case "rmfin":
		return plain(rw.RemoveFinalizer(ctx, ptr, a.List("fins")...))
	case "setinputs":
		if full == nil {
			return out("unsupported")
		}

		if _, ok := a["b"]; ok { // the controller passes (a prefix of) one of the buffers it keeps
			buf := bufs.in[a.Int("b")%2]

			return plain(full.UpdateInputs(buf[:min(a.Int("n"), len(buf))]))
		}

		return plain(full.UpdateInputs(parseInputToks(a["in"])))
	case "bufw": // the controller rewrites its own memory; no runtime call
		if a["what"] == "out" {
			bufs.out = accOverwrite(bufs.out, a.Int("at"), parseOutputToks(a["v"]))
		} else {
			k := a.Int("b") % 2
			bufs.in[k] = accOverwrite(bufs.in[k], a.Int("at"), parseInputToks(a["v"]))
		}

		return out("ok")
	case "track":
		if full == nil {
			return out("unsupported")
		}

		return out(accPanics(full.StartTrackingOutputs))
	case "cleanup":
		if full == nil {
			return out("unsupported")
		}

		var err error

		if p := accPanics(func() { err = full.CleanupOutputs(ctx, ptr) }); p != "ok" {
			return out(p)
		}

		return plain(err)
	}

	return out("bad-op")
}

// accEnvDel removes a resource whatever its owner and finalizers (harness side, not through the adapter).
func accEnvDel(ctx context.Context, inner state.CoreState, ptr resource.Pointer) {
	cur, err := inner.Get(ctx, ptr)
	if err != nil {
		return
	}

	if !cur.Metadata().Finalizers().Empty() {
		cp := cur.DeepCopy()
		*cp.Metadata().Finalizers() = resource.Finalizers{}

		if err = inner.Update(ctx, cp, state.WithUpdateOwner(cur.Metadata().Owner()), state.WithExpectedPhaseAny()); err != nil {
			panic(err)
		}
	}

	if err = inner.Destroy(ctx, ptr, state.WithDestroyOwner(cur.Metadata().Owner())); err != nil {
		panic(err)
	}
}

func accDump(ctx context.Context, inner state.CoreState, nss, typs []string) string {
	var rs []string

	for _, ns := range nss {
		for _, typ := range typs {
			l, err := inner.List(ctx, resource.NewMetadata(ns, typ, "", resource.VersionUndefined))
			if err != nil {
				panic(err)
			}

			for _, r := range l.Items {
				rs = append(rs, ResStr(r))
			}
		}
	}

	return "st=[" + strings.Join(rs, ";") + "]"
}

func accExec(t *testing.T, c Case) []string {
	_, hd := ParseLine(strings.TrimPrefix(c.Header, "#"))
	nss, typs := hd.List("nss"), hd.List("typs")
	outs := make([]string, 0, len(c.Ops))

	synctest.Test(t, func(t *testing.T) {
		ctx, cancel := context.WithCancel(context.Background())

		inner := namespaced.NewState(inmem.Build)
		proxy := &accCount{CoreState: inner}

		var ropts []options.Option

		for _, cr := range hd.List("cached") {
			ns, typ, _ := strings.Cut(cr, "/")
			ropts = append(ropts, options.WithCachedResource(ns, typ))
		}

		rt, err := runtime.NewRuntime(state.WrapCore(proxy), zap.NewNop(), ropts...)
		if err != nil {
			panic(err)
		}

		reqs := make(chan accReq)
		ins, os := parseInputToks(hd["in"]), parseOutputToks(hd["out"])

		if hd["via"] == "reconcile" {
			trig := NewTRes(accTrigNS, accTrigTyp, "go")
			if err = inner.Create(ctx, trig); err != nil {
				panic(err)
			}
		}

		bufs := newAccBufs(ins, os, hd["retain"] == "1")

		if hd["flavour"] == "q" {
			err = rt.RegisterQController(&accProbeQ{bufs: bufs, via: hd["via"], reqs: reqs, inner: inner})
		} else {
			err = rt.RegisterController(&accProbeR{bufs: bufs, reqs: reqs, inner: inner})
		}

		regErr := err
		runDone := make(chan error, 1)

		go func() { runDone <- rt.Run(ctx) }()

		synctest.Wait()
		proxy.take()

		for _, line := range c.Ops {
			op, a := ParseLine(line)
			if d := fromTick(a.Int("t")).Sub(time.Now()); d > 0 {
				time.Sleep(d)
				synctest.Wait()
				proxy.take() // retries of the runtime's own start-up listing are not part of a call
			}

			var res string

			func() {
				defer func() {
					if r := recover(); r != nil {
						res = fmt.Sprintf("PANIC %v", r)
					}
				}()

				ptr := resource.NewMetadata(a["ns"], a["typ"], a["id"], resource.VersionUndefined)

				switch op {
				case "env-set":
					accEnvDel(ctx, inner, ptr)

					r := NewTRes(a["ns"], a["typ"], a["id"])
					r.md.SetPhase(phaseOf(a["phase"]))

					for _, f := range a.List("fins") {
						r.md.Finalizers().Add(f)
					}

					r.spec = TSpec{S: a["spec"]}

					if err := inner.Create(ctx, r, state.WithCreateOwner(a["owner"])); err != nil {
						panic(err)
					}

					synctest.Wait()
					proxy.take()

					res = "ok calls=-"
				case "env-del":
					accEnvDel(ctx, inner, ptr)
					synctest.Wait()
					proxy.take()

					res = "ok calls=-"
				default:
					if regErr != nil {
						res = "regfail"

						return
					}

					rq := accReq{line: line, reply: make(chan accReply, 1)}

					select {
					case reqs <- rq:
					case <-time.After(10 * time.Second):
						res = "noprobe"

						return
					}

					rep := <-rq.reply

					synctest.Wait()

					res = rep.out
					if rep.cctx != nil {
						res += fmt.Sprintf(" done=%v", rep.cctx.Err() != nil)
						rep.stop()
						synctest.Wait()
					}

					calls := proxy.take()
					if op == "setinputs" || op == "track" || op == "bufw" {
						calls = "-"
					}

					if res == "panic" {
						calls = "-"
					}

					res += " calls=" + calls
				}
			}()

			if !strings.HasPrefix(res, "PANIC") && res != "regfail" && res != "noprobe" {
				res += " | " + accDump(ctx, inner, nss, typs)
			}

			outs = append(outs, res)
		}

		cancel()
		<-runDone
		synctest.Wait()
	})

	return outs
}

// ---- cases ----

type accEng struct{}

func (*accEng) Name() string { return "access" }

func (*accEng) Cases(thorough bool) int {
	if thorough {
		return 6000
	}

	return 150
}

func (*accEng) Rule() string {
	return "corpus = the complete matrix {Controller, QController(hook|reconcile)} x {uncached, cached} x 16 target relations (kind-wide / by-ID input of each of the 6 kinds, other id, other namespace, exclusive / shared / input+output type, output type in another namespace, undeclared) x 6 stored states (own, foreign, unowned, absent, own+tearing-down+finalizer, foreign+tearing-down) x 23 call variants (13 methods x applicable owner options: default / no-owner / explicit owner B / explicit empty owner); plus the declared-buffers scenarios (a controller that keeps its declarations in buffers it rewrites, with accepted and rejected UpdateInputs in between, for both flavours); generated = random declarations (handed to the runtime as the probe's own buffers or as copies), cached sets, environment writes, calls, UpdateInputs with fresh slices and with buffer prefixes — valid, with kinds of the other flavour, with duplicate keys — and rewrites of the buffers; non-trivial = at least one denied-or-failed call, one successful write and one successful read; distinct by hash of the op lines"
}

func (*accEng) NonTrivial(c Case, out []string) bool {
	var fail, wrote, read bool

	for i, o := range out {
		op := opName(c.Ops[i])
		if strings.HasPrefix(op, "env-") || op == "setinputs" || op == "track" || op == "bufw" {
			continue
		}

		switch {
		case strings.HasPrefix(o, "err "):
			fail = true
		case strings.HasPrefix(o, "res ") || strings.HasPrefix(o, "items "):
			read = true
		case strings.HasPrefix(o, "ok") && strings.Contains(o, "calls=") && (strings.Contains(o, "update") || strings.Contains(o, "create") || strings.Contains(o, "destroy")):
			wrote = true
		}
	}

	return fail && wrote && read
}

func (*accEng) Extra() map[string]any {
	return map[string]any{
		"exhaustive": true,
		"exhaustive_over": "flavour x cache x target relation x stored owner/phase x call variant (see rule); every cell is executed on the real runtime on every run",
		"matrix_cells": accMatrixCells,
	}
}

func (*accEng) Notes() []string {
	return []string{fmt.Sprintf("exhaustive: true — %d matrix cells enumerated completely (corpus), plus generated random cases", accMatrixCells)}
}

var accMatrixCells int

type accTarget struct{ rel, ns, typ, id string }

func accMatrixDecl(q bool) (ins, outs string, targets []accTarget) {
	k := []int{0, 1, 2}
	names := []string{"W", "S", "D"} // weak, strong, destroy-ready
	if q {
		k = []int{3, 4, 5}
		names = []string{"P", "M", "R"} // q-primary, q-mapped, q-mapped-destroy-ready
	}

	var in []string

	for i := range k {
		in = append(in, fmt.Sprintf("nA/K%s/none/%d", names[i], k[i]), fmt.Sprintf("nA/I%s/s:a/%d", names[i], k[i]))
		targets = append(targets,
			accTarget{fmt.Sprintf("input-kindwide-kind%d", k[i]), "nA", "K" + names[i], "a"},
			accTarget{fmt.Sprintf("input-byid-kind%d", k[i]), "nA", "I" + names[i], "a"},
			accTarget{fmt.Sprintf("input-byid-kind%d-otherid", k[i]), "nA", "I" + names[i], "b"})
	}

	in = append(in, fmt.Sprintf("nA/OI/none/%d", k[1]))
	strong := names[1]
	targets = append(targets,
		accTarget{"input-kindwide-otherns", "nB", "K" + strong, "a"},
		accTarget{"input-byid-otherns", "nB", "I" + strong, "a"},
		accTarget{"output-exclusive", "nA", "OX", "a"},
		accTarget{"output-shared", "nA", "OS", "a"},
		accTarget{"output-and-strong-input", "nA", "OI", "a"},
		accTarget{"output-otherns", "nB", "OX", "a"},
		accTarget{"undeclared", "nA", "U", "a"})

	return strings.Join(in, ","), "OX:0,OS:1,OI:0", targets
}

var accStored = []struct{ name, set string }{
	{"own", "owner=" + accName + " phase=running fins="},
	{"foreign", "owner=" + accForeign + " phase=running fins="},
	{"unowned", "owner= phase=running fins="},
	{"absent", ""},
	{"own-td-fin", "owner=" + accName + " phase=tearingDown fins=x"},
	{"foreign-td", "owner=" + accForeign + " phase=tearingDown fins="},
}

var accVariants = []string{
	"get", "getu", "list", "listu", "ctx",
	"create powner= spec=n opt=default", "create powner= spec=n opt=noowner",
	"update spec=u",
	"modify mut=set:m opt=default exp=default", "modify mut=set:m opt=noowner exp=default", "modify mut=noop opt=default exp=any",
	"modifyr mut=set:m opt=default exp=any", "modifyr mut=set:m opt=noowner exp=any",
	"teardown own=default", "teardown own=s:" + accForeign, "teardown own=s:",
	"destroy own=default", "destroy own=s:" + accForeign, "destroy own=s:",
	"addfin fins=f", "rmfin fins=x", "rmfin fins=zz",
	"getu",
}

func (*accEng) Corpus(bool) []Case {
	var cases []Case

	cells := 0

	for _, q := range []bool{false, true} {
		ins, outs, targets := accMatrixDecl(q)

		for _, cached := range []bool{false, true} {
			for ti, tg := range targets {
				for si, sv := range accStored {
					flav, via := "r", "run"
					in := ins
					nss, typs := tg.ns, tg.typ

					if q {
						flav, via = "q", "hook"
						if (ti+si)%2 == 1 {
							via = "reconcile"
							// first: qruntime lists primary inputs in declaration order and never gets past a by-ID one
							in = fmt.Sprintf("%s/%s/none/3,", accTrigNS, accTrigTyp) + in
						}
					}

					cr := ""
					if cached {
						cr = tg.ns + "/" + tg.typ
					}

					c := Case{Header: fmt.Sprintf("# engine=access flavour=%s via=%s name=%s in=%s out=%s cached=%s nss=%s typs=%s cell=%s/%s",
						flav, via, accName, in, outs, cr, nss, typs, tg.rel, sv.name)}
					t := 0

					for _, v := range accVariants {
						t++
						if sv.set == "" {
							c.Ops = append(c.Ops, fmt.Sprintf("env-del t=%d ns=%s typ=%s id=%s", t, tg.ns, tg.typ, tg.id))
						} else {
							c.Ops = append(c.Ops, fmt.Sprintf("env-set t=%d ns=%s typ=%s id=%s %s spec=e", t, tg.ns, tg.typ, tg.id, sv.set))
						}

						t++
						name, rest, _ := strings.Cut(v, " ")
						c.Ops = append(c.Ops, strings.TrimSpace(fmt.Sprintf("%s t=%d ns=%s typ=%s id=%s %s", name, t, tg.ns, tg.typ, tg.id, rest)))
						cells++
					}

					if !q { // output tracking (rruntime/state.go, output_tracker.go): cleanup of the target's kind
						for _, touch := range []bool{false, true} {
							t++
							if sv.set == "" {
								c.Ops = append(c.Ops, fmt.Sprintf("env-del t=%d ns=%s typ=%s id=%s", t, tg.ns, tg.typ, tg.id))
							} else {
								c.Ops = append(c.Ops, fmt.Sprintf("env-set t=%d ns=%s typ=%s id=%s %s spec=e", t, tg.ns, tg.typ, tg.id, sv.set))
							}

							c.Ops = append(c.Ops, fmt.Sprintf("track t=%d", t))
							if touch {
								c.Ops = append(c.Ops, fmt.Sprintf("modify t=%d ns=%s typ=%s id=%s mut=noop opt=default exp=any", t, tg.ns, tg.typ, tg.id))
							}

							c.Ops = append(c.Ops, fmt.Sprintf("cleanup t=%d ns=%s typ=%s", t, tg.ns, tg.typ), fmt.Sprintf("cleanup t=%d ns=%s typ=%s", t, tg.ns, tg.typ))
							cells++
						}
					}

					cases = append(cases, c)
				}
			}
		}
	}

	accMatrixCells = cells

	return append(cases, accDeclCorpus()...)
}

// accDeclCorpus: the declaration the guards read must be the ACCEPTED one. A controller that keeps its declarations
// in buffers rewrites them, has the next set rejected (queue kinds, duplicate keys) or accepted, rewrites them again
// without telling the runtime, and after every step tries a read and a finalizer on each type involved.
func accDeclCorpus() []Case {
	var cases []Case

	probeOps := func(t *int, typs ...string) []string {
		var ops []string

		for _, typ := range typs {
			for _, v := range []string{"get", "list", "addfin fins=f", "rmfin fins=f", "create powner= spec=n opt=default"} {
				*t++
				name, rest, _ := strings.Cut(v, " ")
				ops = append(ops, strings.TrimSpace(fmt.Sprintf("%s t=%d ns=nA typ=%s id=a %s", name, *t, typ, rest)))
			}
		}

		return ops
	}

	for _, fl := range []struct {
		flav, via, retain string
		k                 [3]int // weak-like, strong-like, invalid-for-this-flavour kind
	}{
		{"r", "run", "1", [3]int{0, 1, 4}}, {"r", "run", "0", [3]int{0, 1, 3}}, {"q", "hook", "1", [3]int{5, 4, 1}},
	} {
		c := Case{Header: fmt.Sprintf("# engine=access flavour=%s via=%s name=%s in=nA/T1/none/%d,nB/T1/none/%d out=T4:0 cached= nss=nA typs=T1,T2,T3,T4 retain=%s cell=declared-buffers",
			fl.flav, fl.via, accName, fl.k[0], fl.k[0], fl.retain)}
		t := 0

		for _, typ := range []string{"T1", "T2", "T3"} {
			t++
			c.Ops = append(c.Ops, fmt.Sprintf("env-set t=%d ns=nA typ=%s id=a owner=%s phase=running fins= spec=e", t, typ, accForeign))
		}

		step := func(line string) {
			t++
			c.Ops = append(c.Ops, strings.Replace(line, "t=?", fmt.Sprintf("t=%d", t), 1))
			c.Ops = append(c.Ops, probeOps(&t, "T1", "T2", "T3", "T4")...)
		}

		c.Ops = append(c.Ops, probeOps(&t, "T1", "T2", "T3", "T4")...)
		// the next set built in the same buffer: invalid for this flavour, rejected as a whole
		step(fmt.Sprintf("bufw t=? what=in b=0 at=0 v=nA/T1/none/%d,nA/T2/none/%d", fl.k[2], fl.k[2]))
		step("setinputs t=? b=0 n=2")
		// a valid set written into the buffer, not declared
		step(fmt.Sprintf("bufw t=? what=in b=0 at=0 v=nA/T2/none/%d", fl.k[1]))
		// … and declared: accepted
		step("setinputs t=? b=0 n=1")
		// duplicate keys in the other buffer: rejected after a partial merge
		step(fmt.Sprintf("bufw t=? what=in b=1 at=0 v=nA/T3/none/%d,nA/T1/none/%d,nA/T3/none/%d", fl.k[1], fl.k[0], fl.k[0]))
		step("setinputs t=? b=1 n=3")
		// the buffer that was accepted is rewritten afterwards
		step(fmt.Sprintf("bufw t=? what=in b=0 at=0 v=nA/T3/none/%d", fl.k[1]))
		// the output buffer
		step("bufw t=? what=out b=0 at=0 v=T2:0")

		cases = append(cases, c)
	}

	return cases
}

var (
	accNS  = []string{"nA", "nB"}
	accTyp = []string{"T1", "T2", "T3", "T4"}
	accID  = []string{"a", "b"}
)

func accGenInputs(r *Rand, q bool, n int) []string {
	seen := map[string]bool{}

	var in []string

	for len(in) < n {
		ns, typ := Pick(r, accNS), Pick(r, accTyp)
		id := Pick(r, []string{"none", "none", "s:a", "s:b"})
		key := ns + "/" + typ + "/" + id

		if seen[key] {
			n--

			continue
		}

		seen[key] = true
		kind := r.Intn(3)

		if q {
			kind += 3
		}

		in = append(in, fmt.Sprintf("%s/%d", key, kind))
	}

	return in
}

func (e *accEng) Gen(r *Rand, thorough bool, idx int) Case {
	q := idx%2 == 1
	flav, via := "r", "run"

	if q {
		flav, via = "q", Pick(r, []string{"hook", "reconcile"})
	}

	in := accGenInputs(r, q, 1+r.Intn(5))
	if via == "reconcile" {
		in = append([]string{fmt.Sprintf("%s/%s/none/3", accTrigNS, accTrigTyp)}, in...)
	}

	var outs, cached []string

	for _, typ := range accTyp {
		if r.Chance(1, 3) {
			outs = append(outs, fmt.Sprintf("%s:%d", typ, r.Intn(2)))
		}

		for _, ns := range accNS {
			if r.Chance(1, 4) {
				cached = append(cached, ns+"/"+typ)
			}
		}
	}

	// retain: the probe hands its own declaration buffers to the runtime (else copies)
	retain := ""
	if r.Chance(1, 2) {
		retain = " retain=1"
	}

	c := Case{Header: fmt.Sprintf("# engine=access flavour=%s via=%s name=%s in=%s out=%s cached=%s nss=%s typs=%s case=%d%s",
		flav, via, accName, strings.Join(in, ","), strings.Join(outs, ","), strings.Join(cached, ","),
		strings.Join(accNS, ","), strings.Join(accTyp, ","), idx, retain)}

	// every input token that was ever written into a buffer or passed to UpdateInputs: targets are drawn from them
	pool := append([]string{}, in...)

	// a declaration for a buffer / an UpdateInputs call: mostly valid for the flavour, sometimes with a kind of the
	// other flavour or with a second input of the same key (both are rejected as a whole)
	genDecl := func(n int) []string {
		l := accGenInputs(r, q, n)

		if len(l) > 0 && r.Chance(1, 4) {
			p := strings.Split(Pick(r, l), "/")
			k := r.Intn(3)

			if r.Chance(1, 2) != q { // the other flavour's kinds
				k += 3
			}

			l = append(l, fmt.Sprintf("%s/%s/%s/%d", p[0], p[1], p[2], k))
			i := r.Intn(len(l))
			l[i], l[len(l)-1] = l[len(l)-1], l[i]
		}

		pool = append(pool, l...)

		return l
	}

	n := 30
	if thorough {
		n = 60
	}

	// a third of the plain-controller cases are about the declaration itself: the controller keeps rebuilding its
	// input set in its buffers and (re)declares it, and mostly touches the types it has ever mentioned
	heavy := !q && idx%3 == 0

	owners := []string{accName, accName, accForeign, ""}

	target := func() (string, string, string) {
		if len(pool) > 0 && (r.Chance(1, 2) || (heavy && r.Chance(1, 2))) {
			p := strings.Split(Pick(r, pool), "/")
			if p[0] != accTrigNS {
				id := Pick(r, accID)
				if strings.HasPrefix(p[2], "s:") && r.Chance(2, 3) {
					id = strings.TrimPrefix(p[2], "s:")
				}

				return p[0], p[1], id
			}
		}

		if len(outs) > 0 && r.Chance(1, 2) {
			typ, _, _ := strings.Cut(Pick(r, outs), ":")

			return Pick(r, accNS), typ, Pick(r, accID)
		}

		return Pick(r, accNS), Pick(r, accTyp), Pick(r, accID)
	}

	bufwIn := func(i int) string {
		at := r.Intn(4)
		if heavy { // mostly inside the prefix that was declared
			at = Pick(r, []int{0, 0, 0, 1, 1, 2})
		}

		return fmt.Sprintf("bufw t=%d what=in b=%d at=%d v=%s", i, r.Intn(2), at, strings.Join(genDecl(1+r.Intn(3)), ","))
	}

	for i := 1; i <= n; i++ {
		if heavy && r.Chance(1, 3) {
			switch y := r.Intn(10); {
			case y < 5:
				c.Ops = append(c.Ops, bufwIn(i))
			case y < 8:
				c.Ops = append(c.Ops, fmt.Sprintf("setinputs t=%d b=%d n=%d", i, r.Intn(2), 1+r.Intn(4)))
			case y < 9:
				c.Ops = append(c.Ops, fmt.Sprintf("setinputs t=%d in=%s", i, strings.Join(genDecl(r.Intn(4)), ",")))
			default:
				c.Ops = append(c.Ops, fmt.Sprintf("bufw t=%d what=out b=0 at=%d v=%s:%d", i, r.Intn(3), Pick(r, accTyp), r.Intn(2)))
			}

			continue
		}

		ns, typ, id := target()
		at := fmt.Sprintf("t=%d ns=%s typ=%s id=%s", i, ns, typ, id)

		if heavy && r.Chance(1, 2) { // the calls whose guard looks at the inputs
			switch v := Pick(r, []string{"get", "getu", "list", "listu", "ctx", "addfin", "addfin", "rmfin"}); v {
			case "addfin", "rmfin":
				c.Ops = append(c.Ops, fmt.Sprintf("%s %s fins=%s", v, at, Pick(r, []string{"f", "x"})))
			default:
				c.Ops = append(c.Ops, v+" "+at)
			}

			continue
		}

		switch x := r.Intn(100); {
		case x < 18:
			fins := ""
			if r.Chance(1, 4) {
				fins = Pick(r, []string{"x", "f", "x,f"})
			}

			c.Ops = append(c.Ops, fmt.Sprintf("env-set %s owner=%s phase=%s fins=%s spec=e%d", at, Pick(r, owners),
				Pick(r, []string{"running", "running", "running", "tearingDown"}), fins, r.Intn(3)))
		case x < 22:
			c.Ops = append(c.Ops, "env-del "+at)
		case x < 24 && !q:
			c.Ops = append(c.Ops, fmt.Sprintf("setinputs t=%d in=%s", i, strings.Join(genDecl(r.Intn(5)), ",")))
		case x < 27 && !q:
			c.Ops = append(c.Ops, fmt.Sprintf("setinputs t=%d b=%d n=%d", i, r.Intn(2), r.Intn(5)))
		case x < 31:
			// the controller rewrites the memory it keeps its declarations in (both flavours: before the D9 repair the
			// queue runtime kept the slices of Settings() and this changed its access sets)
			if r.Chance(1, 4) {
				var os []string
				for range 1 + r.Intn(2) {
					os = append(os, fmt.Sprintf("%s:%d", Pick(r, accTyp), r.Intn(2)))
				}

				c.Ops = append(c.Ops, fmt.Sprintf("bufw t=%d what=out b=0 at=%d v=%s", i, r.Intn(3), strings.Join(os, ",")))
			} else {
				c.Ops = append(c.Ops, bufwIn(i))
			}
		case x < 33 && !q:
			c.Ops = append(c.Ops, fmt.Sprintf("track t=%d", i))
		case x < 35 && !q:
			c.Ops = append(c.Ops, fmt.Sprintf("cleanup t=%d ns=%s typ=%s", i, ns, typ))
		case x < 40:
			c.Ops = append(c.Ops, Pick(r, []string{"get", "get", "getu", "list", "listu", "ctx"})+" "+at)
		case x < 47:
			c.Ops = append(c.Ops, fmt.Sprintf("create %s powner=%s spec=n%d opt=%s", at, Pick(r, []string{"", "", "", accName, accForeign}), r.Intn(3),
				Pick(r, []string{"default", "default", "noowner"})))
		case x < 55:
			c.Ops = append(c.Ops, fmt.Sprintf("update %s spec=u%d", at, r.Intn(3)))
		case x < 70:
			c.Ops = append(c.Ops, fmt.Sprintf("%s %s mut=%s opt=%s exp=%s", Pick(r, []string{"modify", "modifyr"}), at,
				Pick(r, []string{"set:m0", "set:m1", "set:e0", "noop", "fail"}), Pick(r, []string{"default", "default", "noowner"}),
				Pick(r, []string{"default", "default", "any", "running", "tearingDown"})))
		case x < 79:
			c.Ops = append(c.Ops, fmt.Sprintf("teardown %s own=%s", at, Pick(r, []string{"default", "default", "s:" + accForeign, "s:", "s:" + accName})))
		case x < 88:
			c.Ops = append(c.Ops, fmt.Sprintf("destroy %s own=%s", at, Pick(r, []string{"default", "default", "s:" + accForeign, "s:", "s:" + accName})))
		case x < 94:
			c.Ops = append(c.Ops, fmt.Sprintf("addfin %s fins=%s", at, Pick(r, []string{"f", "x", "f,g"})))
		default:
			c.Ops = append(c.Ops, fmt.Sprintf("rmfin %s fins=%s", at, Pick(r, []string{"f", "x", "f,x"})))
		}
	}

	return c
}

func (e *accEng) Exec(t *testing.T, c Case) []string { return accExec(t, c) }
