module verif/harness

go 1.26.5

require github.com/cosi-project/runtime v0.0.0

require (
	github.com/gertd/go-pluralize v0.2.1 // indirect
	github.com/grpc-ecosystem/grpc-gateway/v2 v2.29.0 // indirect
	github.com/planetscale/vtprotobuf v0.6.1-0.20240319094008-0393e58bdf10 // indirect
	github.com/siderolabs/gen v0.8.7
	github.com/siderolabs/go-pointer v1.0.1 // indirect
	github.com/siderolabs/protoenc v0.2.4 // indirect
	go.yaml.in/yaml/v4 v4.0.0-rc.6
	golang.org/x/net v0.57.0 // indirect
	golang.org/x/sys v0.47.0 // indirect
	golang.org/x/text v0.40.0 // indirect
	google.golang.org/genproto/googleapis/api v0.0.0-20260713224248-f5fc221cf8c4 // indirect
	google.golang.org/genproto/googleapis/rpc v0.0.0-20260713224248-f5fc221cf8c4 // indirect
	google.golang.org/grpc v1.82.0
	google.golang.org/protobuf v1.36.11
)

replace github.com/cosi-project/runtime => /repo

require github.com/ProtonMail/gopenpgp/v2 v2.10.0

require github.com/ProtonMail/go-crypto v1.4.1 // indirect

require github.com/ProtonMail/go-mime v0.0.0-20230322103455-7d82a3887f2f // indirect

require github.com/cloudflare/circl v1.6.4 // indirect

require github.com/pkg/errors v0.9.1 // indirect

require golang.org/x/crypto v0.54.0 // indirect

require go.uber.org/zap v1.28.0

require github.com/cenkalti/backoff/v4 v4.3.0 // indirect

require go.uber.org/multierr v1.11.0 // indirect

require golang.org/x/sync v0.22.0 // indirect

require (
	github.com/hashicorp/errwrap v1.1.0 // indirect
	github.com/hashicorp/go-multierror v1.1.1 // indirect
	golang.org/x/time v0.15.0 // indirect
)

require go.etcd.io/bbolt v1.5.0

require github.com/klauspost/compress v1.19.0 // indirect
