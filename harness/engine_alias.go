package harness

import (
	"context"
	"fmt"
	"sort"
	"strings"
	"testing"
	"time"

	"github.com/cosi-project/runtime/pkg/controller/runtime"
	"github.com/cosi-project/runtime/pkg/controller/runtime/options"
	"github.com/cosi-project/runtime/pkg/resource"
	"github.com/cosi-project/runtime/pkg/resource/kvutils"
	"github.com/cosi-project/runtime/pkg/resource/meta"
	"github.com/cosi-project/runtime/pkg/resource/typed"
	"github.com/cosi-project/runtime/pkg/state"
)

// engine alias (C19): random caller programs over numbered handles on the REAL API —
// resource.Metadata mutators, DeepCopy of two resource flavours, the in-memory state
// (bare and namespaced) behind state.WrapCore, the runtime read cache fed by a real
// watch — and after EVERY step the observable content of every live handle, every
// caller-owned finalizer slice, the store (List), the cache (List) and the watch
// replica (the event objects, read only) is printed and compared with the Lean heap
// model (and with the value-semantics specification).
//
// Excluded by the API's own contract (DESIGN §C19): writes through KV.Raw() and through
// resources delivered inside watch events (the harness only READS those).

func init() { Register("alias", func() Engine { return &aliasEng{} }) }

type aliasEng struct{}

func (*aliasEng) Name() string { return "alias" }

func (*aliasEng) Cases(thorough bool) int {
	if thorough {
		return 6000
	}

	return 1500
}

// Corpus: one hand-written aliasing scenario per regenerated fact (the program that
// shows the aliasing when that clone / deep copy is missing), for both resource
// flavours and both state flavours. They run first on every invocation.
func (*aliasEng) Corpus(bool) []Case {
	progs := [][]string{
		// Finalizers.Add: spare capacity after three appends, both copies append
		{"new h=2 id=a", "finadd h=2 f=A", "finadd h=2 f=B", "finadd h=2 f=x", "copy dst=3 src=2", "finadd h=2 f=y", "finadd h=3 f=z",
			"create h=2 as=A", "get id=a dst=4 via=direct", "finadd h=4 f=w", "finadd h=2 f=q"},
		// Finalizers.Remove shifts in place
		{"new h=2 id=a", "finsetlit h=2 l=A,B,x", "copy dst=3 src=2", "finremove h=3 f=A", "create h=2 as=A", "finremove h=2 f=B",
			"get id=a dst=4 via=direct", "finremove h=4 f=x", "finadd h=4 f=y"},
		// Finalizers.Set keeps nobody's slice
		{"new h=2 id=a", "new h=3 id=b", "rawnew r=1 l=A,B", "finsetraw h=2 r=1", "rawwrite r=1 i=0 v=z", "finsetfrom h=3 src=2",
			"finremove h=2 f=A", "finadd h=3 f=q", "create h=3 as=A", "rawwrite r=1 i=1 v=p"},
		// KV.Set / Delete / Do on labels and annotations of copies
		{"new h=2 id=a", "setlabel h=2 k=k1 v=v1", "setanno h=2 k=k1 v=v1", "copy dst=3 src=2", "setlabel h=3 k=k1 v=v2",
			"setanno h=3 k=k2 v=v2", "copy dst=4 src=2", "dellabel h=4 k=k1", "delanno h=4 k=k1", "copy dst=5 src=2",
			"dolabels h=5 es=s:k2:v3,d:k1", "doannos h=5 es=d:k1,s:k3:v1", "copymd dst=3 src=2", "setlabel h=3 k=k3 v=v3"},
		// Create / Update copy in; the write-back shares cells with the stored object
		{"new h=2 id=a", "setlabel h=2 k=k1 v=v1", "finadd h=2 f=A", "create h=2 as=A", "setspec h=2 s=s1", "setphase h=2 p=tearingDown",
			"setlabel h=2 k=k1 v=v2", "finadd h=2 f=B", "setphase h=2 p=running", "update h=2 as=A exp=any", "setspec h=2 s=s2",
			"setowner h=2 o=B", "dellabel h=2 k=k1", "finremove h=2 f=A", "setver h=2 v=3"},
		// Get / List copy out, direct and cached; the replica is what the watch delivered
		{"new h=2 id=a", "new h=3 id=b", "setlabel h=2 k=k1 v=v1", "finadd h=3 f=A", "create h=2 as=A", "create h=3 as=A", "sync",
			"get id=a dst=4 via=direct", "setphase h=4 p=tearingDown", "setspec h=4 s=s1", "setlabel h=4 k=k1 v=v2",
			"get id=b dst=5 via=cached", "setspec h=5 s=s2", "finadd h=5 f=B", "setver h=5 v=3",
			"list base=10 via=direct", "setowner h=10 o=B", "setspec h=11 s=s1", "finremove h=11 f=A",
			"list base=20 via=cached", "setphase h=20 p=tearingDown", "dellabel h=20 k=k1", "finadd h=21 f=x", "sync"},
		// List with a label query, direct and cached: the filtered path copies out as well
		{"new h=2 id=a", "new h=3 id=b", "setlabel h=2 k=k1 v=v1", "create h=2 as=A", "create h=3 as=A", "sync",
			"list base=10 via=direct q=k1", "setowner h=10 o=B", "setlabel h=10 k=k1 v=v9", "finadd h=10 f=x", "setphase h=10 p=tearingDown",
			"list base=20 via=cached q=k1", "setphase h=20 p=tearingDown", "setlabel h=20 k=k2 v=v2", "finadd h=20 f=y", "setver h=20 v=7",
			"get id=a dst=30 via=cached", "get id=a dst=31 via=direct", "list base=40 via=cached q=k2", "sync"},
		// Modify / UpdateWithConflicts: the callback's object and the returned object
		{"new h=2 id=a", "modify h=2 as=A ms=setlabel/k1/v1;finadd/A", "setlabel h=2 k=k1 v=v2", "finadd h=2 f=B",
			"updatewc id=a dst=3 as=A ms=finadd/x;setspec/s1", "finadd h=3 f=y", "setspec h=3 s=s2", "setlabel h=3 k=k2 v=v1",
			"new h=4 id=a", "modify h=4 as=A ms=finremove/A;dolabels/s:k3:v3+d:k1", "finadd h=4 f=z", "sync"},
	}

	var cs []Case

	for i, p := range progs {
		for _, flav := range storeFlavours {
			for _, rf := range []string{"tres", "typed", "rdspec"} {
				cs = append(cs, Case{
					Header: fmt.Sprintf("# engine=alias flavour=%s res=%s corpus=%d", flav, rf, i),
					Ops:    append([]string{}, p...),
				})
			}
		}
	}

	return cs
}

func (*aliasEng) Rule() string {
	return "random caller program (new/copy/copymd, every public metadata+spec mutator incl. Labels().Do and Finalizers().Set from literal / other object / caller-owned slice, raw writes to the caller's own slice, create/update/modify/updatewc/destroy, get/list direct and cached, sync) over ids {a,b,c,d}, owners {'',A,B}, 3 label keys, 6 finalizer names, 2 resource flavours x 2 state flavours; full snapshot compared after every step; non-trivial = at least one successful store write, one read out of the store/cache, and >= 5 successful mutator calls AFTER the first successful store write; distinct by hash of the op lines"
}

func (*aliasEng) NonTrivial(c Case, out []string) bool {
	wrote, read, muts := false, false, 0

	for i, op := range c.Ops {
		if i >= len(out) {
			break
		}

		name := opName(op)
		res := outKind(out[i])

		switch name {
		case "create", "update", "modify", "updatewc":
			if res == "ok" {
				wrote = true
			}
		case "get", "list":
			if wrote && (res == "ok" || res == "ids") {
				read = true
			}
		case "setlabel", "dellabel", "dolabels", "setanno", "delanno", "doannos", "finadd", "finremove", "finsetlit",
			"finsetfrom", "finsetraw", "setphase", "setver", "setowner", "setspec", "rawwrite", "copymd":
			if wrote && (res == "ok" || res == "true") {
				muts++
			}
		}
	}

	return wrote && read && muts >= 5
}

// ExcludedPoints runs the real code once at the two points DESIGN §C19 excludes by the
// API's own contract and records what it does there (evidence only, no verdict).
func (*aliasEng) ExcludedPoints() (out []string) {
	defer func() {
		if r := recover(); r != nil {
			out = append(out, fmt.Sprintf("excluded-point probe panicked: %v", r))
		}
	}()

	ctx, cancel := context.WithCancel(context.Background())
	defer cancel()

	a, err := newAliasRun(ctx, "namespaced", "typed")
	if err != nil {
		return []string{"excluded-point probe failed: " + err.Error()}
	}

	for _, l := range []string{"new h=2 id=a", "setlabel h=2 k=k1 v=v1", "create h=2 as=A", "sync", "get id=a dst=3 via=direct"} {
		a.exec(l)
	}

	before := a.snapshot()
	a.handles[3].Metadata().Labels().Raw()["k1"] = "raw" // documented: "Raw map should not be modified"
	afterRaw := a.snapshot()
	out = append(out, fmt.Sprintf("write through Labels().Raw() of a Get result (contract: must not be modified): store/cache/watch changed=%v (the DeepCopy shares the label map with the stored object until the first public Set/Delete)", before != afterRaw))

	a.replica["a"].Metadata().SetPhase(resource.PhaseTearingDown) // the object delivered inside a watch event
	afterEv := a.snapshot()
	out = append(out, fmt.Sprintf("SetPhase on the resource delivered inside a watch event (shared with the store by design): store changed=%v", afterRaw != afterEv))

	return out
}

var (
	aIDs    = []string{"a", "b", "c", "d"}
	aOwners = []string{"A", "A", "A", "", "B"}
	aKeys   = []string{"k1", "k2", "k3"}
	aVals   = []string{"v1", "v2", "", "v3"}
	aFins   = []string{"A", "B", "x", "y", "z", "w"}
	aSpecs  = []string{"s0", "s1", "s2"}
)

func (e *aliasEng) genMut(r *Rand, inFunc bool) (string, []string) {
	edits := func(sep string) string {
		n := 1 + r.Intn(3)
		es := make([]string, 0, n)

		for i := 0; i < n; i++ {
			if r.Chance(2, 3) {
				es = append(es, "s:"+Pick(r, aKeys)+":"+Pick(r, aVals))
			} else {
				es = append(es, "d:"+Pick(r, aKeys))
			}
		}

		return strings.Join(es, sep)
	}

	sub := func(sep string) string {
		var l []string

		for _, f := range aFins {
			if r.Chance(1, 3) {
				l = append(l, f)
			}
		}

		if r.Chance(1, 2) {
			for i := range l {
				j := r.Intn(i + 1)
				l[i], l[j] = l[j], l[i]
			}
		}

		return strings.Join(l, sep)
	}

	sep := ","
	if inFunc {
		sep = "+"
	}

	for {
		switch x := r.Intn(100); {
		case x < 14:
			return "setlabel", []string{"k=" + Pick(r, aKeys), "v=" + Pick(r, aVals)}
		case x < 21:
			return "dellabel", []string{"k=" + Pick(r, aKeys)}
		case x < 28:
			return "dolabels", []string{"es=" + edits(sep)}
		case x < 36:
			return "setanno", []string{"k=" + Pick(r, aKeys), "v=" + Pick(r, aVals)}
		case x < 40:
			return "delanno", []string{"k=" + Pick(r, aKeys)}
		case x < 44:
			return "doannos", []string{"es=" + edits(sep)}
		case x < 62:
			return "finadd", []string{"f=" + Pick(r, aFins)}
		case x < 76:
			return "finremove", []string{"f=" + Pick(r, aFins)}
		case x < 82:
			return "finsetlit", []string{"l=" + sub(sep)}
		case x < 87:
			return "setphase", []string{"p=" + Pick(r, []string{"running", "tearingDown"})}
		case x < 90:
			if inFunc {
				continue // a version set inside an UpdateWithConflicts callback conflicts forever
			}

			return "setver", []string{"v=" + Pick(r, []string{"undefined", "1", "2", "3"})}
		case x < 94:
			return "setowner", []string{"o=" + Pick(r, aOwners)}
		default:
			return "setspec", []string{"s=" + Pick(r, aSpecs)}
		}
	}
}

// mutTok renders a mutation as a `name/arg/arg` token of an `ms=` list.
func mutTok(name string, args []string) string {
	parts := []string{name}

	for _, a := range args {
		_, v, _ := strings.Cut(a, "=")
		parts = append(parts, v)
	}

	return strings.Join(parts, "/")
}

func (e *aliasEng) Gen(r *Rand, thorough bool, idx int) Case {
	flav := storeFlavours[idx%len(storeFlavours)]
	resFlav := []string{"tres", "typed", "rdspec", "typed"}[(idx/2)%4]

	n := 40
	if thorough {
		n = 90
	}

	c := Case{Header: fmt.Sprintf("# engine=alias flavour=%s res=%s case=%d", flav, resFlav, idx)}
	next := 2
	live := []int{}
	raws := []int{}
	nextRaw := 1
	hid := map[int]string{}     // shadow: the id a handle probably carries
	stored := map[string]bool{} // shadow: ids probably in the store (only biases the generator)

	storedID := func() string {
		if len(stored) > 0 && r.Chance(5, 6) {
			ks := make([]string, 0, len(stored))
			for k := range stored {
				ks = append(ks, k)
			}

			sort.Strings(ks)

			return Pick(r, ks)
		}

		return Pick(r, aIDs[:3])
	}

	fresh := func(k int) int {
		h := next
		next += k

		return h
	}

	pickH := func() int {
		if len(live) == 0 || r.Chance(1, 60) {
			return 2 + r.Intn(next)
		}
		// recent handles are more interesting
		if r.Chance(1, 2) && len(live) > 3 {
			return live[len(live)-1-r.Intn(3)]
		}

		return Pick(r, live)
	}

	ms := func() string {
		k := 1 + r.Intn(3)
		toks := make([]string, 0, k)

		for i := 0; i < k; i++ {
			name, args := e.genMut(r, true)
			toks = append(toks, mutTok(name, args))
		}

		return strings.Join(toks, ";")
	}

	add := func(format string, a ...any) { c.Ops = append(c.Ops, fmt.Sprintf(format, a...)) }

	// a program always starts with a couple of objects
	for i := 0; i < 2; i++ {
		h := fresh(1)
		live = append(live, h)
		hid[h] = aIDs[i]
		add("new h=%d id=%s", h, aIDs[i])
	}

	for len(c.Ops) < n {
		switch x := r.Intn(100); {
		case x < 5:
			h := fresh(1)
			live = append(live, h)
			hid[h] = Pick(r, aIDs[:3+r.Intn(2)])
			add("new h=%d id=%s", h, hid[h])
		case x < 11:
			h := fresh(1)
			src := pickH()
			live = append(live, h)
			hid[h] = hid[src]
			add("copy dst=%d src=%d", h, src)
		case x < 14:
			add("copymd dst=%d src=%d", pickH(), pickH())
		case x < 52:
			name, args := e.genMut(r, false)
			add("%s h=%d %s", name, pickH(), strings.Join(args, " "))
		case x < 55:
			add("finsetfrom h=%d src=%d", pickH(), pickH())
		case x < 58:
			if len(raws) == 0 || r.Chance(1, 3) {
				rv := nextRaw
				nextRaw++
				raws = append(raws, rv)

				var l []string

				for _, f := range aFins {
					if r.Chance(1, 2) {
						l = append(l, f)
					}
				}

				add("rawnew r=%d l=%s", rv, strings.Join(l, ","))
			} else {
				add("finsetraw h=%d r=%d", pickH(), Pick(r, raws))
			}
		case x < 61:
			if len(raws) > 0 {
				add("rawwrite r=%d i=%d v=%s", Pick(r, raws), r.Intn(4), Pick(r, []string{"p", "q", "A", "x"}))
			}
		case x < 69:
			h := pickH()
			if hid[h] != "" {
				stored[hid[h]] = true
			}

			add("create h=%d as=%s", h, Pick(r, aOwners))
		case x < 77:
			add("update h=%d as=%s exp=%s", pickH(), Pick(r, aOwners), Pick(r, []string{"any", "any", "running", "tearingDown"}))
		case x < 81:
			h := pickH()
			if hid[h] != "" {
				stored[hid[h]] = true
			}

			add("modify h=%d as=%s ms=%s", h, Pick(r, aOwners), ms())
		case x < 84:
			h := fresh(1)
			id := storedID()

			if stored[id] {
				live = append(live, h)
				hid[h] = id
			}

			add("updatewc id=%s dst=%d as=%s ms=%s", id, h, Pick(r, aOwners), ms())
		case x < 86:
			id := storedID()
			if r.Chance(1, 2) {
				delete(stored, id)
			}

			add("destroy id=%s as=%s", id, Pick(r, aOwners))
		case x < 92:
			h := fresh(1)
			id := storedID()

			if stored[id] {
				live = append(live, h)
				hid[h] = id
			}

			add("get id=%s dst=%d via=%s", id, h, Pick(r, []string{"direct", "direct", "cached"}))
		case x < 95:
			h := fresh(5)
			ks := make([]string, 0, len(stored))

			for k := range stored {
				ks = append(ks, k)
			}

			sort.Strings(ks)

			for i, k := range ks {
				live = append(live, h+i)
				hid[h+i] = k
			}

			if r.Chance(1, 3) {
				// with a label query: only the ids carrying the label are bound (the others print nohandle when used)
				add("list base=%d via=%s q=%s", h, Pick(r, []string{"direct", "cached"}), Pick(r, []string{"k1", "k1", "k2"}))
			} else {
				add("list base=%d via=%s", h, Pick(r, []string{"direct", "cached"}))
			}
		case x < 99:
			add("sync")
		default:
			if len(live) > 4 {
				add("drop h=%d", pickH())
			}
		}
	}

	add("sync")

	return c
}

// --- the second resource flavour: typed.Resource

type aSpec struct{ S string }

func (s aSpec) DeepCopy() aSpec { return s }

type aExt struct{}

func (aExt) ResourceDefinition() meta.ResourceDefinitionSpec {
	return meta.ResourceDefinitionSpec{Type: "T1", DefaultNamespace: "n1"}
}

type aTyped = typed.Resource[aSpec, aExt]

// the third flavour: a typed resource whose spec is the library's own ResourceDefinitionSpec (slices inside: the
// spec's DeepCopy must copy them); the engine's spec string lives in PrintColumns[0].Name and is EDITED IN PLACE
type aRD = typed.Resource[meta.ResourceDefinitionSpec, aExt]

func aliasNew(resFlav, id string) resource.Resource { //nolint:ireturn
	md := resource.NewMetadata("n1", "T1", id, resource.VersionUndefined)

	if resFlav == "typed" {
		return typed.NewResource[aSpec, aExt](md, aSpec{})
	}

	if resFlav == "rdspec" {
		return typed.NewResource[meta.ResourceDefinitionSpec, aExt](md, meta.ResourceDefinitionSpec{Type: "T1", Aliases: []string{"t1"}})
	}

	return &TRes{md: md}
}

func aliasSetSpec(r resource.Resource, s string) {
	switch v := r.(type) {
	case *TRes:
		v.spec = TSpec{S: s}
	case *aTyped:
		v.TypedSpec().S = s
	case *aRD:
		sp := v.TypedSpec()

		switch {
		case s == "" && len(sp.PrintColumns) > 0:
			sp.PrintColumns[0].Name = "" // in place
		case s == "":
		case len(sp.PrintColumns) == 0:
			sp.PrintColumns = []meta.PrintColumn{{Name: s, JSONPath: "{.x}"}}
		default:
			sp.PrintColumns[0].Name = s // in place: the array is the object's own
		}
	default:
		panic(fmt.Sprintf("unknown resource flavour %T", r))
	}
}

func aliasSpec(r resource.Resource) string {
	switch v := r.(type) {
	case *TRes:
		return v.spec.S
	case *aTyped:
		return v.TypedSpec().S
	case *aRD:
		if sp := v.TypedSpec(); len(sp.PrintColumns) > 0 {
			return sp.PrintColumns[0].Name
		}

		return ""
	default:
		return specOf(r)
	}
}

func kvStr(raw map[string]string) string {
	ks := make([]string, 0, len(raw))
	for k := range raw {
		ks = append(ks, k)
	}

	sort.Strings(ks)

	out := make([]string, 0, len(ks))
	for _, k := range ks {
		out = append(out, k+":"+raw[k])
	}

	return strings.Join(out, ",")
}

// aliasObjStr is the canonical observable content of an object (same as Cosi.Driver.Alias.objStr).
// Raw() is only READ here.
func aliasObjStr(r resource.Resource) string {
	md := r.Metadata()

	return fmt.Sprintf("%s@%s|o=%s|%s|l=%s|a=%s|f=%s|s=%s", md.ID(), verStr(md.Version()), md.Owner(), md.Phase(),
		kvStr(md.Labels().Raw()), kvStr(md.Annotations().Raw()), strings.Join(*md.Finalizers(), ","), aliasSpec(r))
}

type aliasRun struct {
	ctx     context.Context //nolint:containedctx
	st      state.State
	cache   *runtime.VerifResourceCache
	ch      chan state.Event
	pending int
	resFlav string
	handles map[int]resource.Resource
	raws    map[int]resource.Finalizers
	replica map[string]resource.Resource
}

var aliasKind = resource.NewMetadata("n1", "T1", "", resource.VersionUndefined)

func newAliasRun(ctx context.Context, flav, resFlav string) (*aliasRun, error) {
	a := &aliasRun{
		ctx: ctx, st: state.WrapCore(NewFlavour(flav)), resFlav: resFlav,
		cache:   runtime.VerifNewResourceCache([]options.CachedResource{{Namespace: "n1", Type: "T1"}}),
		ch:      make(chan state.Event, 1<<14),
		handles: map[int]resource.Resource{}, raws: map[int]resource.Finalizers{}, replica: map[string]resource.Resource{},
	}

	if err := a.st.WatchKind(ctx, aliasKind, a.ch, state.WithBootstrapContents(true)); err != nil {
		return nil, err
	}

	// the state is empty: the first event is Bootstrapped (runtime.go:335)
	select {
	case ev := <-a.ch:
		if ev.Type != state.Bootstrapped {
			return nil, fmt.Errorf("unexpected first event %v", ev.Type)
		}

		a.cache.MarkBootstrapped("n1", "T1")
	case <-time.After(10 * time.Second):
		return nil, fmt.Errorf("no bootstrapped event")
	}

	return a, nil
}

// sync delivers the pending watch events to the cache exactly as runtime.go:355 does.
func (a *aliasRun) sync() error {
	for a.pending > 0 {
		select {
		case ev := <-a.ch:
			switch ev.Type { //nolint:exhaustive
			case state.Created, state.Updated:
				a.cache.CachePut(ev.Resource)
				a.replica[ev.Resource.Metadata().ID()] = ev.Resource
			case state.Destroyed:
				a.cache.CacheRemove(ev.Resource)
				delete(a.replica, ev.Resource.Metadata().ID())
			default:
				return fmt.Errorf("unexpected event %v", ev.Type)
			}

			a.pending--
		case <-time.After(10 * time.Second):
			return fmt.Errorf("watch event missing")
		}
	}

	return nil
}

func (a *aliasRun) applyEdits(kv interface{ Do(func(kvutils.TempKV)) }, es []string) {
	kv.Do(func(tmp kvutils.TempKV) {
		for _, e := range es {
			p := strings.Split(e, ":")

			switch {
			case p[0] == "s" && len(p) == 3:
				tmp.Set(p[1], p[2])
			case p[0] == "s" && len(p) == 2:
				tmp.Set(p[1], "")
			case p[0] == "d" && len(p) == 2:
				tmp.Delete(p[1])
			}
		}
	})
}

func splitOr(s, sep string) []string {
	if s == "" {
		return nil
	}

	return strings.Split(s, sep)
}

func mkFins(l []string) resource.Finalizers {
	f := make(resource.Finalizers, len(l)) // a literal: capacity = length
	copy(f, l)

	return f
}

// mutate performs one public mutator call; listSep is "," on an op line and "+" inside ms=.
func (a *aliasRun) mutate(r resource.Resource, name string, arg func(string) string, listSep string) string {
	md := r.Metadata()

	switch name {
	case "setlabel":
		md.Labels().Set(arg("k"), arg("v"))
	case "dellabel":
		md.Labels().Delete(arg("k"))
	case "dolabels":
		a.applyEdits(md.Labels(), splitOr(arg("es"), listSep))
	case "setanno":
		md.Annotations().Set(arg("k"), arg("v"))
	case "delanno":
		md.Annotations().Delete(arg("k"))
	case "doannos":
		a.applyEdits(md.Annotations(), splitOr(arg("es"), listSep))
	case "finadd":
		return fmt.Sprint(md.Finalizers().Add(arg("f")))
	case "finremove":
		return fmt.Sprint(md.Finalizers().Remove(arg("f")))
	case "finsetlit":
		md.Finalizers().Set(mkFins(splitOr(arg("l"), listSep)))
	case "setphase":
		md.SetPhase(phaseOf(arg("p")))
	case "setver":
		md.SetVersion(parseVer(arg("v")))
	case "setowner":
		if err := md.SetOwner(arg("o")); err != nil {
			return "err other"
		}
	case "setspec":
		aliasSetSpec(r, arg("s"))
	default:
		return "bad-op"
	}

	return "ok"
}

var mutArgNames = map[string][]string{
	"setlabel": {"k", "v"}, "dellabel": {"k"}, "dolabels": {"es"}, "setanno": {"k", "v"}, "delanno": {"k"},
	"doannos": {"es"}, "finadd": {"f"}, "finremove": {"f"}, "finsetlit": {"l"}, "setphase": {"p"}, "setver": {"v"},
	"setowner": {"o"}, "setspec": {"s"},
}

// updater builds the callback of Modify / UpdateWithConflicts from an `ms=` list.
func (a *aliasRun) updater(ms string) func(resource.Resource) error {
	calls := 0

	return func(r resource.Resource) error {
		// UpdateWithConflicts retries on version conflicts without bound; sequentially it
		// can only conflict forever if the store's own object was corrupted through an
		// alias. Turn that livelock into a reportable outcome.
		if calls++; calls > 64 {
			panic("LIVELOCK: UpdateWithConflicts retried its callback more than 64 times")
		}

		for _, tok := range splitOr(ms, ";") {
			p := strings.Split(tok, "/")
			names := mutArgNames[p[0]]
			vals := map[string]string{}

			for i, n := range names {
				if i+1 < len(p) {
					vals[n] = p[i+1]
				}
			}

			if len(p) != len(names)+1 && !(p[0] == "setowner" && len(p) == 1) {
				continue // same as the driver: an unparsable token is skipped
			}

			a.mutate(r, p[0], func(k string) string { return vals[k] }, "+")
		}

		return nil
	}
}

func errOut(err error) string {
	if err == nil {
		return "ok"
	}

	return "err " + ErrClass(err)
}

func (a *aliasRun) exec(line string) (out string) {
	defer func() {
		if r := recover(); r != nil {
			out = fmt.Sprintf("PANIC %v", r)
		}
	}()

	op, args := ParseLine(line)
	arg := func(k string) string { return args[k] }
	h, hasH := a.handles[args.Int("h")]

	switch op {
	case "snap":
		return "snap"
	case "new":
		a.handles[args.Int("h")] = aliasNew(a.resFlav, args["id"])

		return "ok"
	case "copy":
		src, ok := a.handles[args.Int("src")]
		if !ok {
			return "nohandle"
		}

		a.handles[args.Int("dst")] = src.DeepCopy()

		return "ok"
	case "copymd":
		dst, ok1 := a.handles[args.Int("dst")]
		src, ok2 := a.handles[args.Int("src")]

		if !ok1 || !ok2 {
			return "nohandle"
		}

		*dst.Metadata() = src.Metadata().Copy()

		return "ok"
	case "drop":
		delete(a.handles, args.Int("h"))

		return "ok"
	case "setlabel", "dellabel", "dolabels", "setanno", "delanno", "doannos", "finadd", "finremove", "finsetlit",
		"setphase", "setver", "setowner", "setspec":
		if !hasH {
			return "nohandle"
		}

		return a.mutate(h, op, arg, ",")
	case "finsetfrom":
		src, ok := a.handles[args.Int("src")]
		if !hasH || !ok {
			return "nohandle"
		}

		h.Metadata().Finalizers().Set(*src.Metadata().Finalizers())

		return "ok"
	case "finsetraw":
		raw, ok := a.raws[args.Int("r")]
		if !hasH || !ok {
			return "nohandle"
		}

		h.Metadata().Finalizers().Set(raw)

		return "ok"
	case "rawnew":
		a.raws[args.Int("r")] = mkFins(args.List("l"))

		return "ok"
	case "rawwrite":
		raw, ok := a.raws[args.Int("r")]
		if !ok {
			return "nohandle"
		}

		if i := args.Int("i"); i < len(raw) {
			raw[i] = args["v"] // the caller's own slice: a legitimate in-place write

			return "ok"
		}

		return "oob"
	case "create":
		if !hasH {
			return "nohandle"
		}

		err := a.st.Create(a.ctx, h, state.WithCreateOwner(args["as"]))
		if err == nil {
			a.pending++
		}

		return errOut(err)
	case "update":
		if !hasH {
			return "nohandle"
		}

		opts := []state.UpdateOption{state.WithUpdateOwner(args["as"])}
		if args["exp"] == "any" {
			opts = append(opts, state.WithExpectedPhaseAny())
		} else {
			opts = append(opts, state.WithExpectedPhase(phaseOf(args["exp"])))
		}

		err := a.st.Update(a.ctx, h, opts...)
		if err == nil {
			a.pending++
		}

		return errOut(err)
	case "destroy":
		err := a.st.Destroy(a.ctx, resource.NewMetadata("n1", "T1", args["id"], resource.VersionUndefined), state.WithDestroyOwner(args["as"]))
		if err == nil {
			a.pending++
		}

		return errOut(err)
	case "modify":
		if !hasH {
			return "nohandle"
		}

		before := a.storeVersions()
		err := a.st.Modify(a.ctx, h, a.updater(args["ms"]), state.WithUpdateOwner(args["as"]))
		a.pending += a.changed(before)

		return errOut(err)
	case "updatewc":
		before := a.storeVersions()
		res, err := a.st.UpdateWithConflicts(a.ctx, resource.NewMetadata("n1", "T1", args["id"], resource.VersionUndefined),
			a.updater(args["ms"]), state.WithUpdateOwner(args["as"]))
		a.pending += a.changed(before)

		if err != nil {
			delete(a.handles, args.Int("dst"))

			return errOut(err)
		}

		a.handles[args.Int("dst")] = res

		return "ok"
	case "get":
		var (
			res resource.Resource
			err error
		)

		ptr := resource.NewMetadata("n1", "T1", args["id"], resource.VersionUndefined)
		if args["via"] == "cached" {
			res, err = a.cache.Get(a.ctx, ptr)
		} else {
			res, err = a.st.Get(a.ctx, ptr)
		}

		if err != nil {
			return errOut(err)
		}

		a.handles[args.Int("dst")] = res

		return "ok"
	case "list":
		var (
			l   resource.List
			err error
		)

		var lopts []state.ListOption

		if q := args["q"]; q != "" { // a label query: the filtered path of collection.List / cacheHandler.list
			lopts = append(lopts, state.WithLabelQuery(resource.LabelExists(q)))
		}

		if args["via"] == "cached" {
			l, err = a.cache.List(a.ctx, aliasKind, lopts...)
		} else {
			l, err = a.st.List(a.ctx, aliasKind, lopts...)
		}

		if err != nil {
			return errOut(err)
		}

		ids := make([]string, 0, len(l.Items))

		for i, r := range l.Items {
			a.handles[args.Int("base")+i] = r
			ids = append(ids, r.Metadata().ID())
		}

		return "ids " + strings.Join(ids, ",")
	case "sync":
		if err := a.sync(); err != nil {
			return "PANIC " + err.Error()
		}

		return "ok"
	}

	return "bad-op"
}

// storeVersions / changed: how many events a composite call (Modify, UpdateWithConflicts)
// produced: it writes at most once (a Create or an Update of one id).
func (a *aliasRun) storeVersions() map[string]string {
	l, err := a.st.List(a.ctx, aliasKind)
	if err != nil {
		panic(err)
	}

	m := map[string]string{}
	for _, r := range l.Items {
		m[r.Metadata().ID()] = r.Metadata().Version().String()
	}

	return m
}

func (a *aliasRun) changed(before map[string]string) int {
	after := a.storeVersions()
	n := 0

	for id, v := range after {
		if before[id] != v {
			n++
		}
	}

	return n
}

func (a *aliasRun) snapshot() string {
	var parts []string

	hs := make([]int, 0, len(a.handles))
	for h := range a.handles {
		if h >= 2 {
			hs = append(hs, h)
		}
	}

	sort.Ints(hs)

	for _, h := range hs {
		parts = append(parts, fmt.Sprintf("h%d=%s", h, aliasObjStr(a.handles[h])))
	}

	rs := make([]int, 0, len(a.raws))
	for r := range a.raws {
		rs = append(rs, r)
	}

	sort.Ints(rs)

	for _, r := range rs {
		parts = append(parts, fmt.Sprintf("r%d=%s", r, strings.Join(a.raws[r], ",")))
	}

	table := func(items []resource.Resource) string {
		ss := make([]string, 0, len(items))
		for _, r := range items {
			ss = append(ss, aliasObjStr(r))
		}

		return "[" + strings.Join(ss, ";") + "]"
	}

	sl, err := a.st.List(a.ctx, aliasKind)
	if err != nil {
		panic(err)
	}

	cl, err := a.cache.List(a.ctx, aliasKind)
	if err != nil {
		panic(err)
	}

	ids := make([]string, 0, len(a.replica))
	for id := range a.replica {
		ids = append(ids, id)
	}

	sort.Strings(ids)

	rep := make([]resource.Resource, 0, len(ids))
	for _, id := range ids {
		rep = append(rep, a.replica[id])
	}

	parts = append(parts, "store="+table(sl.Items), "cache="+table(cl.Items), "watch="+table(rep))

	return strings.Join(parts, " ")
}

func (e *aliasEng) Exec(t *testing.T, c Case) []string {
	_, h := ParseLine(strings.TrimPrefix(c.Header, "#"))
	out := make([]string, 0, len(c.Ops))

	ctx, cancel := context.WithCancel(context.Background())
	defer cancel()

	flav, resFlav := h["flavour"], h["res"]
	if flav == "" {
		flav = "namespaced"
	}

	a, err := newAliasRun(ctx, flav, resFlav)
	if err != nil {
		t.Fatalf("alias: %v", err)
	}

	for _, line := range c.Ops {
		res := a.exec(line)

		snap := func() (s string) {
			defer func() {
				if r := recover(); r != nil {
					s = fmt.Sprintf("PANIC %v", r)
				}
			}()

			return a.snapshot()
		}()

		if res == "bad-op" {
			out = append(out, res)

			continue
		}

		out = append(out, res+" | "+snap)
	}

	return out
}
