package harness

import (
	"context"
	"fmt"
	"regexp"
	"sort"
	"strings"
	"sync"
	"sync/atomic"
	"testing"
	"time"

	"github.com/cosi-project/runtime/pkg/resource"
	"github.com/cosi-project/runtime/pkg/state"
	"github.com/cosi-project/runtime/pkg/state/impl/inmem"
	"github.com/cosi-project/runtime/pkg/state/impl/namespaced"
)

// engine store-conc (C01, real threads — no synctest): N goroutines hammer one real state with
// random CRUD calls on a tiny universe. A recording backing store, which the collection calls
// under its lock, stamps every successful write with a global counter (the commit order);
// every call records the counter at invocation and at response. The Lean driver then decides
// linearizability of the recorded history against the commit order (Cosi.Driver.Conc).

func init() { Register("store-conc", func() Engine { return &concEng{} }) }

type concEng struct{}

func (*concEng) Name() string { return "store-conc" }

func (*concEng) Cases(thorough bool) int {
	if thorough {
		return 400
	}

	return 40
}

func (*concEng) Rule() string {
	return "2-8 goroutines x 40-120 random Create/Update/Destroy/Get/List calls on 1 type x 2 ids over inmem or namespaced state with a recording backing store, real parallelism; non-trivial = at least one pair of calls on the same key whose [invoke,response] intervals overlap and at least one failed call; distinct by hash of the recorded history"
}

func (*concEng) NonTrivial(c Case, _ []string) bool {
	type iv struct {
		lo, hi int
		key    string
	}

	var ivs []iv

	failed := false

	for _, op := range c.Ops {
		_, a := ParseLine(op)
		ivs = append(ivs, iv{a.Int("lo"), a.Int("hi"), a["typ"] + "/" + a["id"]})

		if strings.HasPrefix(a["resp"], "err") {
			failed = true
		}
	}

	sort.Slice(ivs, func(i, j int) bool { return ivs[i].lo < ivs[j].lo })

	overlap := false

	for i := 0; i+1 < len(ivs) && !overlap; i++ {
		for j := i + 1; j < len(ivs) && ivs[j].lo < ivs[i].hi; j++ {
			if ivs[i].key == ivs[j].key {
				overlap = true

				break
			}
		}
	}

	return overlap && failed
}

func (*concEng) Exec(*testing.T, Case) []string { panic("store-conc is a Tracer engine") }

func (e *concEng) Gen(r *Rand, thorough bool, idx int) Case {
	flav := storeFlavours[idx%len(storeFlavours)]
	nsaware := 1

	if flav == "inmem" {
		nsaware = 0
	}

	calls := 40 + r.Intn(40)
	if thorough {
		calls = 80 + r.Intn(120)
	}

	return Case{
		Header: fmt.Sprintf("# engine=store-conc flavour=%s nsaware=%d case=%d", flav, nsaware, idx),
		Ops:    []string{fmt.Sprintf("run workers=%d calls=%d seed=%d", 2+r.Intn(7), calls, r.Next()%1000000)},
	}
}

// concStore records the commit order: it is called by the collection while it holds its lock.
type concStore struct {
	counter *atomic.Int64
	mu      sync.Mutex
	commits map[string][]int64 // "put/typ/id/ver" → commit stamps (one per incarnation)
	order   []string
}

func (s *concStore) Put(_ context.Context, _ resource.Type, r resource.Resource) error {
	t := s.counter.Add(1)

	s.mu.Lock()
	k := fmt.Sprintf("put/%s/%s/%s", r.Metadata().Type(), r.Metadata().ID(), r.Metadata().Version())
	s.commits[k] = append(s.commits[k], t)
	s.mu.Unlock()

	return nil
}

func (s *concStore) Destroy(_ context.Context, typ resource.Type, p resource.Pointer) error {
	t := s.counter.Add(1)

	s.mu.Lock()
	s.order = append(s.order, fmt.Sprintf("%d destroy/%s/%s", t, typ, p.ID()))
	s.mu.Unlock()

	return nil
}

func (s *concStore) Load(context.Context, inmem.LoadHandler) error { return nil }

type concCall struct {
	lo, hi, commit int64
	op, resp       string
}

var concTimeRe = regexp.MustCompile(`\|c=-?\d+\|u=-?\d+\|`)

func concMask(s string) string { return concTimeRe.ReplaceAllString(s, "|c=*|u=*|") }

func (e *concEng) Trace(_ *testing.T, sc Case) (Case, []string) {
	_, h := ParseLine(strings.TrimPrefix(sc.Header, "#"))
	_, a := ParseLine(sc.Ops[0])

	var counter atomic.Int64

	bs := &concStore{counter: &counter, commits: map[string][]int64{}}

	var st state.CoreState
	if h["flavour"] == "inmem" {
		st = inmem.NewStateWithOptions(inmem.WithBackingStore(bs))("n1")
	} else {
		builder := inmem.NewStateWithOptions(inmem.WithBackingStore(bs))
		// a slow builder: the first touches of a namespace by several workers overlap
		st = namespaced.NewState(func(ns resource.Namespace) state.CoreState {
			time.Sleep(300 * time.Microsecond)

			return builder(ns)
		})
	}

	ctx := context.Background()
	workers, calls := a.Int("workers"), a.Int("calls")

	var (
		mu  sync.Mutex
		all []concCall
		wg  sync.WaitGroup
	)

	for w := 0; w < workers; w++ {
		wg.Add(1)

		go func(w int) {
			defer wg.Done()

			r := NewRand(uint64(a.Int("seed"))*131 + uint64(w))
			known := map[string]int{} // last version this worker saw per id

			for i := 0; i < calls/workers+1; i++ {
				id := Pick(r, []string{"a", "a", "b"})

				var op string

				switch x := r.Intn(100); {
				case x < 25:
					op = fmt.Sprintf("create ns=n1 typ=T1 id=%s ver=undefined owner= phase=running fins=%s labels= c=0 u=0 spec=w%d as=", id, Pick(r, []string{"", "", "x"}), w)
				case x < 60:
					v := known[id]
					if r.Chance(1, 4) {
						v += r.Intn(3) - 1
					}

					op = fmt.Sprintf("update ns=n1 typ=T1 id=%s ver=%d owner= phase=running fins=%s labels= c=0 u=0 spec=w%d-%d as= exp=any", id, max(v, 0), Pick(r, []string{"", "", "x"}), w, i)
				case x < 75:
					op = fmt.Sprintf("destroy ns=n1 typ=T1 id=%s as=", id)
				case x < 92:
					op = fmt.Sprintf("get ns=n1 typ=T1 id=%s", id)
				default:
					op = "list ns=n1 typ=T1"
				}

				lo := counter.Add(1)
				resp := ExecStoreOp(ctx, st, op)
				hi := counter.Add(1)

				// learn versions from what came back
				if i := strings.Index(resp, "/"+id+"@"); i >= 0 {
					var v int

					fmt.Sscanf(resp[i+len(id)+2:], "%d", &v)
					known[id] = v
				}

				mu.Lock()
				all = append(all, concCall{lo: lo, hi: hi, op: op, resp: concMask(resp)})
				mu.Unlock()
			}
		}(w)
	}

	wg.Wait()

	// attach commit stamps to the successful writes
	destroys := map[string][]int64{}

	for _, o := range bs.order {
		var (
			t   int64
			key string
		)

		fmt.Sscanf(o, "%d %s", &t, &key)
		destroys[key] = append(destroys[key], t)
	}

	for i := range all {
		c := &all[i]
		op, ar := ParseLine(c.op)

		switch {
		case (op == "create" || op == "update") && strings.HasPrefix(c.resp, "ok "):
			// the stored version is in the response
			ver := ""
			if j := strings.Index(c.resp, "@"); j >= 0 {
				ver = c.resp[j+1 : j+1+strings.IndexAny(c.resp[j+1:], "|")]
			}

			// the same (id, version) can be committed again after a destroy + create: take the stamp inside the call
			for _, t := range bs.commits[fmt.Sprintf("put/T1/%s/%s", ar["id"], ver)] {
				if t > c.lo && t < c.hi {
					c.commit = t
				}
			}

			if c.commit == 0 {
				c.commit = -1
			}
		case op == "destroy" && c.resp == "ok":
			for _, t := range destroys["destroy/T1/"+ar["id"]] {
				if t > c.lo && t < c.hi {
					c.commit = t
				}
			}

			if c.commit == 0 {
				c.commit = -1
			}
		}
	}

	// a successful write without a recorded commit inside its call (commit == -1) is reported
	var writes, others []concCall

	for _, c := range all {
		if c.commit > 0 {
			writes = append(writes, c)
		} else {
			others = append(others, c)
		}
	}

	sort.Slice(writes, func(i, j int) bool { return writes[i].commit < writes[j].commit })
	sort.Slice(others, func(i, j int) bool { return others[i].lo < others[j].lo })

	derived := Case{Header: sc.Header}

	var outs []string

	for _, c := range writes {
		derived.Ops = append(derived.Ops, fmt.Sprintf("%s lo=%d hi=%d commit=%d", c.op, c.lo, c.hi, c.commit))
		outs = append(outs, c.resp+" lin=ok")
	}

	for _, c := range others {
		if c.commit == -1 {
			// a successful write whose commit stamp could not be recovered: treat as a broken recording
			derived.Ops = append(derived.Ops, fmt.Sprintf("%s lo=%d hi=%d resp=%s", c.op, c.lo, c.hi, strings.ReplaceAll(c.resp, " ", "_")))
			outs = append(outs, "lin=UNRECORDED-COMMIT")

			continue
		}

		derived.Ops = append(derived.Ops, fmt.Sprintf("%s lo=%d hi=%d resp=%s", c.op, c.lo, c.hi, strings.ReplaceAll(c.resp, " ", "_")))
		outs = append(outs, "lin=ok")
	}

	return derived, outs
}
