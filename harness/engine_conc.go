package harness

import (
	"context"
	"fmt"
	"regexp"
	"runtime"
	"sort"
	"strings"
	"sync"
	"sync/atomic"
	"testing"
	"time"

	"github.com/cosi-project/runtime/pkg/resource"
	"github.com/cosi-project/runtime/pkg/state"
	"github.com/cosi-project/runtime/pkg/state/impl/inmem"
	"github.com/cosi-project/runtime/pkg/state/impl/namespaced"
)

// engine store-conc (C01, real threads — no synctest): N goroutines hammer one real state with
// random CRUD calls on a tiny universe. A recording backing store, which the collection calls
// under its lock, stamps every successful write with a global counter (the commit order);
// every call records the counter at invocation and at response. The Lean driver then decides
// linearizability of the recorded history against the commit order (Cosi.Driver.Conc).

func init() { Register("store-conc", func() Engine { return &concEng{} }) }

type concEng struct{}

func (*concEng) Name() string { return "store-conc" }

func (*concEng) Cases(thorough bool) int {
	if thorough {
		return 400
	}

	return 40
}

func (*concEng) Rule() string {
	return "2-8 goroutines x 40-120 random Create/Update/Destroy/Get/List calls on 1 type x 2 ids over inmem or namespaced state with a recording backing store, real parallelism; non-trivial = at least one pair of calls on the same key whose [invoke,response] intervals overlap and at least one failed call; distinct by hash of the recorded history"
}

func (*concEng) NonTrivial(c Case, _ []string) bool {
	type iv struct {
		lo, hi int
		key    string
	}

	var ivs []iv

	failed := false

	for _, op := range c.Ops {
		_, a := ParseLine(op)
		ivs = append(ivs, iv{a.Int("lo"), a.Int("hi"), a["typ"] + "/" + a["id"]})

		if strings.HasPrefix(a["resp"], "err") {
			failed = true
		}
	}

	sort.Slice(ivs, func(i, j int) bool { return ivs[i].lo < ivs[j].lo })

	overlap := false

	for i := 0; i+1 < len(ivs) && !overlap; i++ {
		for j := i + 1; j < len(ivs) && ivs[j].lo < ivs[i].hi; j++ {
			if ivs[i].key == ivs[j].key {
				overlap = true

				break
			}
		}
	}

	return overlap && failed
}

func (*concEng) Exec(*testing.T, Case) []string { panic("store-conc is a Tracer engine") }

func (e *concEng) Gen(r *Rand, thorough bool, idx int) Case {
	flav := storeFlavours[idx%len(storeFlavours)]
	nsaware := 1

	if flav == "inmem" {
		nsaware = 0
	}

	calls := 40 + r.Intn(40)
	if thorough {
		calls = 80 + r.Intn(120)
	}

	return Case{
		Header: fmt.Sprintf("# engine=store-conc flavour=%s nsaware=%d case=%d", flav, nsaware, idx),
		Ops:    []string{fmt.Sprintf("run workers=%d calls=%d seed=%d", 2+r.Intn(7), calls, r.Next()%1000000)},
	}
}

// concStore records the commit order: it is called by the collection while it holds its lock, with the context of
// the call that commits — the stamp is written into that call's own record (carried by the context), so the
// attribution is exact however long a call is preempted.
type concStore struct {
	counter *atomic.Int64
	preload []resource.Resource // what the store holds before the first call: delivered by Load, slowly
}

type concCommitKey struct{}

func (s *concStore) stamp(ctx context.Context) {
	t := s.counter.Add(1)

	if rec, ok := ctx.Value(concCommitKey{}).(*int64); ok {
		*rec = t
	}

	// a slow backing store: whatever the collection does between this call and its memory write must still be
	// inside its critical section (other workers get a chance to run here)
	if t%4 == 0 {
		time.Sleep(50 * time.Microsecond)
	} else {
		runtime.Gosched()
	}
}

func (s *concStore) Put(ctx context.Context, _ resource.Type, _ resource.Resource) error {
	s.stamp(ctx)

	return nil
}

func (s *concStore) Destroy(ctx context.Context, _ resource.Type, _ resource.Pointer) error {
	s.stamp(ctx)

	return nil
}

// Load delivers the persisted resources one by one with pauses: the first calls of several workers overlap the
// initial load and must all wait for it.
func (s *concStore) Load(_ context.Context, h inmem.LoadHandler) error {
	for _, r := range s.preload {
		time.Sleep(time.Millisecond)

		if err := h(r.Metadata().Type(), r.DeepCopy()); err != nil {
			return err
		}
	}

	time.Sleep(time.Millisecond)

	return nil
}

type concCall struct {
	lo, hi, commit int64
	op, resp       string
}

var concTimeRe = regexp.MustCompile(`\|c=-?\d+\|u=-?\d+\|`)

func concMask(s string) string { return concTimeRe.ReplaceAllString(s, "|c=*|u=*|") }

func (e *concEng) Trace(_ *testing.T, sc Case) (Case, []string) {
	_, h := ParseLine(strings.TrimPrefix(sc.Header, "#"))
	_, a := ParseLine(sc.Ops[0])

	var counter atomic.Int64

	// two resources are in the backing store before the first call (version 1, committed "at instants 1 and 2")
	var (
		preOps  []string
		preOuts []string
	)

	bs := &concStore{counter: &counter}

	for _, id := range []string{"p", "q"} {
		r := NewTRes("n1", "T1", id)
		r.md.SetVersion(resource.VersionUndefined.Next())
		r.spec = TSpec{S: "pre"}
		bs.preload = append(bs.preload, r)

		t := counter.Add(1)
		preOps = append(preOps, fmt.Sprintf("create ns=n1 typ=T1 id=%s ver=undefined owner= phase=running fins= labels= c=0 u=0 spec=pre as= lo=0 hi=%d commit=%d", id, 1000000000, t))
		preOuts = append(preOuts, concMask("ok "+ResStr(r))+" lin=ok")
	}

	var st state.CoreState
	if h["flavour"] == "inmem" {
		st = inmem.NewStateWithOptions(inmem.WithBackingStore(bs))("n1")
	} else {
		builder := inmem.NewStateWithOptions(inmem.WithBackingStore(bs))
		// a slow builder: the first touches of a namespace by several workers overlap
		st = namespaced.NewState(func(ns resource.Namespace) state.CoreState {
			time.Sleep(300 * time.Microsecond)

			return builder(ns)
		})
	}

	ctx := context.Background()
	workers, calls := a.Int("workers"), a.Int("calls")

	var (
		mu  sync.Mutex
		all []concCall
		wg  sync.WaitGroup
	)

	for w := 0; w < workers; w++ {
		wg.Add(1)

		go func(w int) {
			defer wg.Done()

			r := NewRand(uint64(a.Int("seed"))*131 + uint64(w))
			known := map[string]int{} // last version this worker saw per id

			for i := 0; i < calls/workers+1; i++ {
				id := Pick(r, []string{"a", "a", "b", "p", "q"})

				var op string

				switch x := r.Intn(100); {
				case x < 25:
					op = fmt.Sprintf("create ns=n1 typ=T1 id=%s ver=undefined owner= phase=running fins=%s labels= c=0 u=0 spec=w%d as=", id, Pick(r, []string{"", "", "x"}), w)
				case x < 60:
					v := known[id]
					if r.Chance(1, 4) {
						v += r.Intn(3) - 1
					}

					op = fmt.Sprintf("update ns=n1 typ=T1 id=%s ver=%d owner= phase=running fins=%s labels= c=0 u=0 spec=w%d-%d as= exp=any", id, max(v, 0), Pick(r, []string{"", "", "x"}), w, i)
				case x < 75:
					op = fmt.Sprintf("destroy ns=n1 typ=T1 id=%s as=", id)
				case x < 92:
					op = fmt.Sprintf("get ns=n1 typ=T1 id=%s", id)
				default:
					op = "list ns=n1 typ=T1"
				}

				var commit int64

				lo := counter.Add(1)
				resp := ExecStoreOp(context.WithValue(ctx, concCommitKey{}, &commit), st, op)
				hi := counter.Add(1)

				// learn versions from what came back
				if i := strings.Index(resp, "/"+id+"@"); i >= 0 {
					var v int

					fmt.Sscanf(resp[i+len(id)+2:], "%d", &v)
					known[id] = v
				}

				mu.Lock()
				all = append(all, concCall{lo: lo, hi: hi, commit: commit, op: op, resp: concMask(resp)})
				mu.Unlock()
			}
		}(w)
	}

	wg.Wait()

	// a successful write must carry the stamp of its own commit, taken inside its [invoke, response] interval; a failed
	// call or a read must not have committed anything
	for i := range all {
		c := &all[i]
		op, _ := ParseLine(c.op)
		okWrite := ((op == "create" || op == "update") && strings.HasPrefix(c.resp, "ok ")) || (op == "destroy" && c.resp == "ok")

		switch {
		case okWrite && (c.commit <= c.lo || c.commit >= c.hi):
			c.commit = -1
		case !okWrite && c.commit != 0:
			c.commit = -2 // a call that reports failure (or a read) reached the backing store
		}
	}

	// a successful write without a recorded commit inside its call (commit == -1) is reported
	var writes, others []concCall

	for _, c := range all {
		if c.commit > 0 {
			writes = append(writes, c)
		} else {
			others = append(others, c)
		}
	}

	sort.Slice(writes, func(i, j int) bool { return writes[i].commit < writes[j].commit })
	sort.Slice(others, func(i, j int) bool { return others[i].lo < others[j].lo })

	derived := Case{Header: sc.Header, Ops: preOps}
	outs := preOuts

	for _, c := range writes {
		derived.Ops = append(derived.Ops, fmt.Sprintf("%s lo=%d hi=%d commit=%d", c.op, c.lo, c.hi, c.commit))
		outs = append(outs, c.resp+" lin=ok")
	}

	for _, c := range others {
		if c.commit == -2 {
			derived.Ops = append(derived.Ops, fmt.Sprintf("%s lo=%d hi=%d resp=%s", c.op, c.lo, c.hi, strings.ReplaceAll(c.resp, " ", "_")))
			outs = append(outs, "lin=FAILED-CALL-COMMITTED")

			continue
		}

		if c.commit == -1 {
			// a successful write whose commit stamp could not be recovered: treat as a broken recording
			derived.Ops = append(derived.Ops, fmt.Sprintf("%s lo=%d hi=%d resp=%s", c.op, c.lo, c.hi, strings.ReplaceAll(c.resp, " ", "_")))
			outs = append(outs, "lin=UNRECORDED-COMMIT")

			continue
		}

		derived.Ops = append(derived.Ops, fmt.Sprintf("%s lo=%d hi=%d resp=%s", c.op, c.lo, c.hi, strings.ReplaceAll(c.resp, " ", "_")))
		outs = append(outs, "lin=ok")
	}

	return derived, outs
}
