package harness

import "testing"

// TestFaultsChild is the entry point of the child processes of engine `faults`
// (crash/hang isolation, see engine_faults.go). It is skipped unless VERIF_FAULTS_CHILD=1.
func TestFaultsChild(t *testing.T) { faultsChild(t) }
