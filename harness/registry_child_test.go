package harness

import "testing"

// TestRegistryChild is the entry point of the child processes of engine `registry`
// (crash isolation, see engine_depdb.go). It is skipped unless VERIF_REGISTRY_CHILD=1.
func TestRegistryChild(t *testing.T) { registryChild(t) }
