package harness

import (
	"context"
	"fmt"
	"os"
	"strings"
	"sync"
	"testing"
	"testing/synctest"
	"time"

	"github.com/siderolabs/gen/optional"
	"go.uber.org/zap"

	"github.com/cosi-project/runtime/pkg/controller"
	"github.com/cosi-project/runtime/pkg/controller/generic/cleanup"
	"github.com/cosi-project/runtime/pkg/controller/generic/destroy"
	"github.com/cosi-project/runtime/pkg/controller/generic/qtransform"
	"github.com/cosi-project/runtime/pkg/controller/generic/transform"
	"github.com/cosi-project/runtime/pkg/controller/runtime"
	"github.com/cosi-project/runtime/pkg/resource"
	"github.com/cosi-project/runtime/pkg/resource/meta"
	"github.com/cosi-project/runtime/pkg/state"
	"github.com/cosi-project/runtime/pkg/state/impl/inmem"
	"github.com/cosi-project/runtime/pkg/state/impl/namespaced"
)

// engine ctrl (C06, C07) — trace validation. The REAL generic controllers (Transform with
// input finalizers, QTransform, Cleanup with RemoveOutputs, Destroy) run inside the REAL
// runtime under synctest; every store call of the controller blocks at a gate, so the
// scenario interleaves single controller store operations with external operations
// (create / update / teardown / destroy / re-create inputs, foreign finalizers on inputs
// and outputs). Every write — external or the controller's — is recorded in one totally
// ordered log. The log is the derived case: the Lean driver replays it on the store model
// (every recorded result must be the model's result) and evaluates the C07 safety monitors
// on every prefix and the C06 specification at every quiescence point.

func init() { Register("ctrl", func() Engine { return &ctrlEng{} }) }

type ctrlEng struct{}

func (*ctrlEng) Name() string { return "ctrl" }

func (*ctrlEng) Cases(thorough bool) int {
	if thorough {
		return 2000
	}

	return 160
}

func (*ctrlEng) Rule() string {
	return "one generic controller (transform+input finalizers / qtransform / qtransform+IgnoreTeardownUntil / cleanup+RemoveOutputs / cleanup+Combine(HasNoOutputs[COut2],RemoveOutputs[COut]) / destroy) in the real runtime; scenario = random interleaving of single gated controller store operations with external ops on 2 input ids (create, update, teardown, destroy, re-create, foreign finalizers on inputs and outputs, dependents of two types created and removed) and quiescence points; in half of the cases up to 4 one-shot reactive external operations are armed (`arm on=<get|list|create|update|destroy>:<type> do=…`) which run right after the next controller store operation of that kind returned, i.e. inside the window between two store operations of one reconcile; the recorded write log is validated; non-trivial = the log has at least one external write between two controller store operations of one reconcile, at least one controller destroy or finalizer removal, and at least 2 quiescence points; distinct by hash of the scenario"
}

func (*ctrlEng) NonTrivial(c Case, _ []string) bool {
	q, ctlWrites, interleaved, teardownish := 0, 0, false, false
	prevCtl := false

	for _, op := range c.Ops {
		name, a := ParseLine(op)
		if name == "quiesce" {
			q++
			prevCtl = false

			continue
		}

		if a["a"] == "ctrl" {
			ctlWrites++

			if name == "destroy" || (name == "update" && a["typ"] == "CIn") {
				teardownish = true
			}

			prevCtl = true
		} else if prevCtl {
			interleaved = true
		}
	}

	return q >= 2 && ctlWrites >= 2 && interleaved && teardownish
}

func (e *ctrlEng) Exec(*testing.T, Case) []string { panic("ctrl is a Tracer engine") }

const (
	ctrlInType   = "CIn"
	ctrlOutType  = "COut"
	ctrlOut2Type = "COut2"
)

// CIn / COut: typed resources with a static resource definition (usable on nil receivers).
type CIn struct {
	md   resource.Metadata
	spec TSpec
}

type COut struct {
	md   resource.Metadata
	spec TSpec
}

func NewCIn(id string) *CIn {
	return &CIn{md: resource.NewMetadata("n1", ctrlInType, id, resource.VersionUndefined)}
}

func NewCOut(id string) *COut {
	return &COut{md: resource.NewMetadata("n1", ctrlOutType, id, resource.VersionUndefined)}
}

// COut2 is a second kind of dependent output (cleanup-combine: HasNoOutputs[*COut2]).
type COut2 struct {
	md   resource.Metadata
	spec TSpec
}

func NewCOut2(id string) *COut2 {
	return &COut2{md: resource.NewMetadata("n1", ctrlOut2Type, id, resource.VersionUndefined)}
}

func (r *COut2) Metadata() *resource.Metadata { return &r.md }
func (r *COut2) Spec() any                    { return r.spec }
func (r *COut2) DeepCopy() resource.Resource  { return &COut2{md: r.md, spec: r.spec} } //nolint:ireturn
func (*COut2) ResourceDefinition() meta.ResourceDefinitionSpec {
	return meta.ResourceDefinitionSpec{Type: ctrlOut2Type, DefaultNamespace: "n1"}
}

func (r *CIn) Metadata() *resource.Metadata { return &r.md }
func (r *CIn) Spec() any                    { return r.spec }
func (r *CIn) DeepCopy() resource.Resource  { return &CIn{md: r.md, spec: r.spec} } //nolint:ireturn
func (*CIn) ResourceDefinition() meta.ResourceDefinitionSpec {
	return meta.ResourceDefinitionSpec{Type: ctrlInType, DefaultNamespace: "n1"}
}

func (r *COut) Metadata() *resource.Metadata { return &r.md }
func (r *COut) Spec() any                    { return r.spec }
func (r *COut) DeepCopy() resource.Resource  { return &COut{md: r.md, spec: r.spec} } //nolint:ireturn
func (*COut) ResourceDefinition() meta.ResourceDefinitionSpec {
	return meta.ResourceDefinitionSpec{Type: ctrlOutType, DefaultNamespace: "n1"}
}

// ctrlLog is the totally ordered write log.
type ctrlLog struct {
	mu     sync.Mutex
	ops    []string
	outs   []string
	gate   chan struct{}
	waits  int
	armed  []Args     // one-shot reactive external operations (op `arm`), oldest first
	env    *ctrlProxy // the ungated proxy the armed operations go through
	fired  int
	faults *ctrlFaults
}

// fire runs the oldest armed external operation waiting for the controller operation `on`
// (e.g. "update:COut", "get:CIn"): it is executed right after that controller operation
// returned from the store and before the controller sees the result, i.e. inside the window
// between two consecutive store operations of one reconcile.
func (l *ctrlLog) fire(ctx context.Context, kind string, typ resource.Type, id resource.ID, phase string) {
	l.mu.Lock()

	var hit Args

	for i, a := range l.armed {
		if (a["on"] == kind+":"+typ || a["on"] == kind+":*") && (a["ph"] == "" || a["ph"] == phase) {
			hit = Args{}
			for k, v := range a {
				hit[k] = v
			}

			if hit["id"] == "@" { // the resource the controller just touched
				hit["id"] = id
			}

			l.armed = append(l.armed[:i:i], l.armed[i+1:]...)
			l.fired++

			break
		}
	}

	env := l.env
	l.mu.Unlock()

	if hit != nil && env != nil {
		ctrlEnv(ctx, env, hit)
	}
}

func (l *ctrlLog) add(op, out string) {
	l.mu.Lock()
	l.ops = append(l.ops, op)
	l.outs = append(l.outs, out)
	l.mu.Unlock()
}

func (l *ctrlLog) enter(ctx context.Context) bool {
	l.mu.Lock()
	l.waits++
	l.mu.Unlock()

	defer func() {
		l.mu.Lock()
		l.waits--
		l.mu.Unlock()
	}()

	select {
	case <-l.gate:
		return true
	case <-ctx.Done():
		return false
	}
}

func (l *ctrlLog) waiting() bool {
	l.mu.Lock()
	defer l.mu.Unlock()

	return l.waits > 0
}

// ctrlProxy is the CoreState the runtime sees: every Get/List/Create/Update/Destroy waits for
// a permit; writes are logged in the store-seq op format.
type ctrlProxy struct {
	inner state.CoreState
	log   *ctrlLog
	actor string
	gated bool
}

func resFields(r resource.Resource) string {
	md := r.Metadata()
	lab := md.Labels().Raw()

	ls := make([]string, 0, len(lab))
	for _, k := range sortedKeys(lab) {
		ls = append(ls, k+":"+lab[k])
	}

	return fmt.Sprintf("ns=%s typ=%s id=%s ver=%s owner=%s phase=%s fins=%s labels=%s c=%d u=%d spec=%s",
		md.Namespace(), md.Type(), md.ID(), verStr(md.Version()), md.Owner(), md.Phase(), strings.Join(*md.Finalizers(), ","),
		strings.Join(ls, ","), tick(md.Created()), tick(md.Updated()), specOf(r))
}

func (p *ctrlProxy) wait(ctx context.Context) error {
	if p.gated && !p.log.enter(ctx) {
		return errGateCancelled
	}

	return nil
}

func (p *ctrlProxy) Get(ctx context.Context, ptr resource.Pointer, opts ...state.GetOption) (resource.Resource, error) { //nolint:ireturn
	if err := p.wait(ctx); err != nil {
		return nil, err
	}

	res, err := p.inner.Get(ctx, ptr, opts...)
	p.fire(ctx, "get", ptr.Type(), ptr.ID(), "")

	return res, err
}

func (p *ctrlProxy) fire(ctx context.Context, kind string, typ resource.Type, id resource.ID, phase string) {
	if p.gated {
		p.log.fire(ctx, kind, typ, id, phase)
	}
}

func (p *ctrlProxy) List(ctx context.Context, kind resource.Kind, opts ...state.ListOption) (resource.List, error) {
	if err := p.wait(ctx); err != nil {
		return resource.List{}, err
	}

	res, err := p.inner.List(ctx, kind, opts...)
	p.fire(ctx, "list", kind.Type(), "", "")

	return res, err
}

func (p *ctrlProxy) Create(ctx context.Context, r resource.Resource, opts ...state.CreateOption) error {
	if err := p.wait(ctx); err != nil {
		return err
	}

	var o state.CreateOptions
	for _, opt := range opts {
		opt(&o)
	}

	op := fmt.Sprintf("create a=%s t=%d %s as=%s", p.actor, tick(time.Now()), resFields(r), o.Owner)
	err := p.inner.Create(ctx, r, opts...)

	if err != nil {
		p.log.add(op, ErrLine(err, r.Metadata().Namespace(), r.Metadata().Type()))
	} else {
		p.log.add(op, "ok "+ResStr(r))
	}

	p.fire(ctx, "create", r.Metadata().Type(), r.Metadata().ID(), r.Metadata().Phase().String())

	return err
}

func (p *ctrlProxy) Update(ctx context.Context, r resource.Resource, opts ...state.UpdateOption) error {
	if err := p.wait(ctx); err != nil {
		return err
	}

	o := state.DefaultUpdateOptions()
	for _, opt := range opts {
		opt(&o)
	}

	exp := "any"
	if o.ExpectedPhase != nil {
		exp = o.ExpectedPhase.String()
	}

	op := fmt.Sprintf("update a=%s t=%d %s as=%s exp=%s", p.actor, tick(time.Now()), resFields(r), o.Owner, exp)
	err := p.inner.Update(ctx, r, opts...)

	if err != nil {
		p.log.add(op, ErrLine(err, r.Metadata().Namespace(), r.Metadata().Type()))
	} else {
		p.log.add(op, "ok "+ResStr(r))
	}

	p.fire(ctx, "update", r.Metadata().Type(), r.Metadata().ID(), r.Metadata().Phase().String())

	return err
}

func (p *ctrlProxy) Destroy(ctx context.Context, ptr resource.Pointer, opts ...state.DestroyOption) error {
	if err := p.wait(ctx); err != nil {
		return err
	}

	var o state.DestroyOptions
	for _, opt := range opts {
		opt(&o)
	}

	op := fmt.Sprintf("destroy a=%s t=%d ns=%s typ=%s id=%s as=%s", p.actor, tick(time.Now()), ptr.Namespace(), ptr.Type(), ptr.ID(), o.Owner)
	err := p.inner.Destroy(ctx, ptr, opts...)

	if err != nil {
		p.log.add(op, ErrLine(err, ptr.Namespace(), ptr.Type()))
	} else {
		p.log.add(op, "ok")
	}

	p.fire(ctx, "destroy", ptr.Type(), ptr.ID(), "")

	return err
}

func (p *ctrlProxy) Watch(ctx context.Context, ptr resource.Pointer, ch chan<- state.Event, opts ...state.WatchOption) error {
	return p.inner.Watch(ctx, ptr, ch, opts...)
}

func (p *ctrlProxy) WatchKind(ctx context.Context, kind resource.Kind, ch chan<- state.Event, opts ...state.WatchKindOption) error {
	return p.inner.WatchKind(ctx, kind, ch, opts...)
}

func (p *ctrlProxy) WatchKindAggregated(ctx context.Context, kind resource.Kind, ch chan<- []state.Event, opts ...state.WatchKindOption) error {
	return p.inner.WatchKindAggregated(ctx, kind, ch, opts...)
}

const ctrlName = "CTL"

// ctrlFaults: transient transform errors scripted by the scenario (`env do=failnext kind=plain|conflict`): the next
// call of the TransformFunc fails once — with a plain error, or with a state conflict error about ANOTHER resource
// (as a transform that writes an extra output would return). The controller must treat both as a failed
// reconcile (restart / retry with backoff) and converge afterwards.
type ctrlFaults struct {
	mu      sync.Mutex
	pending []error
}

func (f *ctrlFaults) next() error {
	f.mu.Lock()
	defer f.mu.Unlock()

	if len(f.pending) == 0 {
		return nil
	}

	err := f.pending[0]
	f.pending = f.pending[1:]

	return err
}

func (f *ctrlFaults) add(err error) {
	f.mu.Lock()
	defer f.mu.Unlock()

	if len(f.pending) < 3 {
		f.pending = append(f.pending, err)
	}
}

func ctrlTransformSpec(in string) string { return "t:" + in }

func ctrlRegister(rt *runtime.Runtime, kind string, faults *ctrlFaults) error {
	var qopts []qtransform.ControllerOption

	if kind == "qtransform-ignore" {
		// keep the output alive while other parties still hold finalizers on the tearing-down input
		qopts = append(qopts, qtransform.WithIgnoreTeardownUntil())
	}

	switch kind {
	case "qtransform", "qtransform-ignore":
		return rt.RegisterQController(qtransform.NewQController(
			qtransform.Settings[*CIn, *COut]{
				Name:              ctrlName,
				MapMetadataFunc:   func(in *CIn) *COut { return NewCOut(in.Metadata().ID()) },
				UnmapMetadataFunc: func(out *COut) *CIn { return NewCIn(out.Metadata().ID()) },
				TransformFunc: func(_ context.Context, _ controller.Reader, _ *zap.Logger, in *CIn, out *COut) error {
					if err := faults.next(); err != nil {
						return err
					}

					out.spec = TSpec{S: ctrlTransformSpec(in.spec.S)}

					return nil
				},
			},
			append(qopts, qtransform.WithConcurrency(1))...,
		))
	case "transform":
		return rt.RegisterController(transform.NewController(
			transform.Settings[*CIn, *COut]{
				Name:            ctrlName,
				MapMetadataFunc: func(in *CIn) *COut { return NewCOut(in.Metadata().ID()) },
				TransformFunc: func(_ context.Context, _ controller.Reader, _ *zap.Logger, in *CIn, out *COut) error {
					if err := faults.next(); err != nil {
						return err
					}

					out.spec = TSpec{S: ctrlTransformSpec(in.spec.S)}

					return nil
				},
				FinalizerRemovalFunc: func(context.Context, controller.Reader, *zap.Logger, *CIn) error { return nil },
			},
			transform.WithInputFinalizers(),
		))
	case "transform-sel":
		// the inputs are selected by label, the selector given in two WithInputListOptions calls (the queries add up)
		return rt.RegisterController(transform.NewController(
			transform.Settings[*CIn, *COut]{
				Name:            ctrlName,
				MapMetadataFunc: func(in *CIn) *COut { return NewCOut(in.Metadata().ID()) },
				TransformFunc: func(_ context.Context, _ controller.Reader, _ *zap.Logger, in *CIn, out *COut) error {
					if err := faults.next(); err != nil {
						return err
					}

					out.spec = TSpec{S: ctrlTransformSpec(in.spec.S)}

					return nil
				},
				FinalizerRemovalFunc: func(context.Context, controller.Reader, *zap.Logger, *CIn) error { return nil },
			},
			transform.WithInputFinalizers(),
			transform.WithInputListOptions(state.WithLabelQuery(resource.LabelEqual("sel", "a"))),
			transform.WithInputListOptions(state.WithLabelQuery(resource.LabelEqual("sel", "b"))),
		))
	case "cleanup":
		return rt.RegisterController(cleanup.NewController(
			cleanup.Settings[*CIn]{
				Name: ctrlName,
				Handler: cleanup.RemoveOutputs[*COut](func(in *CIn) state.ListOption {
					return state.WithLabelQuery(resource.LabelEqual("parent", in.Metadata().ID()))
				}),
			},
		))
	case "cleanup-combine":
		// the first handler only waits (HasNoOutputs), the last one removes its outputs
		return rt.RegisterController(cleanup.NewController(
			cleanup.Settings[*CIn]{
				Name: ctrlName,
				Handler: cleanup.Combine(
					cleanup.HasNoOutputs[*COut2](func(in *CIn) state.ListOption {
						return state.WithLabelQuery(resource.LabelEqual("parent", in.Metadata().ID()))
					}),
					cleanup.RemoveOutputs[*COut](func(in *CIn) state.ListOption {
						return state.WithLabelQuery(resource.LabelEqual("parent", in.Metadata().ID()))
					}),
				),
			},
		))
	case "destroy":
		return rt.RegisterQController(destroy.NewController[*CIn](optional.Some(uint(1))))
	}

	return fmt.Errorf("unknown controller kind %q", kind)
}

var ctrlKinds = []string{"qtransform", "transform", "cleanup", "destroy", "qtransform-ignore", "transform", "cleanup-combine", "transform-sel"}

func (e *ctrlEng) Gen(r *Rand, thorough bool, idx int) Case {
	kind := ctrlKinds[idx%len(ctrlKinds)]
	c := Case{Header: fmt.Sprintf("# engine=ctrl ctl=%s nsaware=1 case=%d", kind, idx)}
	ids := []string{"a", "b"}
	n := 40 + r.Intn(40)

	if thorough {
		n = 80 + r.Intn(80)
	}

	isCleanup := kind == "cleanup" || kind == "cleanup-combine"
	mapsOutputs := kind == "transform" || kind == "qtransform" || kind == "qtransform-ignore" || kind == "transform-sel"
	outTypes := []string{ctrlOutType}

	if kind == "cleanup-combine" {
		outTypes = []string{ctrlOutType, ctrlOut2Type, ctrlOut2Type}
	}

	// half of the cases arm reactive external operations: they run inside the window right after a
	// chosen kind of controller store operation (stale reads, writes landing between two writes)
	reactive := (idx/len(ctrlKinds))%2 == 1

	for i := 0; i < n; i++ {
		id := Pick(r, ids)

		if reactive && r.Chance(1, 6) {
			if r.Chance(1, 2) {
				// the windows of the finalizer protocol: right after the controller tore an output down, read an
				// output or an input, put its finalizer on an input, destroyed an output
				c.Ops = append(c.Ops, "arm "+Pick(r, []string{
					"on=update:COut ph=tearingDown do=addfin typ=COut id=@",
					"on=get:COut do=addfin typ=COut id=@",
					"on=get:COut do=rmfin typ=COut id=@",
					"on=update:CIn do=teardown id=@",
					"on=get:CIn do=teardown id=@",
					"on=update:CIn do=addfin typ=CIn id=@",
					"on=destroy:COut do=put id=@ spec=s9",
					"on=create:COut do=teardown id=@",
					"on=list:CIn do=teardown id=" + id,
					"on=list:COut do=addfin typ=COut id=" + id,
				}))

				continue
			}

			on := Pick(r, []string{"get", "list", "create", "update", "update", "destroy"}) + ":" + Pick(r, []string{ctrlInType, ctrlOutType, ctrlOutType, "*"})

			var do string

			switch y := r.Intn(10); {
			case y < 3:
				do = fmt.Sprintf("do=addfin typ=%s id=%s", Pick(r, []string{ctrlInType, ctrlOutType, ctrlOutType}), id)
			case y < 5:
				do = fmt.Sprintf("do=rmfin typ=%s id=%s", Pick(r, []string{ctrlInType, ctrlOutType}), id)
			case y < 7:
				do = "do=teardown id=" + id
			case y < 9:
				do = fmt.Sprintf("do=put id=%s spec=s%d", id, r.Intn(3))
			default:
				do = "do=destroy id=" + id
			}

			c.Ops = append(c.Ops, "arm on="+on+" "+do)

			continue
		}

		switch x := r.Intn(100); {
		case x < 45:
			c.Ops = append(c.Ops, "step")
		case x < 57:
			if kind == "transform-sel" {
				// the label is given at creation and never changed: an input is selected or not for its whole life
				c.Ops = append(c.Ops, fmt.Sprintf("env do=put id=%s spec=s%d sel=%s", id, r.Intn(3), Pick(r, []string{"a", "a", "b", "c"})))
			} else {
				c.Ops = append(c.Ops, fmt.Sprintf("env do=put id=%s spec=s%d", id, r.Intn(3)))
			}
		case x < 65:
			c.Ops = append(c.Ops, "env do=teardown id="+id)
		case x < 70:
			c.Ops = append(c.Ops, "env do=destroy id="+id)
		case x < 76:
			c.Ops = append(c.Ops, fmt.Sprintf("env do=%s typ=%s id=%s", Pick(r, []string{"addfin", "rmfin", "rmfin"}), Pick(r, []string{ctrlInType, ctrlOutType}), id))
		case x < 80 && mapsOutputs:
			c.Ops = append(c.Ops, "env do=failnext kind="+Pick(r, []string{"plain", "plain", "conflict"}))
		case x < 82 && isCleanup:
			c.Ops = append(c.Ops, fmt.Sprintf("env do=mkout typ=%s id=%s parent=%s", Pick(r, outTypes), Pick(r, []string{"o1", "o2", "o3"}), id))
		case x < 85 && kind == "cleanup-combine":
			c.Ops = append(c.Ops, fmt.Sprintf("env do=rmout typ=%s id=%s", Pick(r, outTypes), Pick(r, []string{"o1", "o2", "o3"})))
		case x < 90:
			c.Ops = append(c.Ops, "quiesce")
		default:
			c.Ops = append(c.Ops, "step")
		}
	}

	// let foreign finalizers go so that everything can settle, then a final quiescence
	for _, id := range ids {
		c.Ops = append(c.Ops, "env do=rmfin typ="+ctrlInType+" id="+id, "env do=rmfin typ="+ctrlOutType+" id="+id)
	}

	for _, id := range []string{"o1", "o2", "o3"} {
		c.Ops = append(c.Ops, "env do=rmfin typ="+ctrlOutType+" id="+id)

		if kind == "cleanup-combine" {
			// the dependents the controller only waits for are removed by their owner (the environment)
			c.Ops = append(c.Ops, "env do=rmout typ="+ctrlOut2Type+" id="+id)
		}
	}

	c.Ops = append(c.Ops, "quiesce")

	return c
}

// ctrlEnv performs an external operation (atomically, ungated) through the logging proxy.
func ctrlEnv(ctx context.Context, env *ctrlProxy, a Args) {
	st := state.WrapCore(env)
	id := a["id"]

	switch a["do"] {
	case "put": // create the input, or update its spec if it exists and is running
		cur, err := env.inner.Get(ctx, NewCIn(id).Metadata())
		if err != nil {
			in := NewCIn(id)
			in.spec = TSpec{S: a["spec"]}

			if a["sel"] != "" {
				in.md.Labels().Set("sel", a["sel"])
			}

			in.md.SetCreated(fromTick(0))
			in.md.SetUpdated(fromTick(0))
			_ = env.Create(ctx, in)

			return
		}

		in := cur.(*CIn) //nolint:forcetypeassert
		in.spec = TSpec{S: a["spec"]}
		_ = env.Update(ctx, in, state.WithUpdateOwner(in.md.Owner()), state.WithExpectedPhaseAny())
	case "teardown":
		_, _ = st.Teardown(ctx, NewCIn(id).Metadata())
	case "destroy":
		_ = env.Destroy(ctx, NewCIn(id).Metadata())
	case "addfin", "rmfin":
		md := resource.NewMetadata("n1", a["typ"], id, resource.VersionUndefined)

		cur, err := env.inner.Get(ctx, md)
		if err != nil {
			return
		}

		if a["do"] == "addfin" {
			if !cur.Metadata().Finalizers().Add("F") {
				return
			}
		} else if !cur.Metadata().Finalizers().Remove("F") {
			return
		}

		_ = env.Update(ctx, cur, state.WithUpdateOwner(cur.Metadata().Owner()), state.WithExpectedPhaseAny())
	case "mkout": // an unowned dependent output of a cleanup input (only while the parent is running)
		parent, err := env.inner.Get(ctx, NewCIn(a["parent"]).Metadata())
		if err != nil || parent.Metadata().Phase() != resource.PhaseRunning {
			return
		}

		if a["typ"] == ctrlOut2Type {
			out := NewCOut2(id)
			out.md.Labels().Set("parent", a["parent"])
			out.md.SetCreated(fromTick(0))
			out.md.SetUpdated(fromTick(0))
			_ = env.Create(ctx, out)

			return
		}

		out := NewCOut(id)
		out.md.Labels().Set("parent", a["parent"])
		out.md.SetCreated(fromTick(0))
		out.md.SetUpdated(fromTick(0))
		_ = env.Create(ctx, out)
	case "failnext": // the next transform fails once
		if env.log.faults == nil {
			return
		}

		if a["kind"] == "conflict" {
			// a genuine state conflict error about another resource: creating something that exists
			aux := NewTRes("n1", "Aux", "x")
			_ = env.inner.Create(ctx, aux)

			if err := env.inner.Create(ctx, NewTRes("n1", "Aux", "x")); err != nil {
				env.log.faults.add(fmt.Errorf("extra output: %w", err))
			}

			return
		}

		env.log.faults.add(fmt.Errorf("transient transform failure"))
	case "rmout": // the environment destroys a dependent output it owns
		_ = env.Destroy(ctx, resource.NewMetadata("n1", a["typ"], id, resource.VersionUndefined))
	}
}

func (e *ctrlEng) Trace(t *testing.T, sc Case) (Case, []string) {
	_, h := ParseLine(strings.TrimPrefix(sc.Header, "#"))
	log := &ctrlLog{}

	synctest.Test(t, func(t *testing.T) {
		ctx, cancel := context.WithCancel(context.Background())
		defer cancel()

		log.gate = make(chan struct{}) // must be created inside the bubble to block durably

		inner := namespaced.NewState(func(ns resource.Namespace) state.CoreState { return inmem.NewState(ns) })
		ctl := &ctrlProxy{inner: inner, log: log, actor: "ctrl", gated: true}
		env := &ctrlProxy{inner: inner, log: log, actor: "env"}
		log.env = env

		logger := zap.NewNop()
		if os.Getenv("VERIF_CTRL_DEBUG") != "" { // controller and runtime logs on stderr, for studying a replay
			logger, _ = zap.NewDevelopment()
		}

		rt, err := runtime.NewRuntime(state.WrapCore(ctl), logger)
		if err != nil {
			panic(err)
		}

		faults := &ctrlFaults{}
		log.faults = faults

		if err := ctrlRegister(rt, h["ctl"], faults); err != nil {
			panic(err)
		}

		go rt.Run(ctx) //nolint:errcheck

		permit := func() bool {
			synctest.Wait()

			if !log.waiting() {
				return false
			}

			log.gate <- struct{}{}
			synctest.Wait()

			return true
		}

		for _, line := range sc.Ops {
			op, a := ParseLine(line)

			switch op {
			case "step":
				permit()
			case "env":
				synctest.Wait()
				ctrlEnv(ctx, env, a)
				synctest.Wait()
			case "arm":
				log.mu.Lock()
				if len(log.armed) < 4 {
					log.armed = append(log.armed, a)
				}
				log.mu.Unlock()
			case "quiesce":
				// run until nothing moves: permit every waiting op, let timers (backoff, requeue) fire
				idle, sleep := 0, time.Second

				for round := 0; round < 400 && idle < 8; round++ {
					if permit() {
						idle, sleep = 0, time.Second

						continue
					}

					time.Sleep(sleep)

					if sleep < 64*time.Second {
						sleep *= 2
					}

					idle++
				}

				log.add(fmt.Sprintf("quiesce t=%d settled=%v", tick(time.Now()), idle >= 8), "spec=ok")
			}
		}

		cancel()
		synctest.Wait()
	})

	derived := Case{Header: sc.Header, Ops: log.ops}
	outs := make([]string, len(log.outs))

	for i, o := range log.outs {
		if strings.HasPrefix(log.ops[i], "quiesce") {
			outs[i] = o
		} else {
			outs[i] = o + " inv=ok"
		}
	}

	return derived, outs
}
