package harness

import (
	"fmt"
	"sort"
	"strings"
	"time"

	"github.com/cosi-project/runtime/pkg/resource"
	"github.com/cosi-project/runtime/pkg/resource/meta"
)

// TRes is the harness' resource: metadata plus a string spec. It supports the
// protobuf marshaling interfaces so that it can go through bbolt and gRPC.
type TRes struct {
	md   resource.Metadata
	spec TSpec
}

type TSpec struct{ S string }

func (s TSpec) MarshalProto() ([]byte, error) { return []byte(s.S), nil }

func (s TSpec) MarshalYAML() (any, error) { return s.S, nil }

func NewTRes(ns, typ, id string) *TRes {
	return &TRes{md: resource.NewMetadata(ns, typ, id, resource.VersionUndefined)}
}

func (r *TRes) Metadata() *resource.Metadata { return &r.md }
func (r *TRes) Spec() any                    { return r.spec }
func (r *TRes) DeepCopy() resource.Resource  { return &TRes{md: r.md, spec: r.spec} } //nolint:ireturn

func (r *TRes) UnmarshalProto(md *resource.Metadata, protoSpec []byte) error {
	r.md = *md
	r.spec = TSpec{S: string(protoSpec)}

	return nil
}

func (r *TRes) ResourceDefinition() meta.ResourceDefinitionSpec {
	return meta.ResourceDefinitionSpec{Type: r.md.Type(), DefaultNamespace: "n1"}
}

// virtual time base of a synctest bubble
var bubbleBase = time.Date(2000, 1, 1, 0, 0, 0, 0, time.UTC)

func tick(t time.Time) int64 {
	if t.IsZero() {
		return 0
	}

	return int64(t.Sub(bubbleBase) / time.Second)
}

func fromTick(n int) time.Time { return bubbleBase.Add(time.Duration(n) * time.Second) }

func verStr(v resource.Version) string { return v.String() }

func parseVer(s string) resource.Version {
	if s == "undefined" || s == "" {
		return resource.VersionUndefined
	}

	v, err := resource.ParseVersion(s)
	if err != nil {
		panic(err)
	}

	return v
}

func phaseOf(s string) resource.Phase {
	if s == "tearingDown" {
		return resource.PhaseTearingDown
	}

	return resource.PhaseRunning
}

func specOf(r resource.Resource) string {
	switch s := r.Spec().(type) {
	case TSpec:
		return s.S
	case interface{ MarshalProto() ([]byte, error) }:
		b, _ := s.MarshalProto()

		return string(b)
	default:
		return fmt.Sprint(s)
	}
}

// ResStr is the canonical form of a resource (same as Cosi.Driver.Store.resStr).
func ResStr(r resource.Resource) string {
	md := r.Metadata()

	if resource.IsTombstone(r) {
		return fmt.Sprintf("%s/%s/%s@%s|o=%s|%s|f=|l=|c=0|u=0|s=<tombstone>", md.Namespace(), md.Type(), md.ID(), verStr(md.Version()), md.Owner(), md.Phase())
	}

	lab := md.Labels().Raw()
	ks := make([]string, 0, len(lab))

	for k := range lab {
		ks = append(ks, k)
	}

	sort.Strings(ks)

	ls := make([]string, 0, len(ks))
	for _, k := range ks {
		ls = append(ls, k+":"+lab[k])
	}

	return fmt.Sprintf("%s/%s/%s@%s|o=%s|%s|f=%s|l=%s|c=%d|u=%d|s=%s",
		md.Namespace(), md.Type(), md.ID(), verStr(md.Version()), md.Owner(), md.Phase(),
		strings.Join(*md.Finalizers(), ","), strings.Join(ls, ","), tick(md.Created()), tick(md.Updated()), specOf(r))
}

// BuildRes builds the object an op line describes.
func BuildRes(a Args) *TRes {
	r := NewTRes(a["ns"], a["typ"], a["id"])
	r.md.SetVersion(parseVer(a["ver"]))

	if a["owner"] != "" {
		if err := r.md.SetOwner(a["owner"]); err != nil {
			panic(err)
		}
	}

	r.md.SetPhase(phaseOf(a["phase"]))

	for _, f := range a.List("fins") {
		r.md.Finalizers().Add(f)
	}

	for _, kv := range a.List("labels") {
		k, v, _ := strings.Cut(kv, ":")
		r.md.Labels().Set(k, v)
	}

	r.md.SetCreated(fromTick(a.Int("c")))
	r.md.SetUpdated(fromTick(a.Int("u")))
	r.spec = TSpec{S: a["spec"]}

	return r
}
