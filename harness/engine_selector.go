package harness

import (
	"context"
	"encoding/hex"
	"fmt"
	"net"
	"os"
	"regexp"
	"sort"
	"strings"
	"sync/atomic"
	"testing"
	"testing/synctest"

	"google.golang.org/grpc"
	"google.golang.org/grpc/credentials/insecure"
	"google.golang.org/grpc/test/bufconn"

	"github.com/cosi-project/runtime/api/v1alpha1"
	"github.com/cosi-project/runtime/pkg/controller/runtime"
	"github.com/cosi-project/runtime/pkg/controller/runtime/options"
	"github.com/cosi-project/runtime/pkg/resource"
	"github.com/cosi-project/runtime/pkg/state"
	"github.com/cosi-project/runtime/pkg/state/impl/inmem"
	"github.com/cosi-project/runtime/pkg/state/protobuf/client"
	"github.com/cosi-project/runtime/pkg/state/protobuf/server"
)

// engine selector (C14): one selector semantics at four sites —
//
//	direct   resource.Labels.Matches / LabelQueries.Matches / IDQuery.Matches
//	inmem    List and WatchKind (bootstrap) of the in-memory state with the selector
//	cache    the runtime read cache's List (runtime.VerifNewResourceCache)
//	grpc     List and WatchKind through the real gRPC client adapter and server
//	         (grpc-go over bufconn, inside the synctest bubble)
//
// compared with Cosi.Model.Selector, and label-change histories under a
// selector-filtered WatchKind whose delivered events are replayed and compared with
// the filtered List after every write.
//
// VERIF_C14_MALFORMED=1 adds the MALFORMED STREAM: value-taking terms (eq, lt, lte, ltn,
// lten) with an EMPTY value list sent over gRPC. On the unchanged tree the server's
// ConvertLabelQuery indexes term.Value[0] and panics (DESIGN.md §5 D2), so with the flag
// the check reports a violation of C14/C11. Without the flag such terms are still
// evaluated at the three local sites (`wire=0`), only the gRPC site is skipped.

const selMalformedEnv = "VERIF_C14_MALFORMED"

func init() { Register("selector", func() Engine { return &selectorEng{} }) }

type selectorEng struct{}

func (*selectorEng) Name() string { return "selector" }

func (*selectorEng) Cases(thorough bool) int {
	if thorough {
		return 12000
	}

	return 360
}

func (*selectorEng) Rule() string {
	return "eval cases: random label maps x label queries (all 7 operators, inverted or not, 0-3 values, numeric operands with spaces/signs/unit suffixes/int64 overflow, non-numeric operands, missing labels, empty queries, 0-3 queries) x ID regexps, each pair evaluated at direct/inmem List/inmem WatchKind/cache List/gRPC List/gRPC WatchKind; hist cases: create/update/destroy histories over 4 ids under a selector-filtered WatchKind with bootstrap (inmem and gRPC), events replayed and compared with the filtered List (inmem, gRPC, cache) after every write. non-trivial = eval case with both verdicts present, or hist case that delivered Created, Updated and Destroyed events; distinct by hash of the op lines"
}

func (*selectorEng) NonTrivial(c Case, out []string) bool {
	if strings.Contains(c.Header, "mode=hist") {
		var cr, up, de bool

		for _, o := range out {
			if !strings.HasPrefix(o, "h ") {
				continue
			}

			_, a := ParseLine(o)
			for _, e := range strings.Split(a["ev"], ";") {
				cr = cr || strings.HasPrefix(e, "C:")
				up = up || strings.HasPrefix(e, "U:")
				de = de || strings.HasPrefix(e, "D:")
			}
		}

		return cr && up && de
	}

	var yes, no bool

	for _, o := range out {
		yes = yes || strings.Contains(o, "direct=true")
		no = no || strings.Contains(o, "direct=false")
	}

	return yes && no
}

// ---- encoding -------------------------------------------------------------------

func hx(s string) string { return hex.EncodeToString([]byte(s)) }

func unhx(s string) string {
	b, err := hex.DecodeString(s)
	if err != nil {
		panic("bad hex " + s)
	}

	return string(b)
}

var selOpTok = map[resource.LabelOp]string{
	resource.LabelOpExists: "exists", resource.LabelOpEqual: "eq", resource.LabelOpIn: "in", resource.LabelOpLT: "lt",
	resource.LabelOpLTE: "lte", resource.LabelOpLTNumeric: "ltn", resource.LabelOpLTENumeric: "lten",
}

func selOpOf(tok string) resource.LabelOp {
	for op, t := range selOpTok {
		if t == tok {
			return op
		}
	}

	panic("bad op token " + tok)
}

func encLabels(m map[string]string) string {
	ks := make([]string, 0, len(m))
	for k := range m {
		ks = append(ks, k)
	}

	sort.Strings(ks)

	parts := make([]string, 0, len(ks))
	for _, k := range ks {
		parts = append(parts, hx(k)+":"+hx(m[k]))
	}

	return strings.Join(parts, ",")
}

func decLabels(s string) map[string]string {
	m := map[string]string{}

	if s == "" {
		return m
	}

	for _, kv := range strings.Split(s, ",") {
		k, v, _ := strings.Cut(kv, ":")
		m[unhx(k)] = unhx(v)
	}

	return m
}

func encTerm(t resource.LabelTerm) string {
	vs := make([]string, 0, len(t.Value))
	for _, v := range t.Value {
		vs = append(vs, "x"+hx(v))
	}

	inv := "0"
	if t.Invert {
		inv = "1"
	}

	return hx(t.Key) + "." + selOpTok[t.Op] + "." + inv + "." + strings.Join(vs, "_")
}

func encQueries(qs resource.LabelQueries) string {
	parts := make([]string, 0, len(qs))

	for _, q := range qs {
		if len(q.Terms) == 0 {
			parts = append(parts, "-")

			continue
		}

		ts := make([]string, 0, len(q.Terms))
		for _, t := range q.Terms {
			ts = append(ts, encTerm(t))
		}

		parts = append(parts, strings.Join(ts, "+"))
	}

	return strings.Join(parts, "|")
}

func decQueries(s string) resource.LabelQueries {
	if s == "" {
		return nil
	}

	var qs resource.LabelQueries

	for _, qt := range strings.Split(s, "|") {
		var q resource.LabelQuery

		if qt != "-" {
			for _, tt := range strings.Split(qt, "+") {
				f := strings.Split(tt, ".")
				if len(f) != 4 {
					panic("bad term " + tt)
				}

				t := resource.LabelTerm{Key: unhx(f[0]), Op: selOpOf(f[1]), Invert: f[2] == "1"}

				if f[3] != "" {
					for _, v := range strings.Split(f[3], "_") {
						t.Value = append(t.Value, unhx(strings.TrimPrefix(v, "x")))
					}
				}

				q.Terms = append(q.Terms, t)
			}
		}

		qs = append(qs, q)
	}

	return qs
}

func selItemStr(r resource.Resource) string {
	md := r.Metadata()

	return fmt.Sprintf("%s@%s{%s}", hx(md.ID()), md.Version(), encLabels(md.Labels().Raw()))
}

func selItemsStr(items []resource.Resource) string {
	if len(items) == 0 {
		return "-"
	}

	parts := make([]string, 0, len(items))
	for _, r := range items {
		parts = append(parts, selItemStr(r))
	}

	return strings.Join(parts, ";")
}

func selEvStr(ev state.Event) string {
	switch ev.Type {
	case state.Created:
		return "C:" + selItemStr(ev.Resource)
	case state.Updated:
		old := "nil"
		if ev.Old != nil {
			old = selItemStr(ev.Old)
		}

		return "U:" + selItemStr(ev.Resource) + "<" + old
	case state.Destroyed:
		return "D:" + selItemStr(ev.Resource)
	case state.Bootstrapped:
		return "B"
	case state.Errored:
		return "E"
	case state.Noop:
		return "N"
	}

	return "?"
}

func selEvsStr(evs []state.Event) string {
	if len(evs) == 0 {
		return "-"
	}

	parts := make([]string, 0, len(evs))
	for _, e := range evs {
		parts = append(parts, selEvStr(e))
	}

	return strings.Join(parts, ";")
}

// ---- the sites ------------------------------------------------------------------

var selKind = resource.NewMetadata("n1", "T1", "", resource.VersionUndefined)

type selSites struct {
	ctx      context.Context //nolint:containedctx
	core     state.CoreState
	cache    *runtime.VerifResourceCache
	remote   *client.Adapter
	panicked atomic.Bool
	stop     func()

	// hist mode
	queries resource.LabelQueries
	re      *regexp.Regexp
	feedCh  chan state.Event // unfiltered watch feeding the cache
	wCh     chan state.Event // filtered inmem watch
	gCh     chan state.Event // filtered grpc watch
	wCancel context.CancelFunc
	view    map[string]resource.Resource
	booted  bool
}

func newSelSites(t *testing.T) *selSites {
	ctx, cancel := context.WithCancel(context.Background())
	s := &selSites{ctx: ctx}
	s.core = inmem.NewState("n1")
	s.cache = runtime.VerifNewResourceCache([]options.CachedResource{{Namespace: "n1", Type: "T1"}})

	// the real server behind grpc-go; the only harness code on the path is a recovery
	// interceptor that records a handler panic (grpc-go itself would crash the process)
	srv := grpc.NewServer(grpc.ChainStreamInterceptor(
		func(sv any, ss grpc.ServerStream, _ *grpc.StreamServerInfo, h grpc.StreamHandler) (err error) {
			defer func() {
				if r := recover(); r != nil {
					s.panicked.Store(true)

					err = fmt.Errorf("handler panic: %v", r)
				}
			}()

			return h(sv, ss)
		}))
	v1alpha1.RegisterStateServer(srv, server.NewState(state.WrapCore(s.core)))

	lis := bufconn.Listen(1 << 20)

	go srv.Serve(lis) //nolint:errcheck

	conn, err := grpc.NewClient("passthrough:///bufnet",
		grpc.WithContextDialer(func(ctx context.Context, _ string) (net.Conn, error) { return lis.DialContext(ctx) }),
		grpc.WithTransportCredentials(insecure.NewCredentials()))
	if err != nil {
		t.Fatal(err)
	}

	s.remote = client.NewAdapter(v1alpha1.NewStateClient(conn), client.WithDisableWatchRetry())
	s.stop = func() {
		cancel()
		conn.Close() //nolint:errcheck
		srv.Stop()
	}

	// the cache is fed the way the controller runtime feeds it: an unfiltered WatchKind
	// with bootstrap; Created before Bootstrapped -> CacheAppend, then MarkBootstrapped,
	// afterwards CachePut / CacheRemove
	s.feedCh = make(chan state.Event, 4096)
	if err := s.core.WatchKind(ctx, selKind, s.feedCh, state.WithBootstrapContents(true)); err != nil {
		t.Fatal(err)
	}

	s.pumpCache()

	return s
}

func (s *selSites) pumpCache() {
	synctest.Wait()

	for {
		select {
		case ev := <-s.feedCh:
			switch ev.Type {
			case state.Created, state.Updated:
				if s.booted {
					s.cache.CachePut(ev.Resource)
				} else {
					s.cache.CacheAppend(ev.Resource)
				}
			case state.Destroyed:
				s.cache.CacheRemove(ev.Resource)
			case state.Bootstrapped:
				s.booted = true
				s.cache.MarkBootstrapped("n1", "T1")
			case state.Errored, state.Noop:
			}
		default:
			return
		}
	}
}

func selListOpts(qs resource.LabelQueries, re *regexp.Regexp) []state.ListOption {
	var opts []state.ListOption

	for _, q := range qs {
		opts = append(opts, state.WithLabelQuery(resource.RawLabelQuery(q)))
	}

	if re != nil {
		opts = append(opts, state.WithIDQuery(resource.IDRegexpMatch(re)))
	}

	return opts
}

func selWatchOpts(qs resource.LabelQueries, re *regexp.Regexp) []state.WatchKindOption {
	opts := []state.WatchKindOption{state.WithBootstrapContents(true)}

	for _, q := range qs {
		opts = append(opts, state.WatchWithLabelQuery(resource.RawLabelQuery(q)))
	}

	if re != nil {
		opts = append(opts, state.WatchWithIDQuery(resource.IDRegexpMatch(re)))
	}

	return opts
}

// guard runs f and maps a panic of the code under test to "PANIC".
func guard(f func() string) (res string) {
	defer func() {
		if r := recover(); r != nil {
			res = "PANIC"
		}
	}()

	return f()
}

func present(n int, err error) string {
	switch {
	case err != nil:
		return "err"
	case n == 1:
		return "true"
	case n == 0:
		return "false"
	default:
		return fmt.Sprintf("count%d", n)
	}
}

// bootCount starts a bootstrapped filtered watch and counts the Created events before Bootstrapped.
func bootCount(ctx context.Context, st state.CoreState, opts []state.WatchKindOption) (int, error) {
	wctx, cancel := context.WithCancel(ctx)
	defer cancel()

	ch := make(chan state.Event)
	if err := st.WatchKind(wctx, selKind, ch, opts...); err != nil {
		return 0, err
	}

	n := 0

	for ev := range ch {
		switch ev.Type {
		case state.Created:
			n++
		case state.Bootstrapped:
			return n, nil
		case state.Errored:
			return n, ev.Error
		case state.Updated, state.Destroyed, state.Noop:
			return n, fmt.Errorf("unexpected event %v before bootstrap", ev.Type)
		}
	}

	return n, nil
}

func (s *selSites) remoteVerdict(f func() (int, error)) string {
	s.panicked.Store(false)

	n, err := f()
	if s.panicked.Swap(false) {
		return "PANIC"
	}

	return present(n, err)
}

// eval evaluates one (labels, queries, id query) triple at the four sites.
func (s *selSites) eval(a Args) (direct, bits, list, watch, cache, grpcL, grpcW string) {
	id := unhx(a["id"])
	labels := decLabels(a["l"])
	qs := decQueries(a["q"])

	var re *regexp.Regexp

	if reHex, ok := a["re"]; ok {
		var err error

		if re, err = regexp.Compile(unhx(reHex)); err != nil {
			return "bad-re", "", "", "", "", "", ""
		}
	}

	res := NewTRes("n1", "T1", id)
	for k, v := range labels {
		res.Metadata().Labels().Set(k, v)
	}

	// site 1: the functions themselves
	direct = guard(func() string {
		return fmt.Sprint(resource.IDQuery{Regexp: re}.Matches(*res.Metadata()) && qs.Matches(*res.Metadata().Labels()))
	})
	bits = guard(func() string {
		if len(qs) == 0 {
			return "none"
		}

		parts := make([]string, 0, len(qs))

		for _, q := range qs {
			if len(q.Terms) == 0 {
				parts = append(parts, "-")

				continue
			}

			var b strings.Builder

			for _, t := range q.Terms {
				if res.Metadata().Labels().Matches(t) {
					b.WriteByte('1')
				} else {
					b.WriteByte('0')
				}
			}

			parts = append(parts, b.String())
		}

		return strings.Join(parts, "|")
	})

	if err := s.core.Create(s.ctx, res); err != nil {
		return direct, bits, "setup-err", "", "", "", ""
	}

	defer func() {
		_ = s.core.Destroy(s.ctx, res.Metadata())
		s.pumpCache()
	}()

	s.pumpCache()

	lopts, wopts := selListOpts(qs, re), selWatchOpts(qs, re)

	// site 2: in-memory state
	list = guard(func() string {
		l, err := s.core.List(s.ctx, selKind, lopts...)

		return present(len(l.Items), err)
	})
	watch = guard(func() string { return present(bootCount(s.ctx, s.core, wopts)) })
	// site 3: runtime cache
	cache = guard(func() string {
		l, err := s.cache.List(s.ctx, selKind, lopts...)

		return present(len(l.Items), err)
	})

	// site 4: gRPC
	if a["wire"] == "0" {
		return direct, bits, list, watch, cache, "skip", "skip"
	}

	grpcL = guard(func() string {
		return s.remoteVerdict(func() (int, error) {
			l, err := s.remote.List(s.ctx, selKind, append(lopts, state.WithListUnmarshalOptions(state.WithSkipProtobufUnmarshal()))...)

			return len(l.Items), err
		})
	})
	grpcW = guard(func() string {
		return s.remoteVerdict(func() (int, error) {
			return bootCount(s.ctx, s.remote, append(wopts, state.WithWatchKindUnmarshalOptions(state.WithSkipProtobufUnmarshal())))
		})
	})

	return direct, bits, list, watch, cache, grpcL, grpcW
}

func drain(ch chan state.Event) []state.Event {
	var evs []state.Event

	for {
		select {
		case ev := <-ch:
			evs = append(evs, ev)
		default:
			return evs
		}
	}
}

func (s *selSites) startWatches() string {
	if s.wCancel != nil {
		s.wCancel()
		synctest.Wait()
	}

	wctx, cancel := context.WithCancel(s.ctx)
	s.wCancel = cancel
	s.wCh = make(chan state.Event, 4096)
	s.gCh = make(chan state.Event, 4096)
	opts := selWatchOpts(s.queries, s.re)

	if err := s.core.WatchKind(wctx, selKind, s.wCh, opts...); err != nil {
		return "w err-inmem"
	}

	if err := s.remote.WatchKind(wctx, selKind, s.gCh, append(opts, state.WithWatchKindUnmarshalOptions(state.WithSkipProtobufUnmarshal()))...); err != nil {
		return "w err-grpc"
	}

	synctest.Wait()

	evs, gevs := drain(s.wCh), drain(s.gCh)
	s.view = map[string]resource.Resource{}
	s.replay(evs)

	return fmt.Sprintf("w ev=%s gev=%s", selEvsStr(evs), selEvsStr(gevs))
}

// replay applies delivered events to the consumer's view: put / remove by ID.
func (s *selSites) replay(evs []state.Event) {
	for _, ev := range evs {
		switch ev.Type {
		case state.Created, state.Updated:
			s.view[ev.Resource.Metadata().ID()] = ev.Resource
		case state.Destroyed:
			delete(s.view, ev.Resource.Metadata().ID())
		case state.Bootstrapped, state.Errored, state.Noop:
		}
	}
}

func (s *selSites) hist(op string, a Args) string {
	id := unhx(a["id"])

	var err error

	switch op {
	case "create":
		res := NewTRes("n1", "T1", id)
		for k, v := range decLabels(a["l"]) {
			res.Metadata().Labels().Set(k, v)
		}

		err = s.core.Create(s.ctx, res)
	case "update":
		var cur resource.Resource

		if cur, err = s.core.Get(s.ctx, resource.NewMetadata("n1", "T1", id, resource.VersionUndefined)); err == nil {
			res := NewTRes("n1", "T1", id)
			res.Metadata().SetVersion(cur.Metadata().Version())

			for k, v := range decLabels(a["l"]) {
				res.Metadata().Labels().Set(k, v)
			}

			err = s.core.Update(s.ctx, res)
		}
	case "destroy":
		err = s.core.Destroy(s.ctx, resource.NewMetadata("n1", "T1", id, resource.VersionUndefined))
	}

	r := "ok"
	if err != nil {
		r = "fail"
	}

	s.pumpCache()

	ev, gev, view := "nowatch", "nowatch", "nowatch"

	if s.wCancel != nil {
		evs, gevs := drain(s.wCh), drain(s.gCh)
		ev, gev = selEvsStr(evs), selEvsStr(gevs)
		s.replay(evs)

		ids := make([]string, 0, len(s.view))
		for k := range s.view {
			ids = append(ids, k)
		}

		sort.Strings(ids)

		items := make([]resource.Resource, 0, len(ids))
		for _, k := range ids {
			items = append(items, s.view[k])
		}

		view = selItemsStr(items)
	}

	lopts := selListOpts(s.queries, s.re)
	lst := func(st interface {
		List(context.Context, resource.Kind, ...state.ListOption) (resource.List, error)
	}, extra ...state.ListOption,
	) string {
		return guard(func() string {
			l, err := st.List(s.ctx, selKind, append(append([]state.ListOption{}, lopts...), extra...)...)
			if err != nil {
				return "err"
			}

			return selItemsStr(l.Items)
		})
	}

	return fmt.Sprintf("h r=%s ev=%s gev=%s list=%s glist=%s clist=%s view=%s", r, ev, gev,
		lst(s.core), lst(s.remote, state.WithListUnmarshalOptions(state.WithSkipProtobufUnmarshal())), lst(s.cache), view)
}

func (e *selectorEng) Exec(t *testing.T, c Case) []string {
	_, h := ParseLine(strings.TrimPrefix(c.Header, "#"))
	out := make([]string, 0, len(c.Ops))

	synctest.Test(t, func(t *testing.T) {
		s := newSelSites(t)
		defer s.stop()

		s.queries = decQueries(h["q"])

		if reHex, ok := h["re"]; ok {
			s.re = regexp.MustCompile(unhx(reHex))
		}

		for _, line := range c.Ops {
			op, a := ParseLine(line)
			out = append(out, guard(func() string {
				switch op {
				case "eval":
					d, b, l, w, ca, gl, gw := s.eval(a)

					return fmt.Sprintf("v direct=%s t=%s list=%s watch=%s cache=%s grpc=%s grpcw=%s", d, b, l, w, ca, gl, gw)
				case "evalx":
					d, _, l, w, ca, gl, gw := s.eval(a)
					if d == l && d == w && d == ca && (gl == "skip" || d == gl) && (gw == "skip" || d == gw) {
						return "vx agree=true"
					}

					return fmt.Sprintf("vx agree=false direct=%s list=%s watch=%s cache=%s grpc=%s grpcw=%s", d, l, w, ca, gl, gw)
				case "watch":
					return s.startWatches()
				case "create", "update", "destroy":
					return s.hist(op, a)
				}

				return "bad-op"
			}))
		}
	})

	return out
}

// ---- generators -----------------------------------------------------------------

var (
	selKeys  = []string{"a", "b", "n", "x y"}
	selIDs   = []string{"a", "b", "c", "d"}
	selRegex = []string{"^a", "b$", "a|c", ".", "^$", "[^a]", "x+", "", "^[a-c]$", "(?i)A"}
	selUnits = []string{"", "", "k", "K", "m", "M", "g", "G", "t", "T", "p", "P", "ki", "Ki", "KI", "Mi", "mi", "Gi", "Ti", "Pi", "pi",
		"kb", "kib", "Kilobytes", "e", "Ei", "x", "i", "m i", "km", ".5k", "_", "k9"}
	selWords = []string{"", "a", "ab", "b", "B", "abc", "10", "9", "09", " ", "a b", "-", "--1", "1-2", "+5", "0x10", "1e3", "1.5", "1_000",
		"k", "ki", "~", "A", "z"}
	selBig = []string{
		"9223372036854775807", "9223372036854775808", "-9223372036854775808", "-9223372036854775809", "18446744073709551616",
		"9007199254740993", "9223372036854775", "9223372036854776", "18014398509481984", "36028797018963968", "4611686018427387904",
		"-4611686018427387904", "8192", "8193", "99999999999999999999999999", "000000000000000000000000000007",
	}
	selSpaces = []string{"", "", "", " ", "  ", "\t", "\n", "\r", "\v", "\f", " \t "}
	// valid UTF-8, non-ASCII: Unicode spaces, Kelvin sign (lower-cases to k), full-width digit, accents
	selNonASCII = []string{" 5", "5 k", "5K", "5Ki", "５", "5ké", "  7", "é", "5İ", "1 ", "５k", "5 \u0085k"}
)

func (e *selectorEng) genNumeric(r *Rand) string {
	var b strings.Builder

	b.WriteString(Pick(r, selSpaces))

	if r.Chance(1, 4) {
		b.WriteString("-")
	}

	switch r.Intn(6) {
	case 0, 1, 2:
		fmt.Fprint(&b, r.Intn(12))
	case 3:
		fmt.Fprint(&b, r.Intn(3000))
	case 4:
		b.WriteString(strings.TrimPrefix(Pick(r, selBig), "-"))
	default:
		fmt.Fprintf(&b, "00%d", r.Intn(20))
	}

	if r.Chance(1, 6) {
		b.WriteString(Pick(r, selSpaces))
	}

	u := Pick(r, selUnits)
	if r.Chance(1, 2) {
		u = Pick(r, selUnits[:21])
	}

	b.WriteString(u)
	b.WriteString(Pick(r, selSpaces))

	return b.String()
}

func (e *selectorEng) genValue(r *Rand) string {
	switch x := r.Intn(10); {
	case x < 6:
		return e.genNumeric(r)
	case x < 9:
		return Pick(r, selWords)
	default:
		return Pick(r, selBig)
	}
}

func (e *selectorEng) genLabels(r *Rand) map[string]string {
	m := map[string]string{}

	n := r.Intn(4)
	for i := 0; i < n; i++ {
		m[Pick(r, selKeys)] = e.genValue(r)
	}

	return m
}

var selOps = []resource.LabelOp{
	resource.LabelOpExists, resource.LabelOpEqual, resource.LabelOpIn, resource.LabelOpLT,
	resource.LabelOpLTE, resource.LabelOpLTNumeric, resource.LabelOpLTENumeric,
}

// genTerm: pool holds values that occur in labels, so that equality/membership hit.
// emptyOK allows a value-taking operator with an empty value list.
func (e *selectorEng) genTerm(r *Rand, labels map[string]string, pool []string, emptyOK bool) resource.LabelTerm {
	t := resource.LabelTerm{Key: Pick(r, selKeys), Op: Pick(r, selOps), Invert: r.Chance(1, 3)}

	if len(labels) > 0 && r.Chance(3, 4) {
		ks := make([]string, 0, len(labels))
		for k := range labels {
			ks = append(ks, k)
		}

		sort.Strings(ks)
		t.Key = Pick(r, ks)
	}

	val := func() string {
		if len(pool) > 0 && r.Chance(2, 5) {
			return Pick(r, pool)
		}

		return e.genValue(r)
	}

	n := 1

	switch t.Op {
	case resource.LabelOpExists:
		n = 0
		if r.Chance(1, 6) {
			n = 1 + r.Intn(2)
		}
	case resource.LabelOpIn:
		n = r.Intn(4)
	case resource.LabelOpEqual, resource.LabelOpLT, resource.LabelOpLTE, resource.LabelOpLTNumeric, resource.LabelOpLTENumeric:
		if r.Chance(1, 6) {
			n = 2 + r.Intn(2)
		}

		if emptyOK && r.Chance(1, 3) {
			n = 0
		}
	}

	for i := 0; i < n; i++ {
		t.Value = append(t.Value, val())
	}

	return t
}

func (e *selectorEng) genQueries(r *Rand, labels map[string]string, pool []string, emptyOK bool) resource.LabelQueries {
	var qs resource.LabelQueries

	nq := []int{0, 1, 1, 1, 1, 1, 2, 2, 2, 3}[r.Intn(10)]
	for i := 0; i < nq; i++ {
		var q resource.LabelQuery

		nt := []int{0, 1, 1, 1, 2, 2, 3}[r.Intn(7)]
		for j := 0; j < nt; j++ {
			q.Terms = append(q.Terms, e.genTerm(r, labels, pool, emptyOK))
		}

		qs = append(qs, q)
	}

	return qs
}

func valueLess(qs resource.LabelQueries) bool {
	for _, q := range qs {
		for _, t := range q.Terms {
			if t.Op != resource.LabelOpExists && t.Op != resource.LabelOpIn && len(t.Value) == 0 {
				return true
			}
		}
	}

	return false
}

func isASCII(s string) bool {
	for i := 0; i < len(s); i++ {
		if s[i] >= 0x80 {
			return false
		}
	}

	return true
}

func (e *selectorEng) evalLine(r *Rand, labels map[string]string, qs resource.LabelQueries, malformedWire bool) string {
	id := Pick(r, selIDs)
	if r.Chance(1, 8) {
		id = Pick(r, []string{"ab", "A", "xx", "a c"})
	}

	reTok := ""

	if r.Chance(2, 5) {
		re := Pick(r, selRegex)
		m := 0

		if regexp.MustCompile(re).MatchString(id) { // regexp is trusted: the model gets the match bit
			m = 1
		}

		reTok = fmt.Sprintf(" idm=%d re=%s", m, hx(re))
	} else {
		reTok = " idm=1"
	}

	ascii := true

	for k, v := range labels {
		ascii = ascii && isASCII(k) && isASCII(v)
	}

	for _, q := range qs {
		for _, t := range q.Terms {
			ascii = ascii && isASCII(t.Key)
			for _, v := range t.Value {
				ascii = ascii && isASCII(v)
			}
		}
	}

	op, wire := "eval", 1
	if !ascii {
		op = "evalx"
	}

	if valueLess(qs) && !malformedWire {
		wire = 0
	}

	return fmt.Sprintf("%s id=%s%s wire=%d l=%s q=%s", op, hx(id), reTok, wire, encLabels(labels), encQueries(qs))
}

func labelPool(labels map[string]string) []string {
	ks := make([]string, 0, len(labels))
	for k := range labels {
		ks = append(ks, k)
	}

	sort.Strings(ks)

	pool := make([]string, 0, len(ks))
	for _, k := range ks {
		pool = append(pool, labels[k])
	}

	return pool
}

func selMalformedOn() bool { return os.Getenv(selMalformedEnv) == "1" }

func (e *selectorEng) Gen(r *Rand, thorough bool, idx int) Case {
	// a per-case child stream: the framework's streams for seeds s and s+1 are the same
	// sequence shifted by one draw, which would make neighbouring seeds generate mostly
	// the same cases; re-seeding with a mixed draw and the case index decorrelates them
	r = NewRand(r.Next() ^ (uint64(idx)+1)*0xA24BAED4963EE407)

	n := 24
	if thorough {
		n = 40
	}

	switch k := idx % 6; {
	case k == 2 || k == 5:
		return e.genHist(r, n+8, idx)
	case k == 4 && selMalformedOn():
		// MALFORMED STREAM (gated): value-less value-taking terms go over the wire
		c := Case{Header: fmt.Sprintf("# engine=selector mode=eval stream=malformed case=%d", idx)}

		for i := 0; i < n; i++ {
			labels := e.genLabels(r)
			c.Ops = append(c.Ops, e.evalLine(r, labels, e.genQueries(r, labels, labelPool(labels), true), true))
		}

		return c
	default:
		c := Case{Header: fmt.Sprintf("# engine=selector mode=eval case=%d", idx)}

		for i := 0; i < n; i++ {
			labels := e.genLabels(r)

			if k == 3 && r.Chance(1, 3) { // non-ASCII operands: outside the model, site agreement only
				labels[Pick(r, selKeys)] = Pick(r, selNonASCII)
			}

			qs := e.genQueries(r, labels, labelPool(labels), r.Chance(1, 8))

			if k == 3 && r.Chance(1, 4) && len(qs) > 0 && len(qs[0].Terms) > 0 && len(qs[0].Terms[0].Value) > 0 {
				qs[0].Terms[0].Value[0] = Pick(r, selNonASCII)
			}

			c.Ops = append(c.Ops, e.evalLine(r, labels, qs, false))
		}

		return c
	}
}

// genHist: a selector, a handful of label maps that fall on both sides of it, and a
// create/update/destroy history over four ids with the filtered watch running.
func (e *selectorEng) genHist(r *Rand, n, idx int) Case {
	// label maps over a small universe so that updates move resources in and out
	maps := make([]map[string]string, 0, 5)
	for len(maps) < 5 {
		maps = append(maps, e.genLabels(r))
	}

	maps[r.Intn(len(maps))] = map[string]string{}

	var pool []string

	for _, m := range maps {
		pool = append(pool, labelPool(m)...)
	}

	var (
		qs resource.LabelQueries
		re *regexp.Regexp
	)

	// prefer a selector that splits the label maps
	for try := 0; try < 8; try++ {
		qs = e.genQueries(r, maps[r.Intn(len(maps))], pool, false)

		in := 0

		for _, m := range maps {
			var l resource.Labels

			for k, v := range m {
				l.Set(k, v)
			}

			if qs.Matches(l) {
				in++
			}
		}

		if in > 0 && in < len(maps) {
			break
		}
	}

	hdr := fmt.Sprintf("# engine=selector mode=hist case=%d q=%s", idx, encQueries(qs))

	if r.Chance(1, 3) {
		re = regexp.MustCompile(Pick(r, selRegex))
		bits := make([]string, 0, len(selIDs))

		for _, id := range selIDs {
			b := 0
			if re.MatchString(id) {
				b = 1
			}

			bits = append(bits, fmt.Sprintf("%s:%d", hx(id), b))
		}

		hdr += fmt.Sprintf(" idm=%s re=%s", strings.Join(bits, ","), hx(re.String()))
	}

	c := Case{Header: hdr}
	mut := func() string {
		id := Pick(r, selIDs)

		switch x := r.Intn(100); {
		case x < 25:
			return fmt.Sprintf("create id=%s l=%s", hx(id), encLabels(Pick(r, maps)))
		case x < 80:
			return fmt.Sprintf("update id=%s l=%s", hx(id), encLabels(Pick(r, maps)))
		default:
			return fmt.Sprintf("destroy id=%s", hx(id))
		}
	}

	pre := r.Intn(4)
	for i := 0; i < pre; i++ {
		c.Ops = append(c.Ops, fmt.Sprintf("create id=%s l=%s", hx(selIDs[i]), encLabels(Pick(r, maps))))
	}

	c.Ops = append(c.Ops, "watch")

	for i := 0; i < n; i++ {
		if r.Chance(1, 25) {
			c.Ops = append(c.Ops, "watch")

			continue
		}

		c.Ops = append(c.Ops, mut())
	}

	return c
}

// Corpus: fixed enumerations — the operator table, the unit table, int64 boundaries.
func (e *selectorEng) Corpus(bool) []Case {
	var cases []Case

	// every operator x invert x {label missing, present} x value shapes
	c := Case{Header: "# engine=selector mode=eval corpus=operators"}

	for _, labels := range []map[string]string{{}, {"k": "5"}, {"j": "1"}, {"k": ""}} {
		for _, op := range selOps {
			for _, inv := range []bool{false, true} {
				for _, vals := range [][]string{nil, {"5"}, {"6"}, {"x"}, {"4", "5"}, {""}} {
					t := resource.LabelTerm{Key: "k", Op: op, Invert: inv, Value: vals}
					qs := resource.LabelQueries{{Terms: []resource.LabelTerm{t}}}
					wire := 1

					if valueLess(qs) && !selMalformedOn() {
						wire = 0
					}

					c.Ops = append(c.Ops, fmt.Sprintf("eval id=%s idm=1 wire=%d l=%s q=%s", hx("a"), wire, encLabels(labels), encQueries(qs)))
				}
			}
		}
	}

	cases = append(cases, c)

	// numeric comparisons: every pair of a fixed list of operands
	nums := []string{
		"0", "-0", "5", " 5 ", "-5", "5k", "5K", "5ki", "5Ki", "4m", "4Mi", "3g", "3Gi", "2t", "2Ti", "1p", "1Pi", "1 k", "1kb", "1kib", "1e", "1Ei",
		"9223372036854775807", "9223372036854775808", "-9223372036854775808", "9223372036854775807k", "18014398509481984ki", "8192Pi", "8193Pi",
		"-9223372036854775808k", "", "-", "5-", "-5-", "+5", "5 5", "k", "5.0", "\t5\n", "005",
	}
	c = Case{Header: "# engine=selector mode=eval corpus=numeric"}

	for _, a := range nums {
		for _, b := range nums {
			for _, op := range []resource.LabelOp{resource.LabelOpLTNumeric, resource.LabelOpLTENumeric} {
				qs := resource.LabelQueries{{Terms: []resource.LabelTerm{{Key: "n", Op: op, Value: []string{b}}, {Key: "n", Op: op, Value: []string{b}, Invert: true}}}}
				c.Ops = append(c.Ops, fmt.Sprintf("eval id=%s idm=1 wire=1 l=%s q=%s", hx("a"), encLabels(map[string]string{"n": a}), encQueries(qs)))
			}
		}
	}

	cases = append(cases, c)

	// lexical comparisons
	words := []string{"", "a", "ab", "b", "B", "10", "9", " ", "~"}
	c = Case{Header: "# engine=selector mode=eval corpus=lexical"}

	for _, a := range words {
		for _, b := range words {
			for _, op := range []resource.LabelOp{resource.LabelOpLT, resource.LabelOpLTE, resource.LabelOpEqual, resource.LabelOpIn} {
				qs := resource.LabelQueries{{Terms: []resource.LabelTerm{{Key: "n", Op: op, Value: []string{b}}}}, {Terms: []resource.LabelTerm{{Key: "n", Op: op, Value: []string{b}, Invert: true}}}}
				c.Ops = append(c.Ops, fmt.Sprintf("eval id=%s idm=1 wire=1 l=%s q=%s", hx("a"), encLabels(map[string]string{"n": a}), encQueries(qs)))
			}
		}
	}

	cases = append(cases, c)

	if selMalformedOn() {
		// minimal form of D2: one value-less `eq` term over the wire
		cases = append(cases, Case{
			Header: "# engine=selector mode=eval stream=malformed corpus=d2",
			Ops:    []string{fmt.Sprintf("eval id=%s idm=1 wire=1 l=%s q=%s", hx("a"), encLabels(map[string]string{"k": "5"}), hx("k")+".eq.0.")},
		})
	}

	return cases
}
