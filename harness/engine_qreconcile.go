package harness

import (
	"context"
	"errors"
	"fmt"
	"sort"
	"strings"
	"sync"
	"testing"
	"testing/synctest"
	"time"

	"github.com/siderolabs/gen/optional"
	"github.com/siderolabs/gen/xerrors"
	"go.uber.org/zap"

	"github.com/cosi-project/runtime/pkg/controller"
	"github.com/cosi-project/runtime/pkg/controller/generic/qtransform"
	"github.com/cosi-project/runtime/pkg/controller/runtime"
	"github.com/cosi-project/runtime/pkg/resource"
	"github.com/cosi-project/runtime/pkg/state"
	"github.com/cosi-project/runtime/pkg/state/impl/inmem"
	"github.com/cosi-project/runtime/pkg/state/impl/namespaced"
)

// engine qreconcile: the REAL controller runtime with one probe QController whose
// Reconcile outcomes are scripted per key (ok / error / panic / skip / requeue with and
// without error / canceled; requeue intervals include the boundary value 0). Under synctest the invocation times are exact; each gap
// between two invocations of a key is classified against the interval written on the
// previous op line (which the Lean model re-derives and confirms line by line), never
// printed as a value (C09 backoff_schedule, outcome_table).

func init() { Register("qreconcile", func() Engine { return &qrecEngine{} }) }

type qrecEngine struct{}

func (*qrecEngine) Name() string { return "qreconcile" }

func (*qrecEngine) Cases(thorough bool) int {
	if thorough {
		return 3000
	}

	return 800
}

func (*qrecEngine) Rule() string {
	return "scripted outcome sequences (ok, error, panic, skip, RequeueError with/without error or skip and intervals 0, 1 ns … 5 s, context.Canceled) for 1-3 keys, concurrency 1-3, on the real q-runtime under synctest; non-trivial = some key has a streak of >= 3 consecutive failures, a reset (failure after an ok/skip that followed a failure) and an explicit requeue interval; distinct by hash of the op lines"
}

func (*qrecEngine) NonTrivial(c Case, _ []string) bool {
	streak := map[string]int{}
	hadFail := map[string]bool{}
	long, reset, explicit := false, false, false

	for _, line := range c.Ops {
		op, a := ParseLine(line)
		if op != "outcome" {
			continue
		}

		k := a["k"]

		switch a["o"] {
		case "error", "panic":
			if streak[k] == 0 && hadFail[k] {
				reset = true
			}

			streak[k]++
			hadFail[k] = true

			if streak[k] >= 3 {
				long = true
			}
		case "requeue-error":
			if a.Int("i") != 0 {
				explicit = true

				break
			}

			// RequeueError{err, 0}: a plain failure
			if streak[k] == 0 && hadFail[k] {
				reset = true
			}

			streak[k]++
			hadFail[k] = true

			if streak[k] >= 3 {
				long = true
			}
		default:
			streak[k] = 0

			if strings.Contains(a["o"], "requeue") {
				explicit = true
			}
		}
	}

	return long && reset && explicit
}

// the harness generator's copy of the schedule; every line's lo/hi is re-derived by the
// Lean model (`bounds-differ` otherwise), so a mistake here is reported, not trusted.
func goBounds(n int) (int64, int64) {
	cur := int64(500_000_000)

	for range n {
		if cur*3 >= 60_000_000_000*2 {
			cur = 60_000_000_000
		} else {
			cur = cur * 3 / 2
		}
	}

	return cur / 2, cur + cur/2 + 1
}

// qrecReleases says whether the scripted outcome ends with the item simply released (the next invocation
// needs a fresh notification) — by the property, not by the code: ok / skip / canceled, and a requeue request
// WITHOUT error whose interval is zero (NewRequeueInterval(0): nothing to wait for). A failure is never a
// release, whatever interval it carries: NewRequeueError(err, 0) has to be retried like err.
func qrecReleases(a Args) bool {
	switch a["o"] {
	case "ok", "skip", "canceled", "requeue-canceled":
		return true
	case "requeue", "skip-requeue":
		return a.Int("i") == 0
	}

	return false
}

func (e *qrecEngine) Gen(r *Rand, thorough bool, idx int) Case {
	keys := 1 + r.Intn(3)
	conc := 1 + r.Intn(3)
	c := Case{Header: fmt.Sprintf("# engine=qreconcile keys=%d conc=%d case=%d", keys, conc, idx)}
	scripts := make([][]string, keys)

	for k := range keys {
		n := 3 + r.Intn(8)
		if thorough || r.Chance(1, 6) {
			n += r.Intn(12) // long enough to reach the 60 s cap
		}

		streak := 0
		longRun := r.Chance(1, 4)

		for j := range n {
			o := "error"
			iv := int64(0)

			switch x := r.Intn(100); {
			case j == n-1:
				o = "ok"
			case longRun && x < 85, x < 40:
				o = "error"
			case x < 48:
				o = "panic"
			case x < 62:
				o = "ok"
			case x < 70:
				o = "skip"
			case x < 80:
				o = "requeue"
			case x < 90:
				o = "requeue-error"
			case x < 93:
				o = "skip-requeue"
			case x < 96:
				o = "canceled"
			default:
				o = "requeue-canceled"
			}

			if strings.Contains(o, "requeue") {
				// the boundary value 0 included: RequeueError{err, 0} is a failure without an interval of its own,
				// RequeueError{nil, 0} / {skip, 0} is nothing at all
				iv = Pick(r, []int64{0, 0, 1, 1_000_000, 100_000_000, 100_000_000, 1_000_000_000, 5_000_000_000})
			}

			var lo, hi int64

			switch o {
			case "error", "panic":
				lo, hi = goBounds(streak)
				streak++
			case "requeue-error":
				if iv == 0 {
					lo, hi = goBounds(streak)
					streak++
				} else {
					lo, hi = iv, iv
				}
			case "requeue", "skip-requeue":
				lo, hi = iv, iv
				streak = 0
			default:
				streak = 0
			}

			scripts[k] = append(scripts[k], fmt.Sprintf("outcome k=%d o=%s i=%d lo=%d hi=%d", k+1, o, iv, lo, hi))
		}
	}

	// interleave the per-key scripts in the file (the order across keys is immaterial)
	pos := make([]int, keys)

	for {
		var cand []int

		for k := range keys {
			if pos[k] < len(scripts[k]) {
				cand = append(cand, k)
			}
		}

		if len(cand) == 0 {
			break
		}

		k := Pick(r, cand)
		c.Ops = append(c.Ops, scripts[k][pos[k]])
		pos[k]++
	}

	c.Ops = append(c.Ops, "end")

	return c
}

// Corpus: every outcome class once with the boundary interval 0 and once with a positive interval, each followed
// by an `ok` line that shows whether (and when) the key was reconciled again.
func (*qrecEngine) Corpus(bool) []Case {
	l0, h0 := goBounds(0)
	l1, h1 := goBounds(1)
	ln := func(k int, o string, iv, lo, hi int64) string {
		return fmt.Sprintf("outcome k=%d o=%s i=%d lo=%d hi=%d", k, o, iv, lo, hi)
	}

	return []Case{
		{Header: "# engine=qreconcile keys=1 conc=1 case=corpus-requeue-error-zero", Ops: []string{
			ln(1, "requeue-error", 0, l0, h0), ln(1, "ok", 0, 0, 0), "end",
		}},
		{Header: "# engine=qreconcile keys=2 conc=2 case=corpus-zero-intervals", Ops: []string{
			ln(1, "error", 0, l0, h0), ln(2, "requeue", 0, 0, 0), ln(1, "requeue-error", 0, l1, h1), ln(2, "skip-requeue", 0, 0, 0),
			ln(1, "requeue-error", 7, 7, 7), ln(2, "requeue-canceled", 0, 0, 0), ln(1, "ok", 0, 0, 0), ln(2, "requeue-error", 0, l0, h0),
			ln(1, "requeue-error", 0, l0, h0), ln(2, "ok", 0, 0, 0), ln(1, "ok", 0, 0, 0), "end",
		}},
		{Header: "# engine=qreconcile keys=1 conc=1 case=corpus-positive-intervals", Ops: []string{
			ln(1, "requeue", 100_000_000, 100_000_000, 100_000_000), ln(1, "requeue-error", 1, 1, 1), ln(1, "skip-requeue", 1_000_000, 1_000_000, 1_000_000),
			ln(1, "panic", 0, l0, h0), ln(1, "ok", 0, 0, 0), "end",
		}},
	}
}

type qInvocation struct {
	at    time.Time
	known bool // an outcome was scripted for it
}

type probeQ struct {
	mu     sync.Mutex
	script map[string][]Args
	inv    map[string][]qInvocation
	conc   uint
}

func (p *probeQ) Name() string { return "ProbeQ" }

func (p *probeQ) Settings() controller.QSettings {
	return controller.QSettings{
		Inputs:      []controller.Input{{Namespace: "n1", Type: "T1", Kind: controller.InputQPrimary}},
		Concurrency: optional.Some(p.conc),
	}
}

func (p *probeQ) MapInput(context.Context, *zap.Logger, controller.QRuntime, controller.ReducedResourceMetadata) ([]resource.Pointer, error) {
	return nil, nil
}

func (p *probeQ) Reconcile(_ context.Context, _ *zap.Logger, _ controller.QRuntime, ptr resource.Pointer) error {
	p.mu.Lock()
	id := ptr.ID()
	j := len(p.inv[id])

	var a Args

	if j < len(p.script[id]) {
		a = p.script[id][j]
	}

	p.inv[id] = append(p.inv[id], qInvocation{at: time.Now(), known: a != nil})
	p.mu.Unlock()

	if a == nil {
		return nil
	}

	iv := time.Duration(a.Int("i"))

	switch a["o"] {
	case "ok":
		return nil
	case "error":
		return errors.New("scripted failure")
	case "panic":
		panic("scripted panic")
	case "skip":
		return xerrors.NewTaggedf[qtransform.SkipReconcileTag]("scripted skip")
	case "requeue":
		return controller.NewRequeueInterval(iv)
	case "requeue-error":
		return controller.NewRequeueErrorf(iv, "scripted failure with interval")
	case "skip-requeue":
		return controller.NewRequeueError(xerrors.NewTaggedf[qtransform.SkipReconcileTag]("scripted skip"), iv)
	case "canceled":
		return context.Canceled
	case "requeue-canceled":
		return controller.NewRequeueError(context.Canceled, iv)
	}

	return nil
}

func (e *qrecEngine) Exec(t *testing.T, c Case) []string {
	_, h := ParseLine(strings.TrimPrefix(c.Header, "#"))
	out := make([]string, 0, len(c.Ops))

	p := &probeQ{script: map[string][]Args{}, inv: map[string][]qInvocation{}, conc: uint(max(h.Int("conc"), 1))}
	lineOf := map[int][2]any{} // op index -> (key, j)

	for i, line := range c.Ops {
		op, a := ParseLine(line)
		if op != "outcome" {
			continue
		}

		id := "k" + a["k"]
		lineOf[i] = [2]any{id, len(p.script[id])}
		p.script[id] = append(p.script[id], a)
	}

	ids := make([]string, 0, len(p.script))
	for id := range p.script {
		ids = append(ids, id)
	}

	sort.Strings(ids)

	touchAt := map[string]map[int]time.Time{}
	fatal := ""

	synctest.Test(t, func(t *testing.T) {
		defer func() {
			if r := recover(); r != nil {
				fatal = fmt.Sprintf("PANIC %v", r)
			}
		}()

		ctx, cancel := context.WithCancel(context.Background())
		st := state.WrapCore(namespaced.NewState(inmem.Build))

		rt, err := runtime.NewRuntime(st, zap.NewNop())
		if err != nil {
			panic(err)
		}

		if err = rt.RegisterQController(p); err != nil {
			panic(err)
		}

		done := make(chan error, 1)

		go func() { done <- rt.Run(ctx) }()

		synctest.Wait()

		invoked := func(id string) int {
			p.mu.Lock()
			defer p.mu.Unlock()

			return len(p.inv[id])
		}

		touch := func(id string, j int) {
			if touchAt[id] == nil {
				touchAt[id] = map[int]time.Time{}
			}

			touchAt[id][j] = time.Now()

			r := NewTRes("n1", "T1", id)
			r.spec = TSpec{S: fmt.Sprint(j)}

			if j == 0 {
				if err := st.Create(ctx, r); err == nil {
					return
				}
			}

			cur, err := st.Get(ctx, r.Metadata())
			if err != nil {
				panic(err)
			}

			r.md.SetVersion(cur.Metadata().Version())

			if err := st.Update(ctx, r); err != nil {
				panic(err)
			}
		}

		for iter := 0; iter < 4*len(c.Ops)+20; iter++ {
			synctest.Wait()

			progressed, pending := false, false

			for _, id := range ids {
				n := invoked(id)
				if n >= len(p.script[id]) {
					continue
				}

				pending = true
				idle := n == 0 || qrecReleases(p.script[id][n-1])

				if _, touched := touchAt[id][n]; idle && !touched {
					touch(id, n)

					progressed = true
				}
			}

			if !pending {
				break
			}

			if !progressed {
				time.Sleep(100 * time.Second)
			}
		}

		// anything still scheduled shows up as an extra invocation
		time.Sleep(300 * time.Second)
		synctest.Wait()
		cancel()
		<-done
	})

	// a line whose lo/hi are not what this file's copy of the schedule gives for the script as
	// executed (e.g. after the shrinker dropped lines) is answered `bounds-differ` on both sides
	illFormed := map[int]bool{}
	streaks := map[string]int{}

	for i, line := range c.Ops {
		op, a := ParseLine(line)
		if op != "outcome" {
			continue
		}

		var lo, hi, wlo, whi int64

		iv := int64(a.Int("i"))
		fmt.Sscan(a["lo"], &lo)
		fmt.Sscan(a["hi"], &hi)

		switch o := a["o"]; {
		case o == "error" || o == "panic":
			wlo, whi = goBounds(streaks[a["k"]])
			streaks[a["k"]]++
		case o == "requeue-error" && iv != 0:
			wlo, whi = iv, iv
		case o == "requeue-error":
			wlo, whi = goBounds(streaks[a["k"]])
			streaks[a["k"]]++
		case o == "requeue" || o == "skip-requeue":
			wlo, whi = iv, iv
			streaks[a["k"]] = 0
		default:
			streaks[a["k"]] = 0
		}

		illFormed[i] = lo != wlo || hi != whi
	}

	extra := 0

	for _, id := range ids {
		for _, iv := range p.inv[id] {
			if !iv.known {
				extra++
			}
		}
	}

	for i, line := range c.Ops {
		op, _ := ParseLine(line)

		switch {
		case fatal != "":
			out = append(out, fatal)
		case op == "end":
			out = append(out, fmt.Sprintf("end extra=%d", extra))
		case op == "outcome" && illFormed[i]:
			out = append(out, "bounds-differ")
		case op == "outcome":
			id, j := lineOf[i][0].(string), lineOf[i][1].(int) //nolint:forcetypeassert
			inv := p.inv[id]

			if j >= len(inv) {
				out = append(out, "never")

				continue
			}

			if j == 0 || qrecReleases(p.script[id][j-1]) {
				if at, ok := touchAt[id][j]; ok && at.Equal(inv[j].at) {
					out = append(out, "run gap=touch")
				} else {
					out = append(out, "run gap=untouched")
				}

				continue
			}

			prev := p.script[id][j-1]
			gap := int64(inv[j].at.Sub(inv[j-1].at))

			var lo, hi int64

			fmt.Sscan(prev["lo"], &lo)
			fmt.Sscan(prev["hi"], &hi)

			switch {
			case gap < lo:
				out = append(out, "run gap=early")
			case gap > hi:
				out = append(out, "run gap=late")
			default:
				out = append(out, "run gap=in")
			}
		default:
			out = append(out, "bad-op")
		}
	}

	return out
}
