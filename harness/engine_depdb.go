package harness

import (
	"bufio"
	"bytes"
	"cmp"
	"context"
	"fmt"
	"io"
	"os"
	"os/exec"
	"slices"
	"sort"
	"strings"
	"sync"
	"testing"
	"testing/synctest"
	"time"

	"github.com/siderolabs/gen/optional"
	"go.uber.org/zap"

	"github.com/cosi-project/runtime/pkg/controller"
	"github.com/cosi-project/runtime/pkg/controller/runtime"
	"github.com/cosi-project/runtime/pkg/resource"
	"github.com/cosi-project/runtime/pkg/state"
	"github.com/cosi-project/runtime/pkg/state/impl/inmem"
	"github.com/cosi-project/runtime/pkg/state/impl/namespaced"
)

// Property C17.
//
// engine depdb: random operation sequences on the real dependency.Database (reached
// through runtime.VerifNewDatabase, build tag verif) vs. Cosi.Model.DepDB.
//
// engine registry: registration histories (RegisterController / RegisterQController /
// UpdateInputs, valid and invalid declarations, before and after Run) on the REAL
// controller runtime inside a synctest bubble, vs. the model's registration
// procedures; change notifications are observed by writing destroy-ready resources and
// recording which probe controllers reconcile. Each case runs in a child process,
// because a nil adapter dereference in runtime.deliverDeduplicatedEvents happens on a
// runtime goroutine and kills the process.

func init() {
	Register("depdb", func() Engine { return &depdbEng{} })
	Register("registry", func() Engine { return &registryEng{} })
}

var (
	dCtrl = []string{"c1", "c2", "c3"}
	dNS   = []string{"n1", "n2"}
	dTyp  = []string{"T1", "T2", "T3"}
	dID   = []string{"none", "s:", "s:a", "s:b"}
)

// ---- tokens (same grammar as Cosi.Driver.DepDB) ----

func parseIDTok(s string) optional.Optional[resource.ID] {
	if s == "none" {
		return optional.None[resource.ID]()
	}

	return optional.Some(strings.TrimPrefix(s, "s:"))
}

func idTok(o optional.Optional[resource.ID]) string {
	if v, ok := o.Get(); ok {
		return "s:" + v
	}

	return "none"
}

func parseInputTok(tok string) controller.Input {
	p := strings.Split(tok, "/")
	if len(p) != 4 {
		return controller.Input{}
	}

	var k int

	fmt.Sscanf(p[3], "%d", &k)

	return controller.Input{Namespace: p[0], Type: p[1], ID: parseIDTok(p[2]), Kind: k}
}

func inputTok(i controller.Input) string {
	return fmt.Sprintf("%s/%s/%s/%d", i.Namespace, i.Type, idTok(i.ID), i.Kind)
}

func parseInputToks(s string) []controller.Input {
	var out []controller.Input

	for _, t := range splitNonEmpty(s) {
		out = append(out, parseInputTok(t))
	}

	return out
}

func parseOutputToks(s string) []controller.Output {
	var out []controller.Output

	for _, t := range splitNonEmpty(s) {
		typ, k, _ := strings.Cut(t, ":")

		var kind int

		fmt.Sscanf(k, "%d", &kind)

		out = append(out, controller.Output{Type: typ, Kind: kind})
	}

	return out
}

func sortedCopy(l []string) []string {
	c := append([]string{}, l...)
	sort.Strings(c)

	return c
}

// goEdgeCmp is the comparator of Database.Export, used to check that the exported slice is ordered by it.
func goEdgeCmp(a, b controller.DependencyEdge) int {
	if a.EdgeType != b.EdgeType {
		if a.EdgeType < controller.EdgeInputStrong || b.EdgeType < controller.EdgeInputStrong {
			return cmp.Compare(a.EdgeType, b.EdgeType)
		}
	}

	if a.ControllerName != b.ControllerName {
		return cmp.Compare(a.ControllerName, b.ControllerName)
	}

	if a.ResourceNamespace != b.ResourceNamespace {
		return cmp.Compare(a.ResourceNamespace, b.ResourceNamespace)
	}

	if a.ResourceType != b.ResourceType {
		return cmp.Compare(a.ResourceType, b.ResourceType)
	}

	return cmp.Compare(a.ResourceID, b.ResourceID)
}

func graphTok(g *controller.DependencyGraph) (string, bool) {
	toks := make([]string, 0, len(g.Edges))
	ordered := true

	for i, e := range g.Edges {
		toks = append(toks, fmt.Sprintf("%s:%d:%s:%s:%s", e.ControllerName, int(e.EdgeType), e.ResourceNamespace, e.ResourceType, e.ResourceID))

		if i > 0 && goEdgeCmp(g.Edges[i-1], e) > 0 {
			ordered = false
		}
	}

	sort.Strings(toks)

	return strings.Join(toks, ","), ordered
}

func okErr(err error) string {
	if err != nil {
		return "err"
	}

	return "ok"
}

// ---- engine depdb ----

type depdbEng struct{}

func (*depdbEng) Name() string { return "depdb" }

func (*depdbEng) Cases(thorough bool) int {
	if thorough {
		return 4000
	}

	return 600
}

func (*depdbEng) Rule() string {
	return "random AddControllerOutput/AddControllerInput/DeleteControllerInput/GetDependentControllers/Export/Get* sequence over 3 controllers x 2 namespaces x 3 types x IDs {absent,'',a,b}, all 6 input kinds and both output kinds; non-trivial = at least one rejected add/delete, one accepted delete and a non-empty dependents answer; distinct by hash of the op lines"
}

func (*depdbEng) NonTrivial(c Case, out []string) bool {
	rej, del, dep := false, false, false

	for i, o := range out {
		op := opName(c.Ops[i])

		switch {
		case o == "err" && (op == "addin" || op == "addout" || op == "delin"):
			rej = true
		case o == "ok" && op == "delin":
			del = true
		case op == "deps" && strings.HasPrefix(o, "deps order=") && !strings.HasPrefix(o, "deps order= "):
			dep = true
		}
	}

	return rej && del && dep
}

func genInputTok(r *Rand, dense bool) string {
	ns, typ := Pick(r, dNS), Pick(r, dTyp)
	if dense {
		ns, typ = "n1", Pick(r, dTyp[:2])
	}

	return fmt.Sprintf("%s/%s/%s/%d", ns, typ, Pick(r, dID), r.Intn(6))
}

func (e *depdbEng) Gen(r *Rand, thorough bool, idx int) Case {
	n := 40
	if thorough {
		n = 90
	}

	dense := idx%2 == 0 // half of the cases on 1 namespace x 2 types: long per-controller slices around the None/"" pair
	c := Case{Header: fmt.Sprintf("# engine=depdb case=%d", idx)}

	var added []string // "ctrl input" accepted-or-not, to aim deletes

	for i := 0; i < n; i++ {
		ctrl := Pick(r, dCtrl)
		if dense && r.Chance(2, 3) {
			ctrl = "c1"
		}

		switch x := r.Intn(100); {
		case x < 40:
			in := genInputTok(r, dense)
			added = append(added, ctrl+" "+in)
			c.Ops = append(c.Ops, fmt.Sprintf("addin c=%s in=%s", ctrl, in))
		case x < 52:
			c.Ops = append(c.Ops, fmt.Sprintf("addout c=%s typ=%s kind=%d", ctrl, Pick(r, dTyp), r.Intn(2)))
		case x < 70:
			in := genInputTok(r, dense)

			if len(added) > 0 && r.Chance(3, 4) {
				f := strings.Fields(Pick(r, added))
				ctrl, in = f[0], f[1]

				if r.Chance(1, 3) { // same keys, other kind: still matches
					t := parseInputTok(in)
					t.Kind = r.Intn(6)
					in = inputTok(t)
				}
			}

			c.Ops = append(c.Ops, fmt.Sprintf("delin c=%s in=%s", ctrl, in))
		case x < 82:
			ns, typ := Pick(r, dNS), Pick(r, dTyp)
			if dense {
				ns, typ = "n1", Pick(r, dTyp[:2])
			}

			id := Pick(r, dID[1:])
			if r.Chance(1, 12) {
				id = "none"
			}

			c.Ops = append(c.Ops, fmt.Sprintf("deps ns=%s typ=%s id=%s", ns, typ, id))
		case x < 90:
			c.Ops = append(c.Ops, "inputs c="+ctrl)
		case x < 95:
			c.Ops = append(c.Ops, "export")
		case x < 98:
			c.Ops = append(c.Ops, "outputs c="+ctrl)
		default:
			c.Ops = append(c.Ops, "excl typ="+Pick(r, dTyp))
		}
	}

	c.Ops = append(c.Ops, "export")

	for _, ctrl := range dCtrl {
		c.Ops = append(c.Ops, "inputs c="+ctrl, "outputs c="+ctrl)
	}

	for _, typ := range dTyp {
		c.Ops = append(c.Ops, "excl typ="+typ)

		for _, ns := range dNS {
			for _, id := range dID[1:] {
				c.Ops = append(c.Ops, fmt.Sprintf("deps ns=%s typ=%s id=%s", ns, typ, id))
			}
		}
	}

	return c
}

// Corpus: fixed cases around the pre-order quirk (absent vs empty ID) and the +1 neighbour.
func (*depdbEng) Corpus(bool) []Case {
	return []Case{
		{Header: "# engine=depdb case=corpus-preorder", Ops: []string{
			"addin c=c1 in=n1/T1/s:/5", "addin c=c1 in=n1/T1/none/0", "addin c=c1 in=n1/T1/none/2", "inputs c=c1",
			"addin c=c1 in=n1/T1/s:/0", "delin c=c1 in=n1/T1/none/4", "inputs c=c1", "deps ns=n1 typ=T1 id=s:", "export",
		}},
		{Header: "# engine=depdb case=corpus-plus-one", Ops: []string{
			"addin c=c1 in=n1/T1/none/3", "addin c=c1 in=n1/T1/s:/0", "addin c=c1 in=n1/T1/s:a/0", "inputs c=c1",
			"addin c=c1 in=n1/T1/s:/4", "addin c=c1 in=n1/T1/none/5", "delin c=c1 in=n1/T1/s:/1", "inputs c=c1",
			"addin c=c1 in=n1/T1/s:/2", "inputs c=c1",
		}},
		{Header: "# engine=depdb case=corpus-outputs", Ops: []string{
			"addout c=c1 typ=T1 kind=1", "addout c=c2 typ=T1 kind=0", "addout c=c2 typ=T1 kind=1", "addout c=c1 typ=T1 kind=1",
			"addout c=c1 typ=T2 kind=0", "addout c=c2 typ=T2 kind=1", "addout c=c1 typ=T2 kind=0", "export", "outputs c=c1", "excl typ=T2", "excl typ=T1",
		}},
	}
}

func execDepDBOp(db *runtime.VerifDatabase, line string) (out string) {
	defer func() {
		if r := recover(); r != nil {
			out = fmt.Sprintf("PANIC %v", r)
		}
	}()

	op, a := ParseLine(line)

	switch op {
	case "addout":
		return okErr(db.AddControllerOutput(a["c"], controller.Output{Type: a["typ"], Kind: a.Int("kind")}))
	case "addin":
		return okErr(db.AddControllerInput(a["c"], parseInputTok(a["in"])))
	case "delin":
		return okErr(db.DeleteControllerInput(a["c"], parseInputTok(a["in"])))
	case "deps":
		l, err := db.GetDependentControllers(controller.Input{Namespace: a["ns"], Type: a["typ"], ID: parseIDTok(a["id"])})
		if err != nil {
			return "err"
		}

		// the list handed to the delivery goroutine must not change when the database changes afterwards (a
		// registration in progress appends to the same lookup tables): a scratch controller takes a kind-wide input on
		// the same (namespace,type) and is rolled back again
		saved := slices.Clone(l)
		_ = db.AddControllerInput("zz-scratch", controller.Input{Namespace: a["ns"], Type: a["typ"], Kind: controller.InputWeak})
		changed := !slices.Equal(saved, l)
		db.RollbackController("zz-scratch")

		if changed {
			return fmt.Sprintf("deps order=%s set=%s ALIASED:%s", strings.Join(saved, ","), strings.Join(sortedCopy(saved), ","), strings.Join(l, ","))
		}

		return fmt.Sprintf("deps order=%s set=%s", strings.Join(saved, ","), strings.Join(sortedCopy(saved), ","))
	case "export":
		g, err := db.Export()
		if err != nil {
			return "err"
		}

		s, ordered := graphTok(g)

		return fmt.Sprintf("export edges=%s gosorted=%v", s, ordered)
	case "inputs":
		ins, err := db.GetControllerInputs(a["c"])
		if err != nil {
			return "err"
		}

		toks := make([]string, 0, len(ins))
		for _, i := range ins {
			toks = append(toks, inputTok(i))
		}

		return fmt.Sprintf("inputs order=%s set=%s", strings.Join(toks, ","), strings.Join(sortedCopy(toks), ","))
	case "outputs":
		outs, err := db.GetControllerOutputs(a["c"])
		if err != nil {
			return "err"
		}

		toks := make([]string, 0, len(outs))
		for _, o := range outs {
			toks = append(toks, fmt.Sprintf("%s:%d", o.Type, o.Kind))
		}

		return "outputs outs=" + strings.Join(toks, ",")
	case "excl":
		c, err := db.GetResourceExclusiveController(a["typ"])
		if err != nil {
			return "err"
		}

		return "excl c=" + c
	}

	return "bad-op"
}

// ExcludedPoints runs the real database once at the points outside the input domain of the
// property (kinds that are not declared constants) and records what it does.
func (*depdbEng) ExcludedPoints() []string {
	db, err := runtime.VerifNewDatabase()
	if err != nil {
		return []string{"VerifNewDatabase failed"}
	}

	var res []string

	res = append(res, "AddControllerOutput(c1,{T1,kind=2}) -> "+execDepDBOp(db, "addout c=c1 typ=T1 kind=2")+
		"; afterwards "+execDepDBOp(db, "outputs c=c1")+", "+execDepDBOp(db, "export")+
		" (the switch has no default: accepted, nothing recorded; the model does the same, the spec mirrors it)")
	res = append(res, "AddControllerInput(c1,{n1,T1,absent,kind=7}) -> "+execDepDBOp(db, "addin c=c1 in=n1/T1/none/7")+
		"; afterwards "+execDepDBOp(db, "export")+" (exported with the zero edge type 0 = OutputExclusive; same in the model)")
	res = append(res, "GetDependentControllers with an absent ID -> "+execDepDBOp(db, "deps ns=n1 typ=T1 id=none")+" (in the generated stream too)")

	return res
}

func (e *depdbEng) Exec(_ *testing.T, c Case) []string {
	out := make([]string, 0, len(c.Ops))

	db, err := runtime.VerifNewDatabase()
	if err != nil {
		panic(err)
	}

	for _, line := range c.Ops {
		out = append(out, execDepDBOp(db, line))
	}

	return out
}

// ---- engine registry ----

// hub collects what the probe controllers observe.
type hub struct {
	mu      sync.Mutex
	woken   map[string]bool
	handles map[string]controller.Runtime
}

func (h *hub) wake(name string) {
	h.mu.Lock()
	h.woken[name] = true
	h.mu.Unlock()
}

func (h *hub) take() []string {
	h.mu.Lock()
	defer h.mu.Unlock()

	l := make([]string, 0, len(h.woken))
	for k := range h.woken {
		l = append(l, k)
	}

	sort.Strings(l)
	h.woken = map[string]bool{}

	return l
}

// probeCtrl is a controller.Controller that only records reconcile events.
type probeCtrl struct {
	h       *hub
	name    string
	inputs  []controller.Input
	outputs []controller.Output
}

func (p *probeCtrl) Name() string                 { return p.name }
func (p *probeCtrl) Inputs() []controller.Input   { return append([]controller.Input{}, p.inputs...) }
func (p *probeCtrl) Outputs() []controller.Output { return append([]controller.Output{}, p.outputs...) }

func (p *probeCtrl) Run(ctx context.Context, r controller.Runtime, _ *zap.Logger) error {
	p.h.mu.Lock()
	p.h.handles[p.name] = r
	p.h.mu.Unlock()

	for {
		select {
		case <-ctx.Done():
			return nil
		case <-r.EventCh():
			p.h.wake(p.name)
		}
	}
}

// regProbeQ is a controller.QController that only records reconcile and map calls.
type regProbeQ struct {
	h        *hub
	name     string
	settings controller.QSettings
}

func (p *regProbeQ) Name() string { return p.name }

func (p *regProbeQ) Settings() controller.QSettings {
	s := p.settings
	s.Inputs = append([]controller.Input{}, p.settings.Inputs...)
	s.Outputs = append([]controller.Output{}, p.settings.Outputs...)

	return s
}

func (p *regProbeQ) Reconcile(context.Context, *zap.Logger, controller.QRuntime, resource.Pointer) error {
	p.h.wake(p.name)

	return nil
}

func (p *regProbeQ) MapInput(context.Context, *zap.Logger, controller.QRuntime, controller.ReducedResourceMetadata) ([]resource.Pointer, error) {
	p.h.wake(p.name)

	return nil, nil
}

// execRegistry runs one case on the real runtime; emit is called once per op line, after the op.
func execRegistry(t *testing.T, c Case, emit func(string)) {
	_, hd := ParseLine(strings.TrimPrefix(c.Header, "#"))
	nograph := hd["nograph"] == "1"

	synctest.Test(t, func(t *testing.T) {
		ctx, cancel := context.WithCancel(context.Background())

		st := state.WrapCore(namespaced.NewState(inmem.Build))

		rt, err := runtime.NewRuntime(st, zap.NewNop())
		if err != nil {
			panic(err)
		}

		h := &hub{woken: map[string]bool{}, handles: map[string]controller.Runtime{}}
		started := false
		runDone := make(chan error, 1)

		graph := func() string {
			g, err := rt.GetDependencyGraph()
			if err != nil {
				return "err"
			}

			s, _ := graphTok(g)

			return s
		}

		withGraph := func(verdict string) string {
			if nograph {
				return verdict
			}

			return verdict + " graph=" + graph()
		}

		verdict := func(err error) string {
			if err != nil {
				return "reject"
			}

			return "accept"
		}

		settle := func() {
			synctest.Wait()
			h.take() // initial reconciles are not notifications of a change
		}

		for _, line := range c.Ops {
			op, a := ParseLine(line)

			var out string

			func() {
				defer func() {
					if r := recover(); r != nil {
						out = fmt.Sprintf("PANIC %v", r)
					}
				}()

				switch op {
				case "reg":
					err := rt.RegisterController(&probeCtrl{h: h, name: a["c"], inputs: parseInputToks(a["in"]), outputs: parseOutputToks(a["out"])})
					settle()
					out = withGraph(verdict(err))
				case "regq":
					qs := controller.QSettings{Inputs: parseInputToks(a["in"]), Outputs: parseOutputToks(a["out"])}
					if a["conc"] != "default" && a["conc"] != "" {
						qs.Concurrency = optional.Some(uint(a.Int("conc")))
					}

					err := rt.RegisterQController(&regProbeQ{h: h, name: a["c"], settings: qs})
					settle()
					out = withGraph(verdict(err))
				case "upd":
					h.mu.Lock()
					hr := h.handles[a["c"]]
					h.mu.Unlock()

					if hr == nil {
						out = withGraph("nohandle")

						break
					}

					err := hr.UpdateInputs(parseInputToks(a["in"]))
					settle()

					if err != nil {
						out = withGraph("reject")
					} else {
						out = withGraph("ok")
					}
				case "start":
					if started {
						out = "already"

						break
					}

					started = true

					go func() { runDone <- rt.Run(ctx) }()

					settle()
					out = "ok"
				case "graph":
					out = "graph g=" + graph()
				case "poke":
					// a destroy-ready resource (tearing down, no finalizers) passes every watch filter
					ptr := resource.NewMetadata(a["ns"], a["typ"], a["id"], resource.VersionUndefined)

					cur, err := st.Get(ctx, ptr)
					if err != nil {
						r := NewTRes(a["ns"], a["typ"], a["id"])
						r.md.SetPhase(resource.PhaseTearingDown)
						r.spec = TSpec{S: "0"}

						if err := st.Create(ctx, r); err != nil {
							panic(err)
						}
					} else {
						upd := cur.DeepCopy().(*TRes) //nolint:forcetypeassert
						upd.spec = TSpec{S: upd.spec.S + "x"}

						if err := st.Update(ctx, upd, state.WithExpectedPhaseAny()); err != nil {
							panic(err)
						}
					}

					synctest.Wait()
					out = "woken l=" + strings.Join(h.take(), ",")
				default:
					out = "bad-op"
				}
			}()

			emit(out)
		}

		cancel()

		if started {
			<-runDone
		}

		synctest.Wait()
	})
}

const (
	childEnv     = "VERIF_REGISTRY_CHILD"
	childTimeout = 60 * time.Second
)

// registryChild is the child side of the crash isolation (entered through
// TestRegistryChild in registry_child_test.go): it reads cases from stdin (header, op
// lines, a line "."), runs them, and writes "@ <output>" after every op and "@@done"
// after every case. Does nothing unless started by registryEng.
func registryChild(t *testing.T) {
	if os.Getenv(childEnv) != "1" {
		t.Skip("child mode only")
	}

	in := bufio.NewScanner(os.Stdin)
	in.Buffer(make([]byte, 1<<20), 1<<26)

	for {
		var c Case

		got := false

		for in.Scan() {
			line := in.Text()
			if line == "." {
				got = true

				break
			}

			if c.Header == "" {
				c.Header = line
			} else {
				c.Ops = append(c.Ops, line)
			}
		}

		if !got {
			return
		}

		execRegistry(t, c, func(s string) { fmt.Fprintf(os.Stdout, "@ %s\n", s) })
		fmt.Fprintln(os.Stdout, "@@done")
	}
}

// worker is a child process executing registry cases.
type worker struct {
	cmd    *exec.Cmd
	stdin  io.WriteCloser
	stdout *bufio.Reader
	stderr *bytes.Buffer
}

func startWorker() (*worker, error) {
	cmd := exec.Command(os.Args[0], "-test.run", "^TestRegistryChild$", "-test.timeout", "0")
	cmd.Env = append(os.Environ(), childEnv+"=1", "GOTRACEBACK=all")

	stdin, err := cmd.StdinPipe()
	if err != nil {
		return nil, err
	}

	stdout, err := cmd.StdoutPipe()
	if err != nil {
		return nil, err
	}

	w := &worker{cmd: cmd, stdin: stdin, stdout: bufio.NewReaderSize(stdout, 1<<20), stderr: &bytes.Buffer{}}
	cmd.Stderr = w.stderr

	if err := cmd.Start(); err != nil {
		return nil, err
	}

	return w, nil
}

func (w *worker) kill() {
	_ = w.stdin.Close()
	_ = w.cmd.Process.Kill()
	_ = w.cmd.Wait()
}

type registryEng struct {
	w          *worker
	lastCrash  string // stderr of the last crashed child (goroutine dump)
	firstCrash string // op, case and crashing goroutine of the first crashed child
	crashes    int
}

func (*registryEng) Name() string { return "registry" }

func (*registryEng) Cases(thorough bool) int {
	if thorough {
		return 1500
	}

	return 250
}

func (*registryEng) Rule() string {
	return "random history of RegisterController/RegisterQController (valid and invalid: wrong-flavour kinds, conflicting inputs, conflicting outputs, zero concurrency, re-used names), Run at a random position, UpdateInputs through the probe's Runtime handle, change events (destroy-ready writes) on the declared kinds; each case in a child process; non-trivial = at least one accepted and one rejected registration and one event that woke a probe (or crashed delivery); distinct by hash of the op lines"
}

func (*registryEng) NonTrivial(c Case, out []string) bool {
	acc, rej, woke := false, false, false

	for i, o := range out {
		op := opName(c.Ops[i])

		switch {
		case (op == "reg" || op == "regq") && strings.HasPrefix(o, "accept"):
			acc = true
		case (op == "reg" || op == "regq") && strings.HasPrefix(o, "reject"):
			rej = true
		case op == "poke" && (strings.HasPrefix(o, "CRASH") || (strings.HasPrefix(o, "woken l=") && o != "woken l=")):
			woke = true
		}
	}

	return acc && rej && woke
}

// Corpus: the minimal dangling registrations, with graph printing off so that the first
// difference to the specification is the delivery itself.
func (*registryEng) Corpus(bool) []Case {
	return []Case{
		{Header: "# engine=registry case=corpus-dangling-q nograph=1", Ops: []string{
			"start", "regq c=c1 in=n1/T1/none/3,n1/T2/none/0 out= conc=default", "poke ns=n1 typ=T1 id=a",
		}},
		{Header: "# engine=registry case=corpus-dangling-r nograph=1", Ops: []string{
			"reg c=c1 in=n1/T1/none/0,n1/T1/none/1 out=", "start", "poke ns=n1 typ=T1 id=a",
		}},
		{Header: "# engine=registry case=corpus-dangling-excl nograph=1", Ops: []string{
			"regq c=c1 in=n1/T1/none/0 out=T1:0 conc=default", "reg c=c2 in= out=T1:0", "graph",
		}},
		{Header: "# engine=registry case=corpus-valid nograph=0", Ops: []string{
			"reg c=c1 in=n1/T1/none/0,n1/T2/s:a/1 out=T3:0", "regq c=c2 in=n1/T1/s:a/3,n1/T3/none/4 out=T2:1 conc=2", "start",
			"poke ns=n1 typ=T1 id=a", "poke ns=n1 typ=T1 id=b", "poke ns=n1 typ=T2 id=a", "poke ns=n1 typ=T3 id=b",
			"upd c=c1 in=n1/T1/s:b/2", "poke ns=n1 typ=T1 id=a", "poke ns=n1 typ=T1 id=b", "reg c=c3 in=n2/T1/none/2 out=T2:1", "poke ns=n2 typ=T1 id=a",
		}},
	}
}

func genDecl(r *Rand, q bool, bad bool) (ins []string, outs []string) {
	base := 0
	if q {
		base = 3
	}

	nIn := r.Intn(4)
	if q && nIn == 0 {
		nIn = 1
	}

	seen := map[string]bool{}

	for len(ins) < nIn {
		ns, typ, id := Pick(r, dNS[:1]), Pick(r, dTyp), Pick(r, []string{"none", "none", "s:a", "s:b", "s:"})
		if r.Chance(1, 5) {
			ns = "n2"
		}

		k := ns + "/" + typ + "/" + id
		if seen[k] {
			continue
		}

		seen[k] = true
		ins = append(ins, fmt.Sprintf("%s/%d", k, base+r.Intn(3)))
	}

	nOut := r.Intn(3)
	seenOut := map[string]bool{}

	for len(outs) < nOut {
		typ := Pick(r, dTyp)
		if seenOut[typ] {
			continue
		}

		seenOut[typ] = true

		kind := 1
		if r.Chance(1, 3) {
			kind = 0
		}

		outs = append(outs, fmt.Sprintf("%s:%d", typ, kind))
	}

	if bad {
		switch r.Intn(4) {
		case 0: // a kind of the other flavour, at a random position
			t := fmt.Sprintf("%s/%s/%s/%d", Pick(r, dNS[:1]), Pick(r, dTyp), Pick(r, dID), (3-base)+r.Intn(3))
			p := r.Intn(len(ins) + 1)
			ins = append(ins[:p], append([]string{t}, ins[p:]...)...)
		case 1: // conflicting input: same keys, maybe another kind
			if len(ins) > 0 {
				t := parseInputTok(Pick(r, ins))
				t.Kind = base + r.Intn(3)
				p := r.Intn(len(ins) + 1)
				ins = append(ins[:p], append([]string{inputTok(t)}, ins[p:]...)...)
			}
		case 2: // the same output twice
			if len(outs) > 0 {
				outs = append(outs, outs[0])
			} else {
				outs = []string{"T1:1", "T1:0"}
			}
		case 3: // nothing wrong in itself: conflicts come from the other controllers' outputs
			outs = append(outs, fmt.Sprintf("%s:0", Pick(r, dTyp)))
		}
	}

	return ins, outs
}

func (e *registryEng) Gen(r *Rand, thorough bool, idx int) Case {
	nReg := 4 + r.Intn(3)
	if thorough {
		nReg += 3
	}

	c := Case{Header: fmt.Sprintf("# engine=registry case=%d nograph=%d", idx, map[bool]int{false: 0, true: 1}[idx%4 == 3])}
	startAt := r.Intn(nReg + 1)

	if r.Chance(1, 10) {
		startAt = -1
	}

	var declared []string // ns/typ of everything declared so far

	pokes := func(n int) {
		for i := 0; i < n; i++ {
			ns, typ := "n1", Pick(r, dTyp)
			if len(declared) > 0 && r.Chance(3, 4) {
				f := strings.Split(Pick(r, declared), "/")
				ns, typ = f[0], f[1]
			}

			c.Ops = append(c.Ops, fmt.Sprintf("poke ns=%s typ=%s id=%s", ns, typ, Pick(r, []string{"a", "a", "b"})))
		}
	}

	var rNames []string

	for i := 0; i < nReg; i++ {
		if i == startAt {
			c.Ops = append(c.Ops, "start")
		}

		name := Pick(r, dCtrl)
		q := r.Chance(1, 2)
		bad := r.Chance(1, 3)
		ins, outs := genDecl(r, q, bad)

		for _, in := range ins {
			f := strings.Split(in, "/")
			declared = append(declared, f[0]+"/"+f[1])
		}

		if q {
			conc := "default"
			if r.Chance(1, 12) {
				conc = "0"
			} else if r.Chance(1, 6) {
				conc = "2"
			}

			c.Ops = append(c.Ops, fmt.Sprintf("regq c=%s in=%s out=%s conc=%s", name, strings.Join(ins, ","), strings.Join(outs, ","), conc))
		} else {
			c.Ops = append(c.Ops, fmt.Sprintf("reg c=%s in=%s out=%s", name, strings.Join(ins, ","), strings.Join(outs, ",")))
			rNames = append(rNames, name)
		}

		pokes(r.Intn(3))

		if len(rNames) > 0 && r.Chance(1, 3) {
			ins, _ := genDecl(r, false, r.Chance(1, 5))
			c.Ops = append(c.Ops, fmt.Sprintf("upd c=%s in=%s", Pick(r, rNames), strings.Join(ins, ",")))

			for _, in := range ins {
				f := strings.Split(in, "/")
				declared = append(declared, f[0]+"/"+f[1])
			}

			pokes(r.Intn(3))
		}
	}

	if startAt == nReg {
		c.Ops = append(c.Ops, "start")
	}

	c.Ops = append(c.Ops, "graph")

	// final sweep: one event per (namespace, type, id) that anything was declared on
	seen := map[string]bool{}

	for _, d := range declared {
		if seen[d] {
			continue
		}

		seen[d] = true
		f := strings.Split(d, "/")

		for _, id := range []string{"a", "b"} {
			c.Ops = append(c.Ops, fmt.Sprintf("poke ns=%s typ=%s id=%s", f[0], f[1], id))
		}
	}

	return c
}

// Notes reports the goroutine that crashed the first child, if any.
func (e *registryEng) Notes() []string {
	if e.firstCrash == "" {
		return nil
	}

	return []string{fmt.Sprintf("%d child processes crashed; first: %s", e.crashes, e.firstCrash)}
}

func classifyCrash(stderr string) string {
	switch {
	case strings.Contains(stderr, "nil pointer dereference"):
		return "CRASH:nilptr"
	case strings.Contains(stderr, "concurrent map"):
		return "CRASH:concurrent-map"
	default:
		return "CRASH:other"
	}
}

func (e *registryEng) Exec(t *testing.T, c Case) []string {
	if os.Getenv("VERIF_REGISTRY_INPROC") == "1" { // debugging aid: no isolation
		var out []string

		execRegistry(t, c, func(s string) { out = append(out, s) })

		return out
	}

	if e.w == nil {
		w, err := startWorker()
		if err != nil {
			panic(err)
		}

		e.w = w
	}

	w := e.w

	var in bytes.Buffer

	in.WriteString(c.Header + "\n")

	for _, op := range c.Ops {
		in.WriteString(op + "\n")
	}

	in.WriteString(".\n")

	if _, err := w.stdin.Write(in.Bytes()); err != nil {
		w.kill()
		e.w = nil

		panic(fmt.Sprintf("registry child not writable: %v", err))
	}

	out := make([]string, 0, len(c.Ops))
	done := false
	hung := false

	timer := time.AfterFunc(childTimeout, func() {
		hung = true

		_ = w.cmd.Process.Kill()
	})

	for {
		line, err := w.stdout.ReadString('\n')
		line = strings.TrimRight(line, "\n")

		if strings.HasPrefix(line, "@ ") {
			out = append(out, line[2:])
		} else if line == "@@done" {
			done = true

			break
		}

		if err != nil {
			break
		}
	}

	timer.Stop()

	if done {
		return out
	}

	// the child died (or was killed) while executing op number len(out)
	_ = w.stdin.Close()
	_ = w.cmd.Wait()

	e.w = nil
	e.crashes++

	verdict := "HANG"
	if !hung {
		verdict = classifyCrash(w.stderr.String())
		e.lastCrash = w.stderr.String()

		if e.crashes == 1 {
			dump := e.lastCrash
			if len(dump) > 6000 {
				dump = dump[:6000]
			}

			fmt.Fprintf(os.Stderr, "registry: child crashed at op %d %q of %s\n%s\n", len(out), c.Ops[min(len(out), len(c.Ops)-1)], c.Header, dump)

			first, _, _ := strings.Cut(dump, "\n\ngoroutine ")
			if i := strings.Index(dump, "\n\ngoroutine "); i >= 0 {
				second, _, _ := strings.Cut(dump[i+2:], "\n\n")
				first += " | " + second
			}

			e.firstCrash = fmt.Sprintf("op %d %q of %q: %s", len(out), c.Ops[min(len(out), len(c.Ops)-1)], c.Header, strings.ReplaceAll(first, "\n", " / "))
		}
	}

	if len(out) < len(c.Ops) {
		out = append(out, verdict)
	}

	for len(out) < len(c.Ops) {
		out = append(out, "dead")
	}

	return out
}
