package harness

import (
	"bytes"
	"crypto/hmac"
	"crypto/sha256"
	"fmt"
	"slices"
	"sort"
	"strings"
	"sync"
	"testing"

	"github.com/ProtonMail/gopenpgp/v2/crypto"
	"github.com/ProtonMail/gopenpgp/v2/helper"
	"github.com/siderolabs/gen/xerrors"

	"github.com/cosi-project/runtime/api/key_storage"
	"github.com/cosi-project/runtime/pkg/keystorage"
)

// engine keystorage (C20): the REAL keystorage.KeyStorage with freshly generated PGP
// key pairs, compared op by op with Cosi.Model.KeyStorage (model mode) and with
// Cosi.Spec.KeyStorage (spec mode). Two streams:
//
//	stream=ops    random initialise / add / delete / get (right & wrong keys) /
//	              reload / save / load / dump sequences;
//	stream=tamper a valid storage, then ONE edit of the serialized form behind the API
//	              (flip a byte of a blob, empty a blob, flip a byte of the tag, drop a
//	              slot, add a slot with a junk / copied / genuinely encrypted / EMPTY
//	              blob, rename a slot order-changingly / order-preservingly, alter
//	              the algorithm or the version), then retrievals through every slot.
//
// The protocol is symbolic (PGP ciphertexts are randomised): see
// lean/Cosi/Driver/KeyStorage.lean for the vocabulary.
func init() { Register("keystorage", func() Engine { return &ksEngine{} }) }

type ksEngine struct{}

func (*ksEngine) Name() string { return "keystorage" }

func (*ksEngine) Cases(thorough bool) int {
	if thorough {
		return 4000
	}

	return 400
}

func (*ksEngine) Rule() string {
	return "random API sequences (ids {a,b,c,d,''}, 4 generated x25519 PGP key pairs, right/wrong/public/junk/empty key texts, 2 master keys + malformed lengths, reload/save/load in between) and single-field tamperings of the marshalled proto followed by retrievals through every slot; non-trivial = at least one successful retrieval, at least one refused op and at least 3 distinct output kinds; distinct by hash of the op lines"
}

func (*ksEngine) NonTrivial(_ Case, out []string) bool {
	kinds := map[string]bool{}
	errs, keys := 0, 0

	for _, o := range out {
		k := outKind(o)
		kinds[k] = true

		if strings.HasPrefix(o, "err") {
			errs++
		}

		if strings.HasPrefix(o, "ok key=") {
			keys++
		}
	}

	return errs >= 1 && keys >= 1 && len(kinds) >= 3
}

// ---- key material: generated once per process (x25519 is the fastest supported type)

const ksPairs = 4

var ksKeys struct {
	once sync.Once
	pub  [ksPairs + 1]string
	priv [ksPairs + 1]string
	err  error
}

func ksGenKeys() error {
	ksKeys.once.Do(func() {
		for i := 1; i <= ksPairs; i++ {
			k, err := crypto.GenerateKey(fmt.Sprintf("k%d", i), fmt.Sprintf("k%d@verif.invalid", i), "x25519", 0)
			if err != nil {
				ksKeys.err = err

				return
			}

			if ksKeys.priv[i], err = k.Armor(); err != nil {
				ksKeys.err = err

				return
			}

			if ksKeys.pub[i], err = k.GetArmoredPublicKey(); err != nil {
				ksKeys.err = err

				return
			}
		}
	})

	return ksKeys.err
}

// ksKeyText: `none` | `junk` | `k<n>p` | `k<n>s`
func ksKeyText(tok string) string {
	switch tok {
	case "none", "":
		return ""
	case "junk":
		return "this is not a key"
	}

	var (
		n int
		c byte
	)

	if _, err := fmt.Sscanf(tok, "k%d%c", &n, &c); err != nil || n < 1 || n > ksPairs {
		return "this is not a key"
	}

	switch c {
	case 'p':
		return ksKeys.pub[n]
	case 's':
		return ksKeys.priv[n]
	}

	return "this is not a key"
}

func ksMaster(tok string) []byte {
	switch tok {
	case "m1":
		return bytes.Repeat([]byte{1}, 32)
	case "m2":
		return bytes.Repeat([]byte{2}, 32)
	case "short":
		return bytes.Repeat([]byte{7}, 31)
	case "long":
		return bytes.Repeat([]byte{7}, 33)
	}

	return nil
}

func ksMasterName(b []byte) string {
	switch {
	case bytes.Equal(b, ksMaster("m1")):
		return "m1"
	case bytes.Equal(b, ksMaster("m2")):
		return "m2"
	}

	return "other"
}

// KsErrClass maps an error to the tag it carries (public xerrors tags only).
func KsErrClass(err error) string {
	switch {
	case xerrors.TagIs[keystorage.NotInitializedTag](err):
		return "notInitialized"
	case xerrors.TagIs[keystorage.AlreadyInitializedTag](err):
		return "alreadyInitialized"
	case xerrors.TagIs[keystorage.SlotAlreadyExists](err):
		return "slotExists"
	case xerrors.TagIs[keystorage.SlotNotFoundTag](err):
		return "slotNotFound"
	case xerrors.TagIs[keystorage.VersionMismatchTag](err):
		return "versionMismatch"
	case xerrors.TagIs[keystorage.HMACMismatchTag](err):
		return "hmacMismatch"
	case xerrors.TagIs[keystorage.AlgorithmMismatchTag](err):
		return "algMismatch"
	case xerrors.TagIs[keystorage.KeyDecryptionFailureTag](err):
		return "decryptFail"
	case xerrors.TagIs[keystorage.KeyEncryptionFailureTag](err):
		return "encryptFail"
	case xerrors.TagIs[keystorage.LastKeyTag](err):
		return "lastKey"
	}

	return "other"
}

// ---- observing the serialized storage

type ksRun struct {
	ks        *keystorage.KeyStorage
	saved     []byte
	didTamper bool
	label     string
	nonce     int
	blobNames map[string]string
}

func (r *ksRun) proto() (*key_storage.Storage, error) {
	bin, err := r.ks.MarshalBinary()
	if err != nil {
		return nil, err
	}

	st := &key_storage.Storage{}
	if err := st.UnmarshalVT(bin); err != nil {
		return nil, err
	}

	return st, nil
}

func ksSortedIDs(st *key_storage.Storage) []string {
	ids := make([]string, 0, len(st.GetKeySlots()))
	for id := range st.GetKeySlots() {
		ids = append(ids, id)
	}

	sort.Strings(ids)

	return ids
}

// blobName names a blob by what the harness's own private keys make of it.
func (r *ksRun) blobName(b []byte) string {
	if len(b) == 0 {
		return "empty"
	}

	if n, ok := r.blobNames[string(b)]; ok {
		return n
	}

	name := "junk"

	for i := 1; i <= ksPairs; i++ {
		if m, err := helper.DecryptBinaryMessageArmored(ksKeys.priv[i], nil, string(b)); err == nil {
			name = fmt.Sprintf("enc(k%d;%s)", i, ksMasterName(m))

			break
		}
	}

	r.blobNames[string(b)] = name

	return name
}

// ksTagName: the documented tag format, computed by the harness itself: HMAC-SHA256
// keyed with the master key over the blobs concatenated in slot-id order.
func ksTagName(st *key_storage.Storage) string {
	if len(st.GetKeysHmacHash()) == 0 {
		return "empty"
	}

	for _, m := range []string{"m1", "m2"} {
		h := hmac.New(sha256.New, ksMaster(m))
		for _, id := range ksSortedIDs(st) {
			h.Write(st.GetKeySlots()[id].GetEncryptedKey())
		}

		if bytes.Equal(h.Sum(nil), st.GetKeysHmacHash()) {
			return "hmac(" + m + ")"
		}
	}

	return "other"
}

func (r *ksRun) dump() string {
	st, err := r.proto()
	if err != nil {
		return "dump error"
	}

	var slots []string

	for _, id := range ksSortedIDs(st) {
		sl := st.GetKeySlots()[id]
		slots = append(slots, fmt.Sprintf("%s:%d:%s", id, int(sl.GetAlgorithm()), r.blobName(sl.GetEncryptedKey())))
	}

	s := "-"
	if len(slots) > 0 {
		s = strings.Join(slots, ",")
	}

	return fmt.Sprintf("dump ver=%d slots=%s tag=%s", int(st.GetStorageVersion()), s, ksTagName(st))
}

func ksErrLine(err error) string {
	if err == nil {
		return "ok"
	}

	return "err class=" + KsErrClass(err)
}

// ksFlip changes one byte: for an armored blob a base64 character at the start of
// the body (inside the public-key encrypted session key packet), else the first byte.
func ksFlip(b []byte) []byte {
	out := append([]byte{}, b...)

	pos := 0
	if i := bytes.Index(out, []byte("\n\n")); i >= 0 && i+8 < len(out) {
		pos = i + 6
	}

	if out[pos] == 'A' {
		out[pos] = 'B'
	} else {
		out[pos] = 'A'
	}

	return out
}

func ksKeepsOrder(ids []string, from, to string) bool {
	after := make([]string, 0, len(ids))
	mapped := make([]string, 0, len(ids))

	for _, id := range ids {
		if id == from {
			after = append(after, to)
			mapped = append(mapped, to)
		} else {
			after = append(after, id)
			mapped = append(mapped, id)
		}
	}

	sort.Strings(after)

	return strings.Join(after, "\x00") == strings.Join(mapped, "\x00")
}

// tamper edits the marshalled proto behind the API and loads it into a fresh KeyStorage.
func (r *ksRun) tamper(a Args) string {
	if r.didTamper {
		return "skip"
	}

	st, err := r.proto()
	if err != nil {
		return "skip"
	}

	if st.KeySlots == nil {
		st.KeySlots = map[string]*key_storage.KeySlot{}
	}

	id := a["id"]
	slot, present := st.KeySlots[id]
	label := a["kind"]

	switch a["kind"] {
	case "flipblob":
		if !present || len(slot.EncryptedKey) == 0 {
			return "skip"
		}

		slot.EncryptedKey = ksFlip(slot.EncryptedKey)
	case "emptyblob":
		if !present || len(slot.EncryptedKey) == 0 {
			return "skip"
		}

		slot.EncryptedKey = nil
	case "fliptag":
		if len(st.KeysHmacHash) == 0 {
			return "skip"
		}

		st.KeysHmacHash = append([]byte{}, st.KeysHmacHash...)
		st.KeysHmacHash[0] ^= 0x08
	case "striptag": // the integrity tag removed altogether
		if len(st.KeysHmacHash) == 0 {
			return "skip"
		}

		st.KeysHmacHash = nil
	case "trunctag": // … or cut short
		n := a.Int("n")
		if len(st.KeysHmacHash) == 0 || n >= len(st.KeysHmacHash) {
			return "skip"
		}

		st.KeysHmacHash = append([]byte{}, st.KeysHmacHash[:n]...)
	case "drop":
		if !present {
			return "skip"
		}

		delete(st.KeySlots, id)
	case "addslot":
		if id == "" || present {
			return "skip"
		}

		var blob []byte

		kind, rest, _ := strings.Cut(a["blob"], ":")

		switch kind {
		case "empty":
		case "junk":
			blob = []byte(fmt.Sprintf("junk blob %d", r.nonce))
		case "copy":
			src, ok := st.KeySlots[rest]
			if !ok {
				return "skip"
			}

			blob = append([]byte{}, src.EncryptedKey...)
		case "enc":
			k, m, _ := strings.Cut(rest, ":")

			armored, err := helper.EncryptBinaryMessageArmored(ksKeyText(k), ksMaster(m))
			if err != nil {
				return "skip"
			}

			blob = []byte(armored)
		default:
			return "skip"
		}

		st.KeySlots[id] = &key_storage.KeySlot{Algorithm: key_storage.Algorithm_PGP_AES_GCM_256, EncryptedKey: blob}

		label = "addslot-" + kind
		if len(blob) == 0 {
			label = "addslot-empty"
		}
	case "rename":
		from, to := a["from"], a["to"]

		src, ok := st.KeySlots[from]
		if _, exists := st.KeySlots[to]; !ok || exists || to == "" {
			return "skip"
		}

		if (a["order"] == "same") != ksKeepsOrder(ksSortedIDs(st), from, to) {
			return "skip"
		}

		delete(st.KeySlots, from)
		st.KeySlots[to] = src
		label = "rename-" + a["order"]
	case "alg":
		if !present {
			return "skip"
		}

		slot.Algorithm = key_storage.Algorithm_UNKNOWN
	case "version":
		v := key_storage.StorageVersion(a.Int("v"))
		if v == st.StorageVersion {
			return "skip"
		}

		st.StorageVersion = v
	default:
		return "skip"
	}

	bin, err := st.MarshalVT()
	if err != nil {
		return "skip"
	}

	r.ks = &keystorage.KeyStorage{}
	r.didTamper = true
	r.label = label

	return ksErrLine(ksUnmarshalScrub(r.ks, bin))
}

// ksUnmarshalScrub unmarshals from a private copy of the bytes and scrubs that copy afterwards: the key storage must
// own its data (a caller may reuse or wipe the buffer it read the serialized form into).
func ksUnmarshalScrub(ks *keystorage.KeyStorage, bin []byte) error {
	buf := slices.Clone(bin)
	err := ks.UnmarshalBinary(buf)

	for i := range buf {
		buf[i] = 0xAA
	}

	return err
}

func (r *ksRun) withLabel(s string) string {
	if r.label == "" {
		return s
	}

	return s + " tampered=" + r.label
}

func (r *ksRun) exec(line string) (out string) {
	defer func() {
		if p := recover(); p != nil {
			out = fmt.Sprintf("PANIC %v", p)
		}
	}()

	r.nonce++

	op, a := ParseLine(line)

	switch op {
	case "init":
		return r.withLabel(ksErrLine(r.ks.Initialize(ksMaster(a["mk"]), a["id"], ksKeyText(a["pub"]))))
	case "initrace":
		// four identical Initialize calls at once (real goroutines): as ONE call — accepted once at most, every other
		// caller refused the way a second sequential call is
		const n = 4

		errs := make([]error, n)

		var wg sync.WaitGroup

		for i := range errs {
			wg.Add(1)

			go func() {
				defer wg.Done()

				errs[i] = r.ks.Initialize(ksMaster(a["mk"]), a["id"], ksKeyText(a["pub"]))
			}()
		}

		wg.Wait()

		wins, lines := 0, map[string]int{}

		for _, err := range errs {
			if err == nil {
				wins++
			} else {
				lines[ksErrLine(err)]++
			}
		}

		switch {
		case wins == 1:
			return r.withLabel("ok")
		case wins == 0 && len(lines) == 1:
			for l := range lines {
				return r.withLabel(l)
			}
		}

		return r.withLabel(fmt.Sprintf("RACE accepted=%d of %d", wins, n))
	case "add":
		return r.withLabel(ksErrLine(r.ks.AddKeySlot(a["new"], ksKeyText(a["pub"]), a["old"], ksKeyText(a["priv"]))))
	case "delete":
		return r.withLabel(ksErrLine(r.ks.DeleteKeySlot(a["id"], ksKeyText(a["priv"]))))
	case "get":
		k, err := r.ks.GetMasterKey(a["id"], ksKeyText(a["priv"]))
		if err != nil {
			return r.withLabel(ksErrLine(err))
		}

		return r.withLabel("ok key=" + ksMasterName(k))
	case "reload":
		bin, err := r.ks.MarshalBinary()
		if err != nil {
			return r.withLabel("err class=marshal")
		}

		r.ks = &keystorage.KeyStorage{}

		return r.withLabel(ksErrLine(ksUnmarshalScrub(r.ks, bin)))
	case "save":
		bin, err := r.ks.MarshalBinary()
		if err != nil {
			return "err class=marshal"
		}

		r.saved = bin

		return "ok"
	case "load":
		if a["into"] != "cur" {
			r.ks = &keystorage.KeyStorage{}
		}

		return ksErrLine(ksUnmarshalScrub(r.ks, r.saved))
	case "dump":
		return r.dump()
	case "tamper":
		return r.tamper(a)
	}

	return "bad-op"
}

func (*ksEngine) Exec(t *testing.T, c Case) []string {
	if err := ksGenKeys(); err != nil {
		t.Fatalf("key generation: %v", err)
	}

	r := &ksRun{ks: &keystorage.KeyStorage{}, blobNames: map[string]string{}}
	out := make([]string, 0, len(c.Ops))

	for _, line := range c.Ops {
		out = append(out, r.exec(line))
	}

	return out
}

// ---- generators

var (
	ksIDs = []string{"a", "b", "c", "d"}
	ksMKs = []string{"m1", "m1", "m1", "m2", "m2", "short", "long", "empty"}
)

// ksShadow mirrors which slots probably exist (id -> key pair), only to bias the
// generator towards valid operations and to state order claims that hold.
type ksShadow struct {
	live map[string]int
	init bool
}

func (s *ksShadow) ids() []string {
	ids := make([]string, 0, len(s.live))
	for id := range s.live {
		ids = append(ids, id)
	}

	sort.Strings(ids)

	return ids
}

func ksPub(r *Rand, k int) string {
	switch x := r.Intn(20); {
	case x == 0:
		return "junk"
	case x == 1:
		return "none"
	case x < 4:
		return fmt.Sprintf("k%ds", k) // a private key text also works as encryption key
	}

	return fmt.Sprintf("k%dp", k)
}

func ksPubValid(p string) bool { return p != "junk" && p != "none" }

// ksPriv picks a private key text for a slot created for pair k: mostly the right one.
func ksPriv(r *Rand, k int) (string, bool) {
	switch x := r.Intn(20); {
	case x == 0:
		return "junk", false
	case x == 1:
		return "none", false
	case x == 2:
		return fmt.Sprintf("k%dp", k), false // the public key text presented as private key
	case x < 6:
		o := 1 + r.Intn(ksPairs)

		return fmt.Sprintf("k%ds", o), o == k
	}

	return fmt.Sprintf("k%ds", k), true
}

func (s *ksShadow) pickLive(r *Rand) (string, int) {
	ids := s.ids()
	if len(ids) == 0 || r.Chance(1, 8) {
		id := Pick(r, ksIDs)

		return id, s.live[id]
	}

	id := Pick(r, ids)

	return id, s.live[id]
}

func (s *ksShadow) genInit(r *Rand) string {
	mk, id, k := Pick(r, ksMKs), Pick(r, ksIDs), 1+r.Intn(ksPairs)
	if r.Chance(1, 12) {
		id = ""
	}

	pub := ksPub(r, k)

	if !s.init && (mk == "m1" || mk == "m2") && id != "" && ksPubValid(pub) {
		s.init = true
		s.live[id] = k
	}

	if r.Chance(1, 6) {
		// the same initialisation attempted by four callers at once: at most one of them may be accepted
		return fmt.Sprintf("initrace mk=%s id=%s pub=%s", mk, id, pub)
	}

	return fmt.Sprintf("init mk=%s id=%s pub=%s", mk, id, pub)
}

func (s *ksShadow) genAdd(r *Rand) string {
	nid, k := Pick(r, ksIDs), 1+r.Intn(ksPairs)
	if r.Chance(1, 15) {
		nid = ""
	}

	pub := ksPub(r, k)
	old, ok := s.pickLive(r)

	if ok == 0 {
		ok = 1 + r.Intn(ksPairs)
	}

	priv, right := ksPriv(r, ok)
	_, oldLive := s.live[old]
	_, newLive := s.live[nid]

	if s.init && nid != "" && ksPubValid(pub) && !newLive && oldLive && right {
		s.live[nid] = k
	}

	return fmt.Sprintf("add new=%s pub=%s old=%s priv=%s", nid, pub, old, priv)
}

func (s *ksShadow) genDelete(r *Rand) string {
	id, k := s.pickLive(r)
	if k == 0 {
		k = 1 + r.Intn(ksPairs)
	}

	priv, right := ksPriv(r, k)
	if _, live := s.live[id]; live && right && len(s.live) >= 2 {
		delete(s.live, id)
	}

	return fmt.Sprintf("delete id=%s priv=%s", id, priv)
}

func (s *ksShadow) genGet(r *Rand) string {
	id, k := s.pickLive(r)
	if k == 0 {
		k = 1 + r.Intn(ksPairs)
	}

	if r.Chance(1, 25) {
		id = ""
	}

	priv, _ := ksPriv(r, k)

	return fmt.Sprintf("get id=%s priv=%s", id, priv)
}

func (e *ksEngine) genOps(r *Rand, thorough bool, idx int) Case {
	n := 12 + r.Intn(24)
	if thorough {
		n = 20 + r.Intn(50)
	}

	c := Case{Header: fmt.Sprintf("# engine=keystorage stream=ops case=%d", idx)}
	s := &ksShadow{live: map[string]int{}}

	for i := 0; i < n; i++ {
		x := r.Intn(100)

		switch {
		case !s.init && x < 55, x < 6:
			c.Ops = append(c.Ops, s.genInit(r))
		case x < 32:
			c.Ops = append(c.Ops, s.genAdd(r))
		case x < 47:
			c.Ops = append(c.Ops, s.genDelete(r))
		case x < 80:
			c.Ops = append(c.Ops, s.genGet(r))
		case x < 88:
			c.Ops = append(c.Ops, "reload")
		case x < 95:
			c.Ops = append(c.Ops, "dump")
		case x < 97:
			c.Ops = append(c.Ops, "save")
		case x < 99:
			c.Ops = append(c.Ops, "load into=new")
		default:
			c.Ops = append(c.Ops, "load into=cur")
		}
	}

	c.Ops = append(c.Ops, "dump")

	return c
}

// freeID gives an id that is not live; `between` asks for one that sorts right after `from`.
func (s *ksShadow) freeID(r *Rand) string {
	var free []string

	for _, id := range append(append([]string{}, ksIDs...), "a0", "bb", "c5", "z") {
		if _, ok := s.live[id]; !ok {
			free = append(free, id)
		}
	}

	return Pick(r, free)
}

// genTamperLine produces one tamper of the requested family for the shadow state.
// d6 = 1: empty-blob slot injection, d6 = 2: order-preserving rename, 0: anything else.
func (s *ksShadow) genTamperLine(r *Rand, d6 int) string {
	ids := s.ids()
	victim := Pick(r, ids)

	switch d6 {
	case 1:
		return fmt.Sprintf("tamper kind=addslot id=%s blob=empty", s.freeID(r))
	case 2:
		// appending a character keeps the position: no id of the universe lies between x and x+"0"
		to := victim + "0"
		if r.Chance(1, 3) && len(ids) == 1 {
			to = s.freeID(r) // a single slot: every rename preserves the order
		}

		return fmt.Sprintf("tamper kind=rename from=%s to=%s order=same", victim, to)
	}

	for {
		switch r.Intn(14) {
		case 12:
			return "tamper kind=striptag"
		case 13:
			return fmt.Sprintf("tamper kind=trunctag n=%d", Pick(r, []int{0, 1, 16, 31}))
		case 0:
			return "tamper kind=flipblob id=" + victim
		case 1:
			return "tamper kind=emptyblob id=" + victim
		case 2:
			return "tamper kind=fliptag"
		case 3:
			return "tamper kind=drop id=" + victim
		case 4:
			return fmt.Sprintf("tamper kind=addslot id=%s blob=junk", s.freeID(r))
		case 5:
			return fmt.Sprintf("tamper kind=addslot id=%s blob=copy:%s", s.freeID(r), victim)
		case 6:
			return fmt.Sprintf("tamper kind=addslot id=%s blob=enc:k%dp:%s", s.freeID(r), 1+r.Intn(ksPairs), Pick(r, []string{"m1", "m2"}))
		case 7, 8:
			// an order-changing rename needs a second slot to jump over
			if len(ids) < 2 {
				continue
			}

			from, to := ids[0], "zz"
			if r.Chance(1, 2) {
				from, to = ids[len(ids)-1], "0"
			}

			if ksKeepsOrder(ids, from, to) {
				continue
			}

			return fmt.Sprintf("tamper kind=rename from=%s to=%s order=changed", from, to)
		case 9:
			return "tamper kind=alg id=" + victim
		case 10:
			return fmt.Sprintf("tamper kind=version v=%d", Pick(r, []int{0, 2}))
		}
	}
}

func (e *ksEngine) genTamper(r *Rand, thorough bool, idx, d6 int) Case {
	c := Case{Header: fmt.Sprintf("# engine=keystorage stream=tamper case=%d", idx)}
	s := &ksShadow{live: map[string]int{}}
	mk := Pick(r, []string{"m1", "m2"})

	first, k := Pick(r, ksIDs), 1+r.Intn(ksPairs)
	c.Ops = append(c.Ops, fmt.Sprintf("init mk=%s id=%s pub=k%dp", mk, first, k))
	s.init, s.live[first] = true, k

	for i, n := 0, r.Intn(4); i < n; i++ {
		nid, nk := Pick(r, ksIDs), 1+r.Intn(ksPairs)
		if _, ok := s.live[nid]; ok {
			continue
		}

		old := Pick(r, s.ids())
		c.Ops = append(c.Ops, fmt.Sprintf("add new=%s pub=k%dp old=%s priv=k%ds", nid, nk, old, s.live[old]))
		s.live[nid] = nk
	}

	if len(s.live) >= 2 && r.Chance(1, 4) {
		id := Pick(r, s.ids())
		c.Ops = append(c.Ops, fmt.Sprintf("delete id=%s priv=k%ds", id, s.live[id]))
		delete(s.live, id)
	}

	if r.Chance(1, 3) {
		c.Ops = append(c.Ops, "reload")
	}

	c.Ops = append(c.Ops, "dump")

	tl := s.genTamperLine(r, d6)
	_, ta := ParseLine(tl)
	c.Ops = append(c.Ops, tl, "dump")

	// retrievals through every slot with its valid key (and the injected / renamed one)
	probe := map[string]int{}
	for id, k := range s.live {
		probe[id] = k
	}

	if ta["kind"] == "addslot" {
		probe[ta["id"]] = 1 + r.Intn(ksPairs)

		if src, ok := strings.CutPrefix(ta["blob"], "copy:"); ok {
			probe[ta["id"]] = s.live[src]
		}

		if rest, ok := strings.CutPrefix(ta["blob"], "enc:"); ok {
			var n int

			fmt.Sscanf(rest, "k%dp", &n)
			probe[ta["id"]] = n
		}
	}

	if ta["kind"] == "rename" {
		probe[ta["to"]] = s.live[ta["from"]]
	}

	ids := make([]string, 0, len(probe))
	for id := range probe {
		ids = append(ids, id)
	}

	sort.Strings(ids)

	for _, id := range ids {
		c.Ops = append(c.Ops, fmt.Sprintf("get id=%s priv=k%ds", id, probe[id]))
	}

	c.Ops = append(c.Ops, s.genGet(r))

	// what the storage lets the caller do afterwards
	for i, n := 0, r.Intn(4); i < n; i++ {
		switch r.Intn(4) {
		case 0:
			id := Pick(r, s.ids())
			c.Ops = append(c.Ops, fmt.Sprintf("delete id=%s priv=k%ds", id, s.live[id]))
		case 1:
			old := Pick(r, s.ids())
			c.Ops = append(c.Ops, fmt.Sprintf("add new=%s pub=k%dp old=%s priv=k%ds", s.freeID(r), 1+r.Intn(ksPairs), old, s.live[old]))
		case 2:
			c.Ops = append(c.Ops, "reload")
		default:
			id := Pick(r, s.ids())
			c.Ops = append(c.Ops, fmt.Sprintf("get id=%s priv=k%ds", id, s.live[id]))
		}
	}

	c.Ops = append(c.Ops, "dump")

	return c
}

// Gen: even indices are API sequences, odd ones tamperings. The tamperings the code is
// known not to detect (D6: empty-blob slot injection, order-preserving rename) are
// generated only in the LAST tenth of the cases, alternating, so that any other
// undetected tampering is reported first (the framework reports the first three
// divergent cases in full).
func (e *ksEngine) Gen(r *Rand, thorough bool, idx int) Case {
	n := e.Cases(thorough)

	if idx >= n-n/10 {
		return e.genTamper(r, thorough, idx, 1+idx%2)
	}

	if idx%2 == 0 {
		return e.genOps(r, thorough, idx)
	}

	return e.genTamper(r, thorough, idx, 0)
}
