// Package harness is the correspondence harness: it drives the real
// cosi-project/runtime code in-process (through the `replace => /repo` directive, so
// always the current working tree), feeds the same operation lines to the Lean model
// driver and diffs the canonicalised outputs. It is built as a test binary
// (`go test -c -tags verif`) because testing/synctest needs a *testing.T.
package harness

import (
	"bufio"
	"bytes"
	"crypto/sha256"
	"encoding/hex"
	"encoding/json"
	"fmt"
	"os"
	"os/exec"
	"sort"
	"strconv"
	"strings"
	"testing"
	"time"
)

// Rand is splitmix64: every random choice of a run derives from VERIF_SEED.
type Rand struct{ s uint64 }

func NewRand(seed uint64) *Rand {
	// scramble the seed first: consecutive seeds must not give shifted copies of one stream
	z := (seed + 0x632BE59BD9B4E019) * 0xD6E8FEB86659FD93
	z = (z ^ (z >> 32)) * 0xD6E8FEB86659FD93
	z = (z ^ (z >> 32)) * 0xD6E8FEB86659FD93

	return &Rand{s: z ^ (z >> 32)}
}

func (r *Rand) Next() uint64 {
	r.s += 0x9E3779B97F4A7C15
	z := r.s
	z = (z ^ (z >> 30)) * 0xBF58476D1CE4E5B9
	z = (z ^ (z >> 27)) * 0x94D049BB133111EB

	return z ^ (z >> 31)
}

func (r *Rand) Intn(n int) int {
	if n <= 0 {
		return 0
	}

	return int(r.Next() % uint64(n))
}

func (r *Rand) Chance(num, den int) bool { return r.Intn(den) < num }

func Pick[T any](r *Rand, xs []T) T { return xs[r.Intn(len(xs))] }

// Case is one generated operation sequence. Header is the `# key=value ...` line
// that (re)initialises both sides; Ops are self-contained op lines.
type Case struct {
	Header string
	Ops    []string
	// Scenario is set by Tracer engines: the generated scenario this trace was recorded from.
	Scenario *Case
}

func (c Case) Hash() string {
	h := sha256.Sum256([]byte(c.Header + "\n" + strings.Join(c.Ops, "\n")))

	return hex.EncodeToString(h[:8])
}

// Engine is one correspondence engine.
type Engine interface {
	Name() string
	// Gen produces case number idx.
	Gen(r *Rand, thorough bool, idx int) Case
	// Exec runs the real implementation on the case: exactly one output line per op.
	Exec(t *testing.T, c Case) []string
	// Cases is the number of generated cases per tier.
	Cases(thorough bool) int
	// NonTrivial says whether an executed case counts as non-trivial, by the rule in Rule().
	NonTrivial(c Case, out []string) bool
	Rule() string
}

// Tracer is implemented by trace-validation engines: the generated case is a SCENARIO that
// is run on the real system; what is compared with the driver is the totally ordered log
// the run recorded (the derived case: one op line per logged action, the implementation's
// recorded result as output line). The driver replays the log on the model and evaluates the
// property's monitors on every prefix.
type Tracer interface {
	Trace(t *testing.T, scenario Case) (Case, []string)
}

// Corpus is implemented by engines that ship fixed cases (minimised past failures,
// enumerations) which always run first.
type Corpus interface {
	Corpus(thorough bool) []Case
}

// Divergence is a case on which implementation and driver output differ.
type Divergence struct {
	Against  string   `json:"against"` // "model" or "spec"
	Header   string   `json:"header"`
	Ops      []string `json:"ops"`
	Impl     []string `json:"impl_out"`
	Driver   []string `json:"driver_out"`
	First    int      `json:"first_divergence"`
	Shrunk   bool     `json:"shrunk"`
	CaseHash string   `json:"case_hash"`
	// trace-validation engines: the scenario the trace was recorded from (replayable)
	ScenarioHeader string   `json:"scenario_header,omitempty"`
	Scenario       []string `json:"scenario,omitempty"`
}

// Result is what an engine run reports to bin/check.
type Result struct {
	Engine           string         `json:"engine"`
	Seed             uint64         `json:"seed"`
	Tier             string         `json:"tier"`
	Cases            int            `json:"cases"`
	Ops              int            `json:"ops"`
	DistinctNonTriv  int            `json:"distinct_nontrivial"`
	Rule             string         `json:"rule"`
	OpHist           map[string]int `json:"op_hist"`
	OutHist          map[string]int `json:"out_hist"`
	Samples          []Divergence   `json:"samples"`
	ModelDivergences []Divergence   `json:"model_divergences"`
	SpecViolations   []Divergence   `json:"spec_violations"`
	Notes            []string       `json:"notes,omitempty"`
	ExcludedPoints   []string       `json:"excluded_points,omitempty"`
	WallS            float64        `json:"wall_s"`
	Extra            map[string]any `json:"extra,omitempty"`
}

var driverPath = "/verif/lean/.lake/build/bin/driver"

// runDriver feeds cases to `driver <engine> [spec]` and returns per-case output lines.
func runDriver(engine string, spec bool, cases []Case) ([][]string, error) {
	var in bytes.Buffer

	for _, c := range cases {
		in.WriteString(c.Header)
		in.WriteByte('\n')

		for _, op := range c.Ops {
			in.WriteString(op)
			in.WriteByte('\n')
		}
	}

	args := []string{engine}
	if spec {
		args = append(args, "spec")
	}

	cmd := exec.Command(driverPath, args...)
	cmd.Stdin = &in

	var out bytes.Buffer

	cmd.Stdout = &out
	cmd.Stderr = os.Stderr

	if err := cmd.Run(); err != nil {
		return nil, fmt.Errorf("driver %v: %w", args, err)
	}

	res := make([][]string, 0, len(cases))
	sc := bufio.NewScanner(&out)
	sc.Buffer(make([]byte, 1<<20), 1<<28)

	for _, c := range cases {
		if !sc.Scan() {
			return nil, fmt.Errorf("driver output truncated (header)")
		}

		lines := make([]string, 0, len(c.Ops))

		for range c.Ops {
			if !sc.Scan() {
				return nil, fmt.Errorf("driver output truncated")
			}

			lines = append(lines, sc.Text())
		}

		res = append(res, lines)
	}

	return res, nil
}

// lineEq compares an implementation line with a driver line; in a driver line the
// token `*` (whole value after `=` or a whole token) matches anything.
func lineEq(impl, drv string) bool {
	if impl == drv {
		return true
	}

	if !strings.Contains(drv, "*") {
		return false
	}

	a, b := strings.Fields(impl), strings.Fields(drv)
	if len(a) != len(b) {
		return false
	}

	for i := range a {
		if a[i] == b[i] || b[i] == "*" {
			continue
		}

		if k, v, ok := strings.Cut(b[i], "="); ok && v == "*" && strings.HasPrefix(a[i], k+"=") {
			continue
		}

		return false
	}

	return true
}

func firstDiff(impl, drv []string) int {
	for i := range impl {
		if i >= len(drv) || !lineEq(impl[i], drv[i]) {
			return i
		}
	}

	if len(drv) != len(impl) {
		return len(impl)
	}

	return -1
}

// shrink delta-debugs the op list: drop chunks while the two sides still differ.
func shrink(t *testing.T, e Engine, spec bool, c Case) (Case, []string, []string, int) {
	differs := func(c Case) (bool, []string, []string, int) {
		impl := safeExec(t, e, c)

		drv, err := runDriver(e.Name(), spec, []Case{c})
		if err != nil {
			return false, nil, nil, -1
		}

		d := firstDiff(impl, drv[0])

		return d >= 0, impl, drv[0], d
	}

	ok, impl, drv, d := differs(c)
	if !ok {
		return c, impl, drv, d
	}

	// cut everything after the first divergence first
	if d+1 < len(c.Ops) {
		c2 := Case{Header: c.Header, Ops: append([]string{}, c.Ops[:d+1]...)}
		if ok2, i2, d2, f2 := differs(c2); ok2 {
			c, impl, drv, d = c2, i2, d2, f2
		}
	}

	deadline := time.Now().Add(30 * time.Second)

	for chunk := max(len(c.Ops)/2, 1); chunk >= 1 && time.Now().Before(deadline); chunk /= 2 {
		for start := 0; start+chunk <= len(c.Ops) && len(c.Ops) > 1 && time.Now().Before(deadline); {
			ops := append(append([]string{}, c.Ops[:start]...), c.Ops[start+chunk:]...)
			c2 := Case{Header: c.Header, Ops: ops}

			if ok2, i2, d2, f2 := differs(c2); ok2 {
				c, impl, drv, d = c2, i2, d2, f2
			} else {
				start += chunk
			}
		}
	}

	return c, impl, drv, d
}

// safeExec runs Exec and turns a panic of the harness goroutine into a PANIC line
// (engines recover panics of the code under test themselves, per op).
func safeExec(t *testing.T, e Engine, c Case) (out []string) {
	defer func() {
		if r := recover(); r != nil {
			out = append(out, fmt.Sprintf("PANIC harness: %v", r))
		}
	}()

	return e.Exec(t, c)
}

func opName(line string) string {
	f := strings.Fields(line)
	if len(f) == 0 {
		return ""
	}

	return f[0]
}

func outKind(line string) string {
	f := strings.Fields(line)
	if len(f) == 0 {
		return ""
	}

	if f[0] == "err" && len(f) > 1 {
		return f[0] + " " + f[1]
	}

	if i := strings.IndexAny(f[0], "[=:"); i > 0 {
		return f[0][:i] // structured line: keep only its leading tag
	}

	if f[0] == "ev" && len(f) > 1 {
		t, _, _ := strings.Cut(f[1], "~")

		return f[0] + " " + t
	}

	return f[0]
}

// RunEngine generates, executes, compares (against model and spec), shrinks, reports.
func RunEngine(t *testing.T, e Engine, seed uint64, thorough bool, resultPath string, replay *Case) Result {
	start := time.Now()
	rng := NewRand(seed)

	res := Result{
		Engine: e.Name(), Seed: seed, Tier: map[bool]string{false: "quick", true: "thorough"}[thorough],
		Rule: e.Rule(), OpHist: map[string]int{}, OutHist: map[string]int{}, Extra: map[string]any{},
	}

	var cases []Case

	if replay != nil {
		cases = []Case{*replay}
	} else {
		if c, ok := e.(Corpus); ok {
			cases = append(cases, c.Corpus(thorough)...)
		}

		n := e.Cases(thorough)
		for i := 0; i < n; i++ {
			cases = append(cases, e.Gen(rng, thorough, i))
		}
	}

	impl := make([][]string, len(cases))
	seen := map[string]bool{}

	// VERIF_SKIP_CASES: indices of cases on which an earlier run of this engine died (reported separately by the
	// caller); they are generated (the random stream stays the same) but not executed, so the rest is still explored
	skip := map[int]bool{}

	for _, f := range strings.Split(os.Getenv("VERIF_SKIP_CASES"), ",") {
		if n, err := strconv.Atoi(strings.TrimSpace(f)); err == nil && replay == nil {
			skip[n] = true
		}
	}

	tracer, isTracer := e.(Tracer)

	for i, c := range cases {
		if skip[i] {
			cases[i].Ops, impl[i] = nil, nil

			continue
		}

		// a panic in a goroutine of the code under test kills the process: leave the case being executed behind,
		// so that the caller can report (and shrink) the input that crashes the implementation
		if resultPath != "" {
			cur := map[string]any{"header": c.Header, "ops": c.Ops, "index": i}
			if isTracer {
				cur = map[string]any{"header": c.Header, "ops": c.Ops, "scenario_header": c.Header, "scenario": c.Ops, "index": i}
			}

			if b, err := json.Marshal(cur); err == nil {
				_ = os.WriteFile(resultPath+".current", b, 0o644)
			}
		}

		if isTracer {
			sc := c
			cases[i], impl[i] = tracer.Trace(t, sc)
			cases[i].Scenario = &sc
			c = cases[i]
		} else {
			impl[i] = safeExec(t, e, c)
		}

		res.Ops += len(c.Ops)

		for _, op := range c.Ops {
			res.OpHist[opName(op)]++
		}

		for _, o := range impl[i] {
			res.OutHist[outKind(o)]++
		}

		h := c.Hash()
		if !seen[h] && e.NonTrivial(c, impl[i]) {
			res.DistinctNonTriv++
		}

		seen[h] = true
	}

	res.Cases = len(cases) - len(skip)

	if len(skip) > 0 {
		res.Extra["skipped_cases_crashed_earlier"] = len(skip)
	}

	for _, spec := range []bool{false, true} {
		drv, err := runDriver(e.Name(), spec, cases)
		if err != nil {
			res.Notes = append(res.Notes, "driver failed: "+err.Error())
			res.ModelDivergences = append(res.ModelDivergences, Divergence{Against: "driver-failure", First: -1})

			break
		}

		found := 0

		for i, c := range cases {
			d := firstDiff(impl[i], drv[i])
			if d < 0 {
				continue
			}

			found++
			if found > 3 {
				continue // keep the report small; the count is in Extra
			}

			sc, si, sd, sf := c, impl[i], drv[i], d
			if !isTracer {
				sc, si, sd, sf = shrink(t, e, spec, c)
			}

			dv := Divergence{
				Against: map[bool]string{false: "model", true: "spec"}[spec],
				Header:  sc.Header, Ops: sc.Ops, Impl: si, Driver: sd, First: sf, Shrunk: len(sc.Ops) < len(c.Ops), CaseHash: c.Hash(),
			}

			if c.Scenario != nil {
				dv.ScenarioHeader, dv.Scenario = c.Scenario.Header, c.Scenario.Ops
				// keep the report readable: the log up to a little past the divergence
				cut := min(len(dv.Ops), sf+3)
				dv.Ops, dv.Impl, dv.Driver = dv.Ops[:cut], dv.Impl[:min(cut, len(dv.Impl))], dv.Driver[:min(cut, len(dv.Driver))]
			}

			if sf < 0 { // flaky: did not reproduce while shrinking; report the original
				dv.Ops, dv.Impl, dv.Driver, dv.First, dv.Shrunk = c.Ops, impl[i], drv[i], d, false
			}

			if spec {
				res.SpecViolations = append(res.SpecViolations, dv)
			} else {
				res.ModelDivergences = append(res.ModelDivergences, dv)
			}
		}

		res.Extra[map[bool]string{false: "model_divergent_cases", true: "spec_divergent_cases"}[spec]] = found
	}

	// samples: the first two non-trivial cases, written out
	for i, c := range cases {
		if len(res.Samples) >= 2 {
			break
		}

		if e.NonTrivial(c, impl[i]) {
			n := min(len(c.Ops), 12)
			res.Samples = append(res.Samples, Divergence{Header: c.Header, Ops: c.Ops[:n], Impl: impl[i][:min(n, len(impl[i]))], First: -1})
		}
	}

	if len(res.Samples) == 0 && len(cases) > 0 {
		n := min(len(cases[0].Ops), 12)
		res.Samples = append(res.Samples, Divergence{Header: cases[0].Header, Ops: cases[0].Ops[:n], Impl: impl[0][:min(n, len(impl[0]))], First: -1})
	}

	if x, ok := e.(interface{ ExcludedPoints() []string }); ok && replay == nil {
		res.ExcludedPoints = x.ExcludedPoints()
	}

	if x, ok := e.(interface{ Extra() map[string]any }); ok && replay == nil {
		for k, v := range x.Extra() {
			res.Extra[k] = v
		}
	}

	if x, ok := e.(interface{ Notes() []string }); ok {
		res.Notes = append(res.Notes, x.Notes()...)
	}

	res.WallS = time.Since(start).Seconds()

	if resultPath != "" {
		b, _ := json.MarshalIndent(res, "", " ")
		_ = os.WriteFile(resultPath, b, 0o644)
	}

	return res
}

func sortedKeys(m map[string]string) []string {
	ks := make([]string, 0, len(m))
	for k := range m {
		ks = append(ks, k)
	}

	sort.Strings(ks)

	return ks
}

// kv parsing of op lines (same grammar as Cosi.Base.parseLine)
type Args map[string]string

func ParseLine(line string) (string, Args) {
	f := strings.Fields(line)
	if len(f) == 0 {
		return "", Args{}
	}

	a := Args{}

	for _, t := range f[1:] {
		k, v, _ := strings.Cut(t, "=")
		a[k] = v
	}

	return f[0], a
}

func (a Args) List(k string) []string {
	if a[k] == "" {
		return nil
	}

	return strings.Split(a[k], ",")
}

func (a Args) Int(k string) int {
	var n int

	fmt.Sscanf(a[k], "%d", &n)

	return n
}
