package harness

import (
	"context"
	"errors"
	"fmt"
	"io"
	"net"
	"regexp"
	"sort"
	"strings"
	"sync"
	"sync/atomic"
	"testing"
	"testing/synctest"
	"time"

	"google.golang.org/grpc"
	"google.golang.org/grpc/codes"
	"google.golang.org/grpc/credentials/insecure"
	"google.golang.org/grpc/status"
	"google.golang.org/grpc/test/bufconn"
	"google.golang.org/protobuf/types/known/timestamppb"

	"github.com/cosi-project/runtime/api/v1alpha1"
	"github.com/cosi-project/runtime/pkg/resource"
	"github.com/cosi-project/runtime/pkg/resource/protobuf"
	"github.com/cosi-project/runtime/pkg/state"
	"github.com/cosi-project/runtime/pkg/state/impl/inmem"
	"github.com/cosi-project/runtime/pkg/state/impl/namespaced"
	"github.com/cosi-project/runtime/pkg/state/protobuf/client"
	"github.com/cosi-project/runtime/pkg/state/protobuf/server"
)

// engine grpc (property C11): the REAL client.Adapter and server.State connected by real
// grpc-go over bufconn inside a synctest bubble. The only harness code on the path is a
// recovery interceptor that turns a handler panic into an observable PANIC (grpc-go itself
// would let it kill the process) and counts the Teardown / TeardownAndDestroy RPCs.
//
//	mode=lock  the same op sequence is applied to a direct handle and to a remote handle over
//	           two identical namespaced inmem states; both results are printed per op and
//	           compared with Cosi.Model.Remote (model) / Cosi.Spec.Remote (spec)
//	mode=raw   wire-level requests through the RAW generated client (v1alpha1.StateClient):
//	           every nil-ness combination of request fields, value-less label terms for every
//	           operator, unknown operator numbers, bad phase / version strings, bad regexps,
//	           negative tails, garbage bookmarks, unknown resource types (Corpus: enumerated)
//	stall=1    (with initcap/maxcap/gap: a small history) both states sit behind a grpcStaller: every
//	           watch started by `wstart` passes a forwarder that `hold w=` stops and `release w=`
//	           lets go again — a stalled stream / slow consumer, identically on both sides, while
//	           writes go on: the inner watch falls behind the history and FAILS; the Errored event
//	           must come out of the remote watch exactly as out of the direct one
//	td=0/tad=0 the server is a stub that embeds UnimplementedStateServer for Teardown /
//	           TeardownAndDestroy: the client's sticky fallback runs
func init() { Register("grpc", func() Engine { return &grpcEng{} }) }

type grpcEng struct {
	stats map[string]int
}

func (e *grpcEng) count(k string, n int) {
	if e.stats == nil {
		e.stats = map[string]int{}
	}

	e.stats[k] += n
}

// Notes reports what the executed cases exercised (evidence only).
func (e *grpcEng) Notes() []string {
	ks := make([]string, 0, len(e.stats))
	for k := range e.stats {
		ks = append(ks, k)
	}

	sort.Strings(ks)

	parts := make([]string, 0, len(ks))
	for _, k := range ks {
		parts = append(parts, fmt.Sprintf("%s=%d", k, e.stats[k]))
	}

	return []string{"grpc exercised: " + strings.Join(parts, " ")}
}

func (*grpcEng) Name() string { return "grpc" }

func (*grpcEng) Cases(thorough bool) int {
	if thorough {
		return 1500
	}

	return 140
}

func (*grpcEng) Rule() string {
	return "lock-step cases: random store ops with all options (owners, expected phases, stale versions, finalizers), List with label queries (7 operators, inverted, 0-2 values) and ID regexps, watches (single/kind/aggregated, single ones also on the EMPTY resource ID; bootstrap, bootstrap bookmark, tail, resumed and garbage bookmarks, label selector), Teardown, TeardownAndDestroy blocked on finalizers that another actor removes, against the full server and against a stub without the Teardown RPCs (sticky fallback); raw cases (corpus): the enumerated malformed space. stall cases (1 in 5): history of 2..4 events, every watch behind a forwarder that is held and released while writes go on (a stalled stream on both sides alike): the inner watch overruns and its Errored must come out of the remote watch as out of the direct one; non-trivial = stall case with an Errored received, lock-step case with an error result, a received watch event and a helper call, or raw case with an error status; distinct by hash of the op lines"
}

func (*grpcEng) NonTrivial(c Case, out []string) bool {
	if strings.Contains(c.Header, "mode=raw") {
		for _, o := range out {
			if strings.Contains(o, "iserr=true") {
				return true
			}
		}

		return false
	}

	if strings.Contains(c.Header, "stall=1") {
		// a held watch that failed: an Errored event came out of the direct watch
		for i, o := range out {
			if opName(c.Ops[i]) == "recv" && strings.Contains(o, "errored") {
				return true
			}
		}

		return false
	}

	var errd, ev, helper bool

	for i, o := range out {
		op := opName(c.Ops[i])
		errd = errd || strings.Contains(o, "direct=err~")
		ev = ev || (op == "recv" && !strings.Contains(o, "direct=[]"))
		helper = helper || op == "teardown" || op == "tad"
	}

	return errd && ev && helper
}

// ---- the two handles ---------------------------------------------------------------

var grpcRegisterOnce sync.Once

type grpcStub struct {
	v1alpha1.UnimplementedStateServer // Teardown / TeardownAndDestroy: Unimplemented, unless forwarded

	inner   *server.State
	td, tad bool
}

func (s *grpcStub) Get(ctx context.Context, r *v1alpha1.GetRequest) (*v1alpha1.GetResponse, error) {
	return s.inner.Get(ctx, r)
}

func (s *grpcStub) List(r *v1alpha1.ListRequest, srv v1alpha1.State_ListServer) error {
	return s.inner.List(r, srv)
}

func (s *grpcStub) Create(ctx context.Context, r *v1alpha1.CreateRequest) (*v1alpha1.CreateResponse, error) {
	return s.inner.Create(ctx, r)
}

func (s *grpcStub) Update(ctx context.Context, r *v1alpha1.UpdateRequest) (*v1alpha1.UpdateResponse, error) {
	return s.inner.Update(ctx, r)
}

func (s *grpcStub) Destroy(ctx context.Context, r *v1alpha1.DestroyRequest) (*v1alpha1.DestroyResponse, error) {
	return s.inner.Destroy(ctx, r)
}

func (s *grpcStub) Watch(r *v1alpha1.WatchRequest, srv v1alpha1.State_WatchServer) error {
	return s.inner.Watch(r, srv)
}

func (s *grpcStub) Teardown(ctx context.Context, r *v1alpha1.TeardownRequest) (*v1alpha1.TeardownResponse, error) {
	if s.td {
		return s.inner.Teardown(ctx, r)
	}

	return s.UnimplementedStateServer.Teardown(ctx, r)
}

func (s *grpcStub) TeardownAndDestroy(ctx context.Context, r *v1alpha1.TeardownAndDestroyRequest) (*v1alpha1.TeardownAndDestroyResponse, error) {
	if s.tad {
		return s.inner.TeardownAndDestroy(ctx, r)
	}

	return s.UnimplementedStateServer.TeardownAndDestroy(ctx, r)
}

// grpcStaller is a CoreState whose watches — those started while `next` names a harness watch —
// deliver through ONE forwarder goroutine each that stops while the watch is held: it then holds
// the one event it has taken, the state's own watch goroutine blocks on the next one.
type grpcStaller struct {
	state.CoreState

	gates map[string]chan struct{} // watch -> open channel while held (closed / absent = not held)
	next  string
	mu    sync.Mutex
}

func (st *grpcStaller) hold(w string) {
	st.mu.Lock()
	defer st.mu.Unlock()

	if st.gates[w] == nil {
		st.gates[w] = make(chan struct{})
	}
}

func (st *grpcStaller) release(w string) {
	st.mu.Lock()
	defer st.mu.Unlock()

	if g := st.gates[w]; g != nil {
		close(g)
		delete(st.gates, w)
	}
}

func (st *grpcStaller) gate(w string) chan struct{} {
	st.mu.Lock()
	defer st.mu.Unlock()

	return st.gates[w]
}

func grpcStallForward[T any](ctx context.Context, st *grpcStaller, w string, in <-chan T, out chan<- T) {
	for {
		var ev T

		select {
		case <-ctx.Done():
			return
		case ev = <-in:
		}

		for g := st.gate(w); g != nil; g = st.gate(w) {
			select {
			case <-g:
			case <-ctx.Done():
				return
			}
		}

		select {
		case out <- ev:
		case <-ctx.Done():
			return
		}
	}
}

func (st *grpcStaller) tracked() string {
	st.mu.Lock()
	defer st.mu.Unlock()

	return st.next
}

func (st *grpcStaller) Watch(ctx context.Context, ptr resource.Pointer, ch chan<- state.Event, opts ...state.WatchOption) error {
	w := st.tracked()
	if w == "" {
		return st.CoreState.Watch(ctx, ptr, ch, opts...)
	}

	in := make(chan state.Event)
	if err := st.CoreState.Watch(ctx, ptr, in, opts...); err != nil {
		return err
	}

	go grpcStallForward(ctx, st, w, in, ch)

	return nil
}

func (st *grpcStaller) WatchKind(ctx context.Context, kind resource.Kind, ch chan<- state.Event, opts ...state.WatchKindOption) error {
	w := st.tracked()
	if w == "" {
		return st.CoreState.WatchKind(ctx, kind, ch, opts...)
	}

	in := make(chan state.Event)
	if err := st.CoreState.WatchKind(ctx, kind, in, opts...); err != nil {
		return err
	}

	go grpcStallForward(ctx, st, w, in, ch)

	return nil
}

func (st *grpcStaller) WatchKindAggregated(ctx context.Context, kind resource.Kind, ch chan<- []state.Event, opts ...state.WatchKindOption) error {
	w := st.tracked()
	if w == "" {
		return st.CoreState.WatchKindAggregated(ctx, kind, ch, opts...)
	}

	in := make(chan []state.Event)
	if err := st.CoreState.WatchKindAggregated(ctx, kind, in, opts...); err != nil {
		return err
	}

	go grpcStallForward(ctx, st, w, in, ch)

	return nil
}

type grpcSites struct {
	stallD   *grpcStaller
	stallR   *grpcStaller
	ctx      context.Context //nolint:containedctx
	coreD    state.CoreState // behind the direct handle
	coreR    state.CoreState // behind the server
	direct   state.State
	adapter  *client.Adapter
	remote   state.State
	raw      v1alpha1.StateClient
	panicked atomic.Bool
	tdRPCs   atomic.Int64
	tadRPCs  atomic.Int64
	stop     func()
}

// grpcRegisterTypes: so that the server and the client unmarshal T1/T2 into the harness' resource
// type; any other type stays a protobuf.Resource ("unknown resource type").
func grpcRegisterTypes() {
	grpcRegisterOnce.Do(func() {
		_ = protobuf.RegisterResource("T1", &TRes{})
		_ = protobuf.RegisterResource("T2", &TRes{})
	})
}

// grpcFront puts the REAL server.State and client.Adapter, connected by grpc-go over bufconn, in
// front of core; must be called inside the synctest bubble. stop closes connection and server.
func grpcFront(t *testing.T, core state.CoreState, opts ...client.AdapterOption) (state.CoreState, func()) {
	grpcRegisterTypes()

	srv := grpc.NewServer()
	v1alpha1.RegisterStateServer(srv, server.NewState(core))

	lis := bufconn.Listen(1 << 20)

	go srv.Serve(lis) //nolint:errcheck

	conn, err := grpc.NewClient("passthrough:///bufnet",
		grpc.WithContextDialer(func(ctx context.Context, _ string) (net.Conn, error) { return lis.DialContext(ctx) }),
		grpc.WithTransportCredentials(insecure.NewCredentials()))
	if err != nil {
		t.Fatal(err)
	}

	return client.NewAdapter(v1alpha1.NewStateClient(conn), opts...), func() {
		conn.Close() //nolint:errcheck
		srv.Stop()
	}
}

func newGrpcSites(t *testing.T, td, tad bool, h Args) *grpcSites {
	grpcRegisterTypes()

	ctx, cancel := context.WithCancel(context.Background())
	s := &grpcSites{ctx: ctx}
	s.coreD = namespaced.NewState(inmem.Build)
	s.coreR = namespaced.NewState(inmem.Build)

	if h["stall"] == "1" {
		build := func(ns resource.Namespace) state.CoreState {
			return inmem.NewStateWithOptions(
				inmem.WithHistoryInitialCapacity(h.Int("initcap")),
				inmem.WithHistoryMaxCapacity(h.Int("maxcap")),
				inmem.WithHistoryGap(h.Int("gap")),
			)(ns)
		}

		s.stallD = &grpcStaller{CoreState: namespaced.NewState(build), gates: map[string]chan struct{}{}}
		s.stallR = &grpcStaller{CoreState: namespaced.NewState(build), gates: map[string]chan struct{}{}}
		s.coreD, s.coreR = s.stallD, s.stallR
	}
	s.direct = state.WrapCore(s.coreD)

	count := func(method string) {
		switch method {
		case v1alpha1.State_Teardown_FullMethodName:
			s.tdRPCs.Add(1)
		case v1alpha1.State_TeardownAndDestroy_FullMethodName:
			s.tadRPCs.Add(1)
		}
	}

	srv := grpc.NewServer(
		grpc.ChainUnaryInterceptor(func(ctx context.Context, req any, info *grpc.UnaryServerInfo, h grpc.UnaryHandler) (resp any, err error) {
			count(info.FullMethod)

			defer func() {
				if r := recover(); r != nil {
					s.panicked.Store(true)

					resp, err = nil, fmt.Errorf("handler panic: %v", r)
				}
			}()

			return h(ctx, req)
		}),
		grpc.ChainStreamInterceptor(func(sv any, ss grpc.ServerStream, _ *grpc.StreamServerInfo, h grpc.StreamHandler) (err error) {
			defer func() {
				if r := recover(); r != nil {
					s.panicked.Store(true)

					err = fmt.Errorf("handler panic: %v", r)
				}
			}()

			return h(sv, ss)
		}))

	real := server.NewState(s.coreR)
	if td && tad {
		v1alpha1.RegisterStateServer(srv, real)
	} else {
		v1alpha1.RegisterStateServer(srv, &grpcStub{inner: real, td: td, tad: tad})
	}

	lis := bufconn.Listen(1 << 20)

	go srv.Serve(lis) //nolint:errcheck

	conn, err := grpc.NewClient("passthrough:///bufnet",
		grpc.WithContextDialer(func(ctx context.Context, _ string) (net.Conn, error) { return lis.DialContext(ctx) }),
		grpc.WithTransportCredentials(insecure.NewCredentials()))
	if err != nil {
		t.Fatal(err)
	}

	s.raw = v1alpha1.NewStateClient(conn)
	s.adapter = client.NewAdapter(s.raw, client.WithDisableWatchRetry())
	s.remote = state.WrapCore(s.adapter)
	s.stop = func() {
		cancel()
		conn.Close() //nolint:errcheck
		srv.Stop()
	}

	return s
}

// ---- canonical results -------------------------------------------------------------

func grpcErr(err error) string { return "err~" + ErrClass(err) }

func grpcListOpts(a Args) []state.ListOption {
	var opts []state.ListOption

	for _, q := range decQueries(a["q"]) {
		opts = append(opts, state.WithLabelQuery(resource.RawLabelQuery(q)))
	}

	if reHex, ok := a["re"]; ok {
		opts = append(opts, state.WithIDQuery(resource.IDRegexpMatch(regexp.MustCompile(unhx(reHex)))))
	}

	return opts
}

// grpcStoreOp runs one store op line on st and returns <R>.
func grpcStoreOp(ctx context.Context, st state.CoreState, op string, a Args) (out string) {
	defer func() {
		if r := recover(); r != nil {
			out = "PANIC"
		}
	}()

	ns, typ, id := a["ns"], a["typ"], a["id"]

	switch op {
	case "create":
		r := BuildRes(a)
		if err := st.Create(ctx, r, state.WithCreateOwner(a["as"])); err != nil {
			return grpcErr(err)
		}

		return "ok~" + ResStr(r)
	case "update":
		r := BuildRes(a)
		if err := st.Update(ctx, r, updateOpts(a)...); err != nil {
			return grpcErr(err)
		}

		return "ok~" + ResStr(r)
	case "destroy":
		if err := st.Destroy(ctx, resource.NewMetadata(ns, typ, id, resource.VersionUndefined), state.WithDestroyOwner(a["as"])); err != nil {
			return grpcErr(err)
		}

		return "ok"
	case "get":
		r, err := st.Get(ctx, resource.NewMetadata(ns, typ, id, resource.VersionUndefined))
		if err != nil {
			return grpcErr(err)
		}

		return "res~" + ResStr(r)
	case "list":
		l, err := st.List(ctx, resource.NewMetadata(ns, typ, "", resource.VersionUndefined), grpcListOpts(a)...)
		if err != nil {
			return grpcErr(err)
		}

		items := make([]string, 0, len(l.Items))
		for _, r := range l.Items {
			items = append(items, ResStr(r))
		}

		return "items~[" + strings.Join(items, ";") + "]"
	}

	return "bad-op"
}

// grpcEnvMod is another actor's read-modify-write through the given handle.
func grpcEnvMod(ctx context.Context, st state.CoreState, a Args) (out string) {
	defer func() {
		if r := recover(); r != nil {
			out = "PANIC"
		}
	}()

	cur, err := st.Get(ctx, resource.NewMetadata(a["ns"], a["typ"], a["id"], resource.VersionUndefined))
	if err != nil {
		return grpcErr(err)
	}

	if err = ApplyMut(a["mut"])(cur); err != nil {
		return "mutfail"
	}

	if err = st.Update(ctx, cur, state.WithUpdateOwner(cur.Metadata().Owner()), state.WithExpectedPhaseAny()); err != nil {
		return grpcErr(err)
	}

	return "ok~" + ResStr(cur)
}

type grpcCall struct {
	done chan string
	res  string
}

func (c *grpcCall) poll() string {
	if c == nil {
		return "none"
	}

	if c.res != "" {
		return c.res
	}

	select {
	case r := <-c.done:
		c.res = r

		return r
	default:
		return "blocked"
	}
}

// grpcHelper starts Teardown / TeardownAndDestroy on st in its own goroutine.
func grpcHelper(ctx context.Context, st state.State, fn string, a Args) *grpcCall {
	c := &grpcCall{done: make(chan string, 1)}
	ptr := resource.NewMetadata(a["ns"], a["typ"], a["id"], resource.VersionUndefined)

	go func() {
		c.done <- func() (out string) {
			defer func() {
				if r := recover(); r != nil {
					out = "PANIC"
				}
			}()

			if fn == "teardown" {
				ready, err := st.Teardown(ctx, ptr, state.WithTeardownOwner(a["as"]))
				if err != nil {
					return grpcErr(err)
				}

				return fmt.Sprintf("ready~%v", ready)
			}

			if err := st.TeardownAndDestroy(ctx, ptr, state.WithTeardownAndDestroyOwner(a["as"])); err != nil {
				return grpcErr(err)
			}

			return "ok"
		}()
	}()

	return c
}

// grpcEvStr is EvStr, except that a resource with an undefined version — only the image of a
// tombstone has one — is printed without its timestamps: a tombstone is stamped with the wall
// clock of the watch start (resource.NewMetadata), which ResStr never prints for the direct side.
func grpcEvStr(e state.Event) string {
	if e.Resource != nil && !resource.IsTombstone(e.Resource) && e.Resource.Metadata().Version().String() == "undefined" &&
		(e.Type == state.Created || e.Type == state.Updated || e.Type == state.Destroyed) {
		cp := e.Resource.DeepCopy()
		cp.Metadata().SetCreated(time.Time{})
		cp.Metadata().SetUpdated(time.Time{})
		e.Resource = cp
	}

	return EvStr(e)
}

// drain receives everything a watch can deliver now, flattened.
func (lw *liveWatch) drain() string {
	var parts []string

	for {
		synctest.Wait()

		got := false

		if lw.agg != nil {
			select {
			case evs := <-lw.agg:
				got = true

				for _, e := range evs {
					parts = append(parts, grpcEvStr(e))
				}
			default:
			}
		} else {
			select {
			case e := <-lw.single:
				got = true

				parts = append(parts, grpcEvStr(e))
			default:
			}
		}

		if !got {
			break
		}
	}

	return "[" + strings.Join(parts, ";") + "]"
}

// ---- raw requests --------------------------------------------------------------------

func grpcWireRes(a Args) *v1alpha1.Resource {
	if a["res"] == "nil" {
		return nil
	}

	md := &v1alpha1.Metadata{
		Namespace: a["ns"], Type: a["typ"], Id: a["id"], Version: a["ver"], Owner: a["owner"], Phase: a["phase"],
		Created: timestamppb.New(fromTick(a.Int("c"))), Updated: timestamppb.New(fromTick(a.Int("u"))),
		Finalizers: a.List("fins"),
	}

	if md.Version == "" {
		md.Version = "undefined"
	}

	if md.Phase == "" {
		md.Phase = "running"
	}

	for _, kv := range a.List("labels") {
		k, v, _ := strings.Cut(kv, ":")

		if md.Labels == nil {
			md.Labels = map[string]string{}
		}

		md.Labels[k] = v
	}

	res := &v1alpha1.Resource{Metadata: md, Spec: &v1alpha1.Spec{ProtoSpec: []byte(a["spec"]), YamlSpec: a["spec"]}}

	switch a["res"] {
	case "nomd":
		res.Metadata = nil
	case "nospec":
		res.Spec = nil
	case "badver":
		md.Version = "v1x"
	case "badphase":
		md.Phase = "bogus"
	}

	return res
}

func grpcWireQueries(s string) []*v1alpha1.LabelQuery {
	if s == "" {
		return nil
	}

	var out []*v1alpha1.LabelQuery

	for _, qt := range strings.Split(s, "|") {
		q := &v1alpha1.LabelQuery{}

		if qt != "-" {
			for _, tt := range strings.Split(qt, "+") {
				f := strings.Split(tt, ".")
				if len(f) != 4 {
					panic("bad wire term " + tt)
				}

				var n int

				fmt.Sscanf(f[1], "%d", &n)

				term := &v1alpha1.LabelTerm{Key: unhx(f[0]), Op: v1alpha1.LabelTerm_Operation(n), Invert: f[2] == "1"}

				if f[3] != "" {
					for _, v := range strings.Split(f[3], "_") {
						term.Value = append(term.Value, unhx(strings.TrimPrefix(v, "x")))
					}
				}

				q.Terms = append(q.Terms, term)
			}
		}

		out = append(out, q)
	}

	return out
}

func grpcWireIDQuery(s string) *v1alpha1.IDQuery {
	if s == "nil" || s == "" {
		return nil
	}

	src, _, _ := strings.Cut(s, ":")

	return &v1alpha1.IDQuery{Regexp: unhx(src)}
}

func grpcStatus(err error) (bool, string) {
	if err == nil || errors.Is(err, io.EOF) {
		return false, "OK"
	}

	c := status.Code(err)
	if c == codes.DeadlineExceeded {
		return false, "PENDING"
	}

	return true, c.String()
}

// rawOp sends one wire-level request through the generated client.
func (s *grpcSites) rawOp(ck []byte, a Args) string {
	ctx, cancel := context.WithTimeout(s.ctx, 5*time.Second)
	defer cancel()

	s.panicked.Store(false)

	var err error

	ns, typ, id := a["ns"], a["typ"], a["id"]
	hasOpts := a["opts"] != "0"

	switch a["rpc"] {
	case "get":
		req := &v1alpha1.GetRequest{Namespace: ns, Type: typ, Id: id}
		if hasOpts {
			req.Options = &v1alpha1.GetOptions{}
		}

		_, err = s.raw.Get(ctx, req)
	case "list":
		req := &v1alpha1.ListRequest{Namespace: ns, Type: typ}
		if hasOpts {
			req.Options = &v1alpha1.ListOptions{LabelQuery: grpcWireQueries(a["lq"]), IdQuery: grpcWireIDQuery(a["idq"])}
		}

		var cli v1alpha1.State_ListClient

		cli, err = s.raw.List(ctx, req)
		for err == nil {
			_, err = cli.Recv()
		}
	case "create":
		req := &v1alpha1.CreateRequest{Resource: grpcWireRes(a)}
		if hasOpts {
			req.Options = &v1alpha1.CreateOptions{Owner: a["as"]}
		}

		_, err = s.raw.Create(ctx, req)
	case "update":
		req := &v1alpha1.UpdateRequest{NewResource: grpcWireRes(a)}
		if hasOpts {
			req.Options = &v1alpha1.UpdateOptions{Owner: a["as"]}

			if a["exp"] != "none" {
				exp := a["exp"]
				req.Options.ExpectedPhase = &exp
			}
		}

		_, err = s.raw.Update(ctx, req)
	case "destroy":
		req := &v1alpha1.DestroyRequest{Namespace: ns, Type: typ, Id: id}
		if hasOpts {
			req.Options = &v1alpha1.DestroyOptions{Owner: a["as"]}
		}

		_, err = s.raw.Destroy(ctx, req)
	case "teardown":
		req := &v1alpha1.TeardownRequest{Namespace: ns, Type: typ, Id: id}
		if hasOpts {
			req.Options = &v1alpha1.TeardownOptions{Owner: a["as"]}
		}

		_, err = s.raw.Teardown(ctx, req)
	case "tad":
		req := &v1alpha1.TeardownAndDestroyRequest{Namespace: ns, Type: typ, Id: id}
		if hasOpts {
			req.Options = &v1alpha1.TeardownAndDestroyOptions{Owner: a["as"]}
		}

		_, err = s.raw.TeardownAndDestroy(ctx, req)
	case "watch":
		req := &v1alpha1.WatchRequest{Namespace: ns, Type: typ, ApiVersion: int32(a.Int("api"))}
		if a["wid"] != "nil" {
			wid := a["wid"]
			req.Id = &wid
		}

		if hasOpts {
			req.Options = &v1alpha1.WatchOptions{
				BootstrapContents: a["boot"] == "1", BootstrapBookmark: a["bb"] == "1", Aggregated: a["agg"] == "1",
				TailEvents: int32(a.Int("tail")), LabelQuery: grpcWireQueries(a["lq"]), IdQuery: grpcWireIDQuery(a["idq"]),
			}

			if _, ok := a["bm"]; ok {
				req.Options.StartFromBookmark = MakeBookmark(ck, a)
			}
		}

		var cli v1alpha1.State_WatchClient

		cli, err = s.raw.Watch(ctx, req)
		if err == nil {
			_, err = cli.Recv() // the empty "watch is ready" response, or the error status
		}

		cancel()
	default:
		return "bad-op"
	}

	synctest.Wait()

	isErr, st := grpcStatus(err)
	if s.panicked.Load() {
		return "raw crash=true iserr=true st=PANIC"
	}

	return fmt.Sprintf("raw crash=false iserr=%v st=%s", isErr, st)
}

// ---- execution -------------------------------------------------------------------------

func (e *grpcEng) Exec(t *testing.T, c Case) []string {
	_, h := ParseLine(strings.TrimPrefix(c.Header, "#"))
	out := make([]string, 0, len(c.Ops))
	ck := cookie(t)

	synctest.Test(t, func(t *testing.T) {
		s := newGrpcSites(t, h["td"] != "0", h["tad"] != "0", h)
		defer func() {
			s.stop()
			synctest.Wait()
		}()

		type pair struct{ d, r *liveWatch }

		watches := map[string]*pair{}
		callsD, callsR := map[string]*grpcCall{}, map[string]*grpcCall{}

		// remote runs f with the panic flag armed: a server handler panic shows as PANIC
		remote := func(f func() string) string {
			s.panicked.Store(false)

			res := f()

			synctest.Wait()

			if s.panicked.Load() {
				return "PANIC"
			}

			return res
		}

		for _, line := range c.Ops {
			op, a := ParseLine(line)
			if d := fromTick(a.Int("t")).Sub(time.Now()); d > 0 {
				time.Sleep(d)
			}

			res := func() (res string) {
				defer func() {
					if r := recover(); r != nil {
						res = fmt.Sprintf("PANIC harness-side: %v", r)
					}
				}()

				switch op {
				case "raw":
					return s.rawOp(ck, a)
				case "create", "update", "destroy", "get", "list":
					d := grpcStoreOp(s.ctx, s.coreD, op, a)
					r := remote(func() string { return grpcStoreOp(s.ctx, s.adapter, op, a) })

					return fmt.Sprintf("direct=%s remote=%s", d, r)
				case "envmod":
					d := grpcEnvMod(s.ctx, s.coreD, a)
					r := remote(func() string { return grpcEnvMod(s.ctx, s.adapter, a) })

					return fmt.Sprintf("direct=%s remote=%s", d, r)
				case "hold", "release":
					for _, st := range []*grpcStaller{s.stallD, s.stallR} {
						if st == nil {
							continue
						}

						if op == "hold" {
							st.hold(a["w"])
						} else {
							st.release(a["w"])
						}
					}

					return "direct=ok remote=ok"
				case "wstart":
					p := &pair{}
					ds, rs := "ok", "ok"

					var err error

					for _, st := range []*grpcStaller{s.stallD, s.stallR} {
						if st != nil {
							st.mu.Lock()
							st.next = a["w"]
							st.mu.Unlock()

							defer func() {
								st.mu.Lock()
								st.next = ""
								st.mu.Unlock()
							}()
						}
					}

					da := a

					if s.stallD != nil {
						// nothing but a HELD forwarder may make a watch lag: the direct subscriber's channel is
						// as deep as the gRPC pipeline of the remote one (any subset of the ops is then a fair case)
						da = Args{}
						for k, v := range a {
							da[k] = v
						}

						da["buf"] = "8192"
					}

					if p.d, err = startWatch(s.ctx, s.coreD, ck, da); err != nil {
						ds = "err~" + strings.TrimPrefix(watchStartErr(err), "err class=")
					}

					rs = remote(func() string {
						if p.r, err = startWatch(s.ctx, s.adapter, ck, a); err != nil {
							return "err~" + strings.TrimPrefix(watchStartErr(err), "err class=")
						}

						return "ok"
					})
					watches[a["w"]] = p

					return fmt.Sprintf("direct=%s remote=%s", ds, rs)
				case "recv":
					p := watches[a["w"]]
					ds, rs := "[]", "[]"

					if p != nil && p.d != nil {
						ds = p.d.drain()
					}

					if p != nil && p.r != nil {
						rs = p.r.drain()
					}

					return fmt.Sprintf("direct=%s remote=%s", ds, rs)
				case "wstop":
					if p := watches[a["w"]]; p != nil {
						if p.d != nil {
							p.d.cancel()
						}

						if p.r != nil {
							p.r.cancel()
						}

						delete(watches, a["w"])
					}

					return "direct=ok remote=ok"
				case "teardown", "tad":
					callsD[a["a"]] = grpcHelper(s.ctx, s.direct, op, a)
					synctest.Wait()

					d := callsD[a["a"]].poll()
					r := remote(func() string {
						callsR[a["a"]] = grpcHelper(s.ctx, s.remote, op, a)
						synctest.Wait()

						return callsR[a["a"]].poll()
					})

					if op == "teardown" {
						return fmt.Sprintf("direct=%s remote=%s tdrpc=%d", d, r, s.tdRPCs.Load())
					}

					return fmt.Sprintf("direct=%s remote=%s tadrpc=%d", d, r, s.tadRPCs.Load())
				case "join":
					synctest.Wait()

					return fmt.Sprintf("direct=%s remote=%s", callsD[a["a"]].poll(), callsR[a["a"]].poll())
				}

				return "bad-op"
			}()

			synctest.Wait()

			out = append(out, res)
		}
	})


	if h["stall"] == "1" {
		e.count("stall_cases", 1)
	}

	for k, o := range out {
		op, a := ParseLine(c.Ops[k])

		switch {
		case op == "recv" && strings.Count(o, "errored") >= 2:
			e.count("watch_failures_seen_on_both_sides", 1)
		case op == "wstart" && a["kind"] == "single" && a["id"] == "" && o == "direct=ok remote=ok":
			e.count("single_watches_on_the_empty_id", 1)
		}
	}

	return out
}

// ---- generators --------------------------------------------------------------------------

var (
	// the ID universe of every operation and watch target; the EMPTY string is a legal resource ID
	// (an `optional string id` on the wire: present-and-empty must not be taken for absent)
	grpcIDs    = []string{"a", "b", "c", ""}
	grpcRegexp = []string{"^a", "b$", "a|c", ".", "^$", "[^a]", "", "^[a-c]$"}
	grpcOps    = []resource.LabelOp{
		resource.LabelOpExists, resource.LabelOpEqual, resource.LabelOpIn, resource.LabelOpLT,
		resource.LabelOpLTE, resource.LabelOpLTNumeric, resource.LabelOpLTENumeric,
	}
)

func grpcIDBits(re string) string {
	rx := regexp.MustCompile(re)
	parts := make([]string, 0, 4)

	for _, id := range append(append([]string{}, uID...), "") {
		b := "0"
		if rx.MatchString(id) {
			b = "1"
		}

		parts = append(parts, id+":"+b)
	}

	return strings.Join(parts, ",")
}

// grpcQueries: 0-2 label queries of 0-2 terms over the label universe of uLabels; every
// value-taking term carries a value (value-less terms belong to the raw stream)
func grpcQueries(r *Rand) string {
	var qs resource.LabelQueries

	for n := r.Intn(3); n > 0; n-- {
		var q resource.LabelQuery

		m := 1 + r.Intn(2)
		if r.Chance(1, 6) {
			m = 0 // a query without terms matches everything: as one of several alternatives it makes the whole selector match
		}

		for ; m > 0; m-- {
			t := resource.LabelTerm{Key: Pick(r, []string{"k1", "k2", "k3", "k4", "zz"}), Op: Pick(r, grpcOps), Invert: r.Chance(1, 4)}

			nv := 1 + r.Intn(2)
			if t.Op == resource.LabelOpExists {
				nv = 0
			} else if t.Op == resource.LabelOpIn {
				nv = r.Intn(3)
			}

			for ; nv > 0; nv-- {
				t.Value = append(t.Value, Pick(r, []string{"v1", "5", "", "x", "10", "4ki"}))
			}

			q.Terms = append(q.Terms, t)
		}

		qs = append(qs, q)
	}

	return encQueries(qs)
}

// genStall: watches over a SMALL history with stalled deliveries. A watch that is not held never
// lags (the direct subscriber's channel is made as deep as the gRPC pipeline); a held watch lags on
// both sides alike, overruns the history when enough is written meanwhile, and fails once released.
func (e *grpcEng) genStall(r *Rand, thorough bool, idx int) Case {
	hcap := 2 + r.Intn(3)
	c := Case{Header: fmt.Sprintf("# engine=grpc mode=lock td=1 tad=1 stall=1 initcap=%d maxcap=%d gap=0 case=%d", hcap, hcap, idx)}
	t := 0

	type sw struct {
		w    int
		held bool
	}

	var live []*sw

	nextW := 1
	ids := []string{"a", "b", ""}
	exists := map[string]bool{}

	drain := func() {
		for _, l := range live {
			if !l.held {
				c.Ops = append(c.Ops, fmt.Sprintf("recv t=%d w=%d", t, l.w))
			}
		}
	}

	write := func() {
		id := Pick(r, ids)

		switch {
		case !exists[id]:
			c.Ops = append(c.Ops, fmt.Sprintf("create t=%d ns=n1 typ=T1 id=%s ver=undefined owner= phase=running fins= labels=%s c=%d u=%d spec=s%d as=",
				t, id, Pick(r, []string{"", "k1:v1"}), t, t, r.Intn(3)))
			exists[id] = true
		case r.Chance(1, 6):
			c.Ops = append(c.Ops, fmt.Sprintf("destroy t=%d ns=n1 typ=T1 id=%s as=", t, id))
			exists[id] = false
		default:
			c.Ops = append(c.Ops, fmt.Sprintf("envmod t=%d ns=n1 typ=T1 id=%s mut=%s", t, id, Pick(r, []string{"setSpec:s7", "setSpec:s8", "setLabel:k1:v1", "setLabel:k1:v2"})))
		}

		drain()
	}

	n := 30
	if thorough {
		n = 60
	}

	for i := 0; i < n; i++ {
		t++

		switch x := r.Intn(100); {
		case i < 2 || x < 45:
			write()
		case x < 60 && len(live) < 3:
			wk := Pick(r, []string{"single", "single", "kind", "agg"})
			op := fmt.Sprintf("wstart t=%d w=%d ns=n1 typ=T1 kind=%s", t, nextW, wk)

			if wk == "single" {
				op += " id=" + Pick(r, ids)
			} else if r.Chance(1, 3) {
				op += " boot=1"
			}

			op += fmt.Sprintf(" buf=%d", Pick(r, []int{0, 1, 2}))
			c.Ops = append(c.Ops, op)
			live = append(live, &sw{w: nextW})
			nextW++

			drain()
		case x < 80 && len(live) > 0:
			l := Pick(r, live)
			if l.held {
				l.held = false
				c.Ops = append(c.Ops, fmt.Sprintf("release t=%d w=%d", t, l.w), fmt.Sprintf("recv t=%d w=%d", t, l.w))
			} else {
				l.held = true
				c.Ops = append(c.Ops, fmt.Sprintf("recv t=%d w=%d", t, l.w), fmt.Sprintf("hold t=%d w=%d", t, l.w))

				// the writers run on while this stream stands still
				for k := r.Intn(2 * hcap); k > 0; k-- {
					t++
					write()
				}
			}
		case x < 84 && len(live) > 0:
			j := r.Intn(len(live))
			if !live[j].held {
				c.Ops = append(c.Ops, fmt.Sprintf("wstop t=%d w=%d", t, live[j].w))
				live = append(live[:j], live[j+1:]...)
			}
		default:
			c.Ops = append(c.Ops, fmt.Sprintf("get t=%d ns=n1 typ=T1 id=%s", t, Pick(r, ids)))
		}
	}

	t++

	for _, l := range live {
		if l.held {
			c.Ops = append(c.Ops, fmt.Sprintf("release t=%d w=%d", t, l.w))
		}

		c.Ops = append(c.Ops, fmt.Sprintf("recv t=%d w=%d", t, l.w))
	}

	c.Ops = append(c.Ops, fmt.Sprintf("list t=%d ns=n1 typ=T1 q=", t))

	return c
}

func (e *grpcEng) Gen(r *Rand, thorough bool, idx int) Case {
	r = NewRand(r.Next() ^ (uint64(idx)+1)*0xA24BAED4963EE407)

	if idx%5 == 4 {
		return e.genStall(r, thorough, idx)
	}

	td, tad := 1, 1

	switch idx % 4 {
	case 1:
		td, tad = 0, 0
	case 3:
		td, tad = r.Intn(2), r.Intn(2)
	}

	n := 34
	if thorough {
		n = 70
	}

	c := Case{Header: fmt.Sprintf("# engine=grpc mode=lock td=%d tad=%d case=%d", td, tad, idx)}
	shadow := map[string]*shadowRes{}
	pendingTad := map[string]int{} // resource key -> call id of a TeardownAndDestroy that may be blocked
	nextW, nextCall := 1, 1

	var (
		live  []int
		calls []int
	)

	written := map[string]int{} // successful writes per kind (plausible bookmark positions)
	t := 0

	subset := func(xs []string) string {
		var out []string

		for _, x := range xs {
			if r.Chance(1, 4) {
				out = append(out, x)
			}
		}

		return strings.Join(out, ",")
	}

	for i := 0; i < n; i++ {
		t++

		ns, typ, id := "n1", Pick(r, []string{"T1", "T1", "T1", "T2"}), Pick(r, grpcIDs)
		if r.Chance(1, 8) {
			ns = "n2"
		}

		x := r.Intn(100)
		if i < 3 {
			x = 0 // start with a few creates
		}

		// most non-create ops aim at a resource that probably exists
		if x >= 18 && len(shadow) > 0 && r.Chance(3, 4) {
			ks := make([]string, 0, len(shadow))
			for k := range shadow {
				ks = append(ks, k)
			}

			sort.Strings(ks)

			f := strings.Split(Pick(r, ks), "/")
			ns, typ, id = f[0], f[1], f[2]
		}

		k := ns + "/" + typ + "/" + id
		kind := ns + "/" + typ
		sh := shadow[k]

		switch {
		case x < 18: // create
			owner := Pick(r, uOwner)
			objOwner := ""

			if r.Chance(1, 6) {
				objOwner = Pick(r, uOwner)
			}

			phase := "running"
			if r.Chance(1, 8) {
				phase = "tearingDown"
			}

			ver := "undefined"
			if r.Chance(1, 5) {
				ver = fmt.Sprint(r.Intn(4))
			}

			fins := ""
			if r.Chance(1, 2) {
				fins = Pick(r, []string{"A", "B", "A,B", "x"})
			}

			c.Ops = append(c.Ops, fmt.Sprintf("create t=%d ns=%s typ=%s id=%s ver=%s owner=%s phase=%s fins=%s labels=%s c=%d u=%d spec=s%d as=%s",
				t, ns, typ, id, ver, objOwner, phase, fins, subset(uLabels), r.Intn(t+1), r.Intn(t+1), r.Intn(5), owner))

			if sh == nil && (objOwner == "" || objOwner == owner) {
				shadow[k] = &shadowRes{ver: 1, owner: owner, phase: phase, fins: splitNonEmpty(fins)}
				written[kind]++
			}
		case x < 38: // update
			as := Pick(r, uOwner)
			ver, phase, objOwner, fins := "undefined", "running", as, ""
			exp := Pick(r, []string{"running", "running", "tearingDown", "any"})

			if sh != nil {
				if r.Chance(4, 5) {
					as = sh.owner
				}

				objOwner = sh.owner
				if r.Chance(1, 10) {
					objOwner = Pick(r, uOwner)
				}

				ver = fmt.Sprint(sh.ver)
				if r.Chance(1, 5) {
					ver = Pick(r, []string{fmt.Sprint(sh.ver + 1), fmt.Sprint(max(sh.ver-1, 0)), "undefined"})
				}

				phase = sh.phase
				if r.Chance(1, 6) {
					phase = Pick(r, []string{"running", "tearingDown"})
				}

				if r.Chance(3, 5) {
					exp = Pick(r, []string{sh.phase, "any"})
				}

				fins = strings.Join(sh.fins, ",")
				if r.Chance(1, 3) {
					fins = Pick(r, []string{"", "A", "B", "A,B"})
				}
			} else if r.Chance(1, 2) {
				ver = fmt.Sprint(r.Intn(3))
			}

			c.Ops = append(c.Ops, fmt.Sprintf("update t=%d ns=%s typ=%s id=%s ver=%s owner=%s phase=%s fins=%s labels=%s c=%d u=%d spec=s%d as=%s exp=%s",
				t, ns, typ, id, ver, objOwner, phase, fins, subset(uLabels), r.Intn(t+1), r.Intn(t+1), r.Intn(5), as, exp))

			if sh != nil && as == sh.owner && ver == fmt.Sprint(sh.ver) && (exp == "any" || exp == sh.phase) {
				sh.ver++
				sh.owner, sh.phase, sh.fins = objOwner, phase, splitNonEmpty(fins)
				written[kind]++
			}
		case x < 45: // destroy
			as := Pick(r, uOwner)
			if sh != nil && r.Chance(4, 5) {
				as = sh.owner
			}

			c.Ops = append(c.Ops, fmt.Sprintf("destroy t=%d ns=%s typ=%s id=%s as=%s", t, ns, typ, id, as))

			if sh != nil && as == sh.owner && len(sh.fins) == 0 {
				delete(shadow, k)
				written[kind]++
			}
		case x < 50:
			c.Ops = append(c.Ops, fmt.Sprintf("get t=%d ns=%s typ=%s id=%s", t, ns, typ, id))
		case x < 58:
			op := fmt.Sprintf("list t=%d ns=%s typ=%s q=%s", t, ns, typ, grpcQueries(r))
			if r.Chance(1, 2) {
				re := Pick(r, grpcRegexp)
				op += fmt.Sprintf(" re=%s idm=%s", hx(re), grpcIDBits(re))
			}

			c.Ops = append(c.Ops, op)
		case x < 65 && len(live) < 4: // start a watch on both handles
			w := nextW
			nextW++
			wk := Pick(r, []string{"single", "kind", "agg"})
			op := fmt.Sprintf("wstart t=%d w=%d ns=%s typ=%s kind=%s", t, w, ns, typ, wk)

			if wk == "single" {
				op += " id=" + id
			} else {
				if r.Chance(1, 2) {
					op += " boot=1"
				}

				if r.Chance(1, 3) {
					op += " bb=1"
				}

				if r.Chance(1, 4) {
					op += " sel=k1:v1"
				}
			}

			if r.Chance(1, 4) {
				op += fmt.Sprintf(" tail=%d", 1+r.Intn(4))
			}

			if r.Chance(1, 3) {
				pos := written[kind] - 1 - r.Intn(3)
				if r.Chance(1, 5) {
					pos = written[kind] + r.Intn(2)
				}

				bm := append([]byte("COOKIE!!"), byte(0), 0, 0, 0, 0, 0, 0, byte(pos))
				if pos < 0 {
					bm = append([]byte("COOKIE!!"), 0xff, 0xff, 0xff, 0xff, 0xff, 0xff, 0xff, byte(256+pos))
				}

				switch r.Intn(8) {
				case 0:
					bm = bm[:Pick(r, []int{0, 8, 15})]
				case 1:
					bm[r.Intn(8)] ^= byte(1 + r.Intn(255))
				}

				op += fmt.Sprintf(" bm=%x", bm)
			}

			op += fmt.Sprintf(" buf=%d", Pick(r, []int{0, 1, 2}))
			c.Ops = append(c.Ops, op)
			live = append(live, w)
		case x < 76 && len(live) > 0:
			c.Ops = append(c.Ops, fmt.Sprintf("recv t=%d w=%d", t, Pick(r, live)))
		case x < 78 && len(live) > 0:
			j := r.Intn(len(live))
			c.Ops = append(c.Ops, fmt.Sprintf("wstop t=%d w=%d", t, live[j]))
			live = append(live[:j], live[j+1:]...)
		case x < 86: // Teardown
			as := Pick(r, uOwner)
			if sh != nil && r.Chance(4, 5) {
				as = sh.owner
			}

			c.Ops = append(c.Ops, fmt.Sprintf("teardown t=%d a=%d ns=%s typ=%s id=%s as=%s", t, nextCall, ns, typ, id, as))
			nextCall++

			if sh != nil && as == sh.owner && sh.phase != "tearingDown" {
				sh.phase = "tearingDown"
				sh.ver++
				written[kind]++
			}
		case x < 92: // TeardownAndDestroy (at most one possibly blocked call per resource)
			if _, busy := pendingTad[k]; busy {
				c.Ops = append(c.Ops, fmt.Sprintf("get t=%d ns=%s typ=%s id=%s", t, ns, typ, id))

				break
			}

			as := Pick(r, uOwner)
			if sh != nil && r.Chance(5, 6) {
				as = sh.owner
			}

			c.Ops = append(c.Ops, fmt.Sprintf("tad t=%d a=%d ns=%s typ=%s id=%s as=%s", t, nextCall, ns, typ, id, as))
			calls = append(calls, nextCall)

			pendingTad[k] = nextCall

			if sh != nil && as == sh.owner {
				if len(sh.fins) == 0 {
					delete(shadow, k)
				} else {
					sh.phase = "tearingDown"
				}
			}

			nextCall++
		case x < 98: // another actor edits finalizers / labels
			mut := Pick(r, []string{"removeFins:A", "removeFins:B", "removeFins:A+B+x", "removeFins:A+B+x", "addFins:A", "setLabel:k1:v1", "setSpec:s9"})
			c.Ops = append(c.Ops, fmt.Sprintf("envmod t=%d ns=%s typ=%s id=%s mut=%s", t, ns, typ, id, mut))

			if sh != nil {
				// coarse shadow: only the "all finalizers gone" case matters for the generator
				if mut == "removeFins:A+B+x" {
					sh.fins = nil

					if _, busy := pendingTad[k]; busy && sh.phase == "tearingDown" {
						delete(shadow, k)
					}
				}
			}
		default:
			if len(calls) > 0 {
				c.Ops = append(c.Ops, fmt.Sprintf("join t=%d a=%d", t, Pick(r, calls)))
			} else {
				c.Ops = append(c.Ops, fmt.Sprintf("get t=%d ns=%s typ=%s id=%s", t, ns, typ, id))
			}
		}
	}

	// let every blocked TeardownAndDestroy finish, collect everything
	t++

	for _, ns := range []string{"n1", "n2"} {
		for _, typ := range []string{"T1", "T2"} {
			for _, id := range grpcIDs {
				if _, busy := pendingTad[ns+"/"+typ+"/"+id]; busy {
					c.Ops = append(c.Ops, fmt.Sprintf("envmod t=%d ns=%s typ=%s id=%s mut=removeFins:A+B+x", t, ns, typ, id))
				}
			}
		}
	}

	for _, a := range calls {
		c.Ops = append(c.Ops, fmt.Sprintf("join t=%d a=%d", t, a))
	}

	for _, w := range live {
		c.Ops = append(c.Ops, fmt.Sprintf("recv t=%d w=%d", t, w))
	}

	for _, ns := range []string{"n1", "n2"} {
		for _, typ := range []string{"T1", "T2"} {
			c.Ops = append(c.Ops, fmt.Sprintf("list t=%d ns=%s typ=%s q=", t, ns, typ))
		}
	}

	return c
}

// Corpus enumerates the malformed space completely (see Rule()).
func (e *grpcEng) Corpus(bool) []Case {
	var cases []Case

	idx, t := 0, 0
	start := func(name string) *Case {
		c := &Case{Header: fmt.Sprintf("# engine=grpc mode=raw td=1 tad=1 case=raw-%s-%d", name, idx)}
		idx++
		t = 0

		return c
	}
	add := func(c *Case, format string, args ...any) {
		t++
		c.Ops = append(c.Ops, fmt.Sprintf("raw t=%d cid=%d ", t, len(c.Ops)+1)+fmt.Sprintf(format, args...))
	}

	resArgs := func(id, ver string) string {
		return fmt.Sprintf("ns=n1 typ=T1 id=%s ver=%s owner= phase=running fins= labels=k1:v1 c=0 u=0 spec=s1", id, ver)
	}

	// 1. nil-ness of every request field, unary RPCs
	c := start("nilness")
	for _, opts := range []int{0, 1} {
		add(c, "rpc=get ns=n1 typ=T1 id=a opts=%d", opts)
	}

	for _, res := range []string{"nil", "nomd", "nospec", "badver", "badphase", "ok"} {
		for _, opts := range []int{0, 1} {
			add(c, "rpc=create res=%s %s opts=%d as=", res, resArgs("a", "undefined"), opts)
		}
	}

	for _, opts := range []int{0, 1} {
		add(c, "rpc=get ns=n1 typ=T1 id=a opts=%d", opts)
	}

	for _, res := range []string{"nil", "nomd", "nospec", "badver", "badphase", "ok"} {
		add(c, "rpc=update res=%s %s opts=0 as=", res, resArgs("a", "1"))

		for _, exp := range []string{"none", "running", "tearingDown", "bogus"} {
			add(c, "rpc=update res=%s %s opts=1 as= exp=%s", res, resArgs("a", "1"), exp)
		}
	}

	cases = append(cases, *c)

	c = start("nilness2")
	for _, rpc := range []string{"destroy", "teardown", "tad"} {
		for _, id := range []string{"zz", "a"} {
			for _, opts := range []int{0, 1} {
				add(c, "rpc=create res=ok %s opts=1 as=", resArgs("a", "undefined"))
				add(c, "rpc=%s ns=n1 typ=T1 id=%s opts=%d as=X", rpc, id, opts)
				add(c, "rpc=%s ns=n1 typ=T1 id=%s opts=%d as=", rpc, id, opts)
			}
		}
	}

	// unknown resource types and namespaces: not malformed, must simply work
	add(c, "rpc=create res=ok ns=n9 typ=TX id=q ver=undefined owner= phase=running fins= labels= c=0 u=0 spec=s1 opts=1 as=")
	add(c, "rpc=get ns=n9 typ=TX id=q opts=1")
	add(c, "rpc=list ns=n9 typ=TX opts=1 lq= idq=nil")
	add(c, "rpc=update res=ok ns=n9 typ=TX id=q ver=1 owner= phase=running fins= labels= c=0 u=0 spec=s2 opts=1 as= exp=none")
	add(c, "rpc=get ns= typ= id= opts=0")
	add(c, "rpc=list ns= typ= opts=0")
	cases = append(cases, *c)

	// 2. label terms: every operator number x 0/1/2 values x invert, in List and in Watch
	// (List and kind Watch share one case: both reach the same ConvertLabelQuery, and the
	// framework reports only the first three divergent cases per mode)
	c = start("terms")
	termsFor := func(rpcFmt string) {

		for _, op := range []int{0, 1, 2, 3, 4, 5, 6, 7, 8, 99} {
			for nv := 0; nv <= 2; nv++ {
				for _, inv := range []int{0, 1} {
					vals := []string{}
					for j := 0; j < nv; j++ {
						vals = append(vals, "x"+hx(fmt.Sprint("v", j)))
					}

					add(c, rpcFmt, fmt.Sprintf("%s.%d.%d.%s", hx("k1"), op, inv, strings.Join(vals, "_")))
				}
			}
		}

		// a good term before / after a value-less one, two queries, an empty query
		good := hx("k1") + ".1.0.x" + hx("v1")
		bad := hx("k1") + ".4.0."
		add(c, rpcFmt, good+"+"+bad)
		add(c, rpcFmt, bad+"+"+good)
		add(c, rpcFmt, good+"|"+bad)
		add(c, rpcFmt, "-|"+good)
		add(c, rpcFmt, "-")
	}

	termsFor("rpc=list ns=n1 typ=T1 opts=1 lq=%s idq=nil")
	termsFor("rpc=watch ns=n1 typ=T1 wid=nil opts=1 boot=0 bb=0 agg=0 tail=0 lq=%s idq=nil api=1")
	cases = append(cases, *c)

	// 3. ID queries
	c = start("idq")
	for _, idq := range []string{"nil", ":1", hx("^a") + ":1", hx("(") + ":0", hx("[a") + ":0", hx("a{2,1}") + ":0", hx("\\") + ":0"} {
		add(c, "rpc=list ns=n1 typ=T1 opts=1 lq= idq=%s", idq)
		add(c, "rpc=watch ns=n1 typ=T1 wid=nil opts=1 boot=0 bb=0 agg=0 tail=0 lq= idq=%s api=1", idq)
		add(c, "rpc=watch ns=n1 typ=T1 wid=a opts=1 boot=0 bb=0 agg=0 tail=0 lq= idq=%s api=1", idq)
	}

	cases = append(cases, *c)

	// 4. watch: id x options x bootstrap x bootstrap-bookmark x aggregated x tail x bookmark
	bms := []string{"", " bm=", " bm=0102030405", " bm=" + fmt.Sprintf("%x", "NOTMINE!") + "0000000000000000",
		" bm=" + fmt.Sprintf("%x", "COOKIE!!") + "0000000000000063", " bm=" + fmt.Sprintf("%x", "COOKIE!!") + "ffffffffffffff00"}

	for _, wid := range []string{"nil", "a"} {
		c = start("watch")
		add(c, "rpc=watch ns=n1 typ=T1 wid=%s opts=0 api=1", wid)
		add(c, "rpc=watch ns=n1 typ=T1 wid=%s opts=0 api=0", wid)

		for _, boot := range []int{0, 1} {
			for _, bb := range []int{0, 1} {
				for _, agg := range []int{0, 1} {
					for _, tail := range []int{-1, 0, 2} {
						for _, bm := range bms {
							add(c, "rpc=watch ns=n1 typ=T1 wid=%s opts=1 boot=%d bb=%d agg=%d tail=%d%s lq= idq=nil api=1", wid, boot, bb, agg, tail, bm)
						}
					}
				}
			}
		}

		add(c, "rpc=watch ns=n1 typ=T1 wid=%s opts=1 boot=0 bb=0 agg=0 tail=-2147483648 lq= idq=nil api=-1", wid)
		add(c, "rpc=watch ns=n1 typ=T1 wid=%s opts=1 boot=0 bb=0 agg=0 tail=2147483647 lq= idq=nil api=7", wid)
		cases = append(cases, *c)
	}

	return cases
}

// ExcludedPoints: inputs outside the model's domain, run once per check and recorded.
func (e *grpcEng) ExcludedPoints() []string {
	return []string{
		"version strings are modelled by their parse result: ParseVersion(\"-1\") succeeds (2^64-1, property C18 D4) and is not part of the malformed enumeration",
		"finalizer lists with duplicates (only constructible through Finalizers.Set) lose the duplicates on the wire (NewMetadataFromProto adds them one by one): remote != direct there, outside the domain (theorem hypothesis wfRes)",
		"watch batch boundaries of aggregated watches are not compared (recv flattens): they depend on consumer timing, not on the transport",
	}
}
