package harness

import (
	"bufio"
	"bytes"
	"context"
	"errors"
	"fmt"
	"os"
	"os/exec"
	"sort"
	"strings"
	"sync"
	"sync/atomic"
	"testing"
	"testing/synctest"
	"time"

	"github.com/siderolabs/gen/optional"
	"go.uber.org/zap"

	"github.com/cosi-project/runtime/pkg/controller"
	"github.com/cosi-project/runtime/pkg/controller/runtime"
	"github.com/cosi-project/runtime/pkg/resource"
	"github.com/cosi-project/runtime/pkg/state"
	"github.com/cosi-project/runtime/pkg/state/impl/inmem"
	"github.com/cosi-project/runtime/pkg/state/impl/namespaced"
	"github.com/cosi-project/runtime/pkg/task"
)

// Property C16 — engine faults.
//
// The REAL controller runtime inside a synctest bubble with probe controllers whose
// outcomes are scripted per invocation ("streams"):
//
//	r<i>   controller.Controller: one entry per reconcile event taken from EventCh
//	       (ok = write output + ResetRestartBackoff, okn = write output, no reset,
//	       error / panic = Run returns an error / panics, errw = write output then fail,
//	       finish = Run returns nil, canceled = Run returns an error wrapping context.Canceled)
//	       with header trk=1 the probe uses the OUTPUT TRACKER: every reconcile starts with StartTrackingOutputs
//	       and, if it succeeds, ends with CleanupOutputs (which resets the restart backoff too: okn = ok); an
//	       error / panic / errw leaves the reconcile between the two calls
//	q1/a, q1/b   QController.Reconcile of primary input In/a, In/b (ok, error, panic, errw, errz = the error comes
//	       wrapped in a RequeueError whose interval is 0: a failure like any other; canceled = an error wrapping
//	       context.Canceled: the q-runtime takes it for success)
//	q1/m   QController.MapInput of mapped input Aux/m (ok maps to In/a; error, panic, errz)
//	q1/h   the QController's RunHook (error / panic after `dur` ns of run time, ok = returns nil, canceled =
//	       returns an error wrapping context.Canceled: a clean exit by design)
//	t1     a pkg/task task started through task.Runner (error / panic after `dur`, ok = returns nil, canceled =
//	       returns an error wrapping context.Canceled while its context is alive: a FAILURE, restarted like any other)
//
// (`om s=<stream> pat=<e|p|w…> lo=<list> hi=<list>` is a whole chain of failing entries on one
// line — error / panic / errw, run time 0 — taken all or nothing.)
// All script lines come before `start`; each failing entry carries the backoff window
// lo/hi (ns) the model assigns to it (the Lean driver re-derives it: `bounds-differ`
// otherwise). Timeline ops (`write`, `advance`, `watcherr`, `cancel`, `cancelerr`, `converge`,
// `end`) print, per stream, the invocations that happened during the op:
// `<stream>=<j>:<class>:<obs>[+...]` with class first | touch (woken by an input event) |
// in (restarted by the backoff timer inside the window of the previous failure) | early |
// late, and obs the input values the invocation read. The randomised backoff value is
// never printed. The Lean model tracks restart times as intervals; a stream whose state
// cannot be determined at an op instant is answered `*` from then on (still counted in
// `viol`, the number of early/late restarts, which must be 0).
//
// `cancelerr mode=mid|race` is a watch failure racing with cancellation: the proxy hands the
// runtime the batch [Created(res), Errored]; processing `res` (its Metadata() is called by
// processEvents) cancels the context given to Run — mode=mid then lets every goroutine settle
// (synctest.Wait: Run has observed the cancellation and waits for its goroutines) before the
// Errored event of the same batch is looked at; mode=race does not wait, so Run may see either
// first (its return value is printed but predicted `*`). The op waits for Run with a virtual
// timeout and prints `run=returned` or `run=hung`; a hang also shows as `ret=running` and, on
// the `end` line, as `leak=1` (the bubble is left with the stuck goroutines still there).
// Every other wait for Run (`cancel`, `end`) is bounded in the same way.
//
// A "marathon" script makes ONE stream fail 40-55 times in a row (more than 15 virtual minutes of
// continuous failure — the library's default MaxElapsedTime, after which an exponential backoff
// that was not told otherwise answers Stop = -1ns); every restart is classified against its
// window as usual, so a retry loop without backoff shows as `early` restarts and viol>0.
//
// The state handed to the runtime is a recording proxy: it forwards everything, remembers
// the runtime's WatchKindAggregated channel (to inject an Errored event on `watcherr`) and
// counts writes issued after Run returned. Each case runs in a child process: a panic that
// escapes the runtime's recover, a leaked goroutine that keeps the bubble alive, or a Run
// that never returns end up as CRASH/HANG lines.

func init() { Register("faults", func() Engine { return &fltEngine{} }) }

// ---------- script + bookkeeping ----------

type fltEntry struct {
	o      string
	dur    int64
	lo, hi int64
}

// fltPanicValue: what a scripted panic carries. A panic is a failure whatever its value — a string, a plain error, an
// error wrapping context.Canceled, a RequeueError (with or without an error inside): the recover handlers format
// the value into a new error, they must not let it pass as a classified error.
var fltPanicSeq atomic.Int64

func fltPanicValue() any {
	switch fltPanicSeq.Add(1) % 5 {
	case 0:
		return "scripted panic"
	case 1:
		return errFltScripted
	case 2:
		return fmt.Errorf("scripted panic: %w", context.Canceled)
	case 3:
		return controller.NewRequeueInterval(time.Hour)
	default:
		return controller.NewRequeueError(errFltScripted, 0)
	}
}

func fltFailing(o string) bool { return o == "error" || o == "panic" || o == "errw" || o == "errz" }

// fltFailingK: is the outcome a failure of a stream of this kind, by the property? For a task an error that wraps
// context.Canceled (its own context being alive) is one; for controllers and run hooks it is a clean exit by design.
func fltFailingK(kind byte, o string) bool { return fltFailing(o) || (kind == 't' && o == "canceled") }

type fltStream struct {
	name  string
	kind  byte // r, q (item), m (map), h (hook), t (task)
	queue []fltEntry
	// positional streak of the script (for the lo/hi check of script lines)
	scriptStreak int
	scriptDead   bool // an entry after which nothing is consumed (finish/canceled/ok of hook+task)
	trk          bool // a tracking Controller: CleanupOutputs resets the restart backoff, okn = ok
	// real bookkeeping
	count    int
	consumed int
	prevFail bool
	prevEnd  time.Time
	prevLo   int64
	prevHi   int64
}

type fltInv struct {
	stream string
	j      int
	class  string
	obs    string
}

type fltWorld struct {
	mu       sync.Mutex
	streams  map[string]*fltStream
	order    []string
	log      []fltInv
	lastPut  map[string]time.Time // stream -> time of the last input event aimed at it
	viol     int
	flushed  bool
	returned atomic.Bool
	invAfter int
	shut     int
}

func (w *fltWorld) invoke(name, obs string) fltEntry {
	w.mu.Lock()
	defer w.mu.Unlock()

	s := w.streams[name]
	now := time.Now()

	e := fltEntry{o: "ok"}
	if s.kind == 'h' || s.kind == 't' {
		e.o = "block"
	}

	if len(s.queue) > 0 && !w.flushed {
		e = s.queue[0]
		s.queue = s.queue[1:]
		s.consumed++
	}

	class := "first"

	switch {
	case s.count == 0:
	case !s.prevFail:
		class = "touch"
	default:
		gap := int64(now.Sub(s.prevEnd))

		switch {
		case gap >= s.prevLo && gap <= s.prevHi:
			class = "in"
		case (s.kind == 'q' || s.kind == 'm') && !w.lastPut[name].IsZero() && w.lastPut[name].Equal(now):
			class = "touch"
		case gap < s.prevLo:
			class = "early"
			w.viol++
		default:
			class = "late"
			w.viol++
		}
	}

	w.log = append(w.log, fltInv{stream: name, j: s.count, class: class, obs: obs})
	s.count++

	if w.returned.Load() && s.kind != 't' { // tasks are not part of the runtime
		w.invAfter++
	}

	s.prevFail = fltFailingK(s.kind, e.o)
	s.prevEnd = now.Add(time.Duration(e.dur))
	s.prevLo, s.prevHi = e.lo, e.hi

	return e
}

func (w *fltWorld) put(name string) {
	w.mu.Lock()
	w.lastPut[name] = time.Now()
	w.mu.Unlock()
}

// tokens drains the invocation log: one `stream=...` token per declared stream + viol.
func (w *fltWorld) tokens() string {
	w.mu.Lock()
	defer w.mu.Unlock()

	per := map[string][]string{}
	for _, iv := range w.log {
		per[iv.stream] = append(per[iv.stream], fmt.Sprintf("%d:%s:%s", iv.j, iv.class, iv.obs))
	}

	w.log = nil

	parts := make([]string, 0, len(w.order)+1)

	for _, n := range w.order {
		if len(per[n]) == 0 {
			parts = append(parts, n+"=-")
		} else {
			parts = append(parts, n+"="+strings.Join(per[n], "+"))
		}
	}

	parts = append(parts, fmt.Sprintf("viol=%d", w.viol))

	return strings.Join(parts, " ")
}

var errFltScripted = errors.New("scripted failure")

// ---------- probes ----------

type fltR struct {
	w    *fltWorld
	name string
	out  string
	trk  bool // use the output tracker: StartTrackingOutputs … CleanupOutputs around every reconcile
}

func (p *fltR) Name() string { return p.name }

func (p *fltR) Inputs() []controller.Input {
	return []controller.Input{{Namespace: "n1", Type: "In", Kind: controller.InputWeak}}
}

func (p *fltR) Outputs() []controller.Output {
	return []controller.Output{{Type: p.out, Kind: controller.OutputExclusive}}
}

func fltRead(ctx context.Context, r controller.Reader, typ, id string) string {
	res, err := r.Get(ctx, resource.NewMetadata("n1", typ, id, resource.VersionUndefined))
	if err != nil {
		return "-"
	}

	return specOf(res)
}

func fltWriteOut(ctx context.Context, r controller.Writer, typ, id, val string) error {
	return r.Modify(ctx, NewTRes("n1", typ, id), func(res resource.Resource) error {
		res.(*TRes).spec = TSpec{S: val} //nolint:forcetypeassert

		return nil
	})
}

func (p *fltR) Run(ctx context.Context, r controller.Runtime, _ *zap.Logger) error {
	for {
		select {
		case <-ctx.Done():
			return nil
		case <-r.EventCh():
		}

		if p.trk {
			// the documented protocol of controller.OutputTracker: first thing of the reconcile cycle
			r.StartTrackingOutputs()
		}

		obs := "a" + fltRead(ctx, r, "In", "a") + "b" + fltRead(ctx, r, "In", "b")
		e := p.w.invoke(p.name, obs)

		switch e.o {
		case "ok", "okn", "errw":
			if err := fltWriteOut(ctx, r, p.out, "o", obs); err != nil {
				return fmt.Errorf("probe output write: %w", err)
			}
		}

		if p.trk && (e.o == "ok" || e.o == "okn") {
			if err := r.CleanupOutputs(ctx, resource.NewMetadata("n1", p.out, "", resource.VersionUndefined)); err != nil {
				return fmt.Errorf("probe output cleanup: %w", err)
			}
		}

		switch e.o {
		case "ok":
			r.ResetRestartBackoff()
		case "error", "errw":
			return errFltScripted
		case "panic":
			panic(fltPanicValue())
		case "finish":
			return nil
		case "canceled":
			return fmt.Errorf("scripted: %w", context.Canceled)
		}
	}
}

type fltQ struct {
	w    *fltWorld
	conc uint
	hook bool
}

func (p *fltQ) Name() string { return "q1" }

func (p *fltQ) Settings() controller.QSettings {
	s := controller.QSettings{
		Inputs: []controller.Input{
			{Namespace: "n1", Type: "In", Kind: controller.InputQPrimary},
			{Namespace: "n1", Type: "Aux", Kind: controller.InputQMapped},
		},
		Outputs:      []controller.Output{{Type: "OutQ", Kind: controller.OutputExclusive}},
		Concurrency:  optional.Some(p.conc),
		ShutdownHook: func() { p.w.mu.Lock(); p.w.shut++; p.w.mu.Unlock() },
	}

	if p.hook {
		s.RunHook = p.runHook
	}

	return s
}

func fltSleep(ctx context.Context, d int64) {
	if d <= 0 {
		return
	}

	select {
	case <-ctx.Done():
	case <-time.After(time.Duration(d)):
	}
}

func (p *fltQ) runHook(ctx context.Context, _ *zap.Logger, _ controller.QRuntime) error {
	e := p.w.invoke("q1/h", "x")

	return fltLoopOutcome(ctx, e)
}

// fltLoopOutcome is the body of a run hook / task invocation.
func fltLoopOutcome(ctx context.Context, e fltEntry) error {
	switch e.o {
	case "block":
		<-ctx.Done()

		return nil
	case "ok":
		fltSleep(ctx, e.dur)

		return nil
	case "panic":
		fltSleep(ctx, e.dur)

		if ctx.Err() != nil {
			return nil
		}

		panic(fltPanicValue())
	case "canceled":
		fltSleep(ctx, e.dur)

		if ctx.Err() != nil {
			return nil
		}

		// e.g. a sub-request under a derived context was aborted: the context given to us is alive
		return fmt.Errorf("scripted sub-request: %w", context.Canceled)
	default:
		fltSleep(ctx, e.dur)

		if ctx.Err() != nil {
			return nil
		}

		return errFltScripted
	}
}

func (p *fltQ) Reconcile(ctx context.Context, _ *zap.Logger, r controller.QRuntime, ptr resource.Pointer) error {
	obs := fltRead(ctx, r, "In", ptr.ID())
	e := p.w.invoke("q1/"+ptr.ID(), obs)

	switch e.o {
	case "ok", "okn", "errw":
		if err := fltWriteOut(ctx, r, "OutQ", ptr.ID(), obs); err != nil {
			return fmt.Errorf("probe output write: %w", err)
		}
	}

	switch e.o {
	case "error", "errw":
		return errFltScripted
	case "errz":
		return controller.NewRequeueError(errFltScripted, 0)
	case "panic":
		panic(fltPanicValue())
	case "canceled":
		return fmt.Errorf("scripted sub-request: %w", context.Canceled)
	}

	return nil
}

func (p *fltQ) MapInput(ctx context.Context, _ *zap.Logger, r controller.QRuntime, ptr controller.ReducedResourceMetadata) ([]resource.Pointer, error) {
	obs := "m" + fltRead(ctx, r, "Aux", ptr.ID())
	e := p.w.invoke("q1/m", obs)

	switch e.o {
	case "error", "errw":
		return nil, errFltScripted
	case "errz":
		return nil, controller.NewRequeueError(errFltScripted, 0)
	case "panic":
		panic(fltPanicValue())
	}

	p.w.put("q1/a")

	return []resource.Pointer{resource.NewMetadata("n1", "In", "a", resource.VersionUndefined)}, nil
}

type fltTaskSpec struct{ w *fltWorld }

func (fltTaskSpec) ID() task.ID { return "t1" }

func (s fltTaskSpec) Equal(o fltTaskSpec) bool { return s.w == o.w }

func (s fltTaskSpec) RunTask(ctx context.Context, _ *zap.Logger, _ struct{}) error {
	e := s.w.invoke("t1", "x")

	return fltLoopOutcome(ctx, e)
}

// ---------- recording proxy ----------

type fltProxy struct {
	inner   state.CoreState
	w       *fltWorld
	mu      sync.Mutex
	chans   []chan<- []state.Event
	wctx    []context.Context //nolint:containedctx
	after   int
	injects int
}

func (p *fltProxy) mutation() {
	if p.w.returned.Load() {
		p.mu.Lock()
		p.after++
		p.mu.Unlock()
	}
}

func (p *fltProxy) Get(ctx context.Context, ptr resource.Pointer, opts ...state.GetOption) (resource.Resource, error) { //nolint:ireturn
	return p.inner.Get(ctx, ptr, opts...)
}

func (p *fltProxy) List(ctx context.Context, kind resource.Kind, opts ...state.ListOption) (resource.List, error) {
	return p.inner.List(ctx, kind, opts...)
}

func (p *fltProxy) Create(ctx context.Context, r resource.Resource, opts ...state.CreateOption) error {
	p.mutation()

	return p.inner.Create(ctx, r, opts...)
}

func (p *fltProxy) Update(ctx context.Context, r resource.Resource, opts ...state.UpdateOption) error {
	p.mutation()

	return p.inner.Update(ctx, r, opts...)
}

func (p *fltProxy) Destroy(ctx context.Context, ptr resource.Pointer, opts ...state.DestroyOption) error {
	p.mutation()

	return p.inner.Destroy(ctx, ptr, opts...)
}

func (p *fltProxy) Watch(ctx context.Context, ptr resource.Pointer, ch chan<- state.Event, opts ...state.WatchOption) error {
	return p.inner.Watch(ctx, ptr, ch, opts...)
}

func (p *fltProxy) WatchKind(ctx context.Context, kind resource.Kind, ch chan<- state.Event, opts ...state.WatchKindOption) error {
	return p.inner.WatchKind(ctx, kind, ch, opts...)
}

func (p *fltProxy) WatchKindAggregated(ctx context.Context, kind resource.Kind, ch chan<- []state.Event, opts ...state.WatchKindOption) error {
	p.mu.Lock()
	p.chans = append(p.chans, ch)
	p.wctx = append(p.wctx, ctx)
	p.mu.Unlock()

	return p.inner.WatchKindAggregated(ctx, kind, ch, opts...)
}

var errFltInjected = errors.New("injected watch failure")

// inject sends an Errored event on the runtime's aggregated watch channel, the way
// inmem's watch goroutine does on a buffer overrun (collection.go).
func (p *fltProxy) inject() bool {
	p.mu.Lock()
	defer p.mu.Unlock()

	if len(p.chans) == 0 {
		return false
	}

	select {
	case p.chans[0] <- []state.Event{{Type: state.Errored, Error: errFltInjected}}:
		p.injects++

		return true
	default:
		return false
	}
}

// fltHookRes is a resource whose first Metadata() call runs a hook: processEvents calls it when it
// gets to the event that carries the resource, i.e. the hook runs on the runtime's own
// deduplicateWatchEvents goroutine, in the middle of a batch.
type fltHookRes struct {
	resource.Resource

	hook func()
	once sync.Once
}

func (r *fltHookRes) Metadata() *resource.Metadata {
	r.once.Do(r.hook)

	return r.Resource.Metadata()
}

// injectMid sends the batch [Created(res), Errored] on the runtime's aggregated watch channel;
// `hook` runs when the runtime starts processing the first event of the batch.
func (p *fltProxy) injectMid(hook func()) bool {
	p.mu.Lock()
	defer p.mu.Unlock()

	if len(p.chans) == 0 {
		return false
	}

	res := &fltHookRes{Resource: NewTRes("n1", "In", "a"), hook: hook}

	select {
	case p.chans[0] <- []state.Event{{Type: state.Created, Resource: res}, {Type: state.Errored, Error: errFltInjected}}:
		p.injects++

		return true
	default:
		return false
	}
}

func (p *fltProxy) watchesClosed() bool {
	p.mu.Lock()
	defer p.mu.Unlock()

	for _, c := range p.wctx {
		if c.Err() == nil {
			return false
		}
	}

	return true
}

// ---------- one runtime instance ----------

type fltCfg struct {
	nr, conc         int
	q, hook, hasTask bool
	trk              bool // the probe Controllers use the output tracker
}

func fltParseCfg(h Args) fltCfg {
	c := fltCfg{nr: min(h.Int("nr"), 3), conc: max(h.Int("conc"), 1), q: h["q"] == "1", hook: h["hook"] == "1", hasTask: h["task"] == "1", trk: h["trk"] == "1"}
	if !c.q {
		c.hook = false
	}

	return c
}

func (c fltCfg) streamNames() []string {
	var l []string

	for i := 1; i <= c.nr; i++ {
		l = append(l, fmt.Sprintf("r%d", i))
	}

	if c.q {
		l = append(l, "q1/a", "q1/b", "q1/m")

		if c.hook {
			l = append(l, "q1/h")
		}
	}

	if c.hasTask {
		l = append(l, "t1")
	}

	return l
}

func fltKind(name string) byte {
	switch {
	case strings.HasPrefix(name, "r"):
		return 'r'
	case name == "q1/m":
		return 'm'
	case name == "q1/h":
		return 'h'
	case name == "t1":
		return 't'
	default:
		return 'q'
	}
}

type fltInst struct {
	cfg     fltCfg
	w       *fltWorld
	inner   state.State
	proxy   *fltProxy
	rt      *runtime.Runtime
	ctx     context.Context //nolint:containedctx
	cancel  context.CancelFunc
	done    chan error
	runner  *task.Runner[struct{}, fltTaskSpec]
	started bool
	stopped bool
	hung    bool // Run did not return within fltRunBound after it had to
	ret     error
	retSet  bool
}

// fltRunBound is the (virtual) time Run is given to return once its context is cancelled; the
// real code needs none.
const fltRunBound = time.Minute

// await waits for Run to return, at most fltRunBound of virtual time.
func (in *fltInst) await() string {
	switch {
	case !in.started:
		return "notstarted"
	case in.retSet:
		return "returned"
	case in.hung:
		return "hung"
	}

	tm := time.NewTimer(fltRunBound)
	defer tm.Stop()

	select {
	case err := <-in.done:
		in.ret, in.retSet = err, true
		in.w.returned.Store(true)

		return "returned"
	case <-tm.C:
		in.hung = true

		return "hung"
	}
}

func fltNewInst(cfg fltCfg) *fltInst {
	w := &fltWorld{streams: map[string]*fltStream{}, lastPut: map[string]time.Time{}, order: cfg.streamNames()}
	for _, n := range w.order {
		w.streams[n] = &fltStream{name: n, kind: fltKind(n), trk: cfg.trk && fltKind(n) == 'r'}
	}

	in := &fltInst{cfg: cfg, w: w, done: make(chan error, 1)}
	in.inner = state.WrapCore(namespaced.NewState(inmem.Build))
	in.proxy = &fltProxy{inner: in.inner, w: w}
	in.ctx, in.cancel = context.WithCancel(context.Background())

	rt, err := runtime.NewRuntime(state.WrapCore(in.proxy), zap.NewNop())
	if err != nil {
		panic(err)
	}

	in.rt = rt

	for i := 1; i <= cfg.nr; i++ {
		if err := rt.RegisterController(&fltR{w: w, name: fmt.Sprintf("r%d", i), out: fmt.Sprintf("OutR%d", i), trk: cfg.trk}); err != nil {
			panic(err)
		}
	}

	if cfg.q {
		if err := rt.RegisterQController(&fltQ{w: w, conc: uint(cfg.conc), hook: cfg.hook}); err != nil {
			panic(err)
		}
	}

	return in
}

func (in *fltInst) start() {
	in.started = true

	go func() { in.done <- in.rt.Run(in.ctx) }()

	if in.cfg.hasTask {
		in.runner = task.NewEqualRunner[fltTaskSpec]()
		in.runner.Reconcile(in.ctx, zap.NewNop(), map[task.ID]fltTaskSpec{"t1": {w: in.w}}, struct{}{})
	}

	synctest.Wait()
}

// write is a harness write of an input resource, straight to the real state (not via the proxy).
func (in *fltInst) write(id string, v int) {
	typ := "In"
	if id == "m" {
		typ = "Aux"
	}

	ctx := context.Background()
	r := NewTRes("n1", typ, id)
	r.spec = TSpec{S: fmt.Sprint(v)}

	switch id {
	case "m":
		in.w.put("q1/m")
	default:
		in.w.put("q1/" + id)
	}

	cur, err := in.inner.Get(ctx, r.Metadata())
	if err != nil {
		if err := in.inner.Create(ctx, r); err != nil {
			panic(err)
		}
	} else {
		r.md.SetVersion(cur.Metadata().Version())

		if err := in.inner.Update(ctx, r); err != nil {
			panic(err)
		}
	}

	synctest.Wait()
}

// poll takes Run's result if it has returned.
func (in *fltInst) poll() {
	if in.retSet || !in.started {
		return
	}

	select {
	case err := <-in.done:
		in.ret, in.retSet = err, true
		in.w.returned.Store(true)
	default:
	}
}

func (in *fltInst) retStr() string {
	in.poll()

	switch {
	case !in.started:
		return "notstarted"
	case !in.retSet:
		return "running"
	case in.ret == nil:
		return "nil"
	case errors.Is(in.ret, errFltInjected):
		return "wrapped"
	default:
		return "other"
	}
}

// stop cancels the context, waits for Run to return (bounded) and stops the task runner.
func (in *fltInst) stop() {
	if in.stopped {
		return
	}

	in.stopped = true
	in.cancel()

	in.await()

	if in.runner != nil {
		in.runner.Stop()
	}

	synctest.Wait()
}

func (in *fltInst) listing() string {
	var parts []string

	types := []string{"OutQ"}
	for i := 1; i <= in.cfg.nr; i++ {
		types = append(types, fmt.Sprintf("OutR%d", i))
	}

	for _, typ := range types {
		l, err := in.inner.List(context.Background(), resource.NewMetadata("n1", typ, "", resource.VersionUndefined))
		if err != nil {
			continue
		}

		for _, r := range l.Items {
			parts = append(parts, fmt.Sprintf("%s/%s:%s", typ, r.Metadata().ID(), specOf(r)))
		}
	}

	sort.Strings(parts)

	if len(parts) == 0 {
		return "-"
	}

	return strings.Join(parts, ",")
}

type fltWriteRec struct {
	id       string
	v        int
	preStart bool
}

// fltTwin replays the write history against a second, fault-free runtime instance.
func fltTwin(cfg fltCfg, writes []fltWriteRec, started bool) string {
	cfg.hook, cfg.hasTask = false, false
	tw := fltNewInst(cfg)

	if !started {
		for _, wr := range writes {
			tw.write(wr.id, wr.v)
		}

		l := tw.listing()

		tw.stop()

		return l
	}

	for _, wr := range writes {
		if wr.preStart {
			tw.write(wr.id, wr.v)
		}
	}

	tw.start()

	for _, wr := range writes {
		if !wr.preStart {
			tw.write(wr.id, wr.v)
		}
	}

	synctest.Wait()

	l := tw.listing()

	tw.stop()

	return l
}

// ---------- executing a case ----------

const fltSettle = 2000 * time.Second

// fltScriptCheck validates a script line against the harness' copy of the schedule and
// returns the entry; ok=false means `bounds-differ` (the entry is dropped on both sides).
func fltScriptCheck(s *fltStream, a Args) (fltEntry, string) {
	var e fltEntry

	e.o = a["o"]
	fmt.Sscan(a["dur"], &e.dur)
	fmt.Sscan(a["lo"], &e.lo)
	fmt.Sscan(a["hi"], &e.hi)

	return fltScriptEntry(s, e)
}

// fltMarathonCheck validates a marathon line `om s=<stream> pat=<e|p|w…> lo=<list> hi=<list>`: one
// failing entry per letter, each with its window, all or nothing.
func fltMarathonCheck(s *fltStream, a Args) ([]fltEntry, string) {
	pat, los, his := a["pat"], a.List("lo"), a.List("hi")
	if pat == "" || len(los) != len(pat) || len(his) != len(pat) {
		return nil, "bad-marathon"
	}

	saved := *s

	var entries []fltEntry

	for i, ch := range pat {
		e := fltEntry{o: map[rune]string{'e': "error", 'p': "panic", 'w': "errw", 'z': "errz"}[ch]}
		if e.o == "" {
			e.o = "?"
		}

		fmt.Sscan(los[i], &e.lo)
		fmt.Sscan(his[i], &e.hi)

		e, verdict := fltScriptEntry(s, e)
		if verdict != "script" {
			*s = saved

			return nil, verdict
		}

		entries = append(entries, e)
	}

	return entries, "script"
}

func fltScriptEntry(s *fltStream, e fltEntry) (fltEntry, string) {
	valid := map[byte]string{'r': "ok okn error panic errw finish canceled", 'q': "ok error panic errw errz canceled", 'm': "ok error panic errz", 'h': "ok error panic canceled", 't': "ok error panic canceled"}
	if !strings.Contains(" "+valid[s.kind]+" ", " "+e.o+" ") {
		return e, "bad-outcome"
	}

	if s.kind != 'h' && s.kind != 't' {
		e.dur = 0
	}

	if s.scriptDead {
		return e, "script-unreachable"
	}

	var wlo, whi int64

	switch {
	case fltFailingK(s.kind, e.o):
		if s.kind == 'h' && e.dur > int64(time.Minute) {
			s.scriptStreak = 0
		}

		wlo, whi = goBounds(s.scriptStreak)

		if wlo != e.lo || whi != e.hi {
			return e, "bounds-differ"
		}

		s.scriptStreak++
	default:
		if e.lo != 0 || e.hi != 0 {
			return e, "bounds-differ"
		}

		switch {
		case e.o == "okn" && s.kind == 'r' && !s.trk:
		case e.o == "finish" || (e.o == "canceled" && s.kind != 'q') || s.kind == 'h' || s.kind == 't':
			s.scriptDead = true
		default:
			s.scriptStreak = 0
		}
	}

	return e, "script"
}

// execFaults runs one case; emit is called once per op line, in order (the `end` line
// only after the bubble has been left, because it carries the leak verdict).
func execFaults(t *testing.T, c Case, emit func(string)) {
	fltPanicSeq.Store(0) // the sequence of panic values is a function of the case alone

	_, hd := ParseLine(strings.TrimPrefix(c.Header, "#"))
	cfg := fltParseCfg(hd)

	var (
		endLine string
		endSeen bool
		late    []string
	)

	leak := "0"

	func() {
		defer func() {
			if r := recover(); r != nil {
				msg := fmt.Sprint(r)

				switch {
				case strings.Contains(msg, "blocked goroutines remain"):
					leak = "1"
				default:
					leak = "deadlock"
				}
			}
		}()

		synctest.Test(t, func(t *testing.T) {
			in := fltNewInst(cfg)
			w := in.w

			var writes []fltWriteRec

			dead := false

			defer func() {
				// whatever happened, leave the bubble with everything told to stop
				in.stop()
			}()

			for _, line := range c.Ops {
				op, a := ParseLine(line)

				var out string

				func() {
					defer func() {
						if r := recover(); r != nil {
							out = fmt.Sprintf("PANIC %v", r)
						}
					}()

					if dead {
						out = "dead"

						return
					}

					switch op {
					case "o":
						s := w.streams[a["s"]]

						switch {
						case s == nil:
							out = "no-stream"
						case in.started:
							out = "script-late"
						default:
							e, verdict := fltScriptCheck(s, a)
							if verdict == "script" {
								w.mu.Lock()
								s.queue = append(s.queue, e)
								w.mu.Unlock()
							}

							out = verdict
						}
					case "om":
						s := w.streams[a["s"]]

						switch {
						case s == nil:
							out = "no-stream"
						case in.started:
							out = "script-late"
						default:
							entries, verdict := fltMarathonCheck(s, a)
							if verdict == "script" {
								w.mu.Lock()
								s.queue = append(s.queue, entries...)
								w.mu.Unlock()
							}

							out = verdict
						}
					case "start":
						if in.started {
							out = "already"

							break
						}

						if in.stopped {
							out = "stopped"

							break
						}

						in.start()
						out = "start " + w.tokens()
					case "write":
						id := a["id"]
						if id != "a" && id != "b" && id != "m" {
							out = "bad-id"

							break
						}

						writes = append(writes, fltWriteRec{id: id, v: a.Int("v"), preStart: !in.started})
						in.write(id, a.Int("v"))
						out = "write " + w.tokens()
					case "advance":
						var d int64

						fmt.Sscan(a["d"], &d)
						time.Sleep(time.Duration(d))
						synctest.Wait()

						out = "advance " + w.tokens()
					case "watcherr":
						if !in.started || in.stopped {
							out = "watcherr ret=" + in.retStr() + " " + w.tokens()

							break
						}

						if !in.proxy.inject() {
							out = "noinject"

							break
						}

						synctest.Wait()
						out = "watcherr ret=" + in.retStr() + " " + w.tokens()
					case "cancel":
						in.stop()
						out = "cancel ret=" + in.retStr() + " " + w.tokens()
					case "cancelerr":
						in.poll()

						if !in.started || in.stopped || in.retSet {
							// nothing left to race with: a plain cancellation
							in.stop()
							out = fmt.Sprintf("cancelerr run=%s ret=%s %s", in.await(), in.retStr(), w.tokens())

							break
						}

						race := a["mode"] == "race"

						if !in.proxy.injectMid(func() {
							// runs on the runtime's event goroutine, between the two events of the batch
							in.cancel()

							if !race {
								synctest.Wait() // Run has observed the cancellation and is waiting for its goroutines
							}
						}) {
							out = "noinject"

							break
						}

						run := in.await()

						in.stop()
						out = fmt.Sprintf("cancelerr run=%s ret=%s %s", run, in.retStr(), w.tokens())
					case "converge":
						w.mu.Lock()
						w.flushed = true
						w.mu.Unlock()

						time.Sleep(fltSettle)
						synctest.Wait()

						settle := w.tokens()
						v := a.Int("v")

						for _, wr := range []fltWriteRec{{id: "a", v: v}, {id: "b", v: v + 1}, {id: "m", v: v + 2}} {
							if wr.id == "m" && !cfg.q {
								continue
							}

							wr.preStart = !in.started
							writes = append(writes, wr)
							in.write(wr.id, wr.v)
						}

						mine := in.listing()
						twin := fltTwin(cfg, writes, in.started)
						// the settle phase and the final writes are reported separately
						final := w.tokens()
						out = fmt.Sprintf("converge same=%s out=%s settle[ %s ] final[ %s ]", boolTok(mine == twin), mine, settle, final)
					case "end":
						in.stop()

						w.mu.Lock()
						cons := make([]string, 0, len(w.order))

						for _, n := range w.order {
							cons = append(cons, fmt.Sprintf("%s=%d", n, w.streams[n].consumed))
						}

						shut, invAfter := w.shut, w.invAfter
						w.mu.Unlock()

						in.proxy.mu.Lock()
						after := in.proxy.after
						in.proxy.mu.Unlock()

						wantShut := 0
						if cfg.q && in.started {
							wantShut = 1
						}

						endLine = fmt.Sprintf("end ret=%s %s after=%d invafter=%d shut=%s watches=%s", in.retStr(), strings.Join(cons, " "),
							after, invAfter, boolTok(shut == wantShut), map[bool]string{true: "closed", false: "open"}[in.proxy.watchesClosed()])
						endSeen = true
						dead = true

						return
					default:
						out = "bad-op"
					}
				}()

				if endSeen {
					if op == "end" && out == "" {
						continue // the end line itself: emitted after the bubble, with the leak verdict
					}

					late = append(late, out)

					continue
				}

				emit(out)
			}
		})
	}()

	if endSeen {
		emit(endLine + " leak=" + leak)

		for _, l := range late {
			emit(l)
		}
	} else if leak != "0" {
		fmt.Fprintf(os.Stderr, "faults: case without `end` left the bubble with leak=%s\n", leak)
	}
}

func boolTok(b bool) string {
	if b {
		return "true"
	}

	return "false"
}

// ---------- child process isolation (same protocol as engine registry) ----------

const (
	fltChildEnv     = "VERIF_FAULTS_CHILD"
	fltChildTimeout = 60 * time.Second
)

// faultsChild is entered through TestFaultsChild (faults_child_test.go).
func faultsChild(t *testing.T) {
	if os.Getenv(fltChildEnv) != "1" {
		t.Skip("child mode only")
	}

	in := bufio.NewScanner(os.Stdin)
	in.Buffer(make([]byte, 1<<20), 1<<26)

	for {
		var c Case

		got := false

		for in.Scan() {
			line := in.Text()
			if line == "." {
				got = true

				break
			}

			if c.Header == "" {
				c.Header = line
			} else {
				c.Ops = append(c.Ops, line)
			}
		}

		if !got {
			return
		}

		execFaults(t, c, func(s string) { fmt.Fprintf(os.Stdout, "@ %s\n", s) })
		fmt.Fprintln(os.Stdout, "@@done")
	}
}

func fltStartWorker() (*worker, error) {
	cmd := exec.Command(os.Args[0], "-test.run", "^TestFaultsChild$", "-test.timeout", "0")
	cmd.Env = append(os.Environ(), fltChildEnv+"=1", "GOTRACEBACK=all")

	stdin, err := cmd.StdinPipe()
	if err != nil {
		return nil, err
	}

	stdout, err := cmd.StdoutPipe()
	if err != nil {
		return nil, err
	}

	w := &worker{cmd: cmd, stdin: stdin, stdout: bufio.NewReaderSize(stdout, 1<<20), stderr: &bytes.Buffer{}}
	cmd.Stderr = w.stderr

	if err := cmd.Start(); err != nil {
		return nil, err
	}

	return w, nil
}

func fltClassifyCrash(stderr string) string {
	switch {
	case strings.Contains(stderr, "panic: scripted panic"):
		return "CRASH:unrecovered-probe-panic"
	case strings.Contains(stderr, "nil pointer dereference"):
		return "CRASH:nilptr"
	case strings.Contains(stderr, "all goroutines are asleep"):
		return "CRASH:deadlock"
	default:
		return "CRASH:other"
	}
}

type fltEngine struct {
	w          *worker
	crashes    int
	firstCrash string
}

func (*fltEngine) Name() string { return "faults" }

func (*fltEngine) Cases(thorough bool) int {
	if thorough {
		return 30000
	}

	return 2500
}

func (*fltEngine) Rule() string {
	return "real runtime under synctest with 0-3 probe Controllers (one case in three: using the output tracker, StartTrackingOutputs … CleanupOutputs around every reconcile, so that a scripted error / panic strikes between the two), an optional probe QController (2 primary keys, a mapped input, optional run hook, concurrency 1-2) and an optional pkg/task task, every invocation's outcome scripted (ok/okn/error/panic/errw, errz = a queue item's / mapped input's error wrapped in a RequeueError with interval 0, and canceled = an error wrapping context.Canceled while the context is alive: a clean exit for Controller and hook, success for a queue item, one more failure for a task; run durations for hook and task); timeline of input writes and clock advances at instants before, inside and after the restart windows; about one case in ten with a marathon stream (40-55 consecutive failures of one controller / queue item / mapped input / hook / task, i.e. more than 15 virtual minutes of continuous failure, every restart classified against its window); ending in convergence-vs-fault-free-twin, an injected watch Errored event, cancellation at a random instant, or a watch failure racing with cancellation (cancelerr: the context is cancelled while the batch that carries the Errored event is being processed, with and without letting Run observe the cancellation first; Run must return within a virtual minute: run=returned/hung); each case in a child process; non-trivial = at least two streams invoked, a timer-driven restart inside its window, an input write that woke one stream while another stream's last scripted outcome was a failure (it is backing off), and one of converge/watcherr/cancel/cancelerr; distinct by hash of the op lines"
}

func (*fltEngine) NonTrivial(c Case, out []string) bool {
	scripts := map[string][]string{}

	for _, line := range c.Ops {
		switch op, a := ParseLine(line); op {
		case "o":
			scripts[a["s"]] = append(scripts[a["s"]], a["o"])
		case "om":
			for range a["pat"] {
				scripts[a["s"]] = append(scripts[a["s"]], "error")
			}
		}
	}

	streams := map[string]bool{}
	failing := map[string]bool{} // the stream's last invocation was scripted to fail
	inWin, ending, during := false, false, false

	for i, o := range out {
		if i >= len(c.Ops) {
			break
		}

		op := opName(c.Ops[i])
		if op == "converge" || op == "watcherr" || op == "cancel" || op == "cancelerr" {
			ending = true
		}

		before := len(failing)
		woke := ""

		for _, tok := range strings.Fields(o) {
			k, v, ok := strings.Cut(tok, "=")
			if !ok || v == "-" || !strings.Contains(v, ":") {
				continue
			}

			streams[k] = true
			woke = k

			if strings.Contains(v, ":in:") {
				inWin = true
			}

			for _, inv := range strings.Split(v, "+") {
				var j int

				fmt.Sscanf(inv, "%d:", &j)

				if j < len(scripts[k]) && fltFailingK(fltKind(k), scripts[k][j]) {
					failing[k] = true
				} else {
					delete(failing, k)
				}
			}
		}

		if op == "write" && woke != "" && before > 0 && !(before == 1 && failing[woke] && len(failing) == 1) {
			during = true
		}
	}

	return len(streams) >= 2 && inWin && ending && during
}

func fltFail(r *Rand) string {
	switch x := r.Intn(10); {
	case x < 6:
		return "error"
	case x < 8:
		return "panic"
	default:
		return "errw"
	}
}

// fltMarathon: the script line that makes one stream fail n times in a row, and the time by which
// the last of these failures has certainly been restarted (sum of the upper window bounds).
func fltMarathon(r *Rand, name string, n int) ([]string, int64) {
	kind := fltKind(name)

	var (
		pat      []byte
		los, his []string
		total    int64
	)

	for j := 0; j < n; j++ {
		o := byte('e')

		switch {
		case r.Chance(1, 5):
			o = 'p'
		case (kind == 'r' || kind == 'q') && r.Chance(1, 6):
			o = 'w'
		case (kind == 'q' || kind == 'm') && r.Chance(1, 6):
			o = 'z'
		}

		lo, hi := goBounds(j)
		total += hi
		pat = append(pat, o)
		los, his = append(los, fmt.Sprint(lo)), append(his, fmt.Sprint(hi))
	}

	// ONE line, so that the shrinker keeps the chain whole: with 40 failures or more even the shortest draw of every
	// interval (64 s + 28 x 30 s) is past the 15 minutes
	return []string{fmt.Sprintf("om s=%s pat=%s lo=%s hi=%s", name, pat, strings.Join(los, ","), strings.Join(his, ","))}, total + int64(time.Second)
}

// genScript produces the script lines of one stream (with the windows of the schedule).
func fltGenScript(r *Rand, name string, thorough, trk bool) []string {
	kind := fltKind(name)
	n := r.Intn(7)

	if r.Chance(1, 8) || (thorough && r.Chance(1, 4)) {
		n += 6 + r.Intn(10) // long enough to reach the 60 s cap
	}

	failBias := 45 + r.Intn(40)
	streak := 0

	var lines []string

	for j := 0; j < n; j++ {
		o := "ok"
		dur := int64(0)

		switch kind {
		case 'r':
			switch x := r.Intn(100); {
			case x < failBias:
				o = fltFail(r)
			case x < failBias+(100-failBias)/3:
				o = "okn"
			}
		case 'q':
			if r.Intn(100) < failBias {
				o = fltFail(r)

				if r.Chance(1, 5) {
					o = "errz"
				}
			} else if r.Chance(1, 8) {
				o = "canceled"
			}
		case 'm':
			if r.Intn(100) < failBias {
				o = Pick(r, []string{"error", "error", "panic", "errz"})
			}
		default: // hook, task: ok ends the loop for good, keep it rare
			o = Pick(r, []string{"error", "error", "panic"})
			if r.Chance(1, 12) {
				o = "ok"
			}

			// an error that wraps context.Canceled: one more failure for a task, the end of the loop for a hook
			if (kind == 't' && r.Chance(1, 4)) || (kind == 'h' && r.Chance(1, 16)) {
				o = "canceled"
			}

			dur = Pick(r, []int64{0, 0, 0, 1_000_000_000, 59_000_000_000, 60_000_000_000, 60_000_000_001, 120_000_000_000})
			if kind == 't' {
				dur = Pick(r, []int64{0, 0, 1_000_000, 1_000_000_000})
			}
		}

		var lo, hi int64

		if fltFailingK(kind, o) {
			if kind == 'h' && dur > int64(time.Minute) {
				streak = 0
			}

			lo, hi = goBounds(streak)
			streak++
		} else if !(o == "okn" && kind == 'r' && !trk) {
			streak = 0
		}

		lines = append(lines, fmt.Sprintf("o s=%s o=%s dur=%d lo=%d hi=%d", name, o, dur, lo, hi))

		if (kind == 'h' || kind == 't') && !fltFailingK(kind, o) {
			break
		}
	}

	return lines
}

func (e *fltEngine) Gen(r *Rand, thorough bool, idx int) Case {
	cfg := fltCfg{nr: r.Intn(4), q: r.Chance(2, 3), conc: 1 + r.Intn(2), hasTask: r.Chance(1, 3)}
	cfg.hook = cfg.q && r.Chance(1, 2)

	if cfg.nr == 0 && !cfg.q {
		cfg.nr = 1 + r.Intn(2)
	}

	// the probe Controllers use the output tracker (StartTrackingOutputs … CleanupOutputs around every reconcile)
	cfg.trk = cfg.nr > 0 && r.Chance(1, 3)

	b := func(x bool) int {
		if x {
			return 1
		}

		return 0
	}

	c := Case{Header: fmt.Sprintf("# engine=faults nr=%d q=%d conc=%d hook=%d task=%d trk=%d case=%d", cfg.nr, b(cfg.q), cfg.conc, b(cfg.hook), b(cfg.hasTask), b(cfg.trk), idx)}

	// a marathon: one stream fails 40-55 times in a row
	marathon, chain := "", int64(0)
	if r.Chance(1, 10) {
		marathon = Pick(r, cfg.streamNames())
	}

	var scripts [][]string
	for _, n := range cfg.streamNames() {
		if n == marathon {
			var lines []string

			lines, chain = fltMarathon(r, n, 40+r.Intn(16))
			scripts = append(scripts, lines)

			continue
		}

		scripts = append(scripts, fltGenScript(r, n, thorough, cfg.trk))
	}

	// interleave the script lines (their order across streams is immaterial)
	pos := make([]int, len(scripts))

	for {
		var cand []int

		for i := range scripts {
			if pos[i] < len(scripts[i]) {
				cand = append(cand, i)
			}
		}

		if len(cand) == 0 {
			break
		}

		i := Pick(r, cand)
		c.Ops = append(c.Ops, scripts[i][pos[i]])
		pos[i]++
	}

	ids := []string{"a", "a", "b"}
	if cfg.q {
		ids = append(ids, "m")
	}

	v := 1
	write := func() {
		c.Ops = append(c.Ops, fmt.Sprintf("write id=%s v=%d", Pick(r, ids), v))
		v++
	}

	advance := func() {
		var d int64

		switch x := r.Intn(10); {
		case x < 4: // before any first restart window (>= 250 ms)
			d = 1 + int64(r.Intn(249_000_000))
		case x < 8: // beyond every pending restart chain
			d = max(int64(fltSettle), chain)
		default: // anywhere, log-uniform 1 ms .. 130 s
			d = int64(1_000_000) << r.Intn(17)
			d += int64(r.Intn(int(min(d, 1<<30))))
		}

		c.Ops = append(c.Ops, fmt.Sprintf("advance d=%d", d))
	}

	for i := r.Intn(3); i > 0 && r.Chance(1, 2); i-- {
		write()
	}

	c.Ops = append(c.Ops, "start")

	if marathon != "" {
		// get the marathon stream going (a queue item / mapped input needs its input to exist) and let the whole chain happen
		switch marathon {
		case "q1/a", "q1/b", "q1/m":
			c.Ops = append(c.Ops, fmt.Sprintf("write id=%s v=%d", strings.TrimPrefix(marathon, "q1/"), v))
			v++
		}

		c.Ops = append(c.Ops, fmt.Sprintf("advance d=%d", chain))
	}

	steps := 5 + r.Intn(10)
	if thorough {
		steps += r.Intn(10)
	}

	for i := 0; i < steps; i++ {
		if r.Chance(3, 5) {
			write()
		} else {
			advance()
		}
	}

	tail := func() {
		for i := r.Intn(4); i > 0; i-- {
			if r.Chance(1, 2) {
				write()
			} else {
				advance()
			}
		}
	}

	switch x := r.Intn(23); {
	case x >= 20: // a watch failure racing with cancellation, at a random virtual instant
		d := int64(1_000_000) << r.Intn(18)
		d += int64(r.Intn(int(min(d, 1<<30))))
		mode := "mid"

		if x == 22 {
			mode = "race"
		}

		c.Ops = append(c.Ops, fmt.Sprintf("advance d=%d", d), "cancelerr mode="+mode)
		tail()
	case x < 11:
		c.Ops = append(c.Ops, fmt.Sprintf("converge v=%d", v+100))
	case x < 14:
		c.Ops = append(c.Ops, "watcherr")
		tail()
	case x < 18: // cancellation at a random virtual instant
		d := int64(1_000_000) << r.Intn(18)
		d += int64(r.Intn(int(min(d, 1<<30))))
		c.Ops = append(c.Ops, fmt.Sprintf("advance d=%d", d), "cancel")
		tail()
	}

	c.Ops = append(c.Ops, "end")

	return c
}

// Corpus: fixed scenarios (quirks transcribed in the model, long streaks, minimal endings).
func (*fltEngine) Corpus(bool) []Case {
	w := func(n int) (int64, int64) { return goBounds(n) }
	ln := func(s, o string, dur int64, n int) string {
		var lo, hi int64
		if n >= 0 {
			lo, hi = w(n)
		}

		return fmt.Sprintf("o s=%s o=%s dur=%d lo=%d hi=%d", s, o, dur, lo, hi)
	}

	long := []string{}
	for i := 0; i < 14; i++ {
		long = append(long, ln("r1", "error", 0, i))
	}

	long = append(long, ln("r1", "ok", 0, -1), ln("r1", "panic", 0, 0), "start", "advance d=2000000000000", "write id=a v=1", "advance d=100000000", "write id=a v=2", "advance d=2000000000000", "converge v=50", "end")

	// more than 15 minutes of continuous failure of one stream (48 failures: at least 64 s + 36 x 30 s)
	marathon := func(s string, pre ...string) []string {
		var (
			ops   []string
			total int64
		)

		var (
			pat      []byte
			los, his []string
		)

		for i := 0; i < 48; i++ {
			lo, hi := w(i)
			total += hi
			pat = append(pat, "eep"[i%3])
			los, his = append(los, fmt.Sprint(lo)), append(his, fmt.Sprint(hi))
		}

		ops = append(ops, fmt.Sprintf("om s=%s pat=%s lo=%s hi=%s", s, pat, strings.Join(los, ","), strings.Join(his, ",")))
		ops = append(ops, pre...)
		ops = append(ops, "start", fmt.Sprintf("advance d=%d", total+1_000_000_000), "write id=a v=7", "advance d=100000000", "write id=m v=8",
			fmt.Sprintf("advance d=%d", total+1_000_000_000), "converge v=50", "end")

		return ops
	}

	return []Case{
		{Header: "# engine=faults nr=1 q=1 conc=1 hook=0 task=0 case=corpus-marathon-item", Ops: marathon("q1/a", "write id=a v=1", "write id=b v=2")},
		{Header: "# engine=faults nr=1 q=1 conc=2 hook=0 task=0 case=corpus-marathon-map", Ops: marathon("q1/m", "write id=m v=1")},
		{Header: "# engine=faults nr=2 q=0 conc=1 hook=0 task=0 case=corpus-marathon-controller", Ops: marathon("r2")},
		{Header: "# engine=faults nr=0 q=1 conc=1 hook=1 task=0 case=corpus-marathon-hook", Ops: marathon("q1/h")},
		{Header: "# engine=faults nr=1 q=0 conc=1 hook=0 task=1 case=corpus-marathon-task", Ops: marathon("t1")},
		{Header: "# engine=faults nr=2 q=1 conc=1 hook=1 task=1 case=corpus-cancelerr-mid", Ops: []string{
			ln("r1", "error", 0, 0), ln("r1", "error", 0, 1), ln("q1/a", "panic", 0, 0), ln("q1/h", "error", 0, 0), ln("t1", "error", 0, 0),
			"start", "write id=a v=1", "advance d=100000000", "cancelerr mode=mid", "write id=a v=3", "advance d=2000000000000", "write id=b v=4", "end",
		}},
		{Header: "# engine=faults nr=1 q=0 conc=1 hook=0 task=0 case=corpus-cancelerr-mid-idle", Ops: []string{
			"start", "write id=a v=1", "cancelerr mode=mid", "end",
		}},
		{Header: "# engine=faults nr=1 q=1 conc=2 hook=0 task=0 case=corpus-cancelerr-race", Ops: []string{
			ln("r1", "panic", 0, 0), ln("q1/b", "error", 0, 0),
			"start", "write id=b v=1", "advance d=300000000", "cancelerr mode=race", "write id=a v=3", "advance d=2000000000000", "end",
		}},
		{Header: "# engine=faults nr=1 q=0 conc=1 hook=0 task=0 case=corpus-cancelerr-after-watcherr", Ops: []string{
			"start", "write id=a v=1", "watcherr", "cancelerr mode=mid", "cancelerr mode=race", "end",
		}},
		{Header: "# engine=faults nr=1 q=0 conc=1 hook=0 task=0 case=corpus-long-streak", Ops: long},
		{Header: "# engine=faults nr=2 q=0 conc=1 hook=0 task=0 case=corpus-okn-growth", Ops: []string{
			ln("r1", "error", 0, 0), ln("r1", "okn", 0, -1), ln("r1", "panic", 0, 1), ln("r1", "ok", 0, -1), ln("r1", "errw", 0, 0),
			"start", "write id=b v=1", "advance d=1000000000", "write id=a v=2", "write id=a v=3", "advance d=100000000", "write id=b v=4", "advance d=2000000000",
			"write id=a v=5", "write id=b v=6", "advance d=1000000000", "converge v=9", "end",
		}},
		{Header: "# engine=faults nr=2 q=0 conc=1 hook=0 task=0 case=corpus-finish-quirk", Ops: []string{
			ln("r1", "finish", 0, -1), ln("r2", "error", 0, 0), ln("r2", "canceled", 0, -1),
			"start", "write id=a v=1", "advance d=1000000000", "write id=a v=2", "advance d=100000000000", "write id=b v=3", "converge v=9", "end",
		}},
		// a tracking controller: panic, errw and error strike between StartTrackingOutputs and CleanupOutputs; okn resets too
		{Header: "# engine=faults nr=2 q=0 conc=1 hook=0 task=0 trk=1 case=corpus-tracker-faults", Ops: []string{
			ln("r1", "panic", 0, 0), ln("r1", "errw", 0, 1), ln("r1", "okn", 0, -1), ln("r1", "error", 0, 0), ln("r1", "ok", 0, -1),
			ln("r2", "ok", 0, -1), ln("r2", "panic", 0, 0), ln("r2", "panic", 0, 1),
			"start", "advance d=2000000000000", "write id=a v=1", "advance d=2000000000000", "write id=b v=2", "advance d=100000000", "write id=a v=3",
			"advance d=2000000000000", "converge v=9", "end",
		}},
		// an error that wraps context.Canceled, the context being alive: every kind of stream
		{Header: "# engine=faults nr=1 q=1 conc=1 hook=1 task=1 trk=0 case=corpus-canceled-error", Ops: []string{
			ln("t1", "canceled", 0, 0), ln("t1", "error", 0, 1), ln("t1", "canceled", 1000000, 2), ln("t1", "panic", 0, 3), ln("t1", "ok", 0, -1),
			ln("q1/a", "error", 0, 0), ln("q1/a", "canceled", 0, -1), ln("q1/a", "error", 0, 0), ln("q1/h", "error", 0, 0), ln("q1/h", "canceled", 0, -1),
			ln("r1", "error", 0, 0), ln("r1", "canceled", 0, -1),
			"write id=a v=1", "start", "advance d=2000000000000", "write id=a v=2", "advance d=2000000000000", "write id=a v=3", "advance d=2000000000000",
			"write id=b v=4", "converge v=9", "end",
		}},
		// a queue item / mapped input that fails with controller.NewRequeueError(err, 0): retried with the error backoff
		{Header: "# engine=faults nr=0 q=1 conc=1 hook=0 task=0 trk=0 case=corpus-requeue-error-zero", Ops: []string{
			ln("q1/a", "errz", 0, 0), ln("q1/a", "error", 0, 1), ln("q1/a", "errz", 0, 2), ln("q1/a", "ok", 0, -1), ln("q1/a", "errz", 0, 0),
			ln("q1/m", "errz", 0, 0), ln("q1/m", "ok", 0, -1),
			"write id=a v=1", "start", "advance d=2000000000000", "write id=m v=2", "advance d=2000000000000", "write id=a v=3", "advance d=2000000000000",
			"converge v=9", "end",
		}},
		{Header: "# engine=faults nr=1 q=1 conc=1 hook=1 task=1 case=corpus-q-all", Ops: []string{
			ln("q1/a", "error", 0, 0), ln("q1/a", "panic", 0, 1), ln("q1/a", "errw", 0, 2), ln("q1/a", "ok", 0, -1), ln("q1/a", "error", 0, 0),
			ln("q1/m", "panic", 0, 0), ln("q1/m", "error", 0, 1), ln("q1/m", "ok", 0, -1),
			ln("q1/h", "error", 0, 0), ln("q1/h", "panic", 1000000000, 1), ln("q1/h", "error", 60000000001, 0), ln("q1/h", "error", 60000000000, 1), ln("q1/h", "panic", 0, 2),
			ln("t1", "error", 0, 0), ln("t1", "panic", 1000000, 1), ln("t1", "error", 0, 2), ln("t1", "ok", 0, -1),
			"write id=a v=1", "start", "write id=b v=2", "write id=a v=3", "write id=a v=4", "write id=b v=5", "advance d=100000000", "write id=m v=6",
			"advance d=2000000000000", "write id=m v=7", "write id=m v=8", "advance d=2000000000000", "write id=a v=9", "converge v=20", "end",
		}},
		{Header: "# engine=faults nr=2 q=1 conc=2 hook=1 task=1 case=corpus-watcherr", Ops: []string{
			ln("r1", "error", 0, 0), ln("q1/b", "panic", 0, 0), ln("q1/h", "error", 0, 0),
			"start", "write id=a v=1", "write id=b v=2", "watcherr", "write id=a v=3", "advance d=2000000000000", "write id=b v=4", "end",
		}},
		{Header: "# engine=faults nr=2 q=1 conc=1 hook=1 task=1 case=corpus-cancel-midbackoff", Ops: []string{
			ln("r1", "error", 0, 0), ln("r1", "error", 0, 1), ln("q1/a", "panic", 0, 0), ln("q1/h", "error", 0, 0), ln("t1", "error", 0, 0), ln("t1", "error", 0, 1),
			"start", "write id=a v=1", "advance d=100000000", "cancel", "write id=a v=3", "advance d=2000000000000", "write id=b v=4", "end",
		}},
	}
}

func (e *fltEngine) Notes() []string {
	if e.firstCrash == "" {
		return nil
	}

	return []string{fmt.Sprintf("%d child processes crashed or hung; first: %s", e.crashes, e.firstCrash)}
}

func (e *fltEngine) Exec(t *testing.T, c Case) []string {
	if os.Getenv("VERIF_FAULTS_INPROC") == "1" { // debugging aid: no isolation
		var out []string

		execFaults(t, c, func(s string) { out = append(out, s) })

		return out
	}

	if e.w == nil {
		w, err := fltStartWorker()
		if err != nil {
			panic(err)
		}

		e.w = w
	}

	w := e.w

	var in bytes.Buffer

	in.WriteString(c.Header + "\n")

	for _, op := range c.Ops {
		in.WriteString(op + "\n")
	}

	in.WriteString(".\n")

	if _, err := w.stdin.Write(in.Bytes()); err != nil {
		w.kill()
		e.w = nil

		panic(fmt.Sprintf("faults child not writable: %v", err))
	}

	out := make([]string, 0, len(c.Ops))
	done := false

	var hung atomic.Bool

	timer := time.AfterFunc(fltChildTimeout, func() {
		hung.Store(true)

		_ = w.cmd.Process.Kill()
	})

	for {
		line, err := w.stdout.ReadString('\n')
		line = strings.TrimRight(line, "\n")

		if strings.HasPrefix(line, "@ ") {
			out = append(out, line[2:])
		} else if line == "@@done" {
			done = true

			break
		}

		if err != nil {
			break
		}
	}

	timer.Stop()

	if done {
		return out
	}

	// the child died (or was killed) while executing op number len(out)
	_ = w.stdin.Close()
	_ = w.cmd.Wait()

	e.w = nil
	e.crashes++

	verdict := "HANG"
	if !hung.Load() {
		verdict = fltClassifyCrash(w.stderr.String())
	}

	if e.crashes == 1 {
		dump := w.stderr.String()
		if len(dump) > 4000 {
			dump = dump[:4000]
		}

		fmt.Fprintf(os.Stderr, "faults: child %s at op %d %q of %s\n%s\n", verdict, len(out), c.Ops[min(len(out), len(c.Ops)-1)], c.Header, dump)

		first, _, _ := strings.Cut(dump, "\n\n")
		e.firstCrash = fmt.Sprintf("%s at op %d %q of %q: %s", verdict, len(out), c.Ops[min(len(out), len(c.Ops)-1)], c.Header, strings.ReplaceAll(first, "\n", " / "))
	}

	if len(out) < len(c.Ops) {
		out = append(out, verdict)
	}

	for len(out) < len(c.Ops) {
		out = append(out, "dead")
	}

	return out
}
