package harness

import "testing"

// TestPersistChild is the entry point of the child processes of engine `persist`
// (real crashes: the parent SIGKILLs it, see engine_persist.go). Skipped unless
// VERIF_PERSIST_CHILD=1.
func TestPersistChild(t *testing.T) { perChild(t) }
