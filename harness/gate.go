package harness

import (
	"context"
	"fmt"
	"strings"
	"sync"
	"testing/synctest"

	"github.com/cosi-project/runtime/pkg/resource"
	"github.com/cosi-project/runtime/pkg/state"
)

// Gate proxy: a state.CoreState wrapper owned by the harness. Every store call and
// every watch delivery of the actor behind it blocks until the harness' schedule
// names that actor, which gives deterministic interleavings at store-operation
// granularity (DESIGN §2.4). It implements CoreState only (no Teardowner etc.), so
// state.WrapCore(gate) exercises the generic helpers of wrap.go.

type ActorGate struct {
	mu        sync.Mutex
	permitOp  chan struct{}
	permitEv  chan struct{}
	waitingOp bool
	waitingEv int
	last      string
	done      bool
	ret       string
	log       *[]string // shared, totally ordered log of performed actions (optional)
	name      string
}

func NewActorGate(name string, log *[]string) *ActorGate {
	return &ActorGate{permitOp: make(chan struct{}), permitEv: make(chan struct{}), name: name, log: log}
}

func (g *ActorGate) enterOp(ctx context.Context) bool {
	g.mu.Lock()
	g.waitingOp = true
	g.mu.Unlock()

	defer func() {
		g.mu.Lock()
		g.waitingOp = false
		g.mu.Unlock()
	}()

	select {
	case <-g.permitOp:
		return true
	case <-ctx.Done():
		return false
	}
}

func (g *ActorGate) enterEv(ctx context.Context) bool {
	g.mu.Lock()
	g.waitingEv++
	g.mu.Unlock()

	defer func() {
		g.mu.Lock()
		g.waitingEv--
		g.mu.Unlock()
	}()

	select {
	case <-g.permitEv:
		return true
	case <-ctx.Done():
		return false
	}
}

func (g *ActorGate) record(s string) {
	g.mu.Lock()
	g.last = s

	if g.log != nil {
		*g.log = append(*g.log, g.name+" "+s)
	}
	g.mu.Unlock()
}

// Finish marks the actor's call as returned.
func (g *ActorGate) Finish(ret string) {
	g.mu.Lock()
	g.done, g.ret = true, ret
	g.mu.Unlock()
}

// Step lets the actor perform exactly one action; must be called inside the bubble.
func (g *ActorGate) Step() string {
	synctest.Wait()
	g.mu.Lock()
	done, wop, wev := g.done, g.waitingOp, g.waitingEv
	g.mu.Unlock()

	switch {
	case wop:
		g.permitOp <- struct{}{}
	case wev > 0:
		g.permitEv <- struct{}{}
	case done:
		return "finished"
	default:
		return "blocked"
	}

	synctest.Wait()
	g.mu.Lock()
	defer g.mu.Unlock()

	line := "did " + g.last
	if g.done && !done {
		line += " -> done " + g.ret
	}

	return line
}

type GatedState struct {
	inner state.CoreState
	g     *ActorGate
}

func NewGatedState(inner state.CoreState, g *ActorGate) *GatedState {
	return &GatedState{inner: inner, g: g}
}

var errGateCancelled = fmt.Errorf("gate: context cancelled")

func (s *GatedState) Get(ctx context.Context, ptr resource.Pointer, opts ...state.GetOption) (resource.Resource, error) { //nolint:ireturn
	if !s.g.enterOp(ctx) {
		return nil, errGateCancelled
	}

	r, err := s.inner.Get(ctx, ptr, opts...)
	if err != nil {
		s.g.record("get " + ErrLine(err, ptr.Namespace(), ptr.Type()))
	} else {
		s.g.record("get res " + ResStr(r))
	}

	return r, err
}

func (s *GatedState) List(ctx context.Context, kind resource.Kind, opts ...state.ListOption) (resource.List, error) {
	if !s.g.enterOp(ctx) {
		return resource.List{}, errGateCancelled
	}

	l, err := s.inner.List(ctx, kind, opts...)
	if err != nil {
		s.g.record("list " + ErrLine(err, kind.Namespace(), kind.Type()))
	} else {
		items := make([]string, 0, len(l.Items))
		for _, r := range l.Items {
			items = append(items, ResStr(r))
		}

		s.g.record("list items [" + strings.Join(items, ";") + "]")
	}

	return l, err
}

func (s *GatedState) Create(ctx context.Context, r resource.Resource, opts ...state.CreateOption) error {
	if !s.g.enterOp(ctx) {
		return errGateCancelled
	}

	err := s.inner.Create(ctx, r, opts...)
	if err != nil {
		s.g.record("create " + ErrLine(err, r.Metadata().Namespace(), r.Metadata().Type()))
	} else {
		s.g.record("create ok " + ResStr(r))
	}

	return err
}

func (s *GatedState) Update(ctx context.Context, r resource.Resource, opts ...state.UpdateOption) error {
	if !s.g.enterOp(ctx) {
		return errGateCancelled
	}

	err := s.inner.Update(ctx, r, opts...)
	if err != nil {
		s.g.record("update " + ErrLine(err, r.Metadata().Namespace(), r.Metadata().Type()))
	} else {
		s.g.record("update ok " + ResStr(r))
	}

	return err
}

func (s *GatedState) Destroy(ctx context.Context, ptr resource.Pointer, opts ...state.DestroyOption) error {
	if !s.g.enterOp(ctx) {
		return errGateCancelled
	}

	err := s.inner.Destroy(ctx, ptr, opts...)
	if err != nil {
		s.g.record("destroy " + ErrLine(err, ptr.Namespace(), ptr.Type()))
	} else {
		s.g.record("destroy ok")
	}

	return err
}

func (s *GatedState) Watch(ctx context.Context, ptr resource.Pointer, ch chan<- state.Event, opts ...state.WatchOption) error {
	if !s.g.enterOp(ctx) {
		return errGateCancelled
	}

	in := make(chan state.Event)

	err := s.inner.Watch(ctx, ptr, in, opts...)
	if err != nil {
		s.g.record("watch err")

		return err
	}

	s.g.record("watch watchok")

	go func() {
		for {
			var ev state.Event

			select {
			case <-ctx.Done():
				return
			case ev = <-in:
			}

			if !s.g.enterEv(ctx) {
				return
			}

			s.g.record("recv " + EvStr(ev))

			select {
			case ch <- ev:
			case <-ctx.Done():
				return
			}
		}
	}()

	return nil
}

func (s *GatedState) WatchKind(ctx context.Context, kind resource.Kind, ch chan<- state.Event, opts ...state.WatchKindOption) error {
	return s.inner.WatchKind(ctx, kind, ch, opts...)
}

func (s *GatedState) WatchKindAggregated(ctx context.Context, kind resource.Kind, ch chan<- []state.Event, opts ...state.WatchKindOption) error {
	return s.inner.WatchKindAggregated(ctx, kind, ch, opts...)
}
