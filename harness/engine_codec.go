package harness

import (
	"bytes"
	"crypto/aes"
	"crypto/cipher"
	crand "crypto/rand"
	"encoding/hex"
	"fmt"
	"os"
	"regexp"
	"slices"
	"sort"
	"strconv"
	"strings"
	"testing"
	"time"
	"unicode/utf8"

	"go.yaml.in/yaml/v4"

	"github.com/cosi-project/runtime/api/v1alpha1"
	"github.com/cosi-project/runtime/pkg/resource"
	"github.com/cosi-project/runtime/pkg/resource/protobuf"
	"github.com/cosi-project/runtime/pkg/state/impl/store"
	"github.com/cosi-project/runtime/pkg/state/impl/store/compression"
	"github.com/cosi-project/runtime/pkg/state/impl/store/encryption"
)

// engine codec (C18): every codec of a resource against Cosi.Model.Wire, both directions.
//
//	Go encoder → Go decoder            (`res=`; the property: unchanged)
//	Go encoder → Lean decoder          (`golean=`)
//	Lean encoder → Go decoder          (`leango=`)
//	arbitrary bytes → every Go decoder (`mal`, `ver`, `phase`, `tsparse`, `yamlnode`): never PANIC,
//	                                   accepted ⇒ re-encodes and decodes to itself; where the Lean
//	                                   model is precise the accept/reject decision and the value
//	                                   are compared as well
//	tampering / wrong key on an encrypted record (`tamper`)
//
// External primitives (zstd, AES-GCM) are parameters of the model: the harness runs the
// real ones and hands their results to the driver (`ztab`, `atab`, `cout`, `ct`).

// ----------------------------------------------------------------------------------------
// D4 SWITCH. `resource.ParseVersion` uses strconv.ParseInt while `Version.String` uses
// FormatUint: versions >= 2^63 marshal but never unmarshal, and ParseVersion("-1") yields
// 2^64-1. With the switch ON the generator includes versions >= 2^63 and negative version
// texts, and the check reports the defect as a VIOLATION (spec mode). Set
// VERIF_C18_D4=0 (or flip the constant) to leave that sub-stream out.
// ----------------------------------------------------------------------------------------
const codecD4StreamDefault = true

func codecD4Stream() bool {
	switch os.Getenv("VERIF_C18_D4") {
	case "0", "off", "false":
		return false
	case "1", "on", "true":
		return true
	}

	return codecD4StreamDefault
}

const codecResType = "CodecRes"

func init() {
	Register("codec", func() Engine { return &codecEngine{} })

	if err := protobuf.RegisterResource(codecResType, &cdcCRes{}); err != nil {
		panic(err)
	}
}

// cdcCRes is registered for codecResType: store/YAML decoders build it through the registry.
// Any other type decodes to *protobuf.Resource.
type cdcCRes struct {
	md   resource.Metadata
	spec cdcCSpec
}

type cdcCSpec struct {
	S string `yaml:"s"`
}

func (s *cdcCSpec) MarshalProto() ([]byte, error) { return []byte(s.S), nil }

func (r *cdcCRes) Metadata() *resource.Metadata { return &r.md }
func (r *cdcCRes) Spec() any                    { return &r.spec }
func (r *cdcCRes) DeepCopy() resource.Resource  { return &cdcCRes{md: r.md, spec: r.spec} } //nolint:ireturn

func (r *cdcCRes) UnmarshalProto(md *resource.Metadata, b []byte) error {
	r.md = *md
	r.spec.S = string(b)

	return nil
}

type codecEngine struct {
	excluded []string
}

func (*codecEngine) Name() string { return "codec" }

func (*codecEngine) Cases(thorough bool) int {
	if thorough {
		return 900
	}

	return 70
}

func (*codecEngine) Rule() string {
	return "random resources (strings: empty/ASCII/Unicode/control/YAML-special/invalid UTF-8/long; label+annotation maps; finalizer lists; versions undefined/0/small/2^63-1 (>=2^63 behind the D4 switch); both phases; timestamps incl. zero time, nanoseconds, far years) through protobuf, store marshaler, compression/encryption stacks around the size threshold, Metadata yaml.Node and YAML text, in both directions against the Lean model; plus malformed inputs (truncations, bit flips, random bytes, structured garbage) into every decoder and tampering of encrypted records. non-trivial = a case with at least one rejected input, at least one accepted round trip and at least 4 distinct op kinds; distinct by hash of the op lines"
}

func (*codecEngine) NonTrivial(c Case, out []string) bool {
	kinds := map[string]bool{}
	rej, acc := 0, 0

	for i, o := range out {
		if i < len(c.Ops) {
			kinds[opName(c.Ops[i])] = true
		}

		if strings.Contains(o, "res=err") {
			rej++
		}

		if strings.Contains(o, "res=ok:") {
			acc++
		}
	}

	return rej >= 1 && acc >= 1 && len(kinds) >= 4
}

func (e *codecEngine) ExcludedPoints() []string { return codecExcludedRuns() }

func (e *codecEngine) Notes() []string {
	return []string{
		fmt.Sprintf("D4 sub-stream (versions >= 2^63, negative version texts): %v (VERIF_C18_D4)", codecD4Stream()),
		"model precision: protobuf (Resource/Metadata/Spec/Timestamp incl. unknown fields, groups, truncated int32 field numbers, map-entry quirks), store stacks with harness-supplied zstd/AES-GCM results, version/phase text, RFC 3339 in the 20-byte UTC form, Metadata yaml.Node trees are compared exactly; YAML text, RFC 3339 with offsets/fractions, NewAnyFromProto and ResourceSpec.UnmarshalProto are `*` (panic-freedom and accept => stable only)",
	}
}

// codecExcludedRuns executes the real code once at every point the C18 domain excludes and
// records what it did (evidence `excluded_points`).
func codecExcludedRuns() []string {
	run := func(what string, f func() string) string {
		out, panicked := cdcGuard(f)
		if panicked {
			out = "PANIC " + out
		}

		return what + " => observed: " + out
	}

	sc := func(s string) *yaml.Node { return &yaml.Node{Kind: yaml.ScalarNode, Value: s} }

	return []string{
		run("finalizer list with duplicates [a,a] through the protobuf decoder (Finalizers is a set)", func() string {
			md, err := resource.NewMetadataFromProto(&v1alpha1.Metadata{Version: "1", Phase: "running", Finalizers: []string{"a", "a"}})
			if err != nil {
				return "error"
			}

			return fmt.Sprintf("accepted, finalizers=%q (duplicates dropped)", []string(*md.Finalizers()))
		}),
		run("Phase(7).String()", func() string { return resource.Phase(7).String() }),
		run("yaml.Node mapping with an odd number of children into Metadata.UnmarshalYAML (not producible by the YAML parser)", func() string {
			var md resource.Metadata

			if err := md.UnmarshalYAML(&yaml.Node{Kind: yaml.MappingNode, Content: []*yaml.Node{sc("namespace")}}); err != nil {
				return "error"
			}

			return "accepted"
		}),
		run("YAML text of metadata whose namespace is not valid UTF-8 (\\xff\\xfe)", func() string {
			md := resource.NewMetadata("\xff\xfe", "t", "i", resource.VersionUndefined)

			b, err := yaml.Marshal(&md)
			if err != nil {
				return "marshal error"
			}

			var md2 resource.Metadata

			if err := yaml.Unmarshal(b, &md2); err != nil {
				return "unmarshal error"
			}

			return fmt.Sprintf("round trip gives namespace %q", md2.Namespace())
		}),
		run("YAML text of a timestamp with nanoseconds (RFC 3339 layout has second resolution)", func() string {
			md := resource.NewMetadata("n", "t", "i", resource.VersionUndefined)
			md.SetCreated(time.Unix(946684800, 123456789).UTC())

			b, err := yaml.Marshal(&md)
			if err != nil {
				return "marshal error"
			}

			var md2 resource.Metadata

			if err := yaml.Unmarshal(b, &md2); err != nil {
				return "unmarshal error"
			}

			return "created comes back as " + cdcCanonTime(md2.Created())
		}),
		run("empty YAML document into protobuf.YAMLResource, then Resource() (accessor cdcGuard, not a decoder result)", func() string {
			var yr protobuf.YAMLResource

			if err := yaml.Unmarshal(nil, &yr); err != nil {
				return "error"
			}

			_ = yr.Resource()

			return "resource returned"
		}),
		"compression layers with different compressor IDs stacked directly on each other: only ZStd exists in the tree; proved counterexample Cosi.C18.stack_hetero_comp_counterexample",
	}
}

// ---------------------------------------------------------------------------------------
// canonical forms (same as Cosi.Driver.Codec.metaStr / resStr)

func cdcHx(s string) string { return hex.EncodeToString([]byte(s)) }

func cdcUnhex(s string) []byte {
	b, err := hex.DecodeString(s)
	if err != nil {
		panic("bad hex " + s)
	}

	return b
}

func cdcXlist(l []string) string {
	out := make([]string, len(l))
	for i, s := range l {
		out[i] = "x" + cdcHx(s)
	}

	return strings.Join(out, ",")
}

func cdcXmapSorted(m map[string]string) string {
	ks := make([]string, 0, len(m))
	for k := range m {
		ks = append(ks, k)
	}

	sort.Strings(ks)

	out := make([]string, len(ks))
	for i, k := range ks {
		out[i] = "x" + cdcHx(k) + ":x" + cdcHx(m[k])
	}

	return strings.Join(out, ",")
}

func cdcCanonVer(v resource.Version) string {
	if v.Equal(resource.VersionUndefined) {
		return "undefined"
	}

	return strconv.FormatUint(v.Value(), 10)
}

func cdcCanonPhase(p resource.Phase) string {
	switch p {
	case resource.PhaseRunning:
		return "running"
	case resource.PhaseTearingDown:
		return "tearingDown"
	}

	return fmt.Sprintf("phase(%d)", int(p))
}

func cdcCanonTime(t time.Time) string { return fmt.Sprintf("%d.%d", t.Unix(), t.Nanosecond()) }

func cdcCanonMeta(md *resource.Metadata) string {
	return fmt.Sprintf("ns:%s|typ:%s|id:%s|ver:%s|owner:%s|phase:%s|c:%s|u:%s|fins:%s|labels:%s|ann:%s",
		cdcHx(md.Namespace()), cdcHx(md.Type()), cdcHx(md.ID()), cdcCanonVer(md.Version()), cdcHx(md.Owner()), cdcCanonPhase(md.Phase()),
		cdcCanonTime(md.Created()), cdcCanonTime(md.Updated()), cdcXlist(*md.Finalizers()),
		cdcXmapSorted(md.Labels().Raw()), cdcXmapSorted(md.Annotations().Raw()))
}

func cdcCanonRes(r resource.Resource) string {
	var spec, yml string

	switch x := r.(type) {
	case *cdcCRes:
		spec = x.spec.S
	case *TRes: // other engines register the harness' generic resource for their types
		spec = x.spec.S
	case *protobuf.Resource:
		m, err := x.Marshal()
		if err != nil {
			return "marshal-error"
		}

		spec, yml = string(m.GetSpec().GetProtoSpec()), m.GetSpec().GetYamlSpec()
	default:
		return fmt.Sprintf("unexpected-type-%T", r)
	}

	return cdcCanonMeta(r.Metadata()) + fmt.Sprintf("|spec:%s|yaml:%s", cdcHx(spec), cdcHx(yml))
}

// ---------------------------------------------------------------------------------------
// building values from op lines

func cdcXitems(s string) []string {
	if s == "" {
		return nil
	}

	parts := strings.Split(s, ",")
	out := make([]string, len(parts))

	for i, p := range parts {
		out[i] = string(cdcUnhex(strings.TrimPrefix(p, "x")))
	}

	return out
}

func cdcXpairs(s string) [][2]string {
	if s == "" {
		return nil
	}

	var out [][2]string

	for _, kv := range strings.Split(s, ",") {
		k, v, _ := strings.Cut(kv, ":")
		out = append(out, [2]string{string(cdcUnhex(strings.TrimPrefix(k, "x"))), string(cdcUnhex(strings.TrimPrefix(v, "x")))})
	}

	return out
}

// cdcMkVersion builds a Version holding n through the public API. For n >= 2^63 the
// unchanged tree only reaches it through the signed alias ("-1" = 2^64-1).
func cdcMkVersion(s string) (resource.Version, bool) {
	if s == "undefined" {
		return resource.VersionUndefined, true
	}

	n, err := strconv.ParseUint(s, 10, 64)
	if err != nil {
		return resource.VersionUndefined, false
	}

	if v, err := resource.ParseVersion(strconv.FormatUint(n, 10)); err == nil && v.Value() == n {
		return v, true
	}

	if v, err := resource.ParseVersion(strconv.FormatInt(int64(n), 10)); err == nil && v.Value() == n {
		return v, true
	}

	return resource.VersionUndefined, false
}

func cdcI64(s string) int64 {
	n, _ := strconv.ParseInt(s, 10, 64)

	return n
}

func cdcBuildMeta(a Args) (resource.Metadata, bool) {
	ver, ok := cdcMkVersion(a["ver"])
	if !ok {
		return resource.Metadata{}, false
	}

	md := resource.NewMetadata(string(cdcUnhex(a["ns"])), string(cdcUnhex(a["typ"])), string(cdcUnhex(a["id"])), ver)

	if err := md.SetOwner(string(cdcUnhex(a["owner"]))); err != nil {
		return md, false
	}

	md.SetPhase(phaseOf(a["phase"]))
	md.SetCreated(time.Unix(cdcI64(a["cs"]), cdcI64(a["cn"])).UTC())
	md.SetUpdated(time.Unix(cdcI64(a["us"]), cdcI64(a["un"])).UTC())

	for _, f := range cdcXitems(a["fins"]) {
		md.Finalizers().Add(f)
	}

	for _, kv := range cdcXpairs(a["labels"]) {
		md.Labels().Set(kv[0], kv[1])
	}

	for _, kv := range cdcXpairs(a["ann"]) {
		md.Annotations().Set(kv[0], kv[1])
	}

	return md, true
}

// cdcBuildRes: *cdcCRes, or (when a YAML spec text is given) a *protobuf.Resource carrying it.
func cdcBuildRes(a Args) (resource.Resource, bool) {
	md, ok := cdcBuildMeta(a)
	if !ok {
		return nil, false
	}

	r := &cdcCRes{md: md, spec: cdcCSpec{S: string(cdcUnhex(a["spec"]))}}

	if a["yaml"] == "" {
		return r, true
	}

	pr, err := protobuf.FromResource(r, protobuf.WithoutYAML())
	if err != nil {
		return nil, false
	}

	m, err := pr.Marshal()
	if err != nil {
		return nil, false
	}

	m.Spec.YamlSpec = string(cdcUnhex(a["yaml"]))

	pr2, err := protobuf.Unmarshal(m)
	if err != nil {
		return nil, false
	}

	return pr2, true
}

// ---------------------------------------------------------------------------------------
// codec stacks, instrumented with recorders (the framing is always the real code's)

var (
	codecKey      = bytes.Repeat([]byte{0x42}, 32)
	codecWrongKey = append(bytes.Repeat([]byte{0x42}, 31), 0x43)
)

func cdcNewCipher(key []byte) *encryption.Cipher {
	return encryption.NewCipher(encryption.KeyProviderFunc(func() ([]byte, error) { return key, nil }))
}

func cdcGcm(key []byte) cipher.AEAD {
	block, err := aes.NewCipher(key)
	if err != nil {
		panic(err)
	}

	a, err := cipher.NewGCM(block)
	if err != nil {
		panic(err)
	}

	return a
}

// cdcPbMarshaler is the plain protobuf path: FromResource + Marshal + ProtoMarshal / ProtoUnmarshal + Unmarshal.
type cdcPbMarshaler struct{}

func (cdcPbMarshaler) MarshalResource(r resource.Resource) ([]byte, error) {
	pr, err := protobuf.FromResource(r, protobuf.WithoutYAML())
	if err != nil {
		return nil, err
	}

	m, err := pr.Marshal()
	if err != nil {
		return nil, err
	}

	return protobuf.ProtoMarshal(m)
}

func (cdcPbMarshaler) UnmarshalResource(b []byte) (resource.Resource, error) { //nolint:ireturn
	var m v1alpha1.Resource

	if err := protobuf.ProtoUnmarshal(b, &m); err != nil {
		return nil, err
	}

	return protobuf.Unmarshal(&m)
}

// cdcConstMarshaler returns fixed bytes: lets the harness obtain one layer's real framing of given bytes.
type cdcConstMarshaler struct{ b []byte }

func (c cdcConstMarshaler) MarshalResource(resource.Resource) ([]byte, error) { return c.b, nil }

func (c cdcConstMarshaler) UnmarshalResource([]byte) (resource.Resource, error) { //nolint:ireturn
	return nil, fmt.Errorf("const")
}

type cdcTee struct {
	under store.Marshaler
	ins   [][]byte // arguments of UnmarshalResource
	outs  [][]byte // results of MarshalResource
}

func (t *cdcTee) MarshalResource(r resource.Resource) ([]byte, error) {
	b, err := t.under.MarshalResource(r)
	if err == nil {
		t.outs = append(t.outs, bytes.Clone(b))
	}

	return b, err
}

func (t *cdcTee) UnmarshalResource(b []byte) (resource.Resource, error) { //nolint:ireturn
	t.ins = append(t.ins, bytes.Clone(b))

	return t.under.UnmarshalResource(b)
}

type cdcRecCompressor struct {
	compression.Compressor
	compressCalls int
	dec           [][2][]byte // Decompress argument → result (nil result = error)
}

func (c *cdcRecCompressor) Compress(prefix, data []byte) ([]byte, error) {
	c.compressCalls++

	return c.Compressor.Compress(prefix, data)
}

func (c *cdcRecCompressor) Decompress(data []byte) ([]byte, error) {
	out, err := c.Compressor.Decompress(data)
	if err != nil {
		c.dec = append(c.dec, [2][]byte{bytes.Clone(data), nil})
	} else {
		if out == nil {
			out = []byte{}
		}

		c.dec = append(c.dec, [2][]byte{bytes.Clone(data), bytes.Clone(out)})
	}

	return out, err
}

type cdcLayerInfo struct {
	kind  string // "c" or "e"
	min   int
	comp  *cdcRecCompressor
	above *cdcTee // sees the bytes this layer produces / consumes
}

type codecStack struct {
	top    store.Marshaler
	base   *cdcTee         // around the base marshaler
	layers []*cdcLayerInfo // outermost first
}

var cdcZstdShared = compression.ZStd()

// cdcBuildStack builds base + wrappers (outermost first in `wraps`). Relative thresholds
// (`c@d`) are resolved against the real inner encoding of r.
func cdcBuildStack(spec string, r resource.Resource, key []byte) (*codecStack, []string) {
	parts := strings.Split(spec, ",")

	var base store.Marshaler = store.ProtobufMarshaler{}
	if parts[0] == "pb" {
		base = cdcPbMarshaler{}
	}

	st := &codecStack{base: &cdcTee{under: base}}
	cur := store.Marshaler(st.base)
	resolved := []string{parts[0]}

	var layers []*cdcLayerInfo

	wraps := parts[1:]
	res := make([]string, len(wraps))

	for i := len(wraps) - 1; i >= 0; i-- {
		w := wraps[i]
		li := &cdcLayerInfo{}

		if w == "e" {
			li.kind = "e"
			cur = encryption.NewMarshaler(cur, cdcNewCipher(key))
			res[i] = "e"
		} else {
			li.kind = "c"
			body := w[1:]

			if strings.HasPrefix(body, "@") {
				d, _ := strconv.Atoi(body[1:])
				n := 0

				if r != nil {
					if b, err := cur.MarshalResource(r); err == nil {
						n = len(b)
					}
				}

				li.min = max(n+d-1, 0)
			} else {
				li.min, _ = strconv.Atoi(body)
			}

			li.comp = &cdcRecCompressor{Compressor: cdcZstdShared}
			cur = compression.NewMarshaler(cur, li.comp, li.min)
			res[i] = fmt.Sprintf("c%d", li.min)
		}

		t := &cdcTee{under: cur}
		li.above = t
		cur = t
		layers = append([]*cdcLayerInfo{li}, layers...)
	}

	st.top = cur
	st.layers = layers

	return st, append(resolved, res...)
}

func (st *codecStack) reset() {
	st.base.ins, st.base.outs = nil, nil

	for _, l := range st.layers {
		l.above.ins, l.above.outs = nil, nil
		if l.comp != nil {
			l.comp.dec, l.comp.compressCalls = nil, 0
		}
	}
}

// tables: the primitive results observed during the last UnmarshalResource.
func (st *codecStack) tables(key []byte) (ztab, atab string) {
	var zs, as []string

	a := cdcGcm(key)

	for _, l := range st.layers {
		if l.comp != nil {
			for _, d := range l.comp.dec {
				if d[1] != nil {
					zs = append(zs, "x"+hex.EncodeToString(d[0])+":x"+hex.EncodeToString(d[1]))
				}
			}
		}

		if l.kind == "e" {
			// the AEAD primitive on every record this layer was asked to open: nonce||ciphertext → plaintext
			for _, in := range l.above.ins {
				if len(in) < 1+a.NonceSize() {
					continue
				}

				nc := in[1:]

				if pt, err := a.Open(nil, nc[:a.NonceSize()], nc[a.NonceSize():], nil); err == nil {
					as = append(as, "x"+hex.EncodeToString(nc)+":x"+hex.EncodeToString(pt))
				}
			}
		}
	}

	return strings.Join(zs, ","), strings.Join(as, ",")
}

func (st *codecStack) kinds() string {
	ks := make([]string, len(st.layers))
	for i, l := range st.layers {
		ks[i] = l.kind
	}

	return strings.Join(ks, ",")
}

// cdcDetReader makes the nonces of Cipher.Encrypt deterministic (crypto/rand.Reader is replaced per op).
type cdcDetReader struct{ r *Rand }

func (d cdcDetReader) Read(p []byte) (int, error) {
	for i := range p {
		p[i] = byte(d.r.Next())
	}

	return len(p), nil
}

func cdcWithDetRand(seed uint64, f func()) {
	old := crand.Reader
	crand.Reader = cdcDetReader{NewRand(seed)}

	defer func() { crand.Reader = old }()

	f()
}

// ---------------------------------------------------------------------------------------
// coroutine plumbing: op handlers may ask the Lean driver; questions of one round are batched

type cdcOpCtx struct {
	ask func(line string) string
}

type cdcCoEvent struct {
	question string
	done     bool
	result   string
}

func cdcRunOps(ops []string, handler func(ctx *cdcOpCtx, line string) string) []string {
	n := len(ops)
	out := make([]string, n)
	events := make([]chan cdcCoEvent, n)
	answers := make([]chan string, n)
	live := make([]bool, n)

	for i := range ops {
		events[i] = make(chan cdcCoEvent)
		answers[i] = make(chan string)
		live[i] = true

		go func(i int) {
			<-answers[i] // start signal

			res := func() (res string) {
				defer func() {
					if r := recover(); r != nil {
						res = fmt.Sprintf("PANIC harness-op: %v", r)
					}
				}()

				ctx := &cdcOpCtx{ask: func(q string) string {
					events[i] <- cdcCoEvent{question: q}

					return <-answers[i]
				}}

				return handler(ctx, ops[i])
			}()

			events[i] <- cdcCoEvent{done: true, result: res}
		}(i)
	}

	pending := make([]string, n) // answer to deliver at the next resume ("" = start)

	for {
		var (
			qs  []string
			idx []int
		)

		any := false

		for i := 0; i < n; i++ {
			if !live[i] {
				continue
			}

			any = true
			answers[i] <- pending[i] // resume; exactly one handler runs at a time
			ev := <-events[i]

			if ev.done {
				out[i] = ev.result
				live[i] = false

				continue
			}

			qs = append(qs, ev.question)
			idx = append(idx, i)
		}

		if !any {
			break
		}

		if len(qs) == 0 {
			continue
		}

		ans, err := runDriver("codec", false, []Case{{Header: "# engine=codec aux=1", Ops: qs}})
		for k, i := range idx {
			if err != nil || len(ans) != 1 || k >= len(ans[0]) {
				pending[i] = "driver-error"
			} else {
				pending[i] = ans[0][k]
			}
		}
	}

	return out
}

func (e *codecEngine) Exec(_ *testing.T, c Case) []string {
	out := cdcRunOps(c.Ops, cdcExecCodecOp)

	// debugging aid: VERIF_CODEC_DUMP=<file> appends every op line with the implementation's answer
	if p := os.Getenv("VERIF_CODEC_DUMP"); p != "" {
		if f, err := os.OpenFile(p, os.O_APPEND|os.O_CREATE|os.O_WRONLY, 0o644); err == nil {
			for i, op := range c.Ops {
				fmt.Fprintf(f, "%s\n  => %s\n", op, out[i])
			}

			f.Close()
		}
	}

	return out
}

func cdcGuard(f func() string) (out string, panicked bool) {
	defer func() {
		if r := recover(); r != nil {
			out, panicked = fmt.Sprintf("%v", r), true
		}
	}()

	return f(), false
}

func cdcFieldsOf(line string) string {
	_, rest, _ := strings.Cut(line, " ")

	return rest
}

func cdcCmpStr(got, want string) string {
	if got == want {
		return "agree"
	}

	return "DIFF:" + got
}

func cdcOpSeed(a Args) uint64 {
	n, _ := strconv.ParseUint(a["seed"], 10, 64)

	return n
}

func cdcExecCodecOp(ctx *cdcOpCtx, line string) string {
	op, a := ParseLine(line)

	switch op {
	case "rt":
		return cdcExecRT(ctx, line, a)
	case "mal":
		return cdcExecMal(a)
	case "tamper":
		return cdcExecTamper(a)
	case "ver":
		out, p := cdcGuard(func() string {
			v, err := resource.ParseVersion(string(cdcUnhex(a["s"])))
			if err != nil {
				return "ver res=err stable=ok"
			}

			v2, err := resource.ParseVersion(v.String())
			if err != nil || !v2.Equal(v) {
				return fmt.Sprintf("ver res=ok:%s stable=VIOLATED", cdcCanonVer(v))
			}

			return fmt.Sprintf("ver res=ok:%s stable=ok", cdcCanonVer(v))
		})
		if p {
			return "PANIC " + out
		}

		return out
	case "rtbig":
		// a large resource (megabytes) through the real compression (+ encryption) wrappers and back: no size is
		// special — whatever was stored and acknowledged must decode again
		out, p := cdcGuard(func() string {
			n := a.Int("size")
			rr := NewRand(uint64(a.Int("seed")))
			spec := make([]byte, n)

			for i := range spec {
				if i%97 == 0 || a["noise"] == "1" {
					spec[i] = byte(rr.Next())
				} else {
					spec[i] = byte('a' + i%7)
				}
			}

			md := resource.NewMetadata("n", codecResType, "big", resource.VersionUndefined.Next())
			r := &cdcCRes{md: md, spec: cdcCSpec{S: string(spec)}}

			var m store.Marshaler = compression.NewMarshaler(store.ProtobufMarshaler{}, compression.ZStd(), 1024)
			if a["stack"] == "ce" {
				m = compression.NewMarshaler(encryption.NewMarshaler(store.ProtobufMarshaler{}, cdcNewCipher(codecKey)), compression.ZStd(), 1024)
			}

			enc, err := m.MarshalResource(r)
			if err != nil {
				return "rtbig res=encode-error"
			}

			back, err := m.UnmarshalResource(enc)
			if err != nil {
				return "rtbig res=decode-error"
			}

			if cdcCanonRes(back) != cdcCanonRes(r) {
				return "rtbig res=changed"
			}

			return "rtbig res=ok"
		})
		if p {
			return "PANIC " + out
		}

		return out
	case "verrt":
		out, p := cdcGuard(func() string {
			v, ok := cdcMkVersion(a["v"])
			if !ok {
				return "verrt text=- res=unconstructible"
			}

			s := v.String()

			v2, err := resource.ParseVersion(s)
			if err != nil {
				return fmt.Sprintf("verrt text=%s res=err", cdcHx(s))
			}

			return fmt.Sprintf("verrt text=%s res=ok:%s", cdcHx(s), cdcCanonVer(v2))
		})
		if p {
			return "PANIC " + out
		}

		return out
	case "phase":
		out, p := cdcGuard(func() string {
			ph, err := resource.ParsePhase(string(cdcUnhex(a["s"])))
			if err != nil {
				return "phase res=err"
			}

			return "phase res=ok:" + cdcCanonPhase(ph)
		})
		if p {
			return "PANIC " + out
		}

		return out
	case "phasert":
		out, p := cdcGuard(func() string {
			s := phaseOf(a["p"]).String()

			ph, err := resource.ParsePhase(s)
			if err != nil {
				return fmt.Sprintf("phasert text=%s res=err", cdcHx(s))
			}

			return fmt.Sprintf("phasert text=%s res=ok:%s", cdcHx(s), cdcCanonPhase(ph))
		})
		if p {
			return "PANIC " + out
		}

		return out
	case "tsrt":
		s := time.Unix(cdcI64(a["sec"]), 0).UTC().Format(time.RFC3339)

		t, err := time.Parse(time.RFC3339, s)
		if err != nil {
			return fmt.Sprintf("tsrt text=%s res=err", cdcHx(s))
		}

		return fmt.Sprintf("tsrt text=%s res=ok:%s", cdcHx(s), cdcCanonTime(t))
	case "tsparse":
		t, err := time.Parse(time.RFC3339, string(cdcUnhex(a["s"])))
		if err != nil {
			return "tsparse res=err"
		}

		return "tsparse res=ok:" + cdcCanonTime(t)
	case "yamlmd":
		return cdcExecYamlMD(ctx, line, a)
	case "yamlnode":
		out, p := cdcGuard(func() string {
			n, ok := cdcParseTree(a["tree"])
			if !ok {
				return "yamlnode panic=no res=bad-tree"
			}

			var md resource.Metadata

			if err := md.UnmarshalYAML(n); err != nil {
				return "yamlnode panic=no res=err"
			}

			return "yamlnode panic=no res=ok:" + cdcCanonMeta(&md)
		})
		if p {
			return "yamlnode panic=yes res=-"
		}

		return out
	case "yamlres":
		out, p := cdcGuard(func() string {
			r, ok := cdcBuildRes(a)
			if !ok {
				return "yamlres res=unconstructible"
			}

			in, err := resource.MarshalYAML(r)
			if err != nil {
				return "yamlres res=err"
			}

			text, err := yaml.Marshal(in)
			if err != nil {
				return "yamlres res=err"
			}

			var yr protobuf.YAMLResource

			if err := yaml.Unmarshal(text, &yr); err != nil {
				return "yamlres res=err"
			}

			return "yamlres res=ok:" + cdcCanonRes(yr.Resource())
		})
		if p {
			return "PANIC " + out
		}

		return out
	}

	return "bad-op"
}

// ---------------------------------------------------------------------------------------
var cdcNanosRe = regexp.MustCompile(`\|(c|u):(-?\d+)\.\d+`)

// cdcDropNanos removes the sub-second part of the created / updated fields of a canonical line.
func cdcDropNanos(s string) string { return cdcNanosRe.ReplaceAllString(s, "|$1:$2") }

// rt: one resource through one codec stack, three ways

func cdcExecRT(ctx *cdcOpCtx, line string, a Args) string {
	var (
		st   *codecStack
		r    resource.Resource
		enc  []byte
		c1   string
		z    = "-"
		ztab string
		atab string
	)

	out, panicked := cdcGuard(func() string {
		var ok bool

		r, ok = cdcBuildRes(a)
		if !ok {
			return "unconstructible"
		}

		var resolved []string

		cdcWithDetRand(cdcOpSeed(a), func() {
			st, resolved = cdcBuildStack(a["stack"], r, codecKey)
			_ = resolved
			st.reset()

			var err error

			enc, err = st.top.MarshalResource(r)
			if err != nil {
				c1 = "encode-error"

				return
			}

			if len(st.layers) > 0 && st.layers[0].kind == "c" {
				inner := false

				for _, l := range st.layers[1:] {
					if l.kind == "c" {
						inner = true
					}
				}

				if !inner {
					z = strconv.Itoa(min(st.layers[0].comp.compressCalls, 1))
				}
			}

			// a record handed out by MarshalResource must stay valid: the same marshaler encodes another resource of
			// about the same size (as the next Put of a backing store does) and the first record must not change
			saved := slices.Clone(enc)
			r2 := r.DeepCopy()
			r2.Metadata().Annotations().Set("clobber", "another record")

			if _, err := st.top.MarshalResource(r2); err == nil && !bytes.Equal(enc, saved) {
				c1 = "CLOBBERED-BY-NEXT-MARSHAL"

				return
			}

			st.reset()

			back, err := st.top.UnmarshalResource(enc)
			if err != nil {
				c1 = "err"
			} else {
				c1 = "ok:" + cdcCanonRes(back)
			}

			ztab, atab = st.tables(codecKey)
		})

		return ""
	})
	if panicked {
		return "PANIC " + out
	}

	if out != "" {
		return "rt res=" + out + " golean=- leango=- z=-"
	}

	if c1 == "encode-error" {
		return "rt res=encode-error golean=- leango=- z=-"
	}

	// Go encoder → Lean decoder
	var golean string
	if len(st.layers) == 0 {
		golean = cdcCmpStr(ctx.ask("dec-res hex="+hex.EncodeToString(enc)), c1)
	} else {
		golean = cdcCmpStr(ctx.ask(fmt.Sprintf("dec-stack stack=%s id=%d ztab=%s atab=%s hex=%s", st.kinds(), cdcZstdShared.ID(), ztab, atab, hex.EncodeToString(enc))), c1)
	}

	// Lean encoder → Go decoder, layer by layer with the real primitives
	cur, ok := strings.CutPrefix(ctx.ask("enc-res "+cdcFieldsOf(line)), "hex=")
	if !ok {
		return fmt.Sprintf("rt res=%s golean=%s leango=DIFF:lean-encode-failed z=%s", c1, golean, z)
	}

	nonceRand := NewRand(cdcOpSeed(a) ^ 0x5bd1e995)

	for i := len(st.layers) - 1; i >= 0 && ok; i-- {
		l := st.layers[i]
		data := cdcUnhex(cur)

		if l.kind == "c" {
			// the real layer's output when it does compress (minSize 0)
			cout, err := compression.NewMarshaler(cdcConstMarshaler{data}, cdcZstdShared, 0).MarshalResource(nil)
			if err != nil {
				return "rt res=" + c1 + " golean=" + golean + " leango=DIFF:compress-error z=" + z
			}

			cur, ok = strings.CutPrefix(ctx.ask(fmt.Sprintf("layer-enc kind=c min=%d id=%d data=%s cout=%s", l.min, cdcZstdShared.ID(), cur, hex.EncodeToString(cout))), "hex=")
		} else {
			g := cdcGcm(codecKey)
			nonce := make([]byte, g.NonceSize())

			for j := range nonce {
				nonce[j] = byte(nonceRand.Next())
			}

			ct := g.Seal(nil, nonce, data, nil)
			cur, ok = strings.CutPrefix(ctx.ask(fmt.Sprintf("layer-enc kind=e nonce=%s data=%s ct=%s", hex.EncodeToString(nonce), cur, hex.EncodeToString(ct))), "hex=")
		}
	}

	leango := "DIFF:lean-layer-failed"

	if ok {
		res, panicked := cdcGuard(func() string {
			back, err := st.top.UnmarshalResource(cdcUnhex(cur))
			if err != nil {
				return "err"
			}

			return "ok:" + cdcCanonRes(back)
		})
		if panicked {
			return "PANIC " + res
		}

		leango = cdcCmpStr(res, c1)
	}

	return fmt.Sprintf("rt res=%s golean=%s leango=%s z=%s", c1, golean, leango, z)
}

// ---------------------------------------------------------------------------------------
// mal: arbitrary bytes into a decoder

func cdcStableRes(m store.Marshaler, r resource.Resource) string {
	want := cdcCanonRes(r)

	b, err := m.MarshalResource(r)
	if err != nil {
		return "VIOLATED:reencode-error"
	}

	r2, err := m.UnmarshalResource(b)
	if err != nil {
		return "VIOLATED:redecode-error"
	}

	if cdcCanonRes(r2) != want {
		return "VIOLATED:changed"
	}

	return "ok"
}

func cdcExecMal(a Args) string {
	b := cdcUnhex(a["hex"])
	target := a["target"]

	out, panicked := cdcGuard(func() string {
		switch target {
		case "pb", "store":
			var m store.Marshaler = cdcPbMarshaler{}
			if target == "store" {
				m = store.ProtobufMarshaler{}
			}

			r, err := m.UnmarshalResource(b)
			if err != nil {
				return "res=err stable=ok"
			}

			return fmt.Sprintf("res=ok:%s stable=%s", cdcCanonRes(r), cdcStableRes(m, r))
		case "meta":
			var m v1alpha1.Metadata

			if err := m.UnmarshalVT(b); err != nil {
				return "res=err stable=ok"
			}

			md, err := resource.NewMetadataFromProto(&m)
			if err != nil {
				return "res=err stable=ok"
			}

			r := &cdcCRes{md: md}
			st := "ok"

			if enc, err := (cdcPbMarshaler{}).MarshalResource(r); err != nil {
				st = "VIOLATED:reencode-error"
			} else if r2, err := (cdcPbMarshaler{}).UnmarshalResource(enc); err != nil {
				st = "VIOLATED:redecode-error"
			} else if cdcCanonMeta(r2.Metadata()) != cdcCanonMeta(&md) {
				st = "VIOLATED:changed"
			}

			return fmt.Sprintf("res=ok:%s stable=%s", cdcCanonMeta(&md), st)
		case "stack":
			st, _ := cdcBuildStack("store,"+a["stack"], nil, codecKey)

			r, err := st.top.UnmarshalResource(b)
			if err != nil {
				return "res=err stable=ok"
			}

			res := ""

			cdcWithDetRand(cdcOpSeed(a), func() { res = fmt.Sprintf("res=ok:%s stable=%s", cdcCanonRes(r), cdcStableRes(st.top, r)) })

			return res
		case "decrypt":
			pt, err := cdcNewCipher(codecKey).Decrypt(b)
			if err != nil {
				return "res=err stable=ok"
			}

			return fmt.Sprintf("res=ok:%s stable=ok", hex.EncodeToString(pt))
		case "yamlres":
			var yr protobuf.YAMLResource

			if err := yaml.Unmarshal(b, &yr); err != nil {
				return "res=err stable=ok"
			}

			// an empty / null document decodes without error and without calling UnmarshalYAML;
			// the accessor then panics by its documented cdcGuard ("resource is not set")
			r, unset := cdcYamlResourceOf(&yr)
			if unset {
				return "res=unset stable=ok"
			}

			want := cdcCanonRes(r)

			in, err := resource.MarshalYAML(r)
			if err != nil {
				return "res=ok:" + want + " stable=VIOLATED:reencode-error"
			}

			text, err := yaml.Marshal(in)
			if err != nil {
				return "res=ok:" + want + " stable=VIOLATED:reencode-error"
			}

			var yr2 protobuf.YAMLResource

			if err := yaml.Unmarshal(text, &yr2); err != nil {
				return "res=ok:" + want + " stable=VIOLATED:redecode-error:" + cdcHx(string(text))
			}

			// the YAML form carries timestamps with second resolution (metadata.go: Format(time.RFC3339)) while the
			// parser also accepts fractions: stability is demanded up to the sub-second part
			if got := cdcCanonRes(yr2.Resource()); cdcDropNanos(got) != cdcDropNanos(want) {
				return "res=ok:" + want + " stable=VIOLATED:changed:" + got
			}

			return "res=ok:" + want + " stable=ok"
		case "yamlmd":
			var md resource.Metadata

			if err := yaml.Unmarshal(b, &md); err != nil {
				return "res=err stable=ok"
			}

			want := cdcCanonMeta(&md)

			text, err := yaml.Marshal(&md)
			if err != nil {
				return "res=ok:" + want + " stable=VIOLATED:reencode-error"
			}

			var md2 resource.Metadata

			if err := yaml.Unmarshal(text, &md2); err != nil {
				return "res=ok:" + want + " stable=VIOLATED:redecode-error:" + cdcHx(string(text))
			}

			if got := cdcCanonMeta(&md2); cdcDropNanos(got) != cdcDropNanos(want) {
				return "res=ok:" + want + " stable=VIOLATED:changed:" + got
			}

			return "res=ok:" + want + " stable=ok"
		case "any":
			// arbitrary bytes as protobuf Resource whose spec carries YAML text: resource.NewAnyFromProto
			var m v1alpha1.Resource

			if err := protobuf.ProtoUnmarshal(b, &m); err != nil {
				return "res=err stable=ok"
			}

			if m.GetMetadata() == nil || m.GetSpec() == nil {
				return "res=err stable=ok"
			}

			an, err := resource.NewAnyFromProto(m.GetMetadata(), cdcAnySpecProto{m.GetSpec()})
			if err != nil {
				return "res=err stable=ok"
			}

			_ = an.Value()

			return "res=ok:" + cdcCanonMeta(an.Metadata()) + " stable=ok"
		case "anyyaml":
			// arbitrary bytes as the YAML spec text of an Any
			md := v1alpha1.Metadata{Version: "1", Phase: "running"}

			an, err := resource.NewAnyFromProto(&md, cdcRawYAML(b))
			if err != nil {
				return "res=err stable=ok"
			}

			if _, err := yaml.Marshal(an.Spec()); err != nil {
				return "res=ok:any stable=ok"
			}

			return "res=ok:any stable=ok"
		case "rspec":
			var s protobuf.ResourceSpec[v1alpha1.Metadata, *v1alpha1.Metadata]

			if err := s.UnmarshalProto(b); err != nil {
				return "res=err stable=ok"
			}

			enc, err := s.MarshalProto()
			if err != nil {
				return "res=ok:rspec stable=VIOLATED:reencode-error"
			}

			var s2 protobuf.ResourceSpec[v1alpha1.Metadata, *v1alpha1.Metadata]

			if err := s2.UnmarshalProto(enc); err != nil || !s.Equal(&s2) {
				return "res=ok:rspec stable=VIOLATED:changed"
			}

			// decoding into a destination that was used before (a variable reused across a list of resources) must
			// give the same value as decoding into a fresh one: nothing of the previous content may survive
			s3 := protobuf.NewResourceSpec(&v1alpha1.Metadata{
				Namespace: "stale-ns", Type: "stale-type", Id: "stale-id", Version: "77", Owner: "stale-owner", Phase: "tearingDown",
				Finalizers: []string{"stale-f1", "stale-f2"}, Labels: map[string]string{"stale": "label"}, Annotations: map[string]string{"stale": "annotation"},
			})

			if err := s3.UnmarshalProto(b); err != nil || !s.Equal(&s3) {
				return "res=ok:rspec stable=VIOLATED:reused-destination"
			}

			return "res=ok:rspec stable=ok"
		}

		return "res=bad-target stable=ok"
	})
	if panicked {
		return "mal panic=yes res=" + strings.ReplaceAll(out, " ", "_") + " stable=-"
	}

	return "mal panic=no " + out
}

func cdcYamlResourceOf(yr *protobuf.YAMLResource) (r resource.Resource, unset bool) { //nolint:ireturn
	defer func() {
		if p := recover(); p != nil {
			if fmt.Sprint(p) != "resource is not set" {
				panic(p)
			}

			unset = true
		}
	}()

	return yr.Resource(), false
}

type cdcAnySpecProto struct{ s *v1alpha1.Spec }

func (a cdcAnySpecProto) GetYaml() []byte { return []byte(a.s.GetYamlSpec()) }

type cdcRawYAML []byte

func (r cdcRawYAML) GetYaml() []byte { return r }

// ---------------------------------------------------------------------------------------
// tamper: every byte position of an encrypted record, wrong key, short, bad version

func cdcExecTamper(a Args) string {
	out, panicked := cdcGuard(func() string {
		r, ok := cdcBuildRes(a)
		if !ok {
			return "tamper unconstructible"
		}

		var (
			st  *codecStack
			enc []byte
			err error
		)

		cdcWithDetRand(cdcOpSeed(a), func() {
			st, _ = cdcBuildStack(a["stack"], r, codecKey)
			enc, err = st.top.MarshalResource(r)
		})

		if err != nil {
			return "tamper encode-error"
		}

		if _, err := st.top.UnmarshalResource(enc); err != nil {
			return "tamper untampered-rejected"
		}

		rng := NewRand(cdcOpSeed(a) + 17)
		accepted := 0
		first := ""

		orig := cdcCanonRes(r)
		encOutermost := len(st.layers) > 0 && st.layers[0].kind == "e"

		// an accepted modified record is a violation when encryption is the outermost layer
		// (every byte is covered by the AEAD framing), and otherwise when it yields a
		// different resource (a benign change inside an outer zstd frame is not tampering
		// "producing a different resource")
		try := func(b []byte, what string) bool {
			if back, err := st.top.UnmarshalResource(b); err == nil && (encOutermost || cdcCanonRes(back) != orig) {
				accepted++

				if first == "" {
					first = what
				}

				return true
			}

			return false
		}

		for i := range enc {
			for _, mask := range []byte{0x01, 0x80, byte(rng.Intn(255) + 1)} {
				b := bytes.Clone(enc)
				b[i] ^= mask
				try(b, fmt.Sprintf("pos%d^%02x", i, mask))
			}
		}

		acc0 := accepted

		short := "rejected"

		for n := 0; n < len(enc); n++ {
			if try(enc[:n], fmt.Sprintf("prefix%d", n)) {
				short = "ACCEPTED"
			}
		}

		badver := "rejected"

		for _, v := range []byte{0, 2, 3, 0x7f, 0x80, 0xff} {
			b := bytes.Clone(enc)
			if b[0] == v {
				continue
			}

			b[0] = v

			if try(b, fmt.Sprintf("ver%d", v)) {
				badver = "ACCEPTED"
			}
		}

		extended := "rejected"

		for _, v := range []byte{0, 1, 0xff} {
			if try(append(bytes.Clone(enc), v), "extended") {
				extended = "ACCEPTED"
			}
		}

		wrong := "rejected"

		stWrong, _ := cdcBuildStack(a["stack"], nil, codecWrongKey)
		// relative thresholds do not matter for decoding
		if _, err := stWrong.top.UnmarshalResource(enc); err == nil {
			wrong = "ACCEPTED"
		}

		res := fmt.Sprintf("tamper accepted=%d wrongkey=%s short=%s badver=%s extended=%s", acc0, wrong, short, badver, extended)
		if first != "" {
			res += " first=" + first
		}

		return res
	})
	if panicked {
		return "PANIC " + out
	}

	return out
}

// ---------------------------------------------------------------------------------------
// Metadata <-> yaml.Node

func cdcShowTree(n *yaml.Node) string {
	kids := func() string {
		parts := make([]string, len(n.Content))
		for i, c := range n.Content {
			parts[i] = cdcShowTree(c)
		}

		return "[" + strings.Join(parts, ";") + "]"
	}

	switch n.Kind {
	case yaml.ScalarNode:
		return "s" + cdcHx(n.Value)
	case yaml.MappingNode:
		return "m" + kids()
	case yaml.SequenceNode:
		return "q" + kids()
	case yaml.DocumentNode:
		return "d" + kids()
	}

	return "a"
}

func cdcParseTree(s string) (*yaml.Node, bool) {
	n, rest, ok := cdcParseTreeAt(s)

	return n, ok && rest == ""
}

func cdcParseTreeAt(s string) (*yaml.Node, string, bool) {
	if s == "" {
		return nil, "", false
	}

	switch s[0] {
	case 's':
		end := strings.IndexAny(s, ";]")
		if end < 0 {
			end = len(s)
		}

		b, err := hex.DecodeString(s[1:end])
		if err != nil {
			return nil, "", false
		}

		return &yaml.Node{Kind: yaml.ScalarNode, Value: string(b)}, s[end:], true
	case 'a':
		return &yaml.Node{Kind: yaml.AliasNode}, s[1:], true
	case 'm', 'q', 'd':
		kind := map[byte]yaml.Kind{'m': yaml.MappingNode, 'q': yaml.SequenceNode, 'd': yaml.DocumentNode}[s[0]]
		if len(s) < 2 || s[1] != '[' {
			return nil, "", false
		}

		n := &yaml.Node{Kind: kind}
		rest := s[2:]

		for {
			if rest == "" {
				return nil, "", false
			}

			if rest[0] == ']' {
				return n, rest[1:], true
			}

			if rest[0] == ';' {
				rest = rest[1:]

				continue
			}

			c, r2, ok := cdcParseTreeAt(rest)
			if !ok {
				return nil, "", false
			}

			n.Content = append(n.Content, c)
			rest = r2
		}
	}

	return nil, "", false
}

func cdcExecYamlMD(ctx *cdcOpCtx, line string, a Args) string {
	var (
		c1, tree, text string
	)

	out, panicked := cdcGuard(func() string {
		md, ok := cdcBuildMeta(a)
		if !ok {
			return "yamlmd res=unconstructible golean=- leango=- text=-"
		}

		v, err := md.MarshalYAML()
		if err != nil {
			return "yamlmd res=encode-error golean=- leango=- text=-"
		}

		n, ok := v.(*yaml.Node)
		if !ok {
			return "yamlmd res=encode-not-a-node golean=- leango=- text=-"
		}

		tree = cdcShowTree(n)

		var md2 resource.Metadata

		if err := md2.UnmarshalYAML(n); err != nil {
			c1 = "err"
		} else {
			c1 = "ok:" + cdcCanonMeta(&md2)
		}

		// text layer: Marshal the metadata to YAML text and back
		b, err := yaml.Marshal(&md)
		if err != nil {
			text = "DIFF:marshal-error"

			return ""
		}

		var md3 resource.Metadata

		if err := yaml.Unmarshal(b, &md3); err != nil {
			text = cdcCmpStr("err", c1)
		} else {
			text = cdcCmpStr("ok:"+cdcCanonMeta(&md3), c1)
		}

		if strings.HasPrefix(text, "DIFF") {
			text += ":text=" + cdcHx(string(b))
		}

		return ""
	})
	if panicked {
		return "PANIC " + out
	}

	if out != "" {
		return out
	}

	golean := cdcCmpStr(ctx.ask("yaml-dec tree="+tree), c1)

	leango := "DIFF:lean-encode-failed"

	if lt, ok := strings.CutPrefix(ctx.ask("yaml-enc "+cdcFieldsOf(line)), "tree="); ok {
		res, panicked := cdcGuard(func() string {
			n, ok := cdcParseTree(lt)
			if !ok {
				return "bad-tree"
			}

			var md resource.Metadata

			if err := md.UnmarshalYAML(n); err != nil {
				return "err"
			}

			return "ok:" + cdcCanonMeta(&md)
		})
		if panicked {
			return "PANIC " + res
		}

		leango = cdcCmpStr(res, c1)

		if lt != tree {
			leango += "(trees-differ)"
		}
	}

	return fmt.Sprintf("yamlmd res=%s golean=%s leango=%s text=%s", c1, golean, leango, text)
}

// ---------------------------------------------------------------------------------------
// generators

type codecGen struct {
	r        *Rand
	thorough bool
	d4       bool
}

var (
	cdcStrASCII   = []string{"", "a", "n1", "default", "U1", "some/type.v1", "id-0", "A", "B", "k1", "v1", "x y", "0", "5"}
	cdcStrUnicode = []string{"héllo", "→世界", "名前", "é́", "😀", "\ufeffbom", "a b", "nb\u00a0sp", "\u0085nel"}
	cdcStrControl = []string{"\x00", "\x01\x02", "a\nb", "tab\there", "\r\n", "\x7f", "\x1b[0m", "line\n", "\n"}
	cdcStrYAML    = []string{": ", "- x", "#c", "'q'", "\"dq\"", "&a", "*a", "!!str", "~", "null", "true", "123", "1.5", " lead", "trail ", "a: b", "[x]", "{y}", "|", ">", "%", "@", "`", "2000-01-01T00:00:00Z", "-1", "undefined", "0x1f", "=", "<<", "?", "? x", "---", "..."}
)

func (g *codecGen) str(text bool) string {
	r := g.r

	switch x := r.Intn(100); {
	case x < 45:
		return Pick(r, cdcStrASCII)
	case x < 58:
		return Pick(r, cdcStrUnicode)
	case x < 70:
		return Pick(r, cdcStrControl)
	case x < 82:
		return Pick(r, cdcStrYAML)
	case x < 90:
		return Pick(r, cdcStrASCII) + Pick(r, cdcStrUnicode) + Pick(r, cdcStrControl) + Pick(r, cdcStrYAML)
	case x < 95 && !text:
		// arbitrary bytes, mostly invalid UTF-8
		n := r.Intn(6) + 1
		b := make([]byte, n)

		for i := range b {
			b[i] = byte(r.Next())
		}

		return string(b)
	default:
		// long, compressible or not
		n := []int{60, 130, 300, 1100}[r.Intn(4)]
		if r.Chance(1, 2) {
			return strings.Repeat(Pick(r, []string{"ab", "xyz-", "0"}), n/2)
		}

		b := make([]byte, n)
		for i := range b {
			if text {
				b[i] = byte('a' + r.Intn(26))
			} else {
				b[i] = byte(r.Next())
			}
		}

		return string(b)
	}
}

// cdcIsD4Version: a decimal version text >= 2^63 (only reachable on the unchanged tree through the signed alias).
func cdcIsD4Version(v string) bool {
	n, err := strconv.ParseUint(v, 10, 64)

	return err == nil && n >= 1<<63
}

// cdcD4Tag marks op lines that belong to the D4 sub-stream (both sides ignore the token), so
// that a known-findings signature can name them: op_regex `\bd4=1\b`.
func cdcD4Tag(is bool) string {
	if is {
		return " d4=1"
	}

	return ""
}

func (g *codecGen) version() string {
	r := g.r

	switch x := r.Intn(100); {
	case x < 15:
		return "undefined"
	case x < 30:
		return "0"
	case x < 60:
		return strconv.Itoa(r.Intn(50) + 1)
	case x < 70:
		return strconv.FormatUint(r.Next()>>uint(1+r.Intn(62)), 10)
	case x < 80:
		return "9223372036854775807"
	default:
		if !g.d4 {
			return strconv.Itoa(r.Intn(1000))
		}

		return Pick(r, []string{"9223372036854775808", "18446744073709551615", strconv.FormatUint(r.Next()|1<<63, 10)})
	}
}

const (
	cdcMinYearSec = -62135596800 // 0001-01-01T00:00:00Z
	cdcMaxYearSec = 253402300799 // 9999-12-31T23:59:59Z
)

func (g *codecGen) timestamp(text bool) (int64, int64) {
	r := g.r

	var sec int64

	switch x := r.Intn(100); {
	case x < 15:
		sec = cdcMinYearSec // the zero time.Time
	case x < 25:
		sec = 0
	case x < 40:
		sec = 946684800 + int64(r.Intn(100000))
	case x < 50:
		sec = Pick(r, []int64{cdcMaxYearSec, cdcMaxYearSec - 86400, 951782400 /* 2000-02-29 */, 4107542399 /* 2100-02-28T23:59:59 */, -1, 68255999, 1709251199})
	case x < 85 || text:
		sec = cdcMinYearSec + int64(r.Next()%uint64(cdcMaxYearSec-cdcMinYearSec+1))
	default:
		sec = Pick(r, []int64{1 << 62, -(1 << 62), cdcMaxYearSec + 1, cdcMinYearSec - 1, 1<<63 - 1, -1 << 63, int64(r.Next())})
	}

	if text {
		return sec, 0
	}

	var nsec int64

	switch x := r.Intn(10); {
	case x < 4:
		nsec = 0
	case x < 6:
		nsec = 999999999
	default:
		nsec = int64(r.Intn(1000000000))
	}

	return sec, nsec
}

func (g *codecGen) uniqueStrs(n int, text bool) []string {
	seen := map[string]bool{}

	var out []string

	for len(out) < n {
		s := g.str(text)
		if text && !utf8.ValidString(s) {
			continue
		}

		if !seen[s] {
			seen[s] = true
			out = append(out, s)
		}
	}

	return out
}

// fields renders resource fields for an op line. text = restricted to the YAML text domain.
func (g *codecGen) fields(text, withSpec bool, typ string) string {
	r := g.r
	cs, cn := g.timestamp(text)
	us, un := g.timestamp(text)

	sizes := []int{0, 0, 1, 1, 2, 3, 5}
	if g.thorough {
		sizes = append(sizes, 12)
	}

	kv := func() string {
		ks := g.uniqueStrs(Pick(r, sizes), text)
		parts := make([]string, len(ks))

		for i, k := range ks {
			parts[i] = "x" + cdcHx(k) + ":x" + cdcHx(g.str(text))
		}

		return strings.Join(parts, ",")
	}

	if typ == "" {
		typ = g.str(text)
	}

	ver := g.version()

	s := fmt.Sprintf("ns=%s typ=%s id=%s ver=%s owner=%s phase=%s cs=%d cn=%d us=%d un=%d fins=%s labels=%s ann=%s",
		cdcHx(g.str(text)), cdcHx(typ), cdcHx(g.str(text)), ver, cdcHx(g.str(text)), Pick(r, []string{"running", "running", "tearingDown"}),
		cs, cn, us, un, cdcXlist(g.uniqueStrs(Pick(r, sizes), text)), kv(), kv())

	if withSpec {
		yml := ""
		// a YAML spec text is only carried by *protobuf.Resource (unregistered types); building one
		// goes through protobuf.Unmarshal, so the version must be parseable
		if !text && typ != codecResType && r.Chance(1, 4) && len(ver) < 19 {
			yml = cdcHx(g.str(true))
		}

		s += fmt.Sprintf(" spec=%s yaml=%s", cdcHx(g.str(text)), yml)
	}

	return s + cdcD4Tag(cdcIsD4Version(ver))
}

func (g *codecGen) stack() string {
	r := g.r
	base := Pick(r, []string{"pb", "store", "store", "store"})

	if base == "pb" {
		return "pb"
	}

	depth := Pick(r, []int{0, 1, 1, 1, 2, 2, 3})
	if g.thorough && r.Chance(1, 6) {
		depth = 4
	}

	var ws []string

	for i := 0; i < depth; i++ {
		if r.Chance(2, 5) {
			ws = append(ws, "e")
		} else {
			ws = append(ws, "c"+Pick(r, []string{"@0", "@1", "@2", "@1", "0", "1", "16", "64", "256", "100000"}))
		}
	}

	// relative thresholds need a compression-free inner stack (lengths must not depend on zstd)
	for i, w := range ws {
		if strings.HasPrefix(w, "c@") {
			for _, below := range ws[i+1:] {
				if strings.HasPrefix(below, "c") {
					ws[i] = "c" + Pick(r, []string{"0", "64", "100000"})
				}
			}
		}
	}

	return strings.Join(append([]string{base}, ws...), ",")
}

func cdcFlipBits(r *Rand, b []byte, n int) []byte {
	out := bytes.Clone(b)
	if len(out) == 0 {
		return out
	}

	for i := 0; i < n; i++ {
		out[r.Intn(len(out))] ^= 1 << uint(r.Intn(8))
	}

	return out
}

func cdcRandBytes(r *Rand, n int) []byte {
	b := make([]byte, n)
	for i := range b {
		b[i] = byte(r.Next())
	}

	return b
}

// cdcProtoGarbage: structurally plausible protobuf (random tags incl. huge field numbers that
// truncate to known ones, groups, wrong wire types, over-long varints, nested messages).
func cdcProtoGarbage(r *Rand, depth int) []byte {
	var b []byte

	varint := func(v uint64) {
		for v >= 0x80 {
			b = append(b, byte(v)|0x80)
			v >>= 7
		}

		b = append(b, byte(v))
	}

	n := r.Intn(6)
	for i := 0; i < n; i++ {
		fn := uint64(Pick(r, []int{1, 2, 3, 4, 5, 6, 7, 8, 9, 10, 11, 12, 15, 16, 100, 0}))
		if r.Chance(1, 12) {
			fn += 1 << 32 // truncates to the same int32 field number
		}

		if r.Chance(1, 30) {
			fn = 1 << 31
		}

		wt := uint64(Pick(r, []int{2, 2, 2, 2, 2, 0, 1, 5, 3, 4, 6, 7}))
		varint(fn<<3 | wt)

		switch wt {
		case 0:
			if r.Chance(1, 6) {
				b = append(b, bytes.Repeat([]byte{0xff}, 9+r.Intn(3))...)
				b = append(b, byte(r.Intn(4)))
			} else {
				varint(r.Next() >> uint(r.Intn(64)))
			}
		case 1:
			b = append(b, cdcRandBytes(r, Pick(r, []int{8, 8, 8, 3}))...)
		case 5:
			b = append(b, cdcRandBytes(r, Pick(r, []int{4, 4, 4, 1}))...)
		case 2:
			var payload []byte

			switch x := r.Intn(10); {
			case x < 4 && depth < 3:
				payload = cdcProtoGarbage(r, depth+1)
			case x < 6:
				payload = []byte(Pick(r, []string{"running", "tearingDown", "undefined", "1", "-1", "+7", "007", "9223372036854775808", "", "x"}))
			default:
				payload = cdcRandBytes(r, r.Intn(8))
			}

			l := uint64(len(payload))
			if r.Chance(1, 10) {
				l += uint64(r.Intn(3)) + 1 // over-long length
			}

			if r.Chance(1, 40) {
				l = r.Next()
			}

			varint(l)
			b = append(b, payload...)
		case 3:
			if depth < 3 {
				b = append(b, cdcProtoGarbage(r, depth+1)...)
			}

			if r.Chance(4, 5) {
				varint(fn<<3 | 4)
			}
		}
	}

	return b
}

func (g *codecGen) malformed(valid []byte) []byte {
	r := g.r

	switch x := r.Intn(100); {
	case x < 20:
		if len(valid) == 0 {
			return valid
		}

		return valid[:r.Intn(len(valid))]
	case x < 45:
		return cdcFlipBits(r, valid, 1+r.Intn(3))
	case x < 55:
		return cdcRandBytes(r, r.Intn(40))
	case x < 62:
		return append(bytes.Clone(valid), cdcRandBytes(r, 1+r.Intn(5))...)
	case x < 70:
		// splice: two valid encodings concatenated (protobuf merge semantics)
		return append(bytes.Clone(valid), valid...)
	case x < 90:
		return cdcProtoGarbage(r, 0)
	default:
		return valid
	}
}

func (e *codecEngine) Corpus(_ bool) []Case {
	sc := func(s string) string { return "s" + cdcHx(s) }
	md := "m[" + strings.Join([]string{sc("namespace"), sc("n"), sc("version"), sc("3"), sc("created"), sc("2000-01-01T00:00:00Z")}, ";") + "]"

	ops := []string{
		// zero-ish resource, every field empty
		"rt stack=pb seed=1 ns= typ= id= ver=undefined owner= phase=running cs=0 cn=0 us=0 un=0 fins= labels= ann= spec= yaml=",
		"rt stack=store,c0 seed=2 ns= typ= id= ver=0 owner= phase=running cs=-62135596800 cn=0 us=-62135596800 un=0 fins= labels= ann= spec= yaml=",
		"rt stack=store,c@1 seed=3 ns=6e typ=54 id=69 ver=1 owner=6f phase=tearingDown cs=946684800 cn=5 us=946684801 un=999999999 fins=x66,x labels=x6b:x76,x:x ann=x61:x spec=7370 yaml=",
		"rt stack=store,c@2 seed=4 ns=6e typ=54 id=69 ver=1 owner=6f phase=tearingDown cs=946684800 cn=5 us=946684801 un=999999999 fins=x66,x labels=x6b:x76,x:x ann=x61:x spec=7370 yaml=",
		"rt stack=store,c@0 seed=5 ns=6e typ=54 id=69 ver=1 owner=6f phase=tearingDown cs=946684800 cn=5 us=946684801 un=999999999 fins=x66,x labels=x6b:x76,x:x ann=x61:x spec=7370 yaml=",
		"rt stack=store,e seed=6 ns=6e typ=" + cdcHx(codecResType) + " id=69 ver=9223372036854775807 owner= phase=running cs=1 cn=1 us=2 un=2 fins= labels= ann= spec=00ff yaml=",
		"rt stack=store,c0,c100000,e,c0 seed=7 ns=6e typ=54 id=69 ver=2 owner= phase=running cs=1 cn=1 us=2 un=2 fins= labels=x6b:x76 ann= spec=" + cdcHx(strings.Repeat("ab", 200)) + " yaml=",
		"rt stack=pb seed=8 ns=6e typ=54 id=69 ver=2 owner= phase=running cs=1 cn=1 us=2 un=2 fins= labels= ann= spec=01 yaml=" + cdcHx("a: 1\n"),
		"verrt v=undefined", "verrt v=0", "verrt v=9223372036854775807",
		"phasert p=running", "phasert p=tearingDown",
		"tsrt sec=-62135596800", "tsrt sec=253402300799", "tsrt sec=951782400", "tsrt sec=0",
		"ver s=" + cdcHx("undefined"), "ver s=" + cdcHx("007"), "ver s=" + cdcHx("+5"), "ver s=", "ver s=" + cdcHx("1_0"), "ver s=" + cdcHx("18446744073709551616"),
		"phase s=" + cdcHx("running"), "phase s=" + cdcHx("Running"), "phase s=",
		"yamlnode tree=" + md,
		"yamlnode tree=d[" + md + "]",
		"yamlnode tree=d[" + md + ";" + md + "]",
		"yamlnode tree=q[]",
		"yamlnode tree=m[" + sc("labels") + ";m[" + sc("k") + "]]",
		"yamlnode tree=m[" + sc("finalizers") + ";q[" + sc("a") + ";" + sc("a") + "]]",
		"tamper stack=store,e seed=9 ns=6e typ=54 id=69 ver=2 owner= phase=running cs=1 cn=1 us=2 un=2 fins= labels=x6b:x76 ann= spec=7370 yaml=",
		"mal target=pb hex=", "mal target=pb hex=0a00", "mal target=pb hex=0a001200", "mal target=pb hex=1200",
		"mal target=meta hex=", "mal target=decrypt hex=", "mal target=decrypt hex=01",
		// large records: below, at and above a few megabytes, compressible and not
		"rtbig size=100000 seed=1 stack=c", "rtbig size=4194304 seed=2 stack=c", "rtbig size=4300000 seed=3 stack=c noise=1",
		"rtbig size=9000000 seed=4 stack=c", "rtbig size=5000000 seed=5 stack=ce noise=1",
	}

	// YAML resource documents with a repeated or missing section (the custom unmarshaler sees duplicate keys)
	mdSec := "metadata:\n    namespace: n\n    type: " + codecResType + "\n    id: i\n    version: 1\n    owner:\n    phase: running\n    created: 2000-01-01T00:00:00Z\n    updated: 2000-01-01T00:00:00Z\n"
	spSec := "spec:\n    s: x\n"

	for _, doc := range []string{mdSec + spSec, mdSec + mdSec, spSec + spSec, mdSec + spSec + mdSec, mdSec + spSec + spSec, spSec + mdSec, mdSec, spSec, mdSec + "spec: 1\n" + spSec} {
		ops = append(ops, "mal target=yamlres hex="+hex.EncodeToString([]byte(doc)))
	}

	if codecD4Stream() {
		ops = append(ops,
			"ver s="+cdcHx("-1")+" d4=1", "ver s="+cdcHx("-9223372036854775808")+" d4=1", "ver s="+cdcHx("-0")+" d4=1",
			"verrt v=9223372036854775808 d4=1", "verrt v=18446744073709551615 d4=1",
			"rt stack=pb seed=10 ns=6e typ=54 id=69 ver=18446744073709551615 owner= phase=running cs=1 cn=0 us=2 un=0 fins= labels= ann= spec= yaml= d4=1",
			"yamlnode tree=m["+sc("version")+";"+sc("-1")+"] d4=1",
		)
	}

	return []Case{{Header: "# engine=codec case=corpus", Ops: ops}}
}

func (e *codecEngine) Gen(r *Rand, thorough bool, idx int) Case {
	g := &codecGen{r: r, thorough: thorough, d4: codecD4Stream()}
	c := Case{Header: fmt.Sprintf("# engine=codec case=%d d4=%v", idx, g.d4)}
	n := 22

	if thorough {
		n = 30
	}

	for i := 0; i < n; i++ {
		seed := r.Next() >> 16

		switch x := r.Intn(100); {
		case x < 30:
			typ := ""
			if r.Chance(1, 3) {
				typ = codecResType
			}

			c.Ops = append(c.Ops, fmt.Sprintf("rt stack=%s seed=%d %s", g.stack(), seed, g.fields(false, true, typ)))
		case x < 38:
			c.Ops = append(c.Ops, "yamlmd "+g.fields(true, false, ""))
		case x < 42:
			gg := *g
			gg.d4 = false // the text path needs a constructible, parseable version: D4 is reported by rt/verrt/ver/yamlmd
			c.Ops = append(c.Ops, "yamlres "+gg.fields(true, true, codecResType))
		case x < 46:
			gg := *g
			gg.d4 = false // the untampered record must decode
			c.Ops = append(c.Ops, fmt.Sprintf("tamper stack=%s seed=%d %s", Pick(r, []string{"store,e", "store,e", "store,e,c0", "store,c0,e", "store,e,e"}), seed, gg.fields(false, true, "")))
		case x < 50:
			v := g.version()
			c.Ops = append(c.Ops, "verrt v="+v+cdcD4Tag(cdcIsD4Version(v)))
		case x < 52:
			c.Ops = append(c.Ops, "phasert p="+Pick(r, []string{"running", "tearingDown"}))
		case x < 56:
			sec, _ := g.timestamp(true)
			c.Ops = append(c.Ops, fmt.Sprintf("tsrt sec=%d", sec))
		case x < 62:
			vt := g.versionText()
			c.Ops = append(c.Ops, "ver s="+cdcHx(vt)+cdcD4Tag(strings.HasPrefix(vt, "-")))
		case x < 64:
			c.Ops = append(c.Ops, "phase s="+cdcHx(Pick(r, []string{"running", "tearingDown", "Running", "", "running ", "teardown", g.str(false)})))
		case x < 68:
			c.Ops = append(c.Ops, "tsparse s="+cdcHx(g.timeText()))
		case x < 74:
			c.Ops = append(c.Ops, "yamlnode tree="+g.nodeTree())
		default:
			c.Ops = append(c.Ops, g.malOp(seed))
		}
	}

	return c
}

func (g *codecGen) versionText() string {
	r := g.r

	pool := []string{"undefined", "0", "1", "42", "007", "+5", "", " 1", "1 ", "1_000", "0x10", "1e3", "9223372036854775807", "9223372036854775808",
		"18446744073709551615", "18446744073709551616", "99999999999999999999999", "Undefined", "+", "++1", "٣", "1.0"}
	if g.d4 {
		pool = append(pool, "-", "-1", "-0", "-9223372036854775808", "-9223372036854775809", "-42", "+-1")
	}

	if r.Chance(1, 6) {
		return strconv.FormatUint(r.Next()>>uint(r.Intn(64)), 10)
	}

	return Pick(r, pool)
}

func (g *codecGen) timeText() string {
	r := g.r
	sec, _ := g.timestamp(true)
	s := time.Unix(sec, 0).UTC().Format(time.RFC3339)

	switch x := r.Intn(100); {
	case x < 25:
		return s
	case x < 60:
		// one character replaced, keeping the 20-byte form
		b := []byte(s)
		b[r.Intn(len(b))] = Pick(r, []byte("0123456789-:TZ tz+.9"))

		return string(b)
	case x < 70:
		return Pick(r, []string{"2001-02-29T00:00:00Z", "2000-02-30T00:00:00Z", "2000-13-01T00:00:00Z", "2000-00-10T00:00:00Z", "2000-01-00T00:00:00Z", "2000-01-01T24:00:00Z",
			"2000-01-01T23:60:00Z", "2000-01-01T23:59:60Z", "0000-01-01T00:00:00Z", "2000-04-31T00:00:00Z", "1900-02-29T00:00:00Z", "2400-02-29T12:00:00Z"})
	case x < 85:
		return Pick(r, []string{s[:19] + "+02:00", s[:19] + ".5Z", s[:19] + "-00:00", s[:19], s + "Z", "", "now", s[:10], strings.ToLower(s), s[:19] + ",5Z", s[:19] + "+0200", s[:19] + "+24:00"})
	default:
		return g.str(true)
	}
}

func (g *codecGen) nodeTree() string {
	r := g.r
	sc := func(s string) string { return "s" + cdcHx(s) }
	keys := []string{"namespace", "type", "id", "version", "owner", "phase", "created", "updated", "finalizers", "labels", "annotations", "unknown", ""}

	val := func(k string) string {
		if r.Chance(1, 8) {
			return Pick(r, []string{"m[]", "q[]", "a", "q[" + sc("x") + "]", "m[" + sc("a") + ";" + sc("b") + "]", sc(g.str(false))})
		}

		switch k {
		case "version":
			return sc(g.versionText())
		case "phase":
			return sc(Pick(r, []string{"running", "tearingDown", "bogus", ""}))
		case "created", "updated":
			return sc(g.timeText())
		case "finalizers":
			fs := g.uniqueStrs(r.Intn(3), false)
			if r.Chance(1, 4) && len(fs) > 0 {
				fs = append(fs, fs[0]) // duplicates are kept on this path
			}

			parts := make([]string, len(fs))
			for i, f := range fs {
				parts[i] = sc(f)
			}

			if r.Chance(1, 8) {
				parts = append(parts, "q[]")
			}

			return "q[" + strings.Join(parts, ";") + "]"
		case "labels", "annotations":
			n := r.Intn(4)

			var parts []string

			for i := 0; i < n; i++ {
				parts = append(parts, sc(Pick(r, []string{"k1", "k2", "", "k1"})), sc(g.str(false)))
			}

			if r.Chance(1, 8) {
				parts = append(parts, sc("odd"))
			}

			if r.Chance(1, 10) && len(parts) > 0 {
				parts[0] = "q[]"
			}

			return "m[" + strings.Join(parts, ";") + "]"
		}

		return sc(g.str(false))
	}

	var parts []string

	n := r.Intn(9)
	for i := 0; i < n; i++ {
		k := Pick(r, keys)
		key := sc(k)

		if r.Chance(1, 15) {
			key = Pick(r, []string{"m[]", "q[]", "a"})
		}

		parts = append(parts, key, val(k))
	}

	tree := "m[" + strings.Join(parts, ";") + "]"

	switch x := r.Intn(20); {
	case x == 0:
		return "d[" + tree + "]"
	case x == 1:
		return Pick(r, []string{"d[]", "d[" + tree + ";" + tree + "]", "q[" + tree + "]", sc("x"), "a"})
	}

	return tree
}

// malOp builds a malformed-input op; for stacks the primitive tables are recorded by
// running the real, instrumented stack once at generation time.
func (g *codecGen) malOp(seed uint64) string {
	r := g.r
	target := Pick(r, []string{"pb", "pb", "pb", "store", "meta", "meta", "stack", "stack", "stack", "decrypt", "yamlres", "yamlmd", "any", "anyyaml", "rspec"})

	switch target {
	case "pb", "store", "meta", "any", "rspec":
		var valid []byte

		_, _ = cdcGuard(func() string {
			a := cdcParseFields(g.fields(false, true, Pick(r, []string{"", codecResType})))
			if res, ok := cdcBuildRes(a); ok {
				if target == "meta" || target == "rspec" {
					if pr, err := protobuf.FromResource(res, protobuf.WithoutYAML()); err == nil {
						if m, err := pr.Marshal(); err == nil {
							valid, _ = protobuf.ProtoMarshal(m.GetMetadata())
						}
					}
				} else {
					valid, _ = cdcPbMarshaler{}.MarshalResource(res)
				}
			}

			return ""
		})

		return fmt.Sprintf("mal target=%s seed=%d hex=%s", target, seed, hex.EncodeToString(g.malformed(valid)))
	case "stack":
		ws := strings.Split(g.stack(), ",")[1:]
		if len(ws) == 0 {
			ws = []string{"c0"}
		}

		for i, w := range ws {
			if strings.HasPrefix(w, "c@") {
				ws[i] = "c" + Pick(r, []string{"0", "64"})
			}
		}

		spec := strings.Join(ws, ",")

		var (
			input      []byte
			ztab, atab string
			kinds      string
		)

		_, _ = cdcGuard(func() string {
			a := cdcParseFields(g.fields(false, true, Pick(r, []string{"", codecResType})))

			res, ok := cdcBuildRes(a)
			if !ok {
				res = &cdcCRes{md: resource.NewMetadata("n", "t", "i", resource.VersionUndefined)}
			}

			cdcWithDetRand(seed, func() {
				st, _ := cdcBuildStack("store,"+spec, res, codecKey)
				kinds = st.kinds()

				valid, err := st.top.MarshalResource(res)
				if err != nil {
					return
				}

				// malform at a random depth: the outer record itself, or re-wrap a malformed inner record
				input = g.malformed(valid)
				if r.Chance(1, 3) && len(st.layers) > 0 {
					if inner := st.layers[len(st.layers)-1].above; len(inner.outs) > 0 {
						// corrupt the innermost wrapper's input and wrap it again with the real outer layers
						bad := g.malformed(st.base.outs[len(st.base.outs)-1])
						st2, _ := cdcBuildStack("store,"+spec, res, codecKey)
						st2.base.under = cdcConstMarshaler{bad}

						if b2, err := st2.top.MarshalResource(res); err == nil {
							input = b2
						}
					}
				}

				st.reset()
				_, _ = st.top.UnmarshalResource(input)
				ztab, atab = st.tables(codecKey)
			})

			return ""
		})

		return fmt.Sprintf("mal target=stack stack=%s kinds=%s seed=%d id=%d ztab=%s atab=%s hex=%s", spec, kinds, seed, cdcZstdShared.ID(), ztab, atab, hex.EncodeToString(input))
	case "decrypt":
		var valid []byte

		cdcWithDetRand(seed, func() { valid, _ = cdcNewCipher(codecKey).Encrypt([]byte(g.str(false))) })

		return fmt.Sprintf("mal target=decrypt seed=%d hex=%s", seed, hex.EncodeToString(g.malformed(valid)))
	case "yamlres", "yamlmd":
		var valid []byte

		_, _ = cdcGuard(func() string {
			gg := *g
			gg.d4 = false
			a := cdcParseFields(gg.fields(true, true, codecResType))

			if res, ok := cdcBuildRes(a); ok {
				if target == "yamlmd" {
					valid, _ = yaml.Marshal(res.Metadata())
				} else if in, err := resource.MarshalYAML(res); err == nil {
					valid, _ = yaml.Marshal(in)
				}
			}

			return ""
		})

		return fmt.Sprintf("mal target=%s seed=%d hex=%s", target, seed, hex.EncodeToString(g.malformedText(valid)))
	default: // anyyaml
		return fmt.Sprintf("mal target=anyyaml seed=%d hex=%s", seed, hex.EncodeToString(g.malformedText([]byte(Pick(r, []string{"a: 1\n", "- x\n- y\n", "k: [1, 2]\n", "s: |\n  text\n", "", "&a x: *a\n"})))))
	}
}

func (g *codecGen) malformedText(valid []byte) []byte {
	r := g.r

	switch x := r.Intn(100); {
	case x < 20:
		if len(valid) == 0 {
			return valid
		}

		return valid[:r.Intn(len(valid))]
	case x < 40:
		return cdcFlipBits(r, valid, 1+r.Intn(3))
	case x < 50:
		return cdcRandBytes(r, r.Intn(30))
	case x < 75:
		// line-level edits: drop, duplicate or replace a line
		lines := strings.Split(string(valid), "\n")
		if len(lines) > 1 {
			i := r.Intn(len(lines))

			switch r.Intn(4) {
			case 0:
				lines = append(lines[:i], lines[i+1:]...)
			case 1:
				lines = append(lines[:i+1], lines[i:]...)
			case 2:
				pool := []string{"version: [1]", "phase: bogus", "created: yesterday", "labels: x", "finalizers: {a: b}", "metadata: 1", "spec: 2", "  - x", "? [a]\n: b", "a: &x 1", "b: *x", "<<: {c: d}", "version: 18446744073709551615", "version: 007", "labels: {a: {b: c}}", "labels: [a]", "finalizers: [[a]]", "created: 2000-01-01T00:00:00+02:00", "updated: 2000-01-01T00:00:00.5Z"}
				if g.d4 {
					pool = append(pool, "version: -1", "version: -9223372036854775808")
				}

				lines[i] = Pick(r, pool)
			case 3:
				lines[i] = "  " + lines[i]
			}
		}

		return []byte(strings.Join(lines, "\n"))
	case x < 85:
		return []byte(Pick(r, []string{"", "\n", "[]", "{}", "a", "- a", "metadata: {}\nspec: {}\n", "metadata:\n  type: " + codecResType + "\nspec:\n  s: x\n", "metadata:\n  type: nope\nspec: {}\n", "--- \n--- \n", "metadata: {}\nspec: {}\nextra: {}\n", "\t", "%YAML 9.9\n---\na: b\n", "&a [*a]", "a: !!binary ===\n", "? a\n", "'", "\"\\x", "a: b: c"}))
	case x < 93:
		// section-level edits: the top-level blocks of the document repeated, dropped or swapped (a mapping with the
		// same key twice reaches a custom unmarshaler: yaml does not reject duplicate keys before calling it)
		var blocks []string

		for _, l := range strings.SplitAfter(string(valid), "\n") {
			if l == "" {
				continue
			}

			if len(blocks) == 0 || (l[0] != ' ' && l[0] != '-' && l[0] != '\n') {
				blocks = append(blocks, l)
			} else {
				blocks[len(blocks)-1] += l
			}
		}

		if len(blocks) < 2 {
			return valid
		}

		i, j := r.Intn(len(blocks)), r.Intn(len(blocks))

		switch r.Intn(4) {
		case 0: // block i replaces block j (two sections with the same key, one section lost)
			blocks[j] = blocks[i]
		case 1: // block i once more at the end
			blocks = append(blocks, blocks[i])
		case 2:
			blocks[i], blocks[j] = blocks[j], blocks[i]
		default:
			blocks = append(blocks[:i], blocks[i+1:]...)
		}

		return []byte(strings.Join(blocks, ""))
	default:
		return valid
	}
}

func cdcParseFields(s string) Args {
	_, a := ParseLine("x " + s)

	return a
}
