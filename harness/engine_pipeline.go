package harness

import (
	"bytes"
	"context"
	"fmt"
	goruntime "runtime"
	"sort"
	"strings"
	"sync"
	"testing"
	"testing/synctest"
	"time"

	"github.com/siderolabs/gen/optional"
	"go.uber.org/zap"

	"github.com/cosi-project/runtime/pkg/controller"
	"github.com/cosi-project/runtime/pkg/controller/runtime"
	"github.com/cosi-project/runtime/pkg/controller/runtime/options"
	"github.com/cosi-project/runtime/pkg/resource"
	"github.com/cosi-project/runtime/pkg/state"
	"github.com/cosi-project/runtime/pkg/state/impl/inmem"
	"github.com/cosi-project/runtime/pkg/state/impl/namespaced"
)

// engine pipeline (C05): the real controller runtime under synctest with probe
// controllers of both flavours and random input declarations (by kind / by ID, every
// input kind, registered before or after Run, inputs updated later, cached or not),
// random external write bursts, probes with virtual busy time. At every `quiesce` each
// probe's last observation of every key matching its inputs is printed; the driver
// prints what the property demands.
//
// Stall windows (`stall` … `w`* … `unstall`): a probe controller whose Outputs() blocks on a
// gate is registered in a goroutine, so RegisterController keeps Runtime.controllersMu and the
// delivery goroutine of processWatched is parked between GetDependentControllers and its
// triggers while the writes of the window go through deduplicateWatchEvents one batch at a
// time (pipeSettle after each write). This drives the hand-off of the dedup map through the
// states of Cosi.Model.Handoff that free running never reaches deterministically: a batch
// that adds no new key to a non-empty map, and a registration between lookup and trigger.

func init() { Register("pipeline", func() Engine { return &pipeEng{} }) }

type pipeEng struct{}

func (*pipeEng) Name() string { return "pipeline" }

func (*pipeEng) Cases(thorough bool) int {
	if thorough {
		return 1500
	}

	return 120
}

func (*pipeEng) Rule() string {
	return "1-4 probe controllers (Controller / QController) with random inputs over 3 types x 3 ids (weak, strong, destroy-ready by kind or by id; q-primary, q-mapped, q-mapped-destroy-ready), registered before or after start, inputs updated later, optional cached kind, probes busy 0-3 virtual seconds; bursts of 1-6 external writes (create, label/finalizer/phase changes, destroy) between quiescence points; case idx%4==1: 1-2 stall windows (a registration whose Outputs() is held by the harness keeps controllersMu, so the delivery goroutine is parked between lookup and trigger while 2-6 writes with repeated keys pass the dedup goroutine one batch each; the first key is not an input of a chosen victim probe, the repeated keys are), each followed by a quiescence point; in a third of the windows the held registration is one that is REJECTED after its first input was added to the dependency database (duplicate input keys; held at the watch set-up of an otherwise unused type in between), so the parked delivery has looked up a controller that will never exist; case idx%8==3: fan scenario (3 or 5 R probes with a by-kind input on one type + one R probe with a by-ID input on the same type, a stall window whose blocker has a by-kind input on that type and whose writes hit that ID); 3 fixed corpus cases (the window scenarios in minimal form) run first; non-trivial = a burst with more than one event of one key and a busy probe and at least 3 quiescence points, or a stall window with a repeated key followed by a quiescence point; distinct by hash of the op lines"
}

func (*pipeEng) NonTrivial(c Case, _ []string) bool {
	q, busy, burst := 0, false, false
	seen := map[string]bool{}
	inWindow, windowBurst, window := false, false, false

	for _, op := range c.Ops {
		name, a := ParseLine(op)

		if name != "w" && name != "quiesce" && name != "unstall" {
			windowBurst = false
		}

		switch name {
		case "stall":
			inWindow = true
			seen = map[string]bool{}
		case "unstall":
			inWindow = false
		case "quiesce":
			if windowBurst {
				window = true
			}

			windowBurst = false
			q++
			seen = map[string]bool{}
		case "reg":
			if a["busy"] != "" && a["busy"] != "0" {
				busy = true
			}
		case "w":
			k := a["typ"] + "/" + a["id"]
			if seen[k] {
				burst = true

				if inWindow {
					windowBurst = true
				}
			}

			seen[k] = true
		}
	}

	return (q >= 3 && busy && burst) || window
}

var (
	pipeTypes = []string{"T1", "T2", "T3"}
	pipeIDs   = []string{"a", "b", "c"}
	pipeMuts  = []string{"setLabel:k1:v1", "setLabel:k1:v2", "setSpec:s1", "setSpec:s2", "addFins:A", "removeFins:A", "setPhaseTD", "destroy", "destroy"}
)

func (e *pipeEng) genDecls(r *Rand, flavour string, allowMixed bool) string {
	var ds []string

	if flavour == "q" {
		// one kind-wide primary, 0-2 mapped inputs on other types
		perm := []string{"T1", "T2", "T3"}
		p := r.Intn(3)
		ds = append(ds, perm[p]+"/-/qprimary")

		for i, t := range perm {
			if i != p && r.Chance(1, 2) {
				ds = append(ds, t+"/-/"+Pick(r, []string{"qmapped", "qmappeddr"}))
			}
		}

		return strings.Join(ds, ",")
	}

	if allowMixed && r.Chance(1, 2) {
		// two inputs of one (namespace,type) matching the same resource, one of them destroy-ready: the wake-up
		// must not depend on which of them the adapter looks at last
		t, id := Pick(r, pipeTypes), Pick(r, pipeIDs)
		other := Pick(r, []string{"weak", "strong"})

		if r.Chance(1, 2) {
			return t + "/-/" + other + "," + t + "/" + id + "/dr"
		}

		return t + "/-/dr," + t + "/" + id + "/" + other
	}

	used := map[string]bool{}
	groupKind := map[string]string{}
	n := 1 + r.Intn(3)

	for i := 0; i < n; i++ {
		t := Pick(r, pipeTypes)
		id := "-"

		if r.Chance(1, 2) {
			id = Pick(r, pipeIDs)
		}

		if used[t+"/"+id] {
			continue
		}

		kind := Pick(r, []string{"weak", "strong", "dr"})

		if !allowMixed {
			// keep each (namespace,type) group either all destroy-ready or free of it
			if g, ok := groupKind[t]; ok && (g == "dr") != (kind == "dr") {
				if g == "dr" {
					kind = "dr"
				} else {
					kind = Pick(r, []string{"weak", "strong"})
				}
			}
		}

		if _, ok := groupKind[t]; !ok || kind == "dr" {
			groupKind[t] = kind
		}

		used[t+"/"+id] = true
		ds = append(ds, t+"/"+id+"/"+kind)
	}

	return strings.Join(ds, ",")
}

// muts that always produce a watch event on an existing resource (a write to an absent one creates it)
var pipeEventMuts = []string{"setLabel:k1:v1", "setLabel:k1:v2", "setSpec:s1", "setSpec:s2"}

func pipeDeclsMatch(decls, typ, id string) bool {
	for _, d := range pipeParseDecls(decls) {
		if d.typ == typ && (d.id == "-" || d.id == id) {
			return true
		}
	}

	return false
}

const pipeHeader = "# engine=pipeline nsaware=1 initcap=100 maxcap=100 gap=5 cached=%s mixed=%v case=%v faillist=%s"

// Corpus: the two parked-delivery scenarios in minimal form (always run first).
//
//	corpus-repeat: the delivery of T1/a is parked; T2/a changes twice behind it (the second batch adds no
//	               new key to the non-empty map); p2 must still see the last T2/a.
//	corpus-fan:    three by-kind dependents and one by-ID dependent of T1; the delivery of T1/a is parked
//	               after its lookup while a fourth by-kind dependent is registered; p4 must still be woken.
func (*pipeEng) Corpus(bool) []Case {
	return []Case{
		{
			Header: fmt.Sprintf(pipeHeader, "", false, "corpus-repeat", ""),
			Ops: []string{
				"w t=1 typ=T1 id=a mut=setSpec:s1", "w t=2 typ=T2 id=a mut=setSpec:s1",
				"reg t=3 p=1 fl=r in=T1/a/weak busy=0", "reg t=4 p=2 fl=r in=T2/a/weak busy=0",
				"start t=5", "quiesce t=6",
				"stall t=17 p=100 in=T3/-/weak",
				"w t=17 typ=T1 id=a mut=setSpec:s2", "w t=17 typ=T2 id=a mut=setSpec:s2", "w t=17 typ=T2 id=a mut=setSpec:s1",
				"unstall t=17", "quiesce t=18",
			},
		},
		{
			Header: fmt.Sprintf(pipeHeader, "", false, "corpus-fan", ""),
			Ops: []string{
				"w t=1 typ=T1 id=a mut=setSpec:s1",
				"reg t=2 p=1 fl=r in=T1/-/weak busy=0", "reg t=3 p=2 fl=r in=T1/-/strong busy=0", "reg t=4 p=3 fl=r in=T1/-/weak busy=0",
				"reg t=5 p=4 fl=r in=T1/a/weak busy=0",
				"start t=6", "quiesce t=7",
				"stall t=18 p=100 in=T1/-/weak",
				"w t=18 typ=T1 id=a mut=setSpec:s2",
				"unstall t=18", "quiesce t=19",
			},
		},
		{
			// a registration that is rejected after its first input was added to the dependency database (two
			// inputs with equal keys), held at the watch set-up in between; a change of that first input's kind is
			// in delivery meanwhile: the rejected controller must not be notified (it does not exist)
			Header: fmt.Sprintf(pipeHeader, "", false, "corpus-rejected", ""),
			Ops: []string{
				"w t=1 typ=T1 id=a mut=setSpec:s1",
				"reg t=2 p=1 fl=r in=T1/-/weak busy=0",
				"start t=3", "quiesce t=4",
				"stall t=15 p=100 in=T1/-/weak,T9/-/weak,T9/-/strong at=watch",
				"w t=15 typ=T1 id=a mut=setSpec:s2",
				"unstall t=15", "quiesce t=16",
			},
		},
	}
}

func (e *pipeEng) Gen(r *Rand, thorough bool, idx int) Case {
	cached := ""
	if r.Chance(1, 3) {
		cached = Pick(r, pipeTypes)
	}

	// one case in eight uses declarations that mix destroy-ready and other inputs in one group (D5)
	mixed := idx%8 == 7
	// one case in four has stall windows, one in eight is the fan scenario
	stalls := 0
	if idx%4 == 1 {
		stalls = 1 + r.Intn(2)
	}

	fan := idx%8 == 3

	// one case in five: the first List of one type fails once the runtime runs (a transient state error): the queue
	// runtime's start-up listing of existing primaries must be retried, a probe failing on it is restarted
	faillist := ""
	if idx%5 == 2 {
		faillist = Pick(r, pipeTypes)
	}

	c := Case{Header: fmt.Sprintf(pipeHeader, cached, mixed, idx, faillist)}
	t := 0
	tick := func() int { t++; return t }
	nProbes := 1 + r.Intn(4)
	started := false
	stallP := 100

	var rProbes []int

	rDecls := map[int]string{}

	reg := func(p int) {
		fl := "r"
		if r.Chance(1, 3) {
			fl = "q"
		}

		decls := e.genDecls(r, fl, mixed)

		if fl == "r" {
			rProbes = append(rProbes, p)
			rDecls[p] = decls
		}

		c.Ops = append(c.Ops, fmt.Sprintf("reg t=%d p=%d fl=%s in=%s busy=%d", tick(), p, fl, decls, Pick(r, []int{0, 0, 1, 3})))
	}

	write := func() {
		c.Ops = append(c.Ops, fmt.Sprintf("w t=%d typ=%s id=%s mut=%s", tick(), Pick(r, pipeTypes), Pick(r, pipeIDs[:2+r.Intn(2)]), Pick(r, pipeMuts)))
	}

	quiesce := func() {
		c.Ops = append(c.Ops, fmt.Sprintf("quiesce t=%d", tick()))
		t += 10 // quiescing consumes virtual time
	}

	// a stall window: every op of the window carries the tick of its `stall` (virtual time cannot advance while
	// the delivery goroutine waits for controllersMu); keys: first, then 1-5 more out of a pool of two
	stallWindow := func(blocker string, first [2]string, pool [][2]string, n int, repeatLast bool) {
		ts := tick()
		c.Ops = append(c.Ops, fmt.Sprintf("stall t=%d p=%d in=%s", ts, stallP, blocker))
		stallP++

		w := func(k [2]string) {
			mut := Pick(r, pipeEventMuts)
			if r.Chance(1, 8) {
				mut = Pick(r, pipeMuts)
			}

			c.Ops = append(c.Ops, fmt.Sprintf("w t=%d typ=%s id=%s mut=%s", ts, k[0], k[1], mut))
		}

		w(first)

		for i := 1; i < n; i++ {
			k := Pick(r, pool)
			if i == 1 || (i == n-1 && repeatLast) {
				k = pool[0]
			}

			w(k)
		}

		c.Ops = append(c.Ops, fmt.Sprintf("unstall t=%d", ts))
		quiesce()
	}

	randomWindow := func() {
		// the victim: an R probe and one of its inputs; the first key of the window (the one whose delivery is
		// parked) is not an input of the victim if that can be arranged
		vdecls := ""
		b := [2]string{Pick(r, pipeTypes), Pick(r, pipeIDs)}

		if len(rProbes) > 0 {
			vdecls = rDecls[Pick(r, rProbes)]

			if ds := pipeParseDecls(vdecls); len(ds) > 0 {
				d := Pick(r, ds)
				b[0] = d.typ

				if d.id != "-" {
					b[1] = d.id
				}
			}
		}

		a := [2]string{Pick(r, pipeTypes), Pick(r, pipeIDs)}
		for i := 0; i < 10 && (pipeDeclsMatch(vdecls, a[0], a[1]) || a == b); i++ {
			a = [2]string{Pick(r, pipeTypes), Pick(r, pipeIDs)}
		}

		pool := [][2]string{b, {Pick(r, pipeTypes), Pick(r, pipeIDs)}}

		blocker := e.genDecls(r, "r", mixed)
		if r.Chance(1, 3) {
			// a registration that will be rejected (two inputs with equal keys) after its first input — on the kind of
			// the repeated key — was added to the dependency database; it is held at the watch set-up in between
			blocker = Pick(r, []string{b[0], a[0]}) + "/-/" + Pick(r, []string{"weak", "strong"}) + ",T9/-/weak,T9/-/strong at=watch"
		}

		stallWindow(blocker, a, pool, 2+r.Intn(5), r.Chance(1, 2))
	}

	// some pre-existing resources
	for i := r.Intn(5); i > 0; i-- {
		write()
	}

	if fan {
		// 3 or 5 by-kind dependents and one by-ID dependent of one type, registered in random order, before or after start
		typ, id := Pick(r, pipeTypes), Pick(r, pipeIDs)
		nKind := Pick(r, []int{3, 3, 5})
		idPos := r.Intn(nKind + 1)
		startPos := r.Intn(nKind + 2)

		if r.Chance(2, 3) {
			c.Ops = append(c.Ops, fmt.Sprintf("w t=%d typ=%s id=%s mut=setSpec:s1", tick(), typ, id))
		}

		for i := 0; i <= nKind; i++ {
			if i == startPos {
				c.Ops = append(c.Ops, fmt.Sprintf("start t=%d", tick()))
				started = true
			}

			decl := typ + "/-/" + Pick(r, []string{"weak", "strong"})
			if i == idPos {
				decl = typ + "/" + id + "/" + Pick(r, []string{"weak", "strong"})
			}

			p := i + 1
			rProbes = append(rProbes, p)
			rDecls[p] = decl
			c.Ops = append(c.Ops, fmt.Sprintf("reg t=%d p=%d fl=r in=%s busy=%d", tick(), p, decl, Pick(r, []int{0, 0, 0, 1})))
		}

		if !started {
			c.Ops = append(c.Ops, fmt.Sprintf("start t=%d", tick()))
			started = true
		}

		quiesce()

		for w := 1 + r.Intn(2); w > 0; w-- {
			// the parked delivery is the one of typ/id; what follows in the window are other keys
			other := [2]string{Pick(r, pipeTypes), Pick(r, pipeIDs)}
			for i := 0; i < 10 && other == [2]string{typ, id}; i++ {
				other = [2]string{Pick(r, pipeTypes), Pick(r, pipeIDs)}
			}

			if other == [2]string{typ, id} {
				break
			}

			stallWindow(typ+"/-/"+Pick(r, []string{"weak", "strong"}), [2]string{typ, id}, [][2]string{other, other}, 1+r.Intn(3), false)

			if nKind == 3 {
				break // a fourth by-kind dependent fills the table's backing array: no spare slot for a second window
			}
		}

		nProbes = 0 // no further random registrations: they would change the by-kind table
	}

	pre := r.Intn(nProbes + 1)
	for p := 1; p <= pre; p++ {
		reg(p)
	}

	next := pre + 1
	rounds := 4 + r.Intn(4)

	if thorough {
		rounds = 6 + r.Intn(8)
	}

	if fan {
		rounds = 1 + r.Intn(3)
	}

	for round := 0; round < rounds; round++ {
		if !started && (round > 0 || r.Chance(2, 3)) {
			c.Ops = append(c.Ops, fmt.Sprintf("start t=%d", tick()))
			started = true
		}

		if next <= nProbes && r.Chance(1, 2) {
			reg(next)
			next++
		}

		if started && len(rProbes) > 0 && r.Chance(1, 5) {
			// dynamic input update of an R probe
			p := Pick(r, rProbes)
			decls := e.genDecls(r, "r", mixed)
			rDecls[p] = decls
			c.Ops = append(c.Ops, fmt.Sprintf("updin t=%d p=%d in=%s", tick(), p, decls))
		}

		for i := 1 + r.Intn(6); i > 0; i-- {
			write()
		}

		if started {
			quiesce()
		}

		if started && stalls > 0 && (r.Chance(1, 2) || rounds-round <= stalls) {
			randomWindow()
			stalls--
		}
	}

	if !started {
		c.Ops = append(c.Ops, fmt.Sprintf("start t=%d", tick()))
	}

	c.Ops = append(c.Ops, fmt.Sprintf("quiesce t=%d", tick()))

	return c
}

type pipeDecl struct{ typ, id, kind string }

func pipeParseDecls(s string) []pipeDecl {
	var ds []pipeDecl

	for _, d := range strings.Split(s, ",") {
		f := strings.Split(d, "/")
		if len(f) == 3 {
			ds = append(ds, pipeDecl{f[0], f[1], f[2]})
		}
	}

	return ds
}

func pipeInputs(ds []pipeDecl) []controller.Input {
	kinds := map[string]controller.InputKind{
		"weak": controller.InputWeak, "strong": controller.InputStrong, "dr": controller.InputDestroyReady,
		"qprimary": controller.InputQPrimary, "qmapped": controller.InputQMapped, "qmappeddr": controller.InputQMappedDestroyReady,
	}

	ins := make([]controller.Input, 0, len(ds))

	for _, d := range ds {
		in := controller.Input{Namespace: "n1", Type: d.typ, Kind: kinds[d.kind]}
		if d.id != "-" {
			in.ID = optional.Some(d.id)
		}

		ins = append(ins, in)
	}

	return ins
}

// pipeProbe is both a Controller and a QController probe.
type pipeProbe struct {
	mu       sync.Mutex
	name     string
	flavour  string
	decls    []pipeDecl
	pending  []pipeDecl // inputs to install at the next wake-up (R flavour)
	hasPend  bool
	busy     time.Duration
	observed map[string]uint64
	updErr   string
	rt       controller.Runtime
	// stall probe: the first Outputs() call (made by NewAdapter under Runtime.controllersMu) waits for the gate
	gate     chan struct{}
	gateOnce sync.Once
}

func (p *pipeProbe) Name() string { return p.name }

func (p *pipeProbe) Inputs() []controller.Input { return pipeInputs(p.decls) }

func (p *pipeProbe) Outputs() []controller.Output {
	if p.gate != nil {
		p.gateOnce.Do(func() { <-p.gate })
	}

	return nil
}

// pipeSettle returns when every other goroutine of the caller's synctest bubble is blocked — durably (as
// synctest.Wait demands) or on a sync.Mutex / sync.RWMutex. synctest.Wait cannot be used while the delivery
// goroutine waits for controllersMu (a mutex wait is not durable, Wait would never return); the mutex is held
// by the stalled registration, which is durably blocked on its gate, so such a state is stable as well: nothing
// in the bubble can run before the caller acts, and virtual time does not advance while the caller runs.
// runtime.Stack(all) stops the world, so each snapshot is consistent.
func pipeSettle() {
	buf := make([]byte, 1<<20)

	for iter := 0; ; iter++ {
		goruntime.Gosched()

		n := goruntime.Stack(buf, true)
		if n == len(buf) {
			buf = make([]byte, 2*len(buf))

			continue
		}

		blocks := bytes.Split(buf[:n], []byte("\n\n"))
		bubble := pipeBubbleTag(blocks[0])

		if bubble == "" {
			panic("pipeSettle: not in a synctest bubble")
		}

		settled := true

		for _, b := range blocks[1:] {
			if pipeBubbleTag(b) != bubble {
				continue
			}

			hdr, _, _ := bytes.Cut(b, []byte("\n"))
			_, st, _ := bytes.Cut(hdr, []byte("["))

			if !(bytes.Contains(st, []byte("(durable)")) || bytes.HasPrefix(st, []byte("sync.RWMutex.")) || bytes.HasPrefix(st, []byte("sync.Mutex."))) {
				settled = false

				break
			}
		}

		if settled {
			return
		}

		if iter > 1_000_000 {
			panic("pipeSettle: the bubble does not settle")
		}
	}
}

// pipeBubbleTag extracts "synctest bubble N" from the header line of a goroutine dump block.
func pipeBubbleTag(block []byte) string {
	hdr, _, _ := bytes.Cut(block, []byte("\n"))

	i := bytes.Index(hdr, []byte("synctest bubble "))
	if i < 0 {
		return ""
	}

	tag := hdr[i:]
	if j := bytes.IndexAny(tag, ",]"); j >= 0 {
		tag = tag[:j]
	}

	return string(tag)
}

func (p *pipeProbe) record(typ, id string, r resource.Resource, err error) {
	p.mu.Lock()
	defer p.mu.Unlock()

	if err != nil {
		p.observed[typ+"/"+id] = 0

		return
	}

	p.observed[typ+"/"+id] = r.Metadata().Version().Value()
}

func (p *pipeProbe) Run(ctx context.Context, r controller.Runtime, _ *zap.Logger) error {
	p.mu.Lock()
	p.rt = r
	p.mu.Unlock()

	for {
		select {
		case <-ctx.Done():
			return nil
		case <-r.EventCh():
		}

		p.mu.Lock()
		pend, has := p.pending, p.hasPend
		p.hasPend = false
		p.mu.Unlock()

		if has {
			if err := r.UpdateInputs(pipeInputs(pend)); err != nil {
				p.mu.Lock()
				p.updErr = err.Error()
				p.mu.Unlock()
			} else {
				p.mu.Lock()
				p.decls = pend
				p.mu.Unlock()
			}
		}

		if p.busy > 0 {
			select {
			case <-ctx.Done():
				return nil
			case <-time.After(p.busy):
			}
		}

		p.mu.Lock()
		decls := append([]pipeDecl{}, p.decls...)
		p.mu.Unlock()

		for _, d := range decls {
			if d.id != "-" {
				res, err := r.Get(ctx, resource.NewMetadata("n1", d.typ, d.id, resource.VersionUndefined))
				if err != nil && !state.IsNotFoundError(err) {
					return err
				}

				p.record(d.typ, d.id, res, err)

				continue
			}

			list, err := r.List(ctx, resource.NewMetadata("n1", d.typ, "", resource.VersionUndefined))
			if err != nil {
				return err
			}

			seen := map[string]bool{}

			for _, res := range list.Items {
				seen[res.Metadata().ID()] = true
				p.record(d.typ, res.Metadata().ID(), res, nil)
			}

			for _, id := range pipeIDs {
				if !seen[id] {
					p.record(d.typ, id, nil, fmt.Errorf("absent"))
				}
			}
		}
	}
}

// QController side
func (p *pipeProbe) Settings() controller.QSettings {
	return controller.QSettings{Inputs: pipeInputs(p.decls), Concurrency: optional.Some(uint(2))}
}

func (p *pipeProbe) primaryType() string {
	for _, d := range p.decls {
		if d.kind == "qprimary" {
			return d.typ
		}
	}

	return ""
}

func (p *pipeProbe) Reconcile(ctx context.Context, _ *zap.Logger, r controller.QRuntime, ptr resource.Pointer) error {
	if p.busy > 0 {
		select {
		case <-ctx.Done():
			return nil
		case <-time.After(p.busy):
		}
	}

	for _, d := range p.decls {
		res, err := r.Get(ctx, resource.NewMetadata("n1", d.typ, ptr.ID(), resource.VersionUndefined))
		if err != nil && !state.IsNotFoundError(err) {
			return err
		}

		p.record(d.typ, ptr.ID(), res, err)
	}

	return nil
}

func (p *pipeProbe) MapInput(_ context.Context, _ *zap.Logger, _ controller.QRuntime, md controller.ReducedResourceMetadata) ([]resource.Pointer, error) {
	return []resource.Pointer{resource.NewMetadata("n1", p.primaryType(), md.ID(), resource.VersionUndefined)}, nil
}

func (p *pipeProbe) line() string {
	p.mu.Lock()
	defer p.mu.Unlock()

	var items []string

	for _, t := range pipeTypes {
		for _, id := range pipeIDs {
			match := false

			for _, d := range p.decls {
				if d.typ == t && (d.id == "-" || d.id == id) {
					match = true
				}
			}

			if match {
				items = append(items, fmt.Sprintf("%s/%s=%d", t, id, p.observed[t+"/"+id]))
			}
		}
	}

	s := fmt.Sprintf("%s: %s ;", p.name, strings.Join(items, " "))
	if p.updErr != "" {
		s += " !upderr"
	}

	return s
}

// pipeStateProxy is the state the runtime sees: setting up the watch of type T9 (nothing else uses it) waits for
// the gate of an open `stall at=watch` window. That call is made by UpdateInputs under Runtime.controllersMu,
// after the inputs sorted before T9 have been added to the dependency database.
type pipeStateProxy struct {
	state.CoreState

	mu       sync.Mutex
	gate     chan struct{}
	failList string // the first List of this type fails, once `armed` (the runtime has been started)
	armed    bool
}

var errPipeList = fmt.Errorf("transient list failure")

func (p *pipeStateProxy) List(ctx context.Context, kind resource.Kind, opts ...state.ListOption) (resource.List, error) {
	p.mu.Lock()
	fail := p.failList != "" && kind.Type() == p.failList && p.armed
	if fail {
		p.failList = ""
	}
	p.mu.Unlock()

	if fail {
		return resource.List{}, errPipeList
	}

	return p.CoreState.List(ctx, kind, opts...)
}

func (p *pipeStateProxy) WatchKindAggregated(ctx context.Context, kind resource.Kind, ch chan<- []state.Event, opts ...state.WatchKindOption) error {
	p.mu.Lock()
	gate := p.gate
	p.mu.Unlock()

	if kind.Type() == "T9" && gate != nil {
		<-gate
	}

	return p.CoreState.WatchKindAggregated(ctx, kind, ch, opts...)
}

func (e *pipeEng) Exec(t *testing.T, c Case) []string {
	_, h := ParseLine(strings.TrimPrefix(c.Header, "#"))
	out := make([]string, 0, len(c.Ops))

	synctest.Test(t, func(t *testing.T) {
		ctx, cancel := context.WithCancel(context.Background())
		defer cancel()

		inner := namespaced.NewState(func(ns resource.Namespace) state.CoreState { return inmem.NewState(ns) })
		proxy := &pipeStateProxy{CoreState: inner, failList: h["faillist"]}
		st := state.WrapCore(proxy)

		var opts []options.Option

		if h["cached"] != "" {
			opts = append(opts, options.WithCachedResource("n1", h["cached"]))
		}

		rt, err := runtime.NewRuntime(st, zap.NewNop(), opts...)
		if err != nil {
			panic(err)
		}

		probes := map[string]*pipeProbe{}
		runDone := make(chan error, 1)
		runErr := ""
		started := false

		// the open stall window: the registration goroutine's result channel, the gate, the tick of the `stall`
		var (
			stallDone chan error
			stallGate chan struct{}
			stallT    string
			stallRes  string // result of a registration that was released implicitly, reported by the next `unstall`
			stallP    string // the probe being registered
		)

		release := func() string {
			if stallDone == nil {
				return "ok"
			}

			close(stallGate)

			err := <-stallDone
			stallDone, stallGate = nil, nil

			proxy.mu.Lock()
			proxy.gate = nil
			proxy.mu.Unlock()

			if err != nil {
				delete(probes, stallP) // a rejected registration leaves no controller behind

				return "reject"
			}

			return "ok"
		}

		for _, line := range c.Ops {
			op, a := ParseLine(line)

			// a stall window stays open only across `w` ops of the same tick (and `stall` ops, which are ignored);
			// anything else closes it first — virtual time cannot advance while the delivery goroutine waits for
			// controllersMu, and start / reg / quiesce need the lock or a settled bubble
			d := fromTick(a.Int("t")).Sub(time.Now())
			if stallDone != nil && op != "unstall" && op != "stall" && (op != "w" || a["t"] != stallT || d > 0) {
				if res := release(); res != "ok" {
					stallRes = res
				}
			}

			if d > 0 {
				time.Sleep(d)
			}

			res := func() (res string) {
				defer func() {
					if r := recover(); r != nil {
						res = fmt.Sprintf("PANIC %v", r)
					}
				}()

				switch op {
				case "reg":
					p := &pipeProbe{name: "p" + a["p"], flavour: a["fl"], decls: pipeParseDecls(a["in"]), busy: time.Duration(a.Int("busy")) * time.Second, observed: map[string]uint64{}}
					probes[a["p"]] = p

					var err error
					if p.flavour == "q" {
						err = rt.RegisterQController(p)
					} else {
						err = rt.RegisterController(p)
					}

					if err != nil {
						return "reject"
					}

					return "ok"
				case "updin":
					p := probes[a["p"]]
					if p == nil || p.flavour != "r" {
						return "ok"
					}

					p.mu.Lock()
					p.pending, p.hasPend = pipeParseDecls(a["in"]), true
					p.mu.Unlock()

					synctest.Wait()
					p.mu.Lock()
					rt := p.rt
					p.mu.Unlock()

					if rt != nil {
						rt.QueueReconcile()
					}

					return "ok"
				case "start":
					started = true

					proxy.mu.Lock()
					proxy.armed = true
					proxy.mu.Unlock()

					go func() { runDone <- rt.Run(ctx) }()

					return "ok"
				case "stall":
					if stallDone != nil {
						return "ok"
					}

					p := &pipeProbe{name: "p" + a["p"], flavour: "r", decls: pipeParseDecls(a["in"]), observed: map[string]uint64{}, gate: make(chan struct{})}
					probes[a["p"]] = p
					stallDone, stallGate, stallT, stallP = make(chan error, 1), p.gate, a["t"], a["p"]

					if a["at"] == "watch" {
						// hold the registration later: inside UpdateInputs, at the watch set-up of its T9 input
						p.gate = nil

						proxy.mu.Lock()
						proxy.gate = stallGate
						proxy.mu.Unlock()
					}

					go func(done chan error) { done <- rt.RegisterController(p) }(stallDone)

					// the registration now waits in Outputs(), holding controllersMu
					pipeSettle()

					return "ok"
				case "unstall":
					res := release()
					if stallRes != "" {
						res, stallRes = stallRes, ""
					}

					return res
				case "w":
					res := pipeWrite(ctx, inner, a)

					if stallDone != nil {
						// one batch per write: let the watchers and the dedup goroutine finish with this event
						pipeSettle()
					}

					return res
				case "quiesce":
					if !started {
						return "not-started"
					}

					// install pending input updates: nudge every R probe with a pending update
					for i := 0; i < 6; i++ {
						synctest.Wait()
						time.Sleep(time.Second)
					}

					synctest.Wait()

					select {
					case err := <-runDone:
						runErr = fmt.Sprint(err)
					default:
					}

					if runErr != "" {
						return "RUN-RETURNED " + runErr
					}

					keys := make([]string, 0, len(probes))
					for k := range probes {
						keys = append(keys, k)
					}

					sort.Slice(keys, func(i, j int) bool { return Args{"x": keys[i]}.Int("x") < Args{"x": keys[j]}.Int("x") })

					parts := make([]string, 0, len(keys))
					for _, k := range keys {
						parts = append(parts, probes[k].line())
					}

					return strings.Join(parts, " ")
				}

				return "bad-op"
			}()

			out = append(out, res)
		}

		release()
		cancel()
		synctest.Wait()
	})

	return out
}

// pipeWrite is an external write: create if absent, destroy, or an atomic modify.
func pipeWrite(ctx context.Context, st state.CoreState, a Args) string {
	typ, id := a["typ"], a["id"]
	ptr := resource.NewMetadata("n1", typ, id, resource.VersionUndefined)

	cur, err := st.Get(ctx, ptr)
	if err != nil {
		if a["mut"] == "destroy" {
			return "absent"
		}

		r := NewTRes("n1", typ, id)
		r.md.SetCreated(fromTick(0))
		r.md.SetUpdated(fromTick(0))
		r.spec = TSpec{S: "s0"}

		if err := st.Create(ctx, r); err != nil {
			return ErrLine(err, "n1", typ)
		}

		return "ok " + ResStr(r)
	}

	if a["mut"] == "destroy" {
		if err := st.Destroy(ctx, ptr, state.WithDestroyOwner(cur.Metadata().Owner())); err != nil {
			return ErrLine(err, "n1", typ)
		}

		return "ok"
	}

	return envMod(ctx, st, Args{"ns": "n1", "typ": typ, "id": id, "mut": a["mut"]})
}
