package harness

import (
	"context"
	"fmt"
	"sort"
	"strings"
	"sync"
	"testing"
	"testing/synctest"
	"time"

	"github.com/siderolabs/gen/optional"
	"go.uber.org/zap"

	"github.com/cosi-project/runtime/pkg/controller"
	"github.com/cosi-project/runtime/pkg/controller/runtime"
	"github.com/cosi-project/runtime/pkg/controller/runtime/options"
	"github.com/cosi-project/runtime/pkg/resource"
	"github.com/cosi-project/runtime/pkg/state"
	"github.com/cosi-project/runtime/pkg/state/impl/inmem"
	"github.com/cosi-project/runtime/pkg/state/impl/namespaced"
)

// engine pipeline (C05): the real controller runtime under synctest with probe
// controllers of both flavours and random input declarations (by kind / by ID, every
// input kind, registered before or after Run, inputs updated later, cached or not),
// random external write bursts, probes with virtual busy time. At every `quiesce` each
// probe's last observation of every key matching its inputs is printed; the driver
// prints what the property demands.

func init() { Register("pipeline", func() Engine { return &pipeEng{} }) }

type pipeEng struct{}

func (*pipeEng) Name() string { return "pipeline" }

func (*pipeEng) Cases(thorough bool) int {
	if thorough {
		return 1500
	}

	return 120
}

func (*pipeEng) Rule() string {
	return "1-4 probe controllers (Controller / QController) with random inputs over 3 types x 3 ids (weak, strong, destroy-ready by kind or by id; q-primary, q-mapped, q-mapped-destroy-ready), registered before or after start, inputs updated later, optional cached kind, probes busy 0-3 virtual seconds; bursts of 1-6 external writes (create, label/finalizer/phase changes, destroy) between quiescence points; non-trivial = a burst with more than one event of one key and a busy probe and at least 3 quiescence points; distinct by hash of the op lines"
}

func (*pipeEng) NonTrivial(c Case, _ []string) bool {
	q, busy, burst := 0, false, false
	seen := map[string]bool{}

	for _, op := range c.Ops {
		name, a := ParseLine(op)

		switch name {
		case "quiesce":
			q++
			seen = map[string]bool{}
		case "reg":
			if a["busy"] != "" && a["busy"] != "0" {
				busy = true
			}
		case "w":
			k := a["typ"] + "/" + a["id"]
			if seen[k] {
				burst = true
			}

			seen[k] = true
		}
	}

	return q >= 3 && busy && burst
}

var (
	pipeTypes = []string{"T1", "T2", "T3"}
	pipeIDs   = []string{"a", "b", "c"}
	pipeMuts  = []string{"setLabel:k1:v1", "setLabel:k1:v2", "setSpec:s1", "setSpec:s2", "addFins:A", "removeFins:A", "setPhaseTD", "destroy", "destroy"}
)

func (e *pipeEng) genDecls(r *Rand, flavour string, allowMixed bool) string {
	var ds []string

	if flavour == "q" {
		// one kind-wide primary, 0-2 mapped inputs on other types
		perm := []string{"T1", "T2", "T3"}
		p := r.Intn(3)
		ds = append(ds, perm[p]+"/-/qprimary")

		for i, t := range perm {
			if i != p && r.Chance(1, 2) {
				ds = append(ds, t+"/-/"+Pick(r, []string{"qmapped", "qmappeddr"}))
			}
		}

		return strings.Join(ds, ",")
	}

	used := map[string]bool{}
	groupKind := map[string]string{}
	n := 1 + r.Intn(3)

	for i := 0; i < n; i++ {
		t := Pick(r, pipeTypes)
		id := "-"

		if r.Chance(1, 2) {
			id = Pick(r, pipeIDs)
		}

		if used[t+"/"+id] {
			continue
		}

		kind := Pick(r, []string{"weak", "strong", "dr"})

		if !allowMixed {
			// keep each (namespace,type) group either all destroy-ready or free of it
			if g, ok := groupKind[t]; ok && (g == "dr") != (kind == "dr") {
				if g == "dr" {
					kind = "dr"
				} else {
					kind = Pick(r, []string{"weak", "strong"})
				}
			}
		}

		if _, ok := groupKind[t]; !ok || kind == "dr" {
			groupKind[t] = kind
		}

		used[t+"/"+id] = true
		ds = append(ds, t+"/"+id+"/"+kind)
	}

	return strings.Join(ds, ",")
}

func (e *pipeEng) Gen(r *Rand, thorough bool, idx int) Case {
	cached := ""
	if r.Chance(1, 3) {
		cached = Pick(r, pipeTypes)
	}

	// one case in eight uses declarations that mix destroy-ready and other inputs in one group (D5)
	mixed := idx%8 == 7

	c := Case{Header: fmt.Sprintf("# engine=pipeline nsaware=1 initcap=100 maxcap=100 gap=5 cached=%s mixed=%v case=%d", cached, mixed, idx)}
	t := 0
	tick := func() int { t++; return t }
	nProbes := 1 + r.Intn(4)
	started := false

	var rProbes []int

	reg := func(p int) {
		fl := "r"
		if r.Chance(1, 3) {
			fl = "q"
		} else {
			rProbes = append(rProbes, p)
		}

		c.Ops = append(c.Ops, fmt.Sprintf("reg t=%d p=%d fl=%s in=%s busy=%d", tick(), p, fl, e.genDecls(r, fl, mixed), Pick(r, []int{0, 0, 1, 3})))
	}

	write := func() {
		c.Ops = append(c.Ops, fmt.Sprintf("w t=%d typ=%s id=%s mut=%s", tick(), Pick(r, pipeTypes), Pick(r, pipeIDs[:2+r.Intn(2)]), Pick(r, pipeMuts)))
	}

	// some pre-existing resources
	for i := r.Intn(5); i > 0; i-- {
		write()
	}

	pre := r.Intn(nProbes + 1)
	for p := 1; p <= pre; p++ {
		reg(p)
	}

	next := pre + 1
	rounds := 4 + r.Intn(4)

	if thorough {
		rounds = 6 + r.Intn(8)
	}

	for round := 0; round < rounds; round++ {
		if !started && (round > 0 || r.Chance(2, 3)) {
			c.Ops = append(c.Ops, fmt.Sprintf("start t=%d", tick()))
			started = true
		}

		if next <= nProbes && r.Chance(1, 2) {
			reg(next)
			next++
		}

		if started && len(rProbes) > 0 && r.Chance(1, 5) {
			// dynamic input update of an R probe
			c.Ops = append(c.Ops, fmt.Sprintf("updin t=%d p=%d in=%s", tick(), Pick(r, rProbes), e.genDecls(r, "r", mixed)))
		}

		for i := 1 + r.Intn(6); i > 0; i-- {
			write()
		}

		if started {
			c.Ops = append(c.Ops, fmt.Sprintf("quiesce t=%d", tick()))
			t += 10 // quiescing consumes virtual time
		}
	}

	if !started {
		c.Ops = append(c.Ops, fmt.Sprintf("start t=%d", tick()))
	}

	c.Ops = append(c.Ops, fmt.Sprintf("quiesce t=%d", tick()))

	return c
}

type pipeDecl struct{ typ, id, kind string }

func pipeParseDecls(s string) []pipeDecl {
	var ds []pipeDecl

	for _, d := range strings.Split(s, ",") {
		f := strings.Split(d, "/")
		if len(f) == 3 {
			ds = append(ds, pipeDecl{f[0], f[1], f[2]})
		}
	}

	return ds
}

func pipeInputs(ds []pipeDecl) []controller.Input {
	kinds := map[string]controller.InputKind{
		"weak": controller.InputWeak, "strong": controller.InputStrong, "dr": controller.InputDestroyReady,
		"qprimary": controller.InputQPrimary, "qmapped": controller.InputQMapped, "qmappeddr": controller.InputQMappedDestroyReady,
	}

	ins := make([]controller.Input, 0, len(ds))

	for _, d := range ds {
		in := controller.Input{Namespace: "n1", Type: d.typ, Kind: kinds[d.kind]}
		if d.id != "-" {
			in.ID = optional.Some(d.id)
		}

		ins = append(ins, in)
	}

	return ins
}

// pipeProbe is both a Controller and a QController probe.
type pipeProbe struct {
	mu       sync.Mutex
	name     string
	flavour  string
	decls    []pipeDecl
	pending  []pipeDecl // inputs to install at the next wake-up (R flavour)
	hasPend  bool
	busy     time.Duration
	observed map[string]uint64
	updErr   string
	rt       controller.Runtime
}

func (p *pipeProbe) Name() string { return p.name }

func (p *pipeProbe) Inputs() []controller.Input { return pipeInputs(p.decls) }

func (p *pipeProbe) Outputs() []controller.Output { return nil }

func (p *pipeProbe) record(typ, id string, r resource.Resource, err error) {
	p.mu.Lock()
	defer p.mu.Unlock()

	if err != nil {
		p.observed[typ+"/"+id] = 0

		return
	}

	p.observed[typ+"/"+id] = r.Metadata().Version().Value()
}

func (p *pipeProbe) Run(ctx context.Context, r controller.Runtime, _ *zap.Logger) error {
	p.mu.Lock()
	p.rt = r
	p.mu.Unlock()

	for {
		select {
		case <-ctx.Done():
			return nil
		case <-r.EventCh():
		}

		p.mu.Lock()
		pend, has := p.pending, p.hasPend
		p.hasPend = false
		p.mu.Unlock()

		if has {
			if err := r.UpdateInputs(pipeInputs(pend)); err != nil {
				p.mu.Lock()
				p.updErr = err.Error()
				p.mu.Unlock()
			} else {
				p.mu.Lock()
				p.decls = pend
				p.mu.Unlock()
			}
		}

		if p.busy > 0 {
			select {
			case <-ctx.Done():
				return nil
			case <-time.After(p.busy):
			}
		}

		p.mu.Lock()
		decls := append([]pipeDecl{}, p.decls...)
		p.mu.Unlock()

		for _, d := range decls {
			if d.id != "-" {
				res, err := r.Get(ctx, resource.NewMetadata("n1", d.typ, d.id, resource.VersionUndefined))
				if err != nil && !state.IsNotFoundError(err) {
					return err
				}

				p.record(d.typ, d.id, res, err)

				continue
			}

			list, err := r.List(ctx, resource.NewMetadata("n1", d.typ, "", resource.VersionUndefined))
			if err != nil {
				return err
			}

			seen := map[string]bool{}

			for _, res := range list.Items {
				seen[res.Metadata().ID()] = true
				p.record(d.typ, res.Metadata().ID(), res, nil)
			}

			for _, id := range pipeIDs {
				if !seen[id] {
					p.record(d.typ, id, nil, fmt.Errorf("absent"))
				}
			}
		}
	}
}

// QController side
func (p *pipeProbe) Settings() controller.QSettings {
	return controller.QSettings{Inputs: pipeInputs(p.decls), Concurrency: optional.Some(uint(2))}
}

func (p *pipeProbe) primaryType() string {
	for _, d := range p.decls {
		if d.kind == "qprimary" {
			return d.typ
		}
	}

	return ""
}

func (p *pipeProbe) Reconcile(ctx context.Context, _ *zap.Logger, r controller.QRuntime, ptr resource.Pointer) error {
	if p.busy > 0 {
		select {
		case <-ctx.Done():
			return nil
		case <-time.After(p.busy):
		}
	}

	for _, d := range p.decls {
		res, err := r.Get(ctx, resource.NewMetadata("n1", d.typ, ptr.ID(), resource.VersionUndefined))
		if err != nil && !state.IsNotFoundError(err) {
			return err
		}

		p.record(d.typ, ptr.ID(), res, err)
	}

	return nil
}

func (p *pipeProbe) MapInput(_ context.Context, _ *zap.Logger, _ controller.QRuntime, md controller.ReducedResourceMetadata) ([]resource.Pointer, error) {
	return []resource.Pointer{resource.NewMetadata("n1", p.primaryType(), md.ID(), resource.VersionUndefined)}, nil
}

func (p *pipeProbe) line() string {
	p.mu.Lock()
	defer p.mu.Unlock()

	var items []string

	for _, t := range pipeTypes {
		for _, id := range pipeIDs {
			match := false

			for _, d := range p.decls {
				if d.typ == t && (d.id == "-" || d.id == id) {
					match = true
				}
			}

			if match {
				items = append(items, fmt.Sprintf("%s/%s=%d", t, id, p.observed[t+"/"+id]))
			}
		}
	}

	s := fmt.Sprintf("%s: %s ;", p.name, strings.Join(items, " "))
	if p.updErr != "" {
		s += " !upderr"
	}

	return s
}

func (e *pipeEng) Exec(t *testing.T, c Case) []string {
	_, h := ParseLine(strings.TrimPrefix(c.Header, "#"))
	out := make([]string, 0, len(c.Ops))

	synctest.Test(t, func(t *testing.T) {
		ctx, cancel := context.WithCancel(context.Background())
		defer cancel()

		inner := namespaced.NewState(func(ns resource.Namespace) state.CoreState { return inmem.NewState(ns) })
		st := state.WrapCore(inner)

		var opts []options.Option

		if h["cached"] != "" {
			opts = append(opts, options.WithCachedResource("n1", h["cached"]))
		}

		rt, err := runtime.NewRuntime(st, zap.NewNop(), opts...)
		if err != nil {
			panic(err)
		}

		probes := map[string]*pipeProbe{}
		runDone := make(chan error, 1)
		runErr := ""
		started := false

		for _, line := range c.Ops {
			op, a := ParseLine(line)
			if d := fromTick(a.Int("t")).Sub(time.Now()); d > 0 {
				time.Sleep(d)
			}

			res := func() (res string) {
				defer func() {
					if r := recover(); r != nil {
						res = fmt.Sprintf("PANIC %v", r)
					}
				}()

				switch op {
				case "reg":
					p := &pipeProbe{name: "p" + a["p"], flavour: a["fl"], decls: pipeParseDecls(a["in"]), busy: time.Duration(a.Int("busy")) * time.Second, observed: map[string]uint64{}}
					probes[a["p"]] = p

					var err error
					if p.flavour == "q" {
						err = rt.RegisterQController(p)
					} else {
						err = rt.RegisterController(p)
					}

					if err != nil {
						return "reject"
					}

					return "ok"
				case "updin":
					p := probes[a["p"]]
					if p == nil || p.flavour != "r" {
						return "ok"
					}

					p.mu.Lock()
					p.pending, p.hasPend = pipeParseDecls(a["in"]), true
					p.mu.Unlock()

					synctest.Wait()
					p.mu.Lock()
					rt := p.rt
					p.mu.Unlock()

					if rt != nil {
						rt.QueueReconcile()
					}

					return "ok"
				case "start":
					started = true

					go func() { runDone <- rt.Run(ctx) }()

					return "ok"
				case "w":
					return pipeWrite(ctx, inner, a)
				case "quiesce":
					if !started {
						return "not-started"
					}

					// install pending input updates: nudge every R probe with a pending update
					for i := 0; i < 6; i++ {
						synctest.Wait()
						time.Sleep(time.Second)
					}

					synctest.Wait()

					select {
					case err := <-runDone:
						runErr = fmt.Sprint(err)
					default:
					}

					if runErr != "" {
						return "RUN-RETURNED " + runErr
					}

					keys := make([]string, 0, len(probes))
					for k := range probes {
						keys = append(keys, k)
					}

					sort.Slice(keys, func(i, j int) bool { return Args{"x": keys[i]}.Int("x") < Args{"x": keys[j]}.Int("x") })

					parts := make([]string, 0, len(keys))
					for _, k := range keys {
						parts = append(parts, probes[k].line())
					}

					return strings.Join(parts, " ")
				}

				return "bad-op"
			}()

			out = append(out, res)
		}

		cancel()
		synctest.Wait()
	})

	return out
}

// pipeWrite is an external write: create if absent, destroy, or an atomic modify.
func pipeWrite(ctx context.Context, st state.CoreState, a Args) string {
	typ, id := a["typ"], a["id"]
	ptr := resource.NewMetadata("n1", typ, id, resource.VersionUndefined)

	cur, err := st.Get(ctx, ptr)
	if err != nil {
		if a["mut"] == "destroy" {
			return "absent"
		}

		r := NewTRes("n1", typ, id)
		r.md.SetCreated(fromTick(0))
		r.md.SetUpdated(fromTick(0))
		r.spec = TSpec{S: "s0"}

		if err := st.Create(ctx, r); err != nil {
			return ErrLine(err, "n1", typ)
		}

		return "ok " + ResStr(r)
	}

	if a["mut"] == "destroy" {
		if err := st.Destroy(ctx, ptr, state.WithDestroyOwner(cur.Metadata().Owner())); err != nil {
			return ErrLine(err, "n1", typ)
		}

		return "ok"
	}

	return envMod(ctx, st, Args{"ns": "n1", "typ": typ, "id": id, "mut": a["mut"]})
}
