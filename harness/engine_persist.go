package harness

import (
	"bufio"
	"context"
	"errors"
	"fmt"
	"io"
	"os"
	"os/exec"
	"path/filepath"
	"sort"
	"strings"
	"sync/atomic"
	"syscall"
	"testing"
	"testing/synctest"
	"time"

	"go.etcd.io/bbolt"

	"github.com/cosi-project/runtime/pkg/resource"
	"github.com/cosi-project/runtime/pkg/resource/protobuf"
	"github.com/cosi-project/runtime/pkg/state"
	"github.com/cosi-project/runtime/pkg/state/impl/inmem"
	"github.com/cosi-project/runtime/pkg/state/impl/namespaced"
	"github.com/cosi-project/runtime/pkg/state/impl/store"
	"github.com/cosi-project/runtime/pkg/state/impl/store/bolt"
	"github.com/cosi-project/runtime/pkg/state/impl/store/compression"
	"github.com/cosi-project/runtime/pkg/state/impl/store/encryption"
)

// engine persist (C10): the REAL inmem state on a REAL bbolt file (under $VERIF_SCRATCH),
// wrapped by a fault store that rejects the n-th Put/Destroy/Load on demand. Store ops,
// watchers, `fault …`, `reopen` (drop the state object, close and reopen the file, build a
// fresh state); every marshaler stacking; compared line by line with Cosi.Model.Persist /
// Cosi.Spec.Persist. Mode `kill`: the ops run in a child process that is SIGKILLed at a
// random instant; the reopened file must be the model's state after a prefix of the ops
// that contains every acknowledged one, and the remaining ops must behave as if nothing
// had happened.

func init() {
	Register("persist", func() Engine { return &perEng{} })

	for _, typ := range uTyp {
		// another engine may have registered the type already: that is fine
		_ = protobuf.RegisterResource(typ, &TRes{}) //nolint:errcheck
	}
}

type perEng struct {
	residue    int // tail watches that saw the same Created entry twice (failed-then-retried Load)
	zPlain     int64
	zPacked    int64
	kills      int
	killInOp   int // kills that landed between a durable write and its ack
	killBefore int // kills after which the in-flight op was not durable
}

func (*perEng) Name() string { return "persist" }

func (*perEng) Cases(thorough bool) int {
	if thorough {
		return 5000
	}

	return 400
}

func (*perEng) Rule() string {
	return "random histories over 2 namespaces x 2 types x 4 ids (owners, versions, phases, finalizers, labels, annotations, short and long specs) on a bbolt-backed state; marshaler stack by case (pb, pb+z, pb+e, pb+z+e, pb+e+z; compression threshold 1/140/220/100000 so both sides are hit); injected Put/Destroy/Load failures; reopen after every write (every third case) or at random points, full listing after each reopen; kind/aggregated/single watchers drained around rejected writes; mode kill: child process SIGKILLed at a random instant; non-trivial = at least one reopen followed by a non-empty listing, one successful write and one rejected backing-store call (or, in kill mode, a kill that landed before the last op); distinct by hash of the op lines"
}

func (*perEng) NonTrivial(c Case, out []string) bool {
	_, h := ParseLine(strings.TrimPrefix(c.Header, "#"))
	reopened, listed, wrote, rejected := false, false, false, false

	for i, o := range out {
		if i >= len(c.Ops) {
			break
		}

		op := opName(c.Ops[i])

		switch {
		case op == "reopen":
			reopened = true
		case op == "list" && reopened && strings.HasPrefix(o, "items [") && o != "items []":
			listed = true
		case (op == "create" || op == "update" || op == "destroy") && strings.HasPrefix(o, "ok"):
			wrote = true
		}

		if strings.HasPrefix(o, "err class=other") {
			rejected = true
		}
	}

	if h["mode"] == "kill" {
		return wrote && h.Int("killat") < len(c.Ops)-4
	}

	return listed && wrote && rejected
}

func (e *perEng) Notes() []string {
	return []string{
		fmt.Sprintf("compression layer: %d values stored compressed, %d below the threshold stored plain", atomic.LoadInt64(&e.zPacked), atomic.LoadInt64(&e.zPlain)),
		fmt.Sprintf("benign residue outside C10's statement (DESIGN C10, load_retry): %d tail watches saw a Created entry twice in the history ring after a failed-then-retried Load; the model reproduces it (inject publishes), contents are unaffected", e.residue),
		fmt.Sprintf("kill mode: %d children SIGKILLed; %d kills landed after the durable write of the op in flight and before its ack, %d before it", e.kills, e.killInOp, e.killBefore),
	}
}

var (
	perStacks = []string{"pb", "pb+z", "pb+e", "pb+z+e", "pb+e+z"}
	perZMin   = []int{1, 140, 220, 100000}
	perAnn    = []string{"a1:x", "a2:", "a3:long-annotation-value-0123456789"}
	errPerInj = errors.New("injected backing store failure")
)

// Corpus: fixed cases that always run first — a rejected Put / Destroy under the eyes of a
// watcher, a Load failing at every position and twice in a row (with a tail watch that makes
// the benign ring residue visible), for every marshaler stacking on both sides of the
// compression threshold.
func (*perEng) Corpus(bool) []Case {
	var out []Case

	long := strings.Repeat("abcdefghij", 20)
	mk := func(id, spec string, t int) string {
		return fmt.Sprintf("create t=%d ns=n1 typ=T1 id=%s ver=undefined owner= phase=running fins=x labels=k1:v1 ann=a1:x c=0 u=0 spec=%s as=A", t, id, spec)
	}

	i := 0

	for _, stack := range perStacks {
		for _, zmin := range []int{1, 100000} {
			for _, flav := range storeFlavours {
				nsaware := 1
				if flav == "inmem" {
					nsaware = 0
				}

				hdr := fmt.Sprintf("# engine=persist flavour=%s nsaware=%d stack=%s zmin=%d initcap=4 maxcap=8 gap=1 mode=corpus case=c%d", flav, nsaware, stack, zmin, i)
				i++

				ops := []string{
					mk("a", "s1", 1), mk("b", long, 2),
					"wstart t=3 w=1 ns=n1 typ=T1 kind=kind buf=0",
					"wstart t=3 w=2 ns=n1 typ=T1 kind=single id=a buf=1",
					"recv t=3 w=2 ns=n1",
					"fault t=4 kind=put n=1 ns=n1",
					"update t=4 ns=n1 typ=T1 id=a ver=1 owner=A phase=tearingDown fins= labels=k2:5 ann= c=0 u=0 spec=" + long + " as=A exp=any",
					"recv t=4 w=1 ns=n1", "recv t=4 w=2 ns=n1",
					"get t=4 ns=n1 typ=T1 id=a",
					"update t=5 ns=n1 typ=T1 id=a ver=1 owner=A phase=tearingDown fins= labels=k2:5 ann= c=0 u=0 spec=" + long + " as=A exp=any",
					"recv t=5 w=1 ns=n1", "recv t=5 w=2 ns=n1",
					"fault t=6 kind=destroy n=1 ns=n1",
					"destroy t=6 ns=n1 typ=T1 id=a as=A",
					"recv t=6 w=1 ns=n1", "recv t=6 w=2 ns=n1",
					"list t=6 ns=n1 typ=T1",
					"fault t=7 kind=put n=2 ns=n1",
					mk("c", "s2", 7), mk("d", "s3", 8), mk("d", "s3", 9),
					"recv t=9 w=1 ns=n1", "recv t=9 w=1 ns=n1", "recv t=9 w=1 ns=n1",
				}

				for after := 0; after <= 4; after++ {
					ops = append(ops,
						fmt.Sprintf("fault t=10 kind=load after=%d ns=n1", after),
						fmt.Sprintf("fault t=10 kind=load after=%d ns=n1", (after+2)%4),
						"reopen t=10",
						"list t=10 ns=n1 typ=T1", "get t=10 ns=n1 typ=T1 id=a",
						"wstart t=10 w=9 ns=n1 typ=T1 kind=kind buf=0",
						"list t=10 ns=n1 typ=T1",
						fmt.Sprintf("wstart t=10 w=%d ns=n1 typ=T1 kind=kind tail=8 buf=0", 10+after),
					)

					for j := 0; j < 8; j++ {
						ops = append(ops, fmt.Sprintf("recv t=10 w=%d ns=n1", 10+after))
					}
				}

				ops = append(ops, "destroy t=11 ns=n1 typ=T1 id=a as=A", "reopen t=11", "list t=11 ns=n1 typ=T1", "list t=11 ns=n1 typ=T2")
				out = append(out, Case{Header: hdr, Ops: ops})
			}
		}
	}

	return out
}

// ---------------------------------------------------------------- generator

// perMarkCancelled marks about one write in ten as issued with a context that is already done.
func perMarkCancelled(r *Rand, ops []string) {
	for i, op := range ops {
		if name := opName(op); (name == "create" || name == "update" || name == "destroy") && r.Chance(1, 10) {
			ops[i] = op + " cx=1"
		}
	}
}

func (e *perEng) Gen(r *Rand, thorough bool, idx int) Case {
	flav := storeFlavours[idx%len(storeFlavours)]
	nsaware := 1

	if flav == "inmem" {
		nsaware = 0
	}

	stack := perStacks[(idx/2)%len(perStacks)]
	zmin := perZMin[(idx/10)%len(perZMin)]
	initcap := 3 + r.Intn(6)
	maxcap := initcap + r.Intn(2*initcap+1)
	gap := r.Intn(initcap)

	mode := "rand"
	if idx%3 == 0 {
		mode = "every"
	}

	killEvery := 16
	if thorough {
		killEvery = 7
	}

	if idx%killEvery == killEvery-1 {
		mode = "kill"
	}

	n := 24
	if thorough {
		n = 50
	}

	if mode == "every" {
		n = n / 2
	}

	hdr := fmt.Sprintf("# engine=persist flavour=%s nsaware=%d stack=%s zmin=%d initcap=%d maxcap=%d gap=%d mode=%s case=%d",
		flav, nsaware, stack, zmin, initcap, maxcap, gap, mode, idx)
	c := Case{}

	shadow := map[string]*shadowRes{}
	key := func(ns, typ, id string) string {
		if nsaware == 0 {
			return typ + "/" + id
		}

		return ns + "/" + typ + "/" + id
	}

	subset := func(xs []string) string {
		var out []string

		for _, x := range xs {
			if r.Chance(1, 4) {
				out = append(out, x)
			}
		}

		return strings.Join(out, ",")
	}

	spec := func() string {
		if r.Chance(1, 3) {
			return fmt.Sprintf("L%d-%s", r.Intn(5), strings.Repeat("abcdefghij", 4+r.Intn(20)))
		}

		return fmt.Sprintf("s%d", r.Intn(5))
	}

	dump := func(t int) {
		for _, ns := range uNS {
			if nsaware == 0 && ns != uNS[0] {
				continue
			}

			for _, typ := range uTyp {
				c.Ops = append(c.Ops, fmt.Sprintf("list t=%d ns=%s typ=%s", t, ns, typ))
			}
		}
	}

	nextW := 1

	type lw struct {
		w  int
		ns string
	}

	var live []lw

	for i := 0; i < n; i++ {
		ns, typ, id := Pick(r, uNS), Pick(r, uTyp), Pick(r, uID[:3])
		if r.Chance(1, 10) {
			id = "d"
		}

		k := key(ns, typ, id)
		sh := shadow[k]
		t := i + 1
		wrote := false

		x := r.Intn(100)
		if mode == "kill" && x >= 75 && x < 96 {
			x = r.Intn(75) // no faults, watchers or reopens in a child that is going to be killed
		}

		switch {
		case x < 25: // create
			owner := Pick(r, uOwner)
			objOwner := ""

			if r.Chance(1, 8) {
				objOwner = Pick(r, uOwner)
			}

			phase := "running"
			if r.Chance(1, 8) {
				phase = "tearingDown"
			}

			fins := ""
			if r.Chance(1, 4) {
				fins = subset(uFins)
			}

			c.Ops = append(c.Ops, fmt.Sprintf("create t=%d ns=%s typ=%s id=%s ver=undefined owner=%s phase=%s fins=%s labels=%s ann=%s c=%d u=%d spec=%s as=%s",
				t, ns, typ, id, objOwner, phase, fins, subset(uLabels), subset(perAnn), r.Intn(t+1), r.Intn(t+1), spec(), owner))
			wrote = true

			if sh == nil && (objOwner == "" || objOwner == owner) {
				shadow[k] = &shadowRes{ver: 1, owner: owner, phase: phase, fins: splitNonEmpty(fins)}
			}
		case x < 58: // update
			as := Pick(r, uOwner)
			ver := "undefined"
			phase := "running"
			objOwner := as
			exp := "any"
			fins := ""

			if sh != nil {
				as, objOwner, ver, phase = sh.owner, sh.owner, fmt.Sprint(sh.ver), sh.phase

				if r.Chance(1, 8) {
					as = Pick(r, uOwner)
				}

				if r.Chance(1, 8) {
					ver = Pick(r, []string{fmt.Sprint(sh.ver + 1), fmt.Sprint(max(sh.ver-1, 0)), "undefined"})
				}

				if r.Chance(1, 5) {
					phase = Pick(r, []string{"running", "tearingDown"})
				}

				if r.Chance(1, 4) {
					exp = Pick(r, []string{sh.phase, "running", "tearingDown"})
				}

				fins = strings.Join(sh.fins, ",")
				if r.Chance(1, 3) {
					fins = subset(uFins)
				}
			} else if r.Chance(1, 2) {
				ver = fmt.Sprint(1 + r.Intn(2))
			}

			c.Ops = append(c.Ops, fmt.Sprintf("update t=%d ns=%s typ=%s id=%s ver=%s owner=%s phase=%s fins=%s labels=%s ann=%s c=%d u=%d spec=%s as=%s exp=%s",
				t, ns, typ, id, ver, objOwner, phase, fins, subset(uLabels), subset(perAnn), r.Intn(t+1), r.Intn(t+1), spec(), as, exp))
			wrote = true

			if sh != nil && as == sh.owner && ver == fmt.Sprint(sh.ver) && (exp == "any" || exp == sh.phase) {
				sh.ver++
				sh.owner = objOwner
				sh.phase = phase
				sh.fins = splitNonEmpty(fins)
			}
		case x < 70: // destroy
			as := Pick(r, uOwner)
			if sh != nil && r.Chance(5, 6) {
				as = sh.owner
			}

			c.Ops = append(c.Ops, fmt.Sprintf("destroy t=%d ns=%s typ=%s id=%s as=%s", t, ns, typ, id, as))
			wrote = true

			if sh != nil && as == sh.owner && len(sh.fins) == 0 {
				delete(shadow, k)
			}
		case x < 75:
			c.Ops = append(c.Ops, fmt.Sprintf("get t=%d ns=%s typ=%s id=%s", t, ns, typ, id))
		case x < 83: // arm a fault
			switch r.Intn(3) {
			case 0:
				c.Ops = append(c.Ops, fmt.Sprintf("fault t=%d kind=put n=%d ns=%s", t, 1+r.Intn(3), ns))
			case 1:
				c.Ops = append(c.Ops, fmt.Sprintf("fault t=%d kind=destroy n=%d ns=%s", t, 1+r.Intn(2), ns))
			default:
				c.Ops = append(c.Ops, fmt.Sprintf("fault t=%d kind=load after=%d ns=%s", t, r.Intn(4), ns))

				if r.Chance(1, 3) { // two failing Loads in a row
					c.Ops = append(c.Ops, fmt.Sprintf("fault t=%d kind=load after=%d ns=%s", t, r.Intn(4), ns))
				}
			}
		case x < 88 && mode == "rand":
			c.Ops = append(c.Ops, fmt.Sprintf("reopen t=%d", t))
			live = nil

			if r.Chance(2, 3) {
				dump(t)
			}
		case x < 93 && len(live) < 3: // watcher
			w := nextW
			nextW++
			kind := Pick(r, []string{"single", "kind", "kind", "agg"})
			if nsaware == 0 {
				ns = uNS[0] // a bare inmem.State builds its tombstones with its own namespace (C02's domain)
			}

			op := fmt.Sprintf("wstart t=%d w=%d ns=%s typ=%s kind=%s", t, w, ns, typ, kind)

			if kind == "single" {
				op += " id=" + id
			} else if r.Chance(1, 3) {
				op += " boot=1"
			}

			if r.Chance(1, 4) {
				op += fmt.Sprintf(" tail=%d", 1+r.Intn(8))
			}

			c.Ops = append(c.Ops, op+fmt.Sprintf(" buf=%d", Pick(r, []int{0, 1, 2})))
			live = append(live, lw{w, ns})
		case x < 96 && len(live) > 0 && r.Chance(1, 4):
			j := r.Intn(len(live))
			c.Ops = append(c.Ops, fmt.Sprintf("wstop t=%d w=%d ns=%s", t, live[j].w, live[j].ns))
			live = append(live[:j], live[j+1:]...)
		default:
			c.Ops = append(c.Ops, fmt.Sprintf("list t=%d ns=%s typ=%s", t, ns, typ))
		}

		// whatever the op did or did not do, the watchers must agree with the model
		for _, l := range live {
			if r.Chance(2, 3) {
				c.Ops = append(c.Ops, fmt.Sprintf("recv t=%d w=%d ns=%s", t, l.w, l.ns))
			}
		}

		if mode == "every" && wrote {
			c.Ops = append(c.Ops, fmt.Sprintf("reopen t=%d", t))
			live = nil

			dump(t)
		}
	}

	for _, l := range live {
		for j := 0; j < 4; j++ {
			c.Ops = append(c.Ops, fmt.Sprintf("recv t=%d w=%d ns=%s", n+1, l.w, l.ns))
		}
	}

	if mode != "kill" {
		c.Ops = append(c.Ops, fmt.Sprintf("reopen t=%d", n+1))
	}

	dump(n + 1)
	dump(n + 1) // a failed Load is retried by the next op

	// one case in five: two of the restarts (the first one and a later one) are followed by a writer that makes the file grow during the initial load
	if mode != "kill" && idx%5 == 2 {
		marked := 0

		for i, op := range c.Ops {
			if opName(op) == "reopen" && marked < 2 && (marked == 0 || i%3 == 0) {
				c.Ops[i] = op + " grow=1"
				marked++
			}
		}
	}

	if mode == "kill" {
		hdr += fmt.Sprintf(" killat=%d delayus=%d", r.Intn(len(c.Ops)), r.Intn(3000))
	}

	if idx%3 == 1 {
		perMarkCancelled(r, c.Ops)
	}

	c.Header = hdr

	return c
}

// ---------------------------------------------------------------- the fault store

type perFaults struct {
	put, destroy []bool
	load         []int
}

func perSetAt(l []bool, i int) []bool {
	for len(l) <= i {
		l = append(l, false)
	}

	l[i] = true

	return l
}

func perPop(l *[]bool) bool {
	if len(*l) == 0 {
		return false
	}

	b := (*l)[0]
	*l = (*l)[1:]

	return b
}

// perFaultStore is an inmem.BackingStore that rejects calls according to the schedule
// and otherwise delegates to the real (bbolt) store.
type perFaultStore struct {
	inner inmem.BackingStore
	f     *perFaults
}

func (s *perFaultStore) Put(ctx context.Context, typ resource.Type, res resource.Resource) error {
	if perPop(&s.f.put) {
		return errPerInj
	}

	return s.inner.Put(ctx, typ, res)
}

func (s *perFaultStore) Destroy(ctx context.Context, typ resource.Type, ptr resource.Pointer) error {
	if perPop(&s.f.destroy) {
		return errPerInj
	}

	return s.inner.Destroy(ctx, typ, ptr)
}

func (s *perFaultStore) Load(ctx context.Context, handler inmem.LoadHandler) error {
	if len(s.f.load) == 0 {
		return s.inner.Load(ctx, handler)
	}

	after := s.f.load[0]
	s.f.load = s.f.load[1:]
	n := 0

	if err := s.inner.Load(ctx, func(typ resource.Type, res resource.Resource) error {
		if n == after {
			return errPerInj
		}

		n++

		return handler(typ, res)
	}); err != nil {
		return err
	}

	return errPerInj
}

// perZCount counts what the compression layer did (both sides of the threshold must be hit).
type perZCount struct {
	store.Marshaler
	e *perEng
}

func (m perZCount) MarshalResource(r resource.Resource) ([]byte, error) {
	b, err := m.Marshaler.MarshalResource(r)
	if err == nil && m.e != nil {
		if len(b) > 1 && b[0] == 0 {
			atomic.AddInt64(&m.e.zPacked, 1)
		} else {
			atomic.AddInt64(&m.e.zPlain, 1)
		}
	}

	return b, err
}

func perMarshaler(e *perEng, stack string, zmin int) store.Marshaler { //nolint:ireturn
	var m store.Marshaler = store.ProtobufMarshaler{}

	for _, layer := range strings.Split(stack, "+")[1:] {
		switch layer {
		case "z":
			m = perZCount{compression.NewMarshaler(m, compression.ZStd(), zmin), e}
		case "e":
			m = encryption.NewMarshaler(m, encryption.NewCipher(encryption.KeyProviderFunc(func() ([]byte, error) {
				return []byte("this key len is exactly 32 bytes"), nil
			})))
		default:
			panic("unknown marshaler layer " + layer)
		}
	}

	return m
}

// perGrowMarshaler: after `reopen grow=1` the first resource the initial load unmarshals is delayed while a writer
// in another namespace (nsz, never used by the ops) stores enough incompressible data for the bbolt file to grow and
// be remapped. A Load that reads inside its transaction keeps the writer waiting (bbolt remaps only when no read
// transaction is open) and is unaffected; whatever a Load does with bytes of the file must happen under that protection.
type perGrowMarshaler struct {
	store.Marshaler
	w *perWorld
}

func (m perGrowMarshaler) UnmarshalResource(b []byte) (resource.Resource, error) { //nolint:ireturn
	if m.w.growArmed {
		m.w.growArmed = false
		bs, ctx := m.w.bs.WithNamespace("nsz"), m.w.ctx
		seq := perFileSeq.Add(1)

		go func() {
			rng := NewRand(uint64(seq))

			for i := 0; i < 12; i++ {
				blob := make([]byte, 48*1024)
				for j := range blob {
					blob[j] = "0123456789abcdefghijklmnopqrstuvwxyzABCDEFGHIJKLMNOPQRSTUVWXYZ+/"[rng.Intn(64)]
				}

				r := NewTRes("nsz", "TZ", fmt.Sprintf("big%d-%d", seq, i))
				r.spec = TSpec{S: string(blob)}

				if err := bs.Put(ctx, "TZ", r); err != nil {
					panic("grow writer: " + err.Error())
				}
			}
		}()

		// until the writer is done, or parked on bbolt's remap lock behind this Load's transaction
		pipeSettle()
	}

	return m.Marshaler.UnmarshalResource(b)
}

// ---------------------------------------------------------------- the world of one case

type perWorld struct {
	e       *perEng
	h       Args
	path    string
	ctx     context.Context //nolint:containedctx
	bs      *bolt.BackingStore
	st      state.CoreState
	faults  map[string]*perFaults
	watches map[string]*liveWatch
	wcancel context.CancelFunc
	wctx    context.Context //nolint:containedctx
	ck      []byte
	seen    map[string]map[string]bool

	growArmed bool
}

func (w *perWorld) faultsOf(ns string) *perFaults {
	if w.h["flavour"] == "inmem" {
		ns = ""
	}

	if w.faults[ns] == nil {
		w.faults[ns] = &perFaults{}
	}

	return w.faults[ns]
}

func (w *perWorld) open() error {
	bs, err := bolt.NewBackingStore(func() (*bbolt.DB, error) {
		return bbolt.Open(w.path, 0o600, nil)
	}, perGrowMarshaler{perMarshaler(w.e, w.h["stack"], w.h.Int("zmin")), w})
	if err != nil {
		return err
	}

	w.bs = bs

	build := func(ns resource.Namespace) *inmem.State {
		return inmem.NewStateWithOptions(
			inmem.WithBackingStore(&perFaultStore{inner: bs.WithNamespace(ns), f: w.faultsOf(ns)}),
			inmem.WithHistoryInitialCapacity(w.h.Int("initcap")),
			inmem.WithHistoryMaxCapacity(w.h.Int("maxcap")),
			inmem.WithHistoryGap(w.h.Int("gap")),
		)(ns)
	}

	if w.h["flavour"] == "inmem" {
		w.st = build("n1")
	} else {
		w.st = namespaced.NewState(func(ns resource.Namespace) state.CoreState { return build(ns) })
	}

	w.wctx, w.wcancel = context.WithCancel(w.ctx)
	w.watches = map[string]*liveWatch{}
	w.seen = map[string]map[string]bool{}

	return nil
}

// close is what a crash leaves behind as far as this process can imitate it: every
// goroutine of the old state is stopped, the state object is dropped, the file is closed.
func (w *perWorld) close(inBubble bool) {
	if w.wcancel != nil {
		w.wcancel()
	}

	if inBubble {
		synctest.Wait()
	}

	w.st, w.watches = nil, nil

	if w.bs != nil {
		if err := w.bs.Close(); err != nil {
			panic(err)
		}

		w.bs = nil
	}
}

// PResStr is ResStr plus the annotations (the model's payload field carries both).
func PResStr(r resource.Resource) string {
	s := ResStr(r)
	if resource.IsTombstone(r) {
		return s
	}

	ann := r.Metadata().Annotations().Raw()
	ks := make([]string, 0, len(ann))

	for k := range ann {
		ks = append(ks, k)
	}

	sort.Strings(ks)

	for i, k := range ks {
		ks[i] = k + ":" + ann[k]
	}

	return s + "|a=" + strings.Join(ks, ",")
}

func perEvStr(e state.Event) string {
	switch e.Type {
	case state.Errored, state.Bootstrapped, state.Noop:
		return EvStr(e)
	}

	old := "-"
	if e.Old != nil {
		old = PResStr(e.Old)
	}

	return fmt.Sprintf("%s~%s~old=%s~bm=%s", strings.ToLower(e.Type.String()), PResStr(e.Resource), old, BmStr(e.Bookmark))
}

func perBuildRes(a Args) *TRes {
	r := BuildRes(a)

	for _, kv := range a.List("ann") {
		k, v, _ := strings.Cut(kv, ":")
		r.md.Annotations().Set(k, v)
	}

	return r
}

// perStoreOp is ExecStoreOp with annotations (built and printed).
func perStoreOp(ctx context.Context, st state.CoreState, op string, a Args) string {
	ns, typ, id := a["ns"], a["typ"], a["id"]

	if a["cx"] == "1" {
		// the caller's context is already done when the call is made (a write issued during shutdown): the call either
		// takes effect and reports success, or fails and has no effect — in memory AND in the backing store
		cctx, cancel := context.WithCancel(ctx)
		cancel()

		ctx = cctx
	}

	switch op {
	case "create":
		r := perBuildRes(a)
		if err := st.Create(ctx, r, state.WithCreateOwner(a["as"])); err != nil {
			return ErrLine(err, ns, typ)
		}

		return "ok " + PResStr(r)
	case "update":
		r := perBuildRes(a)
		opts := []state.UpdateOption{state.WithUpdateOwner(a["as"])}

		if a["exp"] == "any" {
			opts = append(opts, state.WithExpectedPhaseAny())
		} else {
			opts = append(opts, state.WithExpectedPhase(phaseOf(a["exp"])))
		}

		if err := st.Update(ctx, r, opts...); err != nil {
			return ErrLine(err, ns, typ)
		}

		return "ok " + PResStr(r)
	case "destroy":
		if err := st.Destroy(ctx, resource.NewMetadata(ns, typ, id, resource.VersionUndefined), state.WithDestroyOwner(a["as"])); err != nil {
			return ErrLine(err, ns, typ)
		}

		return "ok"
	case "get":
		r, err := st.Get(ctx, resource.NewMetadata(ns, typ, id, resource.VersionUndefined))
		if err != nil {
			return ErrLine(err, ns, typ)
		}

		return "res " + PResStr(r)
	case "list":
		l, err := st.List(ctx, resource.NewMetadata(ns, typ, "", resource.VersionUndefined))
		if err != nil {
			return ErrLine(err, ns, typ)
		}

		items := make([]string, 0, len(l.Items))
		for _, r := range l.Items {
			items = append(items, PResStr(r))
		}

		return "items [" + strings.Join(items, ";") + "]"
	}

	return "bad-op"
}

func (w *perWorld) recv(wid string) string {
	lw := w.watches[wid]
	if lw == nil {
		return "none"
	}

	note := func(evs ...state.Event) {
		for _, ev := range evs {
			if ev.Type != state.Created {
				continue
			}

			if w.seen[wid] == nil {
				w.seen[wid] = map[string]bool{}
			}

			k := PResStr(ev.Resource)
			if w.seen[wid][k] && w.e != nil {
				w.e.residue++
			}

			w.seen[wid][k] = true
		}
	}

	if lw.agg != nil {
		select {
		case evs := <-lw.agg:
			note(evs...)

			parts := make([]string, 0, len(evs))
			for _, ev := range evs {
				parts = append(parts, perEvStr(ev))
			}

			return "batch [" + strings.Join(parts, ";") + "]"
		default:
			return "none"
		}
	}

	select {
	case ev := <-lw.single:
		note(ev)

		return "ev " + perEvStr(ev)
	default:
		return "none"
	}
}

// exec runs one op line (inside a synctest bubble).
func (w *perWorld) exec(line string) (res string) {
	op, a := ParseLine(line)
	if d := fromTick(a.Int("t")).Sub(time.Now()); d > 0 {
		time.Sleep(d)
	}

	defer synctest.Wait()

	defer func() {
		if r := recover(); r != nil {
			res = fmt.Sprintf("PANIC %v", r)
		}
	}()

	switch op {
	case "reopen":
		w.close(true)

		if err := w.open(); err != nil {
			return "PANIC reopen: " + err.Error()
		}

		w.growArmed = a["grow"] == "1"

		return "ok"
	case "fault":
		f := w.faultsOf(a["ns"])

		switch a["kind"] {
		case "put":
			f.put = perSetAt(f.put, a.Int("n")-1)
		case "destroy":
			f.destroy = perSetAt(f.destroy, a.Int("n")-1)
		case "load":
			f.load = append(f.load, a.Int("after"))
		}

		return "ok"
	case "wstart":
		lw, err := startWatch(w.wctx, w.st, w.ck, a)
		if err != nil {
			return watchStartErr(err)
		}

		w.watches[a["w"]] = lw

		return "ok"
	case "recv":
		return w.recv(a["w"])
	case "wstop":
		if lw := w.watches[a["w"]]; lw != nil {
			lw.cancel()
			delete(w.watches, a["w"])
		}

		return "ok"
	default:
		return perStoreOp(w.ctx, w.st, op, a)
	}
}

var perFileSeq atomic.Int64

func perScratchFile() string {
	dir := os.Getenv("VERIF_SCRATCH")
	if dir == "" {
		d, err := os.MkdirTemp("", "cosi-verif-persist-")
		if err != nil {
			panic(err)
		}

		dir = d
		_ = os.Setenv("VERIF_SCRATCH", dir) //nolint:errcheck
	}

	return filepath.Join(dir, fmt.Sprintf("persist-%d-%d.db", os.Getpid(), perFileSeq.Add(1)))
}

// perRun executes ops[from:] on the bbolt file at path in one synctest bubble and hands
// every output line to emit as soon as the op has returned.
func perRun(t *testing.T, e *perEng, h Args, path string, ops []string, ck []byte, emit func(string)) {
	synctest.Test(t, func(t *testing.T) {
		ctx, cancel := context.WithCancel(context.Background())
		defer cancel()

		w := &perWorld{e: e, h: h, path: path, ctx: ctx, faults: map[string]*perFaults{}, ck: ck}
		if err := w.open(); err != nil {
			panic(err)
		}

		for _, line := range ops {
			emit(w.exec(line))
		}

		w.close(true)
		cancel()
		synctest.Wait()
	})
}

func (e *perEng) Exec(t *testing.T, c Case) []string {
	_, h := ParseLine(strings.TrimPrefix(c.Header, "#"))
	ck := cookie(t)

	path := perScratchFile()
	defer os.Remove(path) //nolint:errcheck

	if h["mode"] == "kill" {
		return e.execKill(t, c, h, path, ck)
	}

	out := make([]string, 0, len(c.Ops))
	perRun(t, e, h, path, c.Ops, ck, func(s string) { out = append(out, s) })

	return out
}

// ---------------------------------------------------------------- real crashes

const perChildEnv = "VERIF_PERSIST_CHILD"

// perChild is the child side (entered through TestPersistChild): it reads one case from
// stdin (header, op lines, "."), runs it on the file named by VERIF_PERSIST_DB and writes
// "@ <output>" after every op — the acknowledgement the parent counts.
func perChild(t *testing.T) {
	if os.Getenv(perChildEnv) != "1" {
		t.Skip("child mode only")
	}

	var c Case

	in := bufio.NewScanner(os.Stdin)
	in.Buffer(make([]byte, 1<<20), 1<<26)

	for in.Scan() {
		line := in.Text()
		if line == "." {
			break
		}

		if c.Header == "" {
			c.Header = line
		} else {
			c.Ops = append(c.Ops, line)
		}
	}

	_, h := ParseLine(strings.TrimPrefix(c.Header, "#"))

	// the acknowledgement travels for a while (real time, not the bubble's): widens the
	// window "durable but not yet acknowledged" the parent's SIGKILL can hit
	rng := NewRand(uint64(h.Int("case")) + 77)

	perRun(t, nil, h, os.Getenv("VERIF_PERSIST_DB"), c.Ops, nil, func(s string) {
		ts := syscall.NsecToTimespec(int64(rng.Intn(300)) * 1000)
		syscall.Nanosleep(&ts, nil) //nolint:errcheck
		fmt.Fprintf(os.Stdout, "@ %s\n", s)
	})
	fmt.Fprintln(os.Stdout, "@@done")
}

func perIsList(op string) bool { return opName(op) == "list" }

// execKill: the ops run in a child; after `killat` acknowledgements (+ a random delay) the
// child is SIGKILLed. n = number of acknowledged ops. The reopened file must list exactly as
// the model after ops[:n] or after ops[:n+1] (the op in flight); the remaining ops then run
// in this process on the reopened file and must behave as the model says for an uninterrupted
// run. The output is the child's acknowledgements, the model's line for an op in flight that
// turned out durable, and this process' lines for the rest.
func (e *perEng) execKill(t *testing.T, c Case, h Args, path string, ck []byte) []string {
	cmd := exec.Command(os.Args[0], "-test.run", "^TestPersistChild$", "-test.timeout", "0")
	cmd.Env = append(os.Environ(), perChildEnv+"=1", "VERIF_PERSIST_DB="+path)
	cmd.Stderr = io.Discard

	stdin, err := cmd.StdinPipe()
	if err != nil {
		return []string{"PANIC harness: " + err.Error()}
	}

	stdout, err := cmd.StdoutPipe()
	if err != nil {
		return []string{"PANIC harness: " + err.Error()}
	}

	if err := cmd.Start(); err != nil {
		return []string{"PANIC harness: " + err.Error()}
	}

	fmt.Fprintln(stdin, c.Header)

	for _, op := range c.Ops {
		fmt.Fprintln(stdin, op)
	}

	fmt.Fprintln(stdin, ".")
	stdin.Close() //nolint:errcheck

	killat := h.Int("killat")

	var acked []string

	rd := bufio.NewReaderSize(stdout, 1<<20)
	killed := false

	for {
		if len(acked) >= killat && !killed {
			time.Sleep(time.Duration(h.Int("delayus")) * time.Microsecond)
			cmd.Process.Kill() //nolint:errcheck

			killed = true
		}

		line, err := rd.ReadString('\n')
		if err != nil {
			break
		}

		line = strings.TrimSuffix(line, "\n")
		if s, ok := strings.CutPrefix(line, "@ "); ok {
			acked = append(acked, s)
		}
	}

	cmd.Wait() //nolint:errcheck

	e.kills++

	n := len(acked)
	if n >= len(c.Ops) {
		return acked[:len(c.Ops)]
	}

	// the model's two candidates
	probe := func(k int) Case {
		ops := append([]string{}, c.Ops[:k]...)
		tt := 0

		if k > 0 {
			_, a := ParseLine(c.Ops[k-1])
			tt = a.Int("t")
		}

		ops = append(ops, fmt.Sprintf("reopen t=%d", tt))

		for _, ns := range uNS {
			for _, typ := range uTyp {
				ops = append(ops, fmt.Sprintf("list t=%d ns=%s typ=%s", tt, ns, typ))
			}
		}

		return Case{Header: c.Header, Ops: ops}
	}

	cands := []Case{probe(n), probe(n + 1)}

	drv, err := runDriver("persist", false, cands)
	if err != nil {
		return append(acked, "PANIC harness: "+err.Error())
	}

	listing := func(lines []string) string { return strings.Join(lines[len(lines)-4:], " || ") }

	// what is really in the file
	var got []string

	perRun(t, nil, h, path, cands[0].Ops[n+1:], ck, func(s string) { got = append(got, s) })

	out := append([]string{}, acked...)
	rest := n

	switch listing(got) {
	case listing(drv[0]):
		e.killBefore++
	case listing(drv[1]):
		// the op in flight is durable although it was never acknowledged: allowed; the caller
		// never saw its result, the model's line stands in for it
		out = append(out, drv[1][n])
		rest = n + 1
		e.killInOp++
	default:
		return append(out, "KILLED-FILE-MATCHES-NO-ALLOWED-PREFIX acked="+fmt.Sprint(n)+" file: "+listing(got))
	}

	perRun(t, e, h, path, c.Ops[rest:], ck, func(s string) { out = append(out, s) })

	return out
}
