package harness

import (
	"context"
	"fmt"
	"regexp"
	goruntime "runtime"
	"sort"
	"strconv"
	"strings"
	"sync"
	"sync/atomic"
	"testing"
	"testing/synctest"
	"time"

	"github.com/siderolabs/gen/optional"
	"go.uber.org/zap"

	"github.com/cosi-project/runtime/pkg/controller"
	"github.com/cosi-project/runtime/pkg/controller/runtime"
	"github.com/cosi-project/runtime/pkg/controller/runtime/options"
	"github.com/cosi-project/runtime/pkg/resource"
	"github.com/cosi-project/runtime/pkg/state"
	"github.com/cosi-project/runtime/pkg/state/impl/inmem"
	"github.com/cosi-project/runtime/pkg/state/impl/namespaced"
)

// Property C15.
//
// engine cache (white box): random operation sequences on the REAL cache.ResourceCache
// (runtime.VerifNewResourceCache, build tag verif): CacheAppend / CachePut / CacheRemove /
// MarkBootstrapped from the harness goroutine, Get / List (label and ID selectors) /
// ContextWithTeardown from reader goroutines inside a synctest bubble, so that "blocked until
// bootstrapped" is an observation (the reader is parked at synctest.Wait() and completes after
// the mark), vs Cosi.Model.Cache (binary searches transcribed) and Cosi.Spec.Cache.
// Interleavings INSIDE a reader call: every cached object is a cchHookRes whose Metadata() / DeepCopy()
// report to the case's cchHook; a reader op with `rop=put|remove .. at=<k>` arms the hook so that the k-th
// such call made by the cache on behalf of that reader starts the racing CachePut / CacheRemove on a second
// goroutine and yields to it (a bounded number of times: if the reader is inside a critical section of the
// handler's mutex the racing call cannot finish and runs right after the section). Whatever k is, the
// property's answer is that of the sequence [reader op; racing op] — each method is one critical section
// (Cosi.Model.CacheConc, Cosi.C15C.conc_refines_atomic) — so the model needs no k; a handler that releases
// its mutex between a lookup and the use of what it found lets the racing call land in between.
//
// engine cacherun (black box): the REAL controller runtime with cached kinds
// (options.WithCachedResource), write histories before and after Run, bursts of writes, a
// re-batching proxy between the state's watch and the runtime (split / merge / halve batches,
// virtual-time delays, so the bootstrap batch itself is delivered in pieces), plain probe
// controllers and a QController probe reading through their runtime handle on EVERY wake-up.
// Per wake-up each probe asserts: per-ID monotonicity of what it reads, and freshness (the read
// is at least as new as the change that woke it — see cchHub.evaluate for the exact rule); at
// every quiescence point cached Get/List (incl. filtered lists) equal the uncached reads and
// the teardown-bound contexts obtained through the handle are cancelled exactly when expected.

func init() {
	Register("cache", func() Engine { return &cchEng{} })
	Register("cacherun", func() Engine { return &cchRunEng{} })
}

var (
	cchIDs    = []string{"a", "aa", "ab", "b", "c", "d", "e"}
	cchKeys   = []string{"env", "n", "tier"}
	cchVals   = []string{"prod", "dev", "1", "2", "10"}
	cchRegex  = []string{"^a", "b$", "a|c", ".", "^$", "[^a]", "^[a-c]$", "^aa?$"}
	cchTyps   = []string{"T1", "T2"}
	cchRunIDs = []string{"a", "b", "c", "d", "e"}
)

// ---- canonical forms -------------------------------------------------------------

func cchItem(r resource.Resource) string {
	md := r.Metadata()
	lab := md.Labels().Raw()

	ks := make([]string, 0, len(lab))
	for k := range lab {
		ks = append(ks, k)
	}

	sort.Strings(ks)

	ls := make([]string, 0, len(ks))
	for _, k := range ks {
		ls = append(ls, k+":"+lab[k])
	}

	ph := "r"
	if md.Phase() == resource.PhaseTearingDown {
		ph = "t"
	}

	ver := md.Version().String()
	if ver == "undefined" {
		ver = "0"
	}

	return fmt.Sprintf("%s@%s:%s:%s{%s}", md.ID(), ver, ph, specOf(r), strings.Join(ls, ","))
}

func cchItems(l []resource.Resource) string {
	parts := make([]string, 0, len(l))
	for _, r := range l {
		parts = append(parts, cchItem(r))
	}

	return "[" + strings.Join(parts, ";") + "]"
}

func cchBuild(typ string, a Args) *TRes {
	r := NewTRes("n1", typ, a["id"])
	r.md.SetVersion(parseVer(a["ver"]))
	r.md.SetPhase(phaseOf(a["phase"]))

	for _, kv := range a.List("l") {
		k, v, _ := strings.Cut(kv, ":")
		r.md.Labels().Set(k, v)
	}

	s := a["s"]
	if _, ok := a["s"]; !ok {
		s = "-"
	}

	r.spec = TSpec{S: s}

	return r
}

// cchHook lets the harness run an operation at a chosen point INSIDE a cache call of another goroutine.
type cchHook struct {
	left  atomic.Int64 // Metadata()/DeepCopy() calls left before the armed operation starts; <= 0: not armed
	fired atomic.Bool
	op    func()
	done  chan struct{}
}

// cchRaceYields bounds how long the goroutine that hit the hook gives way to the racing operation.
const cchRaceYields = 200

func (h *cchHook) hit() {
	if h == nil || h.left.Load() <= 0 {
		return
	}

	if h.left.Add(-1) != 0 {
		return
	}

	h.fired.Store(true)

	op, done := h.op, h.done

	go func() {
		defer close(done)
		defer func() { _ = recover() }() //nolint:errcheck

		op()
	}()

	for range cchRaceYields {
		select {
		case <-done:
			return
		default:
		}

		goruntime.Gosched()
	}
}

// cchHookRes is what the white-box engine puts into the cache: a TRes whose accessors report to the hook.
// Copies handed out by the cache are plain TRes (only calls made by the cache on its own objects count).
type cchHookRes struct {
	*TRes
	hk *cchHook
}

func (r *cchHookRes) Metadata() *resource.Metadata {
	r.hk.hit()

	return r.TRes.Metadata()
}

func (r *cchHookRes) DeepCopy() resource.Resource { //nolint:ireturn
	r.hk.hit()

	return r.TRes.DeepCopy()
}

// cchRaceArgs maps the `r`-prefixed keys of a racing operation to the keys cchBuild reads.
func cchRaceArgs(a Args) Args {
	return Args{"id": a["rid"], "ver": a["rver"], "phase": a["rphase"], "l": a["rl"], "s": a["rs"]}
}

func cchListOpts(a Args) []state.ListOption {
	var opts []state.ListOption

	for _, q := range decQueries(a["q"]) {
		opts = append(opts, state.WithLabelQuery(resource.RawLabelQuery(q)))
	}

	if re, ok := a["re"]; ok {
		opts = append(opts, state.WithIDQuery(resource.IDRegexpMatch(regexp.MustCompile(unhx(re)))))
	}

	return opts
}

func cchGenTerm(r *Rand) resource.LabelTerm {
	t := resource.LabelTerm{Key: Pick(r, cchKeys), Op: Pick(r, selOps), Invert: r.Chance(1, 4)}

	n := 1

	switch t.Op {
	case resource.LabelOpExists:
		n = 0
	case resource.LabelOpIn:
		n = r.Intn(3)
	}

	for range n {
		t.Value = append(t.Value, Pick(r, cchVals))
	}

	return t
}

// cchGenSel produces the selector tokens ` q=.. [re=.. idm=..]` over the given ID universe.
func cchGenSel(r *Rand, ids []string) string {
	var qs resource.LabelQueries

	nq := []int{0, 0, 1, 1, 1, 2}[r.Intn(6)]
	for range nq {
		var q resource.LabelQuery

		nt := []int{0, 1, 1, 1, 2}[r.Intn(5)]
		for range nt {
			q.Terms = append(q.Terms, cchGenTerm(r))
		}

		qs = append(qs, q)
	}

	s := " q=" + encQueries(qs)

	if r.Chance(1, 2) {
		re := Pick(r, cchRegex)
		rx := regexp.MustCompile(re) // regexp is trusted: the model gets the match bit per ID

		bits := make([]string, 0, len(ids))
		for _, id := range ids {
			b := "0"
			if rx.MatchString(id) {
				b = "1"
			}

			bits = append(bits, id+":"+b)
		}

		s += " re=" + hx(re) + " idm=" + strings.Join(bits, ",")
	}

	return s
}

func cchGenLabels(r *Rand, sep string) string {
	var parts []string

	for _, k := range cchKeys {
		if r.Chance(1, 2) {
			parts = append(parts, k+":"+Pick(r, cchVals))
		}
	}

	return strings.Join(parts, sep)
}

// ---- engine cache ----------------------------------------------------------------

type cchEng struct{}

func (*cchEng) Name() string { return "cache" }

func (*cchEng) Cases(thorough bool) int {
	if thorough {
		return 30000
	}

	return 1500
}

func (*cchEng) Rule() string {
	return "random append/put/remove/mark sequences on the real ResourceCache with concurrent reader goroutines (get, selector-filtered list, teardown context) under synctest, a third of the readers with a racing put/remove started from INSIDE their cache call (hooked Metadata()/DeepCopy() of the cached objects, hook position 1..6; corpus: every reader kind x racing op x position); non-trivial = at least one reader was parked before the mark and released by it, the slice took at least three different lengths (inserts and deletions happened), and a put/remove cancelled a teardown context that was open before it; distinct by hash of the op lines"
}

func (*cchEng) NonTrivial(c Case, out []string) bool {
	blocked, released, closed := false, false, false
	lens := map[string]bool{}
	cancelled := 0 // contexts seen cancelled on the last line that printed them

	for _, o := range out {
		if strings.HasSuffix(o, "out=blocked") || strings.Contains(o, "out=blocked ") {
			blocked = true
		}

		if strings.HasPrefix(o, "mark out=ok released=r") {
			released = true
		}

		if i := strings.Index(o, "ctxs="); i >= 0 {
			n := strings.Count(o[i:], ":1")
			if strings.HasPrefix(o, "ok len=") && n > cancelled {
				closed = true
			}

			cancelled = n
		}

		if strings.HasPrefix(o, "ok len=") {
			lens[strings.Fields(o)[1]] = true
		}
	}

	return blocked && released && closed && len(lens) >= 3
}

type cchReader struct {
	n      int
	done   chan struct{}
	head   string // res | notfound | items | ctx | canceled | err | PANIC
	body   string
	cancel context.CancelFunc
	tctx   context.Context //nolint:containedctx
}

func (rd *cchReader) finished() bool {
	select {
	case <-rd.done:
		return true
	default:
		return false
	}
}

func (rd *cchReader) out(sep string) string {
	if rd.head == "ctx" && rd.tctx != nil { // sampled when printed: every goroutine has settled by then
		rd.body = strconv.FormatBool(rd.tctx.Err() != nil)
	}

	if rd.body == "" {
		return rd.head
	}

	return rd.head + sep + rd.body
}

// cchStartReader runs one read on its own goroutine; fn returns (head, body, teardown ctx).
func cchStartReader(n int, fn func(ctx context.Context) (string, string, context.Context)) *cchReader {
	ctx, cancel := context.WithCancel(context.Background())
	rd := &cchReader{n: n, done: make(chan struct{}), cancel: cancel}

	go func() {
		defer close(rd.done)
		defer func() {
			if r := recover(); r != nil {
				rd.head, rd.body = "PANIC", ""
			}
		}()

		rd.head, rd.body, rd.tctx = fn(ctx)
	}()

	return rd
}

func cchReadErr(ctx context.Context, err error) (string, string, context.Context) {
	switch {
	case ctx.Err() != nil:
		return "canceled", "", nil
	case state.IsNotFoundError(err):
		return "notfound", "", nil
	default:
		return "err", "", nil
	}
}

func cchCtxs(rds []*cchReader) string {
	var parts []string

	for _, rd := range rds {
		if rd.finished() && rd.tctx != nil {
			b := "0"
			if rd.tctx.Err() != nil {
				b = "1"
			}

			parts = append(parts, fmt.Sprintf("%d:%s", rd.n, b))
		}
	}

	if len(parts) == 0 {
		return "-"
	}

	return strings.Join(parts, ",")
}

func (e *cchEng) Exec(t *testing.T, c Case) []string {
	out := make([]string, 0, len(c.Ops))

	synctest.Test(t, func(*testing.T) {
		cache := runtime.VerifNewResourceCache([]options.CachedResource{{Namespace: "n1", Type: "T1"}})
		kind := resource.NewMetadata("n1", "T1", "", resource.VersionUndefined)

		var readers []*cchReader // in start order; reader numbers are ascending

		hook := &cchHook{}
		build := func(a Args) resource.Resource { return &cchHookRes{TRes: cchBuild("T1", a), hk: hook} } //nolint:ireturn

		byN := func(n int) *cchReader {
			for _, rd := range readers {
				if rd.n == n {
					return rd
				}
			}

			return nil
		}

		sortReaders := func() {
			sort.SliceStable(readers, func(i, j int) bool { return readers[i].n < readers[j].n })
		}

		reader := func(op string, rd *cchReader) string {
			readers = append(readers, rd)
			sortReaders()
			synctest.Wait()

			o := op + " out=blocked"
			if rd.finished() {
				o = op + " out=" + rd.out("~")
			}

			if op == "ctx" {
				o += " ctxs=" + cchCtxs(readers)
			}

			return o
		}

		// raced runs a reader op with a racing CachePut / CacheRemove started from inside the reader's cache call
		raced := func(op string, a Args, start func() *cchReader) string {
			ra := cchRaceArgs(a)
			racing := func() { cache.CachePut(build(ra)) }

			if a["rop"] == "remove" {
				racing = func() { cache.CacheRemove(build(ra)) }
			}

			hook.op, hook.done = racing, make(chan struct{})
			hook.fired.Store(false)
			hook.left.Store(int64(max(a.Int("at"), 1)))

			rd := start()
			readers = append(readers, rd)
			sortReaders()
			synctest.Wait()
			hook.left.Store(0)

			if !hook.fired.Load() { // the reader is parked, or made fewer calls: the operation simply follows it
				racing()
				synctest.Wait()
			}

			o := "blocked"
			if rd.finished() {
				o = rd.out("~")
			}

			return fmt.Sprintf("%s out=%s len=%d ctxs=%s", op, o, cache.Len("n1", "T1"), cchCtxs(readers))
		}

		for _, line := range c.Ops {
			op, a := ParseLine(line)

			var o string

			func() {
				defer func() {
					if r := recover(); r != nil {
						o = "PANIC"

						if op == "mark" {
							o = "mark out=PANIC released=-"
						}
					}
				}()

				switch op {
				case "append":
					cache.CacheAppend(build(a))
					synctest.Wait()
					o = fmt.Sprintf("ok len=%d", cache.Len("n1", "T1"))
				case "put":
					cache.CachePut(build(a))
					synctest.Wait()
					o = fmt.Sprintf("ok len=%d ctxs=%s", cache.Len("n1", "T1"), cchCtxs(readers))
				case "remove":
					cache.CacheRemove(build(a))
					synctest.Wait()
					o = fmt.Sprintf("ok len=%d ctxs=%s", cache.Len("n1", "T1"), cchCtxs(readers))
				case "mark":
					var parked []*cchReader

					for _, rd := range readers {
						if !rd.finished() {
							parked = append(parked, rd)
						}
					}

					cache.MarkBootstrapped("n1", "T1")
					synctest.Wait()

					var rel []string

					for _, rd := range parked {
						if rd.finished() {
							rel = append(rel, fmt.Sprintf("r%d=%s", rd.n, rd.out("~")))
						} else {
							rel = append(rel, fmt.Sprintf("r%d=STILL-BLOCKED", rd.n))
						}
					}

					o = "mark out=ok released=-"
					if len(rel) > 0 {
						o = "mark out=ok released=" + strings.Join(rel, "|")
					}
				case "get":
					ptr := resource.NewMetadata("n1", "T1", a["id"], resource.VersionUndefined)

					start := func() *cchReader {
						return cchStartReader(a.Int("r"), func(ctx context.Context) (string, string, context.Context) {
							r, err := cache.Get(ctx, ptr)
							if err != nil {
								return cchReadErr(ctx, err)
							}

							return "res", cchItem(r), nil
						})
					}

					if _, ok := a["rop"]; ok {
						o = raced(op, a, start)
					} else {
						o = reader(op, start())
					}
				case "list":
					opts := cchListOpts(a)

					start := func() *cchReader {
						return cchStartReader(a.Int("r"), func(ctx context.Context) (string, string, context.Context) {
							l, err := cache.List(ctx, kind, opts...)
							if err != nil {
								return cchReadErr(ctx, err)
							}

							return "items", cchItems(l.Items), nil
						})
					}

					if _, ok := a["rop"]; ok {
						o = raced(op, a, start)
					} else {
						o = reader(op, start())
					}
				case "ctx":
					ptr := resource.NewMetadata("n1", "T1", a["id"], resource.VersionUndefined)

					start := func() *cchReader {
						return cchStartReader(a.Int("r"), func(ctx context.Context) (string, string, context.Context) {
							tctx, err := cache.ContextWithTeardown(ctx, ptr)
							if err != nil {
								return cchReadErr(ctx, err)
							}

							return "ctx", "", tctx
						})
					}

					if _, ok := a["rop"]; ok {
						o = raced(op, a, start)
					} else {
						o = reader(op, start())
					}
				case "cancel":
					rd := byN(a.Int("r"))

					switch {
					case rd == nil:
						o = "cancel out=noop"
					case !rd.finished():
						rd.cancel()
						synctest.Wait()

						if rd.finished() {
							o = "cancel out=" + rd.out("~")
						} else {
							o = "cancel out=STILL-BLOCKED"
						}
					case rd.tctx != nil:
						rd.cancel()
						synctest.Wait()

						o = "cancel out=ok"
					default:
						o = "cancel out=noop"
					}

					o += " ctxs=" + cchCtxs(readers)
				case "len":
					o = fmt.Sprintf("len %d", cache.Len("n1", "T1"))
				case "handled":
					h, b := cache.IsHandledBootstrapped("n1", a["typ"])
					if h != cache.IsHandled("n1", a["typ"]) {
						o = "handled INCONSISTENT"
					} else {
						o = fmt.Sprintf("handled %t boot=%t", h, b)
					}
				default:
					o = "bad-op"
				}
			}()

			out = append(out, o)
		}

		// release whatever is still parked so that the bubble can end
		for _, rd := range readers {
			rd.cancel()
		}

		synctest.Wait()
	})

	return out
}

func (e *cchEng) Gen(r *Rand, thorough bool, idx int) Case {
	c := Case{Header: fmt.Sprintf("# engine=cache case=%d", idx)}
	ver, rn, spec := 0, 0, 0

	res := func(id string, td bool) string {
		ver++
		spec++

		ph := "running"
		if td {
			ph = "tearingDown"
		}

		return fmt.Sprintf("id=%s ver=%d phase=%s l=%s s=s%d", id, 1+r.Intn(9), ph, cchGenLabels(r, ","), spec)
	}

	// race: a CachePut / CacheRemove started from inside the reader's cache call, at its at-th Metadata()/DeepCopy()
	// call on a cached object; mostly about the reader's own ID, mostly an operation that ends a teardown context
	race := func(id string) string {
		if id == "" || r.Chance(1, 4) {
			id = Pick(r, cchIDs)
		}

		at := 1 + r.Intn(6)

		if r.Chance(1, 3) {
			return fmt.Sprintf(" rop=remove rid=%s at=%d", id, at)
		}

		spec++

		ph := "tearingDown"
		if r.Chance(1, 3) {
			ph = "running"
		}

		return fmt.Sprintf(" rop=put rid=%s rver=%d rphase=%s rl=%s rs=s%d at=%d", id, 1+r.Intn(9), ph, cchGenLabels(r, ","), spec, at)
	}

	read := func() string {
		rn++

		var line, id string

		switch r.Intn(3) {
		case 0:
			id = Pick(r, cchIDs)
			line = fmt.Sprintf("get r=%d id=%s", rn, id)
		case 1:
			line = fmt.Sprintf("list r=%d%s", rn, cchGenSel(r, cchIDs))
		default:
			id = Pick(r, cchIDs)
			line = fmt.Sprintf("ctx r=%d id=%s", rn, id)
		}

		if r.Chance(1, 3) {
			line += race(id)
		}

		return line
	}

	// bootstrap contents: an ascending subset (the domain), or out of order / with duplicates
	var boot []string

	for _, id := range cchIDs {
		if r.Chance(1, 2) {
			boot = append(boot, id)
		}
	}

	if r.Chance(1, 7) && len(boot) > 1 {
		switch r.Intn(3) {
		case 0:
			i, j := r.Intn(len(boot)), r.Intn(len(boot))
			boot[i], boot[j] = boot[j], boot[i]
		case 1:
			boot = append(boot, Pick(r, boot))
		default:
			boot = append([]string{Pick(r, cchIDs)}, boot...)
		}
	}

	for _, id := range boot {
		c.Ops = append(c.Ops, "append "+res(id, r.Chance(1, 5)))

		if r.Chance(1, 3) {
			c.Ops = append(c.Ops, read())
		}

		if rn > 0 && r.Chance(1, 10) {
			c.Ops = append(c.Ops, fmt.Sprintf("cancel r=%d", 1+r.Intn(rn)))
		}

		if r.Chance(1, 25) {
			c.Ops = append(c.Ops, "put "+res(Pick(r, cchIDs), false))
		}
	}

	if r.Chance(1, 3) {
		c.Ops = append(c.Ops, read())
	}

	if r.Chance(1, 8) {
		c.Ops = append(c.Ops, "len", "handled typ=T1")
	}

	if !r.Chance(1, 20) {
		c.Ops = append(c.Ops, "mark")
	}

	n := 10 + r.Intn(16)
	if thorough {
		n += r.Intn(30)
	}

	for range n {
		switch x := r.Intn(100); {
		case x < 36:
			c.Ops = append(c.Ops, "put "+res(Pick(r, cchIDs), r.Chance(1, 4)))
		case x < 52:
			c.Ops = append(c.Ops, "remove id="+Pick(r, cchIDs))
		case x < 88:
			c.Ops = append(c.Ops, read())
		case x < 93:
			if rn > 0 {
				c.Ops = append(c.Ops, fmt.Sprintf("cancel r=%d", 1+r.Intn(rn)))
			}
		case x < 96:
			c.Ops = append(c.Ops, "len")
		case x < 97:
			c.Ops = append(c.Ops, "handled typ="+Pick(r, []string{"T1", "T2"}))
		case x < 98:
			c.Ops = append(c.Ops, "mark")
		default:
			c.Ops = append(c.Ops, "append "+res(Pick(r, cchIDs), false))
		}
	}

	return c
}

// cchRaceCorpus enumerates, on a small bootstrapped cache, every reader kind x racing operation x hook position:
// each position at which the cache consults one of its objects on behalf of the reader is tried once.
func cchRaceCorpus() Case {
	c := Case{Header: "# engine=cache corpus=races"}

	for _, id := range []string{"a", "b", "c", "d"} {
		c.Ops = append(c.Ops, fmt.Sprintf("append id=%s ver=1 phase=running l=env:prod s=s0", id))
	}

	c.Ops = append(c.Ops, "mark")
	rn, ver := 0, 1

	for _, rd := range []string{"ctx r=%d id=b", "get r=%d id=b", "list r=%d q=", "ctx r=%d id=d"} {
		for _, rop := range []string{
			"rop=put rid=%s rver=%d rphase=tearingDown rl= rs=td", "rop=remove rid=%s", "rop=put rid=%s rver=%d rphase=running rl=env:dev rs=up",
		} {
			for at := 1; at <= 6; at++ {
				rn++
				ver++

				id := "b"
				if strings.HasSuffix(rd, "id=d") {
					id = "d"
				}

				// restore the resource the race is about
				c.Ops = append(c.Ops, fmt.Sprintf("put id=%s ver=%d phase=running l=env:prod s=s%d", id, ver, rn))

				var racing string
				if strings.Contains(rop, "rver") {
					ver++
					racing = fmt.Sprintf(rop, id, ver)
				} else {
					racing = fmt.Sprintf(rop, id)
				}

				c.Ops = append(c.Ops, fmt.Sprintf(rd, rn)+" "+racing+fmt.Sprintf(" at=%d", at))
			}
		}
	}

	return c
}

func (e *cchEng) Corpus(bool) []Case {
	return []Case{
		cchRaceCorpus(),
		{ // a new largest ID, a new smallest ID, replace, remove of first / last / missing
			Header: "# engine=cache corpus=edges",
			Ops: []string{
				"append id=b ver=1 phase=running l= s=s1", "append id=c ver=1 phase=running l=env:prod s=s2",
				"get r=1 id=c", "list r=2 q=", "ctx r=3 id=b", "mark",
				"put id=e ver=1 phase=running l= s=s3", "put id=a ver=1 phase=running l= s=s4", "put id=c ver=2 phase=running l= s=s5",
				"get r=4 id=e", "get r=5 id=a", "get r=6 id=d", "list r=7 q=",
				"ctx r=8 id=c", "ctx r=9 id=d", "put id=c ver=3 phase=tearingDown l= s=s6", "ctx r=10 id=c",
				"remove id=a", "remove id=e", "remove id=zz", "remove id=b", "list r=11 q=", "len",
			},
		},
	}
}

// ---- engine cacherun ---------------------------------------------------------------

type cchRunEng struct{}

func (*cchRunEng) Name() string { return "cacherun" }

func (*cchRunEng) Cases(thorough bool) int {
	if thorough {
		return 12000
	}

	return 400
}

func (*cchRunEng) Rule() string {
	return "write histories before and after Run on the real runtime with cached kinds, re-batched watch deliveries (asis/split/merge/halves, virtual delays), 1-3 plain probes + a QController probe reading through their handles on every wake-up; non-trivial = resources existed before start, a burst of >= 3 successful writes incl. a destroy, a reader parked before bootstrap, a filtered cached list and a teardown context that got cancelled by a later write; distinct by hash of the op lines"
}

func (*cchRunEng) NonTrivial(c Case, out []string) bool {
	pre, burst, parked, sel, closed := false, false, false, false, false
	started := false

	for i, line := range c.Ops {
		if i >= len(out) {
			break
		}

		op, _ := ParseLine(line)
		o := out[i]

		switch op {
		case "start":
			started = true
		case "burst":
			if !started && strings.Contains(o, "ok") {
				pre = true
			}

			if f := strings.Fields(o); started && len(f) > 1 && strings.Count(f[1], "ok") >= 3 && strings.Contains(line, "/destroy/") {
				burst = true
			}

			if strings.Contains(o, ":1") && strings.Contains(o, "ctxs=") {
				closed = true
			}
		case "early":
			parked = parked || o == "blocked"
		case "sel":
			sel = sel || strings.HasPrefix(o, "items [") && !strings.HasPrefix(o, "items []")
		}
	}

	return pre && burst && parked && sel && closed
}

// cchBatcher sits between the state's aggregated kind watch and the runtime: it forwards the
// batches re-grouped and delayed in virtual time. Everything else passes through.
type cchBatcher struct {
	state.State

	mode  string
	delay map[string]time.Duration
}

func (b *cchBatcher) WatchKindAggregated(ctx context.Context, kind resource.Kind, ch chan<- []state.Event, opts ...state.WatchKindOption) error {
	inner := make(chan []state.Event, 256)

	if err := b.State.WatchKindAggregated(ctx, kind, inner, opts...); err != nil {
		return err
	}

	d := b.delay[kind.Type()]

	send := func(evs []state.Event) bool {
		if d > 0 {
			select {
			case <-ctx.Done():
				return false
			case <-time.After(d):
			}
		}

		select {
		case <-ctx.Done():
			return false
		case ch <- evs:
			return true
		}
	}

	go func() {
		for {
			var evs []state.Event

			select {
			case <-ctx.Done():
				return
			case evs = <-inner:
			}

			switch b.mode {
			case "split":
				for _, e := range evs {
					if !send([]state.Event{e}) {
						return
					}
				}
			case "halves":
				h := len(evs) / 2
				if h > 0 && !send(evs[:h:h]) {
					return
				}

				if !send(evs[h:]) {
					return
				}
			case "merge":
				if d > 0 {
					select {
					case <-ctx.Done():
						return
					case <-time.After(d):
					}
				}

			drain:
				for {
					select {
					case more := <-inner:
						evs = append(evs, more...)
					default:
						break drain
					}
				}

				if !send(evs) {
					return
				}
			default:
				if !send(evs) {
					return
				}
			}
		}
	}()

	return nil
}

type cchHistEnt struct {
	seq     int
	present bool
}

type cchFirst struct {
	seq int
	id  string
}

// cchHub is the harness' knowledge of the writes and what the probes observed.
type cchHub struct {
	mu      sync.Mutex
	hist    map[string][]cchHistEnt // typ/id -> transitions in commit order (implicitly absent at seq 0)
	last    map[string]int          // reader|typ/id -> stamp of the newest state that reader has seen
	firstK  map[string]cchFirst     // typ -> first successful write since the last quiescence point
	firstID map[string]int          // typ/id -> seq of the first successful write since the last quiescence point
	handles map[string]controller.Runtime
	woken   map[string]bool
	qrec    map[string]bool
	wakeups map[string]int
	settled bool // a quiescence point has been reached since start
	stale   []string
	back    []string
}

func newCchHub() *cchHub {
	return &cchHub{
		hist: map[string][]cchHistEnt{}, last: map[string]int{}, firstK: map[string]cchFirst{}, firstID: map[string]int{},
		handles: map[string]controller.Runtime{}, woken: map[string]bool{}, qrec: map[string]bool{}, wakeups: map[string]int{},
	}
}

// current gives the stamp of the present state of typ/id (the start of the current absent period
// when it does not exist). Caller holds mu.
func (h *cchHub) current(key string) int {
	if l := h.hist[key]; len(l) > 0 {
		return l[len(l)-1].seq
	}

	return 0
}

type cchObs struct {
	typ, id string
	present bool
	stamp   int
}

func cchStamp(r resource.Resource) int {
	n, _ := strconv.Atoi(strings.TrimPrefix(specOf(r), "s"))

	return n
}

// observe checks one read against what this reader saw before: the commit a read corresponds to
// (its stamp) may never decrease. A present read names its commit exactly (the stamp is in the
// spec); an absent read may stand for any absent period that is not older than what was seen:
// `last` advances to the earliest such period (sound for monotonicity), the returned value is
// the start of the latest one (the most favourable reading, used for the freshness lower bound).
// Caller holds mu.
func (h *cchHub) observe(reader string, o cchObs) int {
	key := o.typ + "/" + o.id
	lk := reader + "|" + key
	last := h.last[lk]

	if o.present {
		known := false

		for _, e := range h.hist[key] {
			known = known || (e.present && e.seq == o.stamp)
		}

		if !known {
			h.back = append(h.back, fmt.Sprintf("%s:%s@s%d-never-written", reader, key, o.stamp))
		}

		if o.stamp < last {
			h.back = append(h.back, fmt.Sprintf("%s:%s@s%d<s%d", reader, key, o.stamp, last))

			return o.stamp
		}

		h.last[lk] = o.stamp

		return o.stamp
	}

	// absent periods: [0, first create), [destroy, next create), ..., possibly open-ended
	type period struct{ start, end int }

	var periods []period

	start, absent := 0, true

	for _, e := range h.hist[key] {
		if absent && e.present {
			periods = append(periods, period{start, e.seq})
			absent = false
		} else if !absent && !e.present {
			start, absent = e.seq, true
		}
	}

	if absent {
		periods = append(periods, period{start, int(^uint(0) >> 1)})
	}

	earliest, latest := -1, -1

	for _, p := range periods {
		if p.end > last {
			if earliest < 0 {
				earliest = max(p.start, last)
			}

			latest = max(p.start, last)
		}
	}

	if earliest < 0 {
		h.back = append(h.back, fmt.Sprintf("%s:%s@absent<s%d", reader, key, last))

		return 0
	}

	h.last[lk] = earliest

	return latest
}

// evaluate is called by a plain probe after the reads of one wake-up.
//
// Freshness rule (sound on any schedule): all earlier notifications were consumed at the last
// quiescence point, so a wake-up is caused by the hand-off of a batch that contains at least the
// FIRST successful write since then of some kind the probe watches; the cache of that kind has
// applied that write when the batch is handed on, so for at least one such kind the probe must
// read the first write's resource at that write or newer. The initial trigger at controller
// start is not caused by a change and is exempt (first wake-up of a probe).
func (h *cchHub) evaluate(probe string, seen []cchObs) {
	h.mu.Lock()
	defer h.mu.Unlock()

	h.woken[probe] = true
	h.wakeups[probe]++

	eff := map[string]int{} // typ/id -> the oldest effective stamp read during this wake-up

	for _, o := range seen {
		s := h.observe(probe, o)
		key := o.typ + "/" + o.id

		if old, ok := eff[key]; !ok || s < old {
			eff[key] = s
		}
	}

	if h.wakeups[probe] == 1 || len(h.firstK) == 0 {
		return
	}

	for typ, f := range h.firstK {
		if s, ok := eff[typ+"/"+f.id]; ok && s >= f.seq {
			return
		}
	}

	h.stale = append(h.stale, fmt.Sprintf("%s:wakeup%d", probe, h.wakeups[probe]))
}

// reconciled is called by the QController probe: Reconcile(ptr) after a quiescence point is
// caused by an event of exactly that resource, so the read must show its first write since then.
func (h *cchHub) reconciled(probe string, o cchObs) {
	h.mu.Lock()
	defer h.mu.Unlock()

	h.qrec[o.id] = true

	s := h.observe(probe, o)

	if !h.settled {
		return
	}

	if f, ok := h.firstID[o.typ+"/"+o.id]; ok && s < f {
		h.stale = append(h.stale, fmt.Sprintf("%s:%s/%s@s%d<s%d", probe, o.typ, o.id, s, f))
	}
}

type cchProbe struct {
	hub  *cchHub
	name string
}

func (p *cchProbe) Name() string { return p.name }

func (p *cchProbe) Inputs() []controller.Input {
	return []controller.Input{
		{Namespace: "n1", Type: "T1", Kind: controller.InputWeak},
		{Namespace: "n1", Type: "T2", Kind: controller.InputWeak},
	}
}

func (p *cchProbe) Outputs() []controller.Output { return nil }

func (p *cchProbe) Run(ctx context.Context, r controller.Runtime, _ *zap.Logger) error {
	p.hub.mu.Lock()
	p.hub.handles[p.name] = r
	p.hub.mu.Unlock()

	for {
		select {
		case <-ctx.Done():
			return nil
		case <-r.EventCh():
		}

		var seen []cchObs

		for _, typ := range cchTyps {
			l, err := r.List(ctx, resource.NewMetadata("n1", typ, "", resource.VersionUndefined))
			if err != nil {
				if ctx.Err() != nil {
					return nil
				}

				panic(err)
			}

			in := map[string]resource.Resource{}
			for _, it := range l.Items {
				in[it.Metadata().ID()] = it
			}

			for _, id := range cchRunIDs {
				if it, ok := in[id]; ok {
					seen = append(seen, cchObs{typ, id, true, cchStamp(it)})
				} else {
					seen = append(seen, cchObs{typ, id, false, 0})
				}
			}

			for _, id := range cchRunIDs {
				it, err := r.Get(ctx, resource.NewMetadata("n1", typ, id, resource.VersionUndefined))

				switch {
				case err == nil:
					seen = append(seen, cchObs{typ, id, true, cchStamp(it)})
				case state.IsNotFoundError(err):
					seen = append(seen, cchObs{typ, id, false, 0})
				case ctx.Err() != nil:
					return nil
				default:
					panic(err)
				}
			}
		}

		p.hub.evaluate(p.name, seen)
	}
}

type cchProbeQ struct {
	hub  *cchHub
	name string
}

func (p *cchProbeQ) Name() string { return p.name }

func (p *cchProbeQ) Settings() controller.QSettings {
	return controller.QSettings{
		Inputs:      []controller.Input{{Namespace: "n1", Type: "T1", Kind: controller.InputQPrimary}},
		Concurrency: optional.Some(uint(2)),
	}
}

func (p *cchProbeQ) Reconcile(ctx context.Context, _ *zap.Logger, r controller.QRuntime, ptr resource.Pointer) error {
	it, err := r.Get(ctx, ptr)

	switch {
	case err == nil:
		p.hub.reconciled(p.name, cchObs{ptr.Type(), ptr.ID(), true, cchStamp(it)})
	case state.IsNotFoundError(err):
		p.hub.reconciled(p.name, cchObs{ptr.Type(), ptr.ID(), false, 0})
	case ctx.Err() != nil:
	default:
		panic(err)
	}

	return nil
}

func (p *cchProbeQ) MapInput(context.Context, *zap.Logger, controller.QRuntime, controller.ReducedResourceMetadata) ([]resource.Pointer, error) {
	return nil, nil
}

type cchEarly struct {
	rd       *cchReader
	typ, id  string
	stamp    *int
	reported bool
}

func (e *cchRunEng) Exec(t *testing.T, c Case) []string {
	_, hd := ParseLine(strings.TrimPrefix(c.Header, "#"))
	out := make([]string, 0, len(c.Ops))

	synctest.Test(t, func(*testing.T) {
		ctx, cancel := context.WithCancel(context.Background())

		inner := state.WrapCore(namespaced.NewState(inmem.Build))
		bt := &cchBatcher{State: inner, mode: hd["mode"], delay: map[string]time.Duration{
			"T1": time.Duration(hd.Int("d1")) * time.Millisecond, "T2": time.Duration(hd.Int("d2")) * time.Millisecond,
		}}
		delayed := hd.Int("d1") > 0 || hd.Int("d2") > 0

		var ropts []options.Option

		cached := map[string]bool{}
		for _, typ := range hd.List("cached") {
			cached[typ] = true

			ropts = append(ropts, options.WithCachedResource("n1", typ))
		}

		rt, err := runtime.NewRuntime(bt, zap.NewNop(), ropts...)
		if err != nil {
			panic(err)
		}

		hub := newCchHub()

		var probes []string

		for i := range hd.Int("probes") {
			name := fmt.Sprintf("p%d", i+1)
			probes = append(probes, name)

			if err := rt.RegisterController(&cchProbe{hub: hub, name: name}); err != nil {
				panic(err)
			}
		}

		if hd["q"] == "1" {
			if err := rt.RegisterQController(&cchProbeQ{hub: hub, name: "q1"}); err != nil {
				panic(err)
			}
		}

		started := false
		runDone := make(chan error, 1)

		var (
			early []*cchEarly
			tctxs []*cchReader // teardown contexts obtained through a probe handle; n = cid
		)

		settle := func() {
			if delayed {
				time.Sleep(time.Second)
			}

			synctest.Wait()
		}

		write := func(tok string) string {
			f := strings.Split(tok, "/")
			if len(f) != 5 {
				return "bad"
			}

			typ, kind, id, spec := f[0], f[1], f[2], f[4]
			seq, _ := strconv.Atoi(strings.TrimPrefix(spec, "s"))
			ptr := resource.NewMetadata("n1", typ, id, resource.VersionUndefined)

			build := func(cur resource.Resource, labels string) *TRes {
				r := NewTRes("n1", typ, id)

				if cur != nil {
					r.md.SetVersion(cur.Metadata().Version())
					r.md.SetPhase(cur.Metadata().Phase())
					r.md.SetCreated(cur.Metadata().Created())
				}

				if labels != "" {
					for _, kv := range strings.Split(labels, "+") {
						k, v, _ := strings.Cut(kv, ":")
						r.md.Labels().Set(k, v)
					}
				}

				r.spec = TSpec{S: spec}

				return r
			}

			// the write and its record are one step for the probes' evaluation
			hub.mu.Lock()
			defer hub.mu.Unlock()

			var (
				err     error
				present = true
			)

			switch kind {
			case "create":
				err = inner.Create(ctx, build(nil, f[3]))
			case "update", "teardown":
				var cur resource.Resource

				if cur, err = inner.Get(ctx, ptr); err == nil {
					var upd *TRes

					if kind == "update" {
						upd = build(cur, f[3])
					} else {
						upd = build(cur, "")
						for k, v := range cur.Metadata().Labels().Raw() {
							upd.md.Labels().Set(k, v)
						}

						upd.md.SetPhase(resource.PhaseTearingDown)
					}

					err = inner.Update(ctx, upd, state.WithExpectedPhaseAny())
				}
			case "destroy":
				err = inner.Destroy(ctx, ptr)
				present = false
			default:
				return "bad"
			}

			if err != nil {
				return "fail"
			}

			key := typ + "/" + id
			hub.hist[key] = append(hub.hist[key], cchHistEnt{seq: seq, present: present})

			if _, ok := hub.firstK[typ]; !ok {
				hub.firstK[typ] = cchFirst{seq: seq, id: id}
			}

			if _, ok := hub.firstID[key]; !ok {
				hub.firstID[key] = seq
			}

			return "ok"
		}

		handle := func(name string) controller.Runtime {
			hub.mu.Lock()
			defer hub.mu.Unlock()

			return hub.handles[name]
		}

		kindOf := func(typ string) resource.Kind {
			return resource.NewMetadata("n1", typ, "", resource.VersionUndefined)
		}

		// quiet: the observation at a quiescence point
		quiet := func() string {
			hr := handle("p1")

			eq := true
			lists := map[string]string{}

			for _, typ := range cchTyps {
				cl, err1 := hr.List(ctx, kindOf(typ))
				ul, err2 := hr.ListUncached(ctx, kindOf(typ))

				if err1 != nil || err2 != nil {
					eq = false

					continue
				}

				lists[typ] = cchItems(cl.Items)
				eq = eq && lists[typ] == cchItems(ul.Items)

				for _, id := range cchRunIDs {
					ptr := resource.NewMetadata("n1", typ, id, resource.VersionUndefined)
					cr, err1 := hr.Get(ctx, ptr)
					ur, err2 := hr.GetUncached(ctx, ptr)

					switch {
					case err1 == nil && err2 == nil:
						eq = eq && cchItem(cr) == cchItem(ur)
					case state.IsNotFoundError(err1) && state.IsNotFoundError(err2):
					default:
						eq = false
					}
				}
			}

			hub.mu.Lock()

			fresh, mono := "ok", "ok"
			if len(hub.stale) > 0 {
				fresh = "STALE(" + strings.Join(hub.stale, ",") + ")"
			}

			if len(hub.back) > 0 {
				mono = "BACK(" + strings.Join(hub.back, ",") + ")"
			}

			var rel []string

			for _, e := range early {
				if !e.reported && e.rd.finished() {
					e.reported = true

					nb := len(hub.back)

					switch e.rd.head {
					case "res":
						hub.observe(fmt.Sprintf("early%d", e.rd.n), cchObs{e.typ, e.id, true, *e.stamp})
					case "notfound":
						hub.observe(fmt.Sprintf("early%d", e.rd.n), cchObs{e.typ, e.id, false, 0})
					default:
						hub.back = append(hub.back, "early:"+e.rd.head)
					}

					v := "ok"
					if len(hub.back) > nb {
						v = "PARTIAL"
					}

					rel = append(rel, fmt.Sprintf("r%d:%s", e.rd.n, v))
				}
			}

			hub.stale, hub.back = nil, nil
			hub.firstK, hub.firstID = map[string]cchFirst{}, map[string]int{}
			hub.settled = true
			hub.mu.Unlock()

			relS := "-"
			if len(rel) > 0 {
				relS = strings.Join(rel, ",")
			}

			return fmt.Sprintf("fresh=%s mono=%s T1=%s T2=%s eq=%t ctxs=%s early=%s", fresh, mono, lists["T1"], lists["T2"], eq, cchCtxs(tctxs), relS)
		}

		takeWoken := func() string {
			hub.mu.Lock()
			defer hub.mu.Unlock()

			var l []string

			for _, p := range probes {
				if hub.woken[p] {
					l = append(l, p)
				}
			}

			if len(hub.qrec) > 0 {
				ids := make([]string, 0, len(hub.qrec))
				for id := range hub.qrec {
					ids = append(ids, id)
				}

				sort.Strings(ids)
				l = append(l, "q1:"+strings.Join(ids, "+"))
			}

			hub.woken, hub.qrec = map[string]bool{}, map[string]bool{}

			if len(l) == 0 {
				return "-"
			}

			return strings.Join(l, ",")
		}

		visible := false

		for _, line := range c.Ops {
			op, a := ParseLine(line)

			var o string

			func() {
				defer func() {
					if r := recover(); r != nil {
						o = fmt.Sprintf("PANIC %v", r)
					}
				}()

				switch op {
				case "burst":
					var rs []string

					if a["ws"] != "" {
						for _, tok := range strings.Split(a["ws"], ";") {
							rs = append(rs, write(tok))
						}
					}

					o = "burst r=-"
					if len(rs) > 0 {
						o = "burst r=" + strings.Join(rs, ",")
					}

					if started {
						settle()

						w := takeWoken()
						if !visible {
							w = "init"
						}

						visible = true
						o += " woken=" + w + " " + quiet()
					}
				case "early":
					typ, id := a["typ"], a["id"]
					ptr := resource.NewMetadata("n1", typ, id, resource.VersionUndefined)
					cs := rt.CachedState()

					stamp := new(int)

					rd := cchStartReader(a.Int("r"), func(ctx context.Context) (string, string, context.Context) {
						r, err := cs.Get(ctx, ptr)
						if err != nil {
							return cchReadErr(ctx, err)
						}

						*stamp = cchStamp(r)

						return "res", cchItem(r), nil
					})

					synctest.Wait()

					if rd.finished() {
						o = rd.out(" ")
					} else {
						// what the reader may see at the earliest: the state as of now
						hub.mu.Lock()
						hub.last[fmt.Sprintf("early%d|%s/%s", rd.n, typ, id)] = hub.current(typ + "/" + id)
						hub.mu.Unlock()

						early = append(early, &cchEarly{rd: rd, typ: typ, id: id, stamp: stamp})
						o = "blocked"
					}
				case "start":
					if started {
						o = "already"

						break
					}

					started = true

					go func() { runDone <- rt.Run(ctx) }()

					if a["wait"] == "0" {
						synctest.Wait()

						o = "started boot=false"

						break
					}

					settle()
					takeWoken()

					visible = true
					o = "started boot=true " + quiet()
				case "sel", "ctx":
					hr := handle(a["p"])

					switch {
					case !started || hr == nil:
						o = "nohandle"
					case op == "sel":
						opts := cchListOpts(a)

						rd := cchStartReader(0, func(ctx context.Context) (string, string, context.Context) {
							cl, err := hr.List(ctx, kindOf(a["typ"]), opts...)
							if err != nil {
								return cchReadErr(ctx, err)
							}

							ul, err := hr.ListUncached(ctx, kindOf(a["typ"]), opts...)
							if err != nil {
								return "err", "", nil
							}

							return "items", fmt.Sprintf("%s eq=%t", cchItems(cl.Items), cchItems(cl.Items) == cchItems(ul.Items)), nil
						})

						synctest.Wait()

						if rd.finished() {
							o = rd.out(" ")
						} else {
							rd.cancel()
							synctest.Wait()

							o = "blocked"
						}
					default:
						ptr := resource.NewMetadata("n1", a["typ"], a["id"], resource.VersionUndefined)

						rd := cchStartReader(a.Int("c"), func(ctx context.Context) (string, string, context.Context) {
							tctx, err := hr.ContextWithTeardown(ctx, ptr)
							if err != nil {
								return cchReadErr(ctx, err)
							}

							return "ctx", "", tctx
						})

						synctest.Wait()

						switch {
						case !rd.finished():
							rd.cancel()
							synctest.Wait()

							o = "blocked"
						case rd.tctx == nil:
							o = rd.out(" ")
						default:
							tctxs = append(tctxs, rd)
							sort.SliceStable(tctxs, func(i, j int) bool { return tctxs[i].n < tctxs[j].n })

							o = fmt.Sprintf("ctx cancelled=%t", rd.tctx.Err() != nil)
						}
					}
				default:
					o = "bad-op"
				}
			}()

			out = append(out, o)
		}

		cancel()

		for _, e := range early {
			e.rd.cancel()
		}

		for _, rd := range tctxs {
			rd.cancel()
		}

		if started {
			<-runDone
		}

		synctest.Wait()
	})

	return out
}

func (e *cchRunEng) Gen(r *Rand, thorough bool, idx int) Case {
	cached := Pick(r, []string{"T1", "T1", "T1,T2", "T1,T2", "T2"})
	mode := Pick(r, []string{"asis", "split", "merge", "halves"})
	d1, d2 := 0, 0

	if r.Chance(2, 3) {
		d1, d2 = 1+r.Intn(3), 1+r.Intn(3)
	}

	nprobes := 1 + r.Intn(3)
	q := r.Intn(2)
	c := Case{Header: fmt.Sprintf("# engine=cacherun cached=%s probes=%d q=%d mode=%s d1=%d d2=%d case=%d", cached, nprobes, q, mode, d1, d2, idx)}

	seq, rn, cid := 0, 0, 0
	exists := map[string]bool{} // the generator's guess, only to bias towards successful writes

	genWrite := func() string {
		seq++

		typ := Pick(r, []string{"T1", "T1", "T2"})
		id := Pick(r, cchRunIDs)
		key := typ + "/" + id

		kind := "create"

		if exists[key] {
			kind = Pick(r, []string{"update", "update", "update", "teardown", "destroy", "destroy", "create"})
		} else if r.Chance(1, 8) {
			kind = Pick(r, []string{"update", "destroy", "teardown"})
		}

		switch kind {
		case "create":
			exists[key] = true
		case "destroy":
			delete(exists, key)
		}

		return fmt.Sprintf("%s/%s/%s/%s/s%d", typ, kind, id, cchGenLabels(r, "+"), seq)
	}

	burst := func(n int) string {
		ws := make([]string, 0, n)
		for range n {
			ws = append(ws, genWrite())
		}

		return "burst ws=" + strings.Join(ws, ";")
	}

	// history before start
	for range r.Intn(4) {
		c.Ops = append(c.Ops, burst(1+r.Intn(4)))
	}

	for range r.Intn(3) {
		rn++
		c.Ops = append(c.Ops, fmt.Sprintf("early r=%d typ=%s id=%s", rn, Pick(r, cchTyps), Pick(r, cchRunIDs)))
	}

	if (d1 > 0 && d2 > 0) && r.Chance(1, 3) {
		// writes race with the (delayed) delivery of the bootstrap batch
		c.Ops = append(c.Ops, "start wait=0")

		if r.Chance(1, 2) {
			rn++
			c.Ops = append(c.Ops, fmt.Sprintf("early r=%d typ=%s id=%s", rn, Pick(r, cchTyps), Pick(r, cchRunIDs)))
		}
	} else {
		c.Ops = append(c.Ops, "start wait=1")
	}

	n := 6 + r.Intn(8)
	if thorough {
		n += r.Intn(12)
	}

	for i := range n {
		switch x := r.Intn(100); {
		case x < 55 || i == 0:
			k := 1 + r.Intn(3)
			if r.Chance(1, 3) {
				k = 4 + r.Intn(6)
			}

			c.Ops = append(c.Ops, burst(k))
		case x < 75:
			c.Ops = append(c.Ops, fmt.Sprintf("sel p=p%d typ=%s%s", 1+r.Intn(nprobes), Pick(r, cchTyps), cchGenSel(r, cchRunIDs)))
		case x < 95:
			cid++

			typ := Pick(r, strings.Split(cached, ","))
			c.Ops = append(c.Ops, fmt.Sprintf("ctx p=p%d c=%d typ=%s id=%s", 1+r.Intn(nprobes), cid, typ, Pick(r, cchRunIDs)))
		default:
			rn++
			c.Ops = append(c.Ops, fmt.Sprintf("early r=%d typ=%s id=%s", rn, Pick(r, cchTyps), Pick(r, cchRunIDs)))
		}
	}

	return c
}

func (e *cchRunEng) Corpus(bool) []Case {
	return []Case{
		{ // the bootstrap batch delivered in two halves with a parked reader, then bursts
			Header: "# engine=cacherun cached=T1 probes=2 q=1 mode=halves d1=2 d2=1 corpus=halves",
			Ops: []string{
				"burst ws=T1/create/a/env:prod/s1;T1/create/c/env:dev/s2;T1/create/e//s3;T2/create/a//s4",
				"early r=1 typ=T1 id=c", "start wait=0", "early r=2 typ=T1 id=e",
				"burst ws=T1/update/c/env:prod/s5;T1/create/b//s6;T1/destroy/a//s7",
				"sel p=p1 typ=T1 q=" + encQueries(resource.LabelQueries{{Terms: []resource.LabelTerm{{Key: "env", Op: resource.LabelOpEqual, Value: []string{"prod"}}}}}),
				"ctx p=p2 c=1 typ=T1 id=c", "ctx p=p1 c=2 typ=T1 id=a", "ctx p=p1 c=3 typ=T1 id=e",
				"burst ws=T1/teardown/c//s8;T1/destroy/e//s9;T1/create/e//s10;T2/update/a//s11",
				"sel p=p2 typ=T1 q= re=" + hx("^[a-c]$") + " idm=a:1,b:1,c:1,d:0,e:0",
			},
		},
	}
}
