package main

import (
	"fmt"
	"go/ast"
	"path/filepath"
	"strings"
)

// genSelector regenerates Cosi/Gen/Selector.lean (property C14) from
//
//	pkg/state/protobuf/client/label_query.go  transformLabelQuery: `switch term.Op`  (LabelOp -> wire enum, copied fields)
//	pkg/state/protobuf/server/helpers.go      ConvertLabelQuery:   `switch term.Op`  (wire enum -> resource.LabelX(...) call, which value/opts it passes)
//	pkg/resource/label_query.go               func LabelX(...)      (constructor -> LabelTerm literal), getInvert
//
// Every row is emitted; a shape that is not recognised becomes `.unknown` in the
// field concerned, and the model (Cosi.Model.Selector.viaWire) answers `.unknown`
// for it, about which `Cosi.C14.one_semantics_grpc` cannot be proved.
func genSelector(repo, out string) {
	const ns = "Cosi.Gen.Selector"

	l := newLean("Selector.lean", ns)

	lopNames := map[string]string{
		"LabelOpExists": ".opExists", "LabelOpEqual": ".opEqual", "LabelOpIn": ".opIn", "LabelOpLT": ".opLT",
		"LabelOpLTE": ".opLTE", "LabelOpLTNumeric": ".opLTNumeric", "LabelOpLTENumeric": ".opLTENumeric",
	}
	wireNames := map[string]string{
		"LabelTerm_EQUAL": ".wEqual", "LabelTerm_EXISTS": ".wExists", "LabelTerm_NOT_EXISTS": ".wNotExists",
		"LabelTerm_IN": ".wIn", "LabelTerm_LT": ".wLT", "LabelTerm_LTE": ".wLTE",
		"LabelTerm_LT_NUMERIC": ".wLTNumeric", "LabelTerm_LTE_NUMERIC": ".wLTENumeric",
	}
	ctorNames := map[string]string{
		"LabelExists": ".cExists", "LabelEqual": ".cEqual", "LabelIn": ".cIn", "LabelLT": ".cLT",
		"LabelLTE": ".cLTE", "LabelLTNumeric": ".cLTNumeric", "LabelLTENumeric": ".cLTENumeric",
	}

	lookup := func(m map[string]string, text, prefix string) string {
		if v, ok := m[strings.TrimPrefix(text, prefix)]; ok && strings.HasPrefix(text, prefix) {
			return v
		}

		return ".unknown"
	}

	// findSwitch returns the first `switch <tag>` inside a function body.
	findSwitch := func(fd *ast.FuncDecl, tag string) *ast.SwitchStmt {
		var sw *ast.SwitchStmt

		if fd == nil {
			return nil
		}

		ast.Inspect(fd.Body, func(n ast.Node) bool {
			if s, ok := n.(*ast.SwitchStmt); ok && sw == nil && src(s.Tag) == tag {
				sw = s
			}

			return sw == nil
		})

		return sw
	}

	// appendArg matches `<dst> = append(<dst>, X)` and returns X.
	appendArg := func(st ast.Stmt, dst string) ast.Expr {
		as, ok := st.(*ast.AssignStmt)
		if !ok || len(as.Lhs) != 1 || len(as.Rhs) != 1 || src(as.Lhs[0]) != dst {
			return nil
		}

		call, ok := as.Rhs[0].(*ast.CallExpr)
		if !ok || src(call.Fun) != "append" || len(call.Args) != 2 || src(call.Args[0]) != dst || call.Ellipsis.IsValid() {
			return nil
		}

		return call.Args[1]
	}

	fieldUse := func(kv map[string]string, field, want string) string {
		v, ok := kv[field]

		switch {
		case !ok:
			return ".absent"
		case v == want:
			return ".copied"
		default:
			return ".unknown"
		}
	}

	// literalFields returns the key:value texts of a composite literal of the given type
	// (optionally behind `&`); ok=false if the shape is different.
	literalFields := func(e ast.Expr, typ string) (map[string]string, bool) {
		if u, ok := e.(*ast.UnaryExpr); ok && u.Op.String() == "&" {
			e = u.X
		}

		cl, ok := e.(*ast.CompositeLit)
		if !ok || src(cl.Type) != typ {
			return nil, false
		}

		kv := map[string]string{}

		for _, el := range cl.Elts {
			p, ok := el.(*ast.KeyValueExpr)
			if !ok {
				return nil, false
			}

			if _, dup := kv[src(p.Key)]; dup {
				return nil, false
			}

			kv[src(p.Key)] = src(p.Value)
		}

		return kv, true
	}

	defaultErrors := func(sw *ast.SwitchStmt, want func(string) bool) bool {
		if sw == nil {
			return false
		}

		for _, c := range sw.Body.List {
			cc := c.(*ast.CaseClause)
			if cc.List != nil {
				continue
			}

			if len(cc.Body) != 1 {
				return false
			}

			r, ok := cc.Body[0].(*ast.ReturnStmt)

			return ok && len(r.Results) == 2 && src(r.Results[0]) == "nil" && want(src(r.Results[1]))
		}

		return false
	}

	// ---- client: transformLabelQuery ------------------------------------------------
	cf := parse(filepath.Join(repo, "pkg/state/protobuf/client/label_query.go"))
	csw := findSwitch(method(cf, "", "transformLabelQuery"), "term.Op")

	var clientRows []string

	if csw == nil {
		clientRows = append(clientRows, "⟨.unknown, .unknown, .unknown, .unknown, .unknown⟩")
	} else {
		for _, c := range csw.Body.List {
			cc := c.(*ast.CaseClause)

			for _, ce := range cc.List {
				op := lookup(lopNames, src(ce), "resource.")
				row := fmt.Sprintf("⟨%s, .unknown, .unknown, .unknown, .unknown⟩", op)

				if len(cc.Body) == 1 {
					if arg := appendArg(cc.Body[0], "labelQuery.Terms"); arg != nil {
						if kv, ok := literalFields(arg, "v1alpha1.LabelTerm"); ok {
							known := true

							for k := range kv {
								if k != "Key" && k != "Value" && k != "Op" && k != "Invert" {
									known = false
								}
							}

							if known {
								row = fmt.Sprintf("⟨%s, %s, %s, %s, %s⟩", op, lookup(wireNames, kv["Op"], "v1alpha1."),
									fieldUse(kv, "Key", "term.Key"), fieldUse(kv, "Value", "term.Value"), fieldUse(kv, "Invert", "term.Invert"))
							}
						}
					}
				}

				clientRows = append(clientRows, row)
			}
		}
	}

	l.line("/-- client/label_query.go transformLabelQuery: one row per `case resource.LabelOpX` -/")
	l.line("def clientTable : List ClientRow := %s", leanList(clientRows))
	l.line("/-- the `default:` branch returns `nil, fmt.Errorf(...)` (no request is sent) -/")
	l.line("def clientDefaultErrors : Bool := %s", leanBool(defaultErrors(csw, func(s string) bool { return strings.HasPrefix(s, "fmt.Errorf(") })))

	// ---- server: ConvertLabelQuery --------------------------------------------------
	sf := parse(filepath.Join(repo, "pkg/state/protobuf/server/helpers.go"))
	sfd := method(sf, "", "ConvertLabelQuery")
	ssw := findSwitch(sfd, "term.Op")

	// `var opts []resource.TermOption; if term.Invert { opts = append(opts, resource.NotMatches) }` directly before the switch
	optsFromInvert := false

	if sfd != nil {
		ast.Inspect(sfd.Body, func(n ast.Node) bool {
			b, ok := n.(*ast.BlockStmt)
			if !ok {
				return true
			}

			for i, st := range b.List {
				if st != ast.Stmt(ssw) || i < 2 {
					continue
				}

				decl := src(b.List[i-2])
				is, ok := b.List[i-1].(*ast.IfStmt)

				if decl == "var opts []resource.TermOption" && ok && is.Init == nil && is.Else == nil && src(is.Cond) == "term.Invert" && len(is.Body.List) == 1 {
					if a := appendArg(is.Body.List[0], "opts"); a != nil && src(a) == "resource.NotMatches" {
						optsFromInvert = true
					}
				}
			}

			return true
		})
	}

	var serverRows []string

	if ssw == nil {
		serverRows = append(serverRows, "⟨.unknown, .unknown, .unknown, .unknown, .unknown⟩")
	} else {
		for _, c := range ssw.Body.List {
			cc := c.(*ast.CaseClause)

			for _, ce := range cc.List {
				wire := lookup(wireNames, src(ce), "v1alpha1.")
				row := fmt.Sprintf("⟨%s, .unknown, .unknown, .unknown, .unknown⟩", wire)

				// a leading `if len(term.Value) == 0 { return nil, status.Error[f](codes.InvalidArgument, ..) }`
				// (the repair of D2) rejects the request before the constructor call and leaves the
				// translation of every term that does carry a value unchanged: skip it
				body := cc.Body
				if len(body) == 2 && isValueGuard(body[0]) {
					body = body[1:]
				}

				if len(body) == 1 {
					if arg := appendArg(body[0], "labelOpts"); arg != nil {
						if call, ok := arg.(*ast.CallExpr); ok && len(call.Args) >= 1 {
							ctor := lookup(ctorNames, src(call.Fun), "resource.")
							key := ".unknown"

							if src(call.Args[0]) == "term.Key" {
								key = ".copied"
							}

							rest := call.Args[1:]
							value, invert := ".noValue", ".never"

							if len(rest) > 0 {
								switch src(rest[0]) {
								case "term.Value[0]":
									value, rest = ".first", rest[1:]
								case "term.Value":
									value, rest = ".all", rest[1:]
								}
							}

							switch {
							case len(rest) == 0 && !call.Ellipsis.IsValid():
							case len(rest) == 1 && call.Ellipsis.IsValid() && src(rest[0]) == "opts":
								invert = ".fromTerm"
							case len(rest) == 1 && !call.Ellipsis.IsValid() && src(rest[0]) == "resource.NotMatches":
								invert = ".always"
							default:
								invert = ".unknown"
							}

							row = fmt.Sprintf("⟨%s, %s, %s, %s, %s⟩", wire, ctor, key, value, invert)
						}
					}
				}

				serverRows = append(serverRows, row)
			}
		}
	}

	l.line("/-- server/helpers.go ConvertLabelQuery: one row per `case v1alpha1.LabelTerm_X` -/")
	l.line("def serverTable : List ServerRow := %s", leanList(serverRows))
	l.line("/-- the `default:` branch returns `nil, status.Errorf(codes.Unimplemented, ...)` -/")
	l.line("def serverDefaultErrors : Bool := %s", leanBool(defaultErrors(ssw, func(s string) bool { return strings.HasPrefix(s, "status.Errorf(codes.Unimplemented,") })))
	l.line("/-- `opts` is exactly `[resource.NotMatches]` when `term.Invert`, else empty -/")
	l.line("def serverOptsFromInvert : Bool := %s", leanBool(optsFromInvert))

	// ---- resource: constructors LabelX and getInvert --------------------------------
	rf := parse(filepath.Join(repo, "pkg/resource/label_query.go"))

	var ctorRows []string

	for _, name := range []string{"LabelExists", "LabelEqual", "LabelIn", "LabelLT", "LabelLTE", "LabelLTNumeric", "LabelLTENumeric"} {
		ctor := ctorNames[name]
		row := fmt.Sprintf("⟨%s, .unknown, .unknown, .unknown, .unknown⟩", ctor)
		fd := method(rf, "", name)

		// func LabelX(label string[, value string | set []string], opts ...TermOption) LabelQueryOption {
		//   return func(q *LabelQuery) { q.Terms = append(q.Terms, LabelTerm{...}) } }
		if fd != nil && len(fd.Body.List) == 1 {
			var params []string

			for _, f := range fd.Type.Params.List {
				for _, n := range f.Names {
					params = append(params, n.Name+" "+src(f.Type))
				}
			}

			if r, ok := fd.Body.List[0].(*ast.ReturnStmt); ok && len(r.Results) == 1 {
				if fl, ok := r.Results[0].(*ast.FuncLit); ok && src(fl.Type) == "func(q *LabelQuery)" && len(fl.Body.List) == 1 {
					if arg := appendArg(fl.Body.List[0], "q.Terms"); arg != nil {
						if kv, ok := literalFields(arg, "LabelTerm"); ok && len(params) >= 2 && params[len(params)-1] == "opts ...TermOption" {
							label := strings.Fields(params[0])[0]
							value := ".unknown"

							switch v, has := kv["Value"]; {
							case !has && len(params) == 2:
								value = ".noValue"
							case has && len(params) == 3 && strings.HasSuffix(params[1], " string") && v == "[]string{"+strings.Fields(params[1])[0]+"}":
								value = ".single"
							case has && len(params) == 3 && strings.HasSuffix(params[1], " []string") && v == strings.Fields(params[1])[0]:
								value = ".set"
							}

							known := params[0] == label+" string"

							for k := range kv {
								if k != "Key" && k != "Value" && k != "Op" && k != "Invert" {
									known = false
								}
							}

							if known {
								row = fmt.Sprintf("⟨%s, %s, %s, %s, %s⟩", ctor, lookup(lopNames, kv["Op"], ""),
									fieldUse(kv, "Key", label), value, fieldUse(kv, "Invert", "getInvert(opts)"))
							}
						}
					}
				}
			}
		}

		ctorRows = append(ctorRows, row)
	}

	l.line("/-- pkg/resource/label_query.go: the `LabelTerm` each constructor appends -/")
	l.line("def ctorTable : List CtorRow := %s", leanList(ctorRows))

	getInvert := false

	if fd := method(rf, "", "getInvert"); fd != nil && len(fd.Body.List) == 1 {
		if r, ok := lastReturn(fd.Body); ok && r == "slices.Contains(opts, NotMatches)" {
			getInvert = true
		}
	}

	l.line("/-- `getInvert(opts)` is `slices.Contains(opts, NotMatches)` -/")
	l.line("def getInvertIsContains : Bool := %s", leanBool(getInvert))
	// ---- the selector predicate at the three in-process sites, and the rewrite closure ----
	const idCall, labelCall = "options.IDQuery.Matches(*%s.Metadata())", "options.LabelQueries.Matches(*%s.Metadata().Labels())"

	coll := parse(filepath.Join(repo, "pkg/state/impl/inmem/collection.go"))
	pred := func(ok bool) string {
		if ok {
			return ".idAndLabels"
		}

		return ".unknown"
	}

	// List: `for _, res := range collection.storage { if !ID { continue }; if !Labels { continue }; append }`
	listOK := false

	if fd := method(coll, "ResourceCollection", "List"); fd != nil {
		ast.Inspect(fd.Body, func(n ast.Node) bool {
			rs, ok := n.(*ast.RangeStmt)
			if !ok || src(rs.X) != "collection.storage" || len(rs.Body.List) != 3 {
				return true
			}

			skip := func(st ast.Stmt, call string) bool {
				is, ok := st.(*ast.IfStmt)

				return ok && is.Init == nil && is.Else == nil && src(is.Cond) == "!"+fmt.Sprintf(call, "res") &&
					len(is.Body.List) == 1 && src(is.Body.List[0]) == "continue"
			}

			listOK = skip(rs.Body.List[0], idCall) && skip(rs.Body.List[1], labelCall) &&
				src(rs.Body.List[2]) == "result.Items = append(result.Items, res.DeepCopy())"

			return false
		})
	}

	// WatchAll: `matches := func(res resource.Resource) bool { return ID && Labels }`, used for the
	// bootstrap list and in the filter closure
	watchOK, bootOK, cdOK := false, false, false
	acts := map[[2]bool]string{}
	// how the Updated branch computes its two match bits: `oldMatches := matches(<arg>)`, `newMatches := matches(<arg>)`
	// (both through the `matches` closure, i.e. ID query AND label queries) and nothing else
	updOld, updNew := ".unknown", ".unknown"
	updArg := func(st ast.Stmt, name string) string {
		as, ok := st.(*ast.AssignStmt)
		if !ok || len(as.Lhs) != 1 || len(as.Rhs) != 1 || src(as.Lhs[0]) != name || as.Tok.String() != ":=" {
			return ".unknown"
		}

		switch src(as.Rhs[0]) {
		case "matches(event.Old)":
			return ".old"
		case "matches(event.Resource)":
			return ".resource"
		}

		return ".unknown"
	}

	if fd := method(coll, "ResourceCollection", "WatchAll"); fd != nil {
		ast.Inspect(fd.Body, func(n ast.Node) bool {
			switch x := n.(type) {
			case *ast.AssignStmt:
				if len(x.Lhs) == 1 && src(x.Lhs[0]) == "matches" && len(x.Rhs) == 1 {
					if fl, ok := x.Rhs[0].(*ast.FuncLit); ok && src(fl.Type) == "func(res resource.Resource) bool" {
						r, ok := lastReturn(fl.Body)
						watchOK = ok && len(fl.Body.List) == 1 && r == fmt.Sprintf(idCall, "res")+" && "+fmt.Sprintf(labelCall, "res")
					}
				}
			case *ast.RangeStmt:
				if src(x.X) == "collection.storage" && len(x.Body.List) == 1 {
					bootOK = src(x.Body.List[0]) == "if matches(res) { bootstrapList = append(bootstrapList, res.DeepCopy()) }"
				}
			case *ast.SwitchStmt:
				if src(x.Tag) != "event.Type" {
					return true
				}

				for _, c := range x.Body.List {
					cc := c.(*ast.CaseClause)

					switch src(&ast.CompositeLit{Elts: cc.List}) {
					case "{state.Created, state.Destroyed}":
						r, ok := lastReturn(&ast.BlockStmt{List: cc.Body})
						cdOK = ok && len(cc.Body) == 1 && r == "matches(event.Resource)"
					case "{state.Updated}":
						// the two match bits first, the case table last; anything in between (a second assignment to one
						// of the bits, a conditional recomputation) leaves the bit it touches unrecognised
						if len(cc.Body) < 3 {
							continue
						}

						updOld, updNew = updArg(cc.Body[0], "oldMatches"), updArg(cc.Body[1], "newMatches")

						for _, extra := range cc.Body[2 : len(cc.Body)-1] {
							txt := src(extra)
							if strings.Contains(txt, "oldMatches =") || strings.Contains(txt, "oldMatches, ") {
								updOld = ".unknown"
							}

							if strings.Contains(txt, "newMatches =") || strings.Contains(txt, "newMatches, ") {
								updNew = ".unknown"
							}

							if !strings.Contains(txt, "oldMatches") && !strings.Contains(txt, "newMatches") {
								updOld, updNew = ".unknown", ".unknown"
							}
						}

						sw, ok := cc.Body[len(cc.Body)-1].(*ast.SwitchStmt)
						if !ok || sw.Tag != nil || sw.Init != nil {
							continue
						}

						conds := map[string]func(o, n bool) bool{
							"oldMatches && !newMatches": func(o, n bool) bool { return o && !n },
							"!oldMatches && newMatches": func(o, n bool) bool { return !o && n },
							"newMatches && oldMatches":  func(o, n bool) bool { return o && n },
							"oldMatches && newMatches":  func(o, n bool) bool { return o && n },
							"!oldMatches && !newMatches": func(o, n bool) bool { return !o && !n },
						}

						for _, o := range []bool{false, true} {
							for _, nw := range []bool{false, true} {
								act := ".unknown"

								// Go takes the first case whose condition holds, else default
								var body []ast.Stmt

								found, bad := false, false

								for _, c2 := range sw.Body.List {
									c2c := c2.(*ast.CaseClause)
									if c2c.List == nil {
										continue
									}

									f, known := conds[src(c2c.List[0])]
									if len(c2c.List) != 1 || !known {
										bad = true

										break
									}

									if f(o, nw) {
										body, found = c2c.Body, true

										break
									}
								}

								if !found && !bad {
									for _, c2 := range sw.Body.List {
										if c2c := c2.(*ast.CaseClause); c2c.List == nil {
											body, found = c2c.Body, true
										}
									}
								}

								if found && !bad {
									var texts []string
									for _, st := range body {
										texts = append(texts, src(st))
									}

									switch strings.Join(texts, "; ") {
									case "event.Type = state.Destroyed; event.Old = nil; return true":
										act = ".toDestroyed"
									case "event.Type = state.Created; event.Old = nil; return true":
										act = ".toCreated"
									case "return true":
										act = ".pass"
									case "return false":
										act = ".drop"
									}
								}

								acts[[2]bool{o, nw}] = act
							}
						}
					}
				}
			}

			return true
		})
	}

	// cache list: `xslices.Filter(resources, func(r resource.Resource) bool { return ID && Labels })`
	cacheOK := false
	hf := parse(filepath.Join(repo, "pkg/controller/runtime/internal/cache/handler.go"))

	if fd := method(hf, "cacheHandler", "list"); fd != nil {
		ast.Inspect(fd.Body, func(n ast.Node) bool {
			call, ok := n.(*ast.CallExpr)
			if !ok || src(call.Fun) != "xslices.Filter" || len(call.Args) != 2 || src(call.Args[0]) != "resources" {
				return true
			}

			if fl, ok := call.Args[1].(*ast.FuncLit); ok && src(fl.Type) == "func(r resource.Resource) bool" && len(fl.Body.List) == 1 {
				r, ok := lastReturn(fl.Body)
				cacheOK = ok && r == fmt.Sprintf(idCall, "r")+" && "+fmt.Sprintf(labelCall, "r")
			}

			return false
		})
	}

	l.line("/-- inmem List (collection.go): two `continue` guards, ID query then label queries -/")
	l.line("def listPred : SelPred := %s", pred(listOK))
	l.line("/-- inmem WatchAll: the `matches` closure, used for the bootstrap list and the event filter -/")
	l.line("def watchPred : SelPred := %s", pred(watchOK && bootOK))
	l.line("/-- runtime cache list (cache/handler.go): the `xslices.Filter` closure -/")
	l.line("def cachePred : SelPred := %s", pred(cacheOK))
	l.line("/-- WatchAll filter closure: `case state.Created, state.Destroyed: return matches(event.Resource)` -/")
	l.line("def createdDestroyedByMatch : Bool := %s", leanBool(cdOK))
	l.line("/-- WatchAll filter closure on `Updated`: `oldMatches := matches(⋯)`, `newMatches := matches(⋯)` — both through the `matches` closure (ID query AND label queries), assigned once -/")
	l.line("def updatedOldArg : UpdArg := %s", updOld)
	l.line("def updatedNewArg : UpdArg := %s", updNew)
	l.line("/-- WatchAll filter closure on `Updated`, by (old matches, new matches) -/")
	l.line("def rewriteAct : Bool → Bool → RewriteAct")

	for _, o := range []bool{true, false} {
		for _, nw := range []bool{true, false} {
			act, ok := acts[[2]bool{o, nw}]
			if !ok {
				act = ".unknown"
			}

			l.line("  | %s, %s => %s", leanBool(o), leanBool(nw), act)
		}
	}

	// the loops that carry the label queries of a List / Watch request: the client turns every query of the options
	// into a wire query and sends them all; the server converts every wire query and hands them all to the state
	rangeBodies := func(f *ast.File, recv, fn, over string) [][]string {
		var res [][]string

		fd := method(f, recv, fn)
		if fd == nil || fd.Body == nil {
			return nil
		}

		ast.Inspect(fd.Body, func(n ast.Node) bool {
			if rs, ok := n.(*ast.RangeStmt); ok && src(rs.X) == over && src(rs.Key) == "_" && src(rs.Value) == "query" {
				var body []string
				for _, st := range rs.Body.List {
					body = append(body, src(st))
				}

				res = append(res, body)
			}

			return true
		})

		return res
	}

	eq := func(a []string, b ...string) bool { return strings.Join(a, " ;; ") == strings.Join(b, " ;; ") }

	srvF := parse(filepath.Join(repo, "pkg/state/protobuf/server/server.go"))
	srvList := rangeBodies(srvF, "State", "List", "req.GetOptions().GetLabelQuery()")
	srvWatch := rangeBodies(srvF, "State", "Watch", "req.GetOptions().GetLabelQuery()")
	serverAll := len(srvList) == 1 && len(srvWatch) == 1 &&
		eq(srvList[0], "labelOpts, err := ConvertLabelQuery(query.GetTerms())", "if err != nil { return err }", "opts = append(opts, state.WithLabelQuery(labelOpts...))") &&
		eq(srvWatch[0], "var labelOpts []resource.LabelQueryOption", "labelOpts, err = ConvertLabelQuery(query.GetTerms())", "if err != nil { return err }",
			"opts = append(opts, state.WatchWithLabelQuery(labelOpts...))")

	cliF := parse(filepath.Join(repo, "pkg/state/protobuf/client/client.go"))
	clientAll := true

	for _, fn := range [][2]string{{"List", "return resource.List{}, err"}, {"WatchKind", "return err"}, {"WatchKindAggregated", "return err"}} {
		bodies := rangeBodies(cliF, "Adapter", fn[0], "opts.LabelQueries")
		fd := method(cliF, "Adapter", fn[0])

		if len(bodies) != 1 || fd == nil ||
			!eq(bodies[0], "labelQuery, err := transformLabelQuery(query)", "if err != nil { "+fn[1]+" }", "labelQueries = append(labelQueries, labelQuery)") ||
			strings.Count(src(fd.Body), "LabelQuery: labelQueries,") != 1 ||
			strings.Count(src(fd.Body), "labelQueries := make([]*v1alpha1.LabelQuery, 0, len(opts.LabelQueries))") != 1 ||
			strings.Count(src(fd.Body), "labelQueries") != 4 {
			clientAll = false
		}
	}

	l.line("/-- client List / WatchKind / WatchKindAggregated: every label query of the options is transformed and sent, in order -/")
	l.line("def clientForwardsEveryQuery : Bool := %s", leanBool(clientAll))
	l.line("/-- server List / Watch: every label query of the request is converted and handed to the state, in order -/")
	l.line("def serverForwardsEveryQuery : Bool := %s", leanBool(serverAll))
	l.write(out, ns)
}

// isValueGuard recognises `if len(term.Value) == 0 { return nil, status.Error[f](codes.InvalidArgument, ...) }`.
func isValueGuard(st ast.Stmt) bool {
	is, ok := st.(*ast.IfStmt)
	if !ok || is.Init != nil || is.Else != nil || src(is.Cond) != "len(term.Value) == 0" || len(is.Body.List) != 1 {
		return false
	}

	r, ok := is.Body.List[0].(*ast.ReturnStmt)
	if !ok || len(r.Results) != 2 || src(r.Results[0]) != "nil" {
		return false
	}

	t := src(r.Results[1])

	return strings.HasPrefix(t, "status.Errorf(codes.InvalidArgument,") || strings.HasPrefix(t, "status.Error(codes.InvalidArgument,")
}
