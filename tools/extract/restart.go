package main

import (
	"fmt"
	"go/ast"
	"go/token"
	"path/filepath"
	"strings"
)

// genRestart regenerates Cosi/Gen/Restart.lean (property C16) from
//
//	pkg/controller/runtime/internal/rruntime/run.go       (Run: backoff, wait, re-trigger; runOnce: recover)
//	pkg/controller/runtime/internal/rruntime/rruntime.go  (backoff construction, ResetRestartBackoff, initial trigger)
//	pkg/controller/runtime/internal/rruntime/watch.go     (triggerReconcile: non-blocking send)
//	pkg/controller/runtime/internal/qruntime/qruntime.go  (runWithBackoff, runWithPanicHandler, runOnce)
//	pkg/task/task.go                                      (runWithRestarts, runWithPanicHandler)
//	pkg/controller/runtime/runtime.go                     (processEvents on Errored, Run's select/cancel/wait/return)
//
// Every fact is a Bool (or a duration in ns, 0 = unknown) that is `true` only for the exact
// statement shapes listed below; anything else is `false`, under which the C16 theorems
// do not hold (no recover ⇒ the machine crashes, no re-trigger ⇒ no pending event, …).
func genRestart(repo, out string) {
	const ns = "Cosi.Gen.Restart"

	l := newLean("Restart.lean", ns)

	run := parse(filepath.Join(repo, "pkg/controller/runtime/internal/rruntime/run.go"))
	rr := parse(filepath.Join(repo, "pkg/controller/runtime/internal/rruntime/rruntime.go"))
	rw := parse(filepath.Join(repo, "pkg/controller/runtime/internal/rruntime/watch.go"))
	qr := parse(filepath.Join(repo, "pkg/controller/runtime/internal/qruntime/qruntime.go"))
	tk := parse(filepath.Join(repo, "pkg/task/task.go"))
	rt := parse(filepath.Join(repo, "pkg/controller/runtime/runtime.go"))

	// ---- helpers
	forBody := func(fd *ast.FuncDecl) []ast.Stmt {
		if fd == nil || fd.Body == nil {
			return nil
		}

		for _, st := range fd.Body.List {
			if fs, ok := st.(*ast.ForStmt); ok {
				return fs.Body.List
			}
		}

		return nil
	}

	// recovers: a deferred func literal whose body is `if p := recover(); p != nil { err = fmt.Errorf(...) ... }`
	// in a function with the named result `err`.
	recovers := func(fd *ast.FuncDecl) bool {
		if fd == nil || fd.Body == nil || fd.Type.Results == nil || len(fd.Type.Results.List) != 1 ||
			len(fd.Type.Results.List[0].Names) != 1 || fd.Type.Results.List[0].Names[0].Name != "err" {
			return false
		}

		for _, st := range fd.Body.List {
			ds, ok := st.(*ast.DeferStmt)
			if !ok {
				continue
			}

			fl, ok := ds.Call.Fun.(*ast.FuncLit)
			if !ok || len(fl.Body.List) != 1 {
				continue
			}

			is, ok := fl.Body.List[0].(*ast.IfStmt)
			if !ok || is.Init == nil || src(is.Init) != "p := recover()" || src(is.Cond) != "p != nil" || len(is.Body.List) == 0 {
				continue
			}

			if as, ok := is.Body.List[0].(*ast.AssignStmt); ok && len(as.Lhs) == 1 && src(as.Lhs[0]) == "err" && strings.HasPrefix(src(as.Rhs[0]), "fmt.Errorf(") {
				return true
			}
		}

		return false
	}

	// waitSelect: `select { case <-ctx.Done(): return  case <-time.After(interval): }`
	waitSelect := func(st ast.Stmt) bool {
		sel, ok := st.(*ast.SelectStmt)
		if !ok || len(sel.Body.List) != 2 {
			return false
		}

		a, b := sel.Body.List[0].(*ast.CommClause), sel.Body.List[1].(*ast.CommClause) //nolint:forcetypeassert

		return src(a.Comm) == "<-ctx.Done()" && len(a.Body) == 1 && src(a.Body[0]) == "return" &&
			src(b.Comm) == "<-time.After(interval)" && len(b.Body) == 0
	}

	indexOf := func(body []ast.Stmt, pred func(ast.Stmt) bool) int {
		for i, st := range body {
			if pred(st) {
				return i
			}
		}

		return -1
	}

	is := func(text string) func(ast.Stmt) bool {
		return func(st ast.Stmt) bool { return src(st) == text }
	}

	countAssign := func(n ast.Node, prefix string) int {
		c := 0

		ast.Inspect(n, func(x ast.Node) bool {
			if as, ok := x.(*ast.AssignStmt); ok && strings.HasPrefix(src(as), prefix) {
				c++
			}

			return true
		})

		return c
	}

	// ---- rruntime.Run
	rBody := forBody(method(run, "Adapter", "Run"))
	iOnce := indexOf(rBody, is("err := adapter.runOnce(ctx, logger)"))
	iNil := indexOf(rBody, is("if err == nil { return }"))
	iNext := indexOf(rBody, is("interval := adapter.backoff.NextBackOff()"))
	iWait := indexOf(rBody, waitSelect)
	iTrig := indexOf(rBody, is("adapter.triggerReconcile()"))

	rLoopShape := iOnce == 0 && iNil == 1 && iNext > iNil && iWait > iNext
	rRetrigger := rLoopShape && iTrig > iWait && iTrig == len(rBody)-1

	rOnce := method(run, "Adapter", "runOnce")
	rRecovers := recovers(rOnce)

	// runOnce runs the controller: after the deferred functions and the "starting" log line either
	// `return adapter.ctrl.Run(ctx, adapter, logger)`, or `err = adapter.ctrl.Run(ctx, adapter, logger)` followed by
	// nothing but clearings of the output tracker and `return err`. Where the output tracker is cleared is a fact of
	// its own (trackerReset).
	const (
		ctrlRun      = "adapter.ctrl.Run(ctx, adapter, logger)"
		trackerClear = "adapter.outputTracker = nil"
	)

	rRunsCtrl := false
	trackerReset := "unknown"

	if rOnce != nil && rOnce.Body != nil {
		var rest []ast.Stmt

		for _, st := range rOnce.Body.List {
			if _, ok := st.(*ast.DeferStmt); ok && rest == nil {
				continue
			}

			if src(st) == `logger.Debug("controller starting")` && rest == nil {
				continue
			}

			rest = append(rest, st)
		}

		clearsAfterRun := 0

		switch {
		case len(rest) == 1 && src(rest[0]) == "return "+ctrlRun:
			rRunsCtrl = true
		case len(rest) >= 2 && src(rest[0]) == "err = "+ctrlRun && src(rest[len(rest)-1]) == "return err":
			rRunsCtrl = true

			for _, st := range rest[1 : len(rest)-1] {
				if src(st) == trackerClear {
					clearsAfterRun++
				} else {
					rRunsCtrl = false
				}
			}
		}

		// clearings of the tracker anywhere in runOnce, and those that are a top-level statement of a deferred function
		clearsAll, clearsDeferred := 0, 0

		ast.Inspect(rOnce.Body, func(x ast.Node) bool {
			if as, ok := x.(*ast.AssignStmt); ok && src(as) == trackerClear {
				clearsAll++
			}

			return true
		})

		for _, st := range rOnce.Body.List {
			ds, ok := st.(*ast.DeferStmt)
			if !ok {
				continue
			}

			if fl, ok := ds.Call.Fun.(*ast.FuncLit); ok && len(ds.Call.Args) == 0 {
				for _, inner := range fl.Body.List {
					if src(inner) == trackerClear {
						clearsDeferred++
					}
				}
			}
		}

		switch {
		case !rRunsCtrl:
		case clearsAll == 0:
			trackerReset = "never"
		case clearsDeferred >= 1 && clearsDeferred+clearsAfterRun == clearsAll:
			trackerReset = "deferred"
		case clearsDeferred == 0 && clearsAfterRun == clearsAll:
			trackerReset = "afterRun"
		}
	}

	// output_tracker.go: StartTrackingOutputs panics when a tracker is set and sets one; CleanupOutputs clears it and resets
	// the restart backoff before its final `return nil`; nothing else in the package assigns the field
	ot := parse(filepath.Join(repo, "pkg/controller/runtime/internal/rruntime/output_tracker.go"))
	startPanicsWhenSet, cleanupClearsTracker, cleanupResetsBackoff := false, false, false

	if fd := method(ot, "Adapter", "StartTrackingOutputs"); fd != nil && fd.Body != nil && len(fd.Body.List) == 2 {
		if s, ok := fd.Body.List[0].(*ast.IfStmt); ok && s.Init == nil && s.Else == nil && src(s.Cond) == "adapter.outputTracker != nil" &&
			len(s.Body.List) == 1 && strings.HasPrefix(src(s.Body.List[0]), "panic(") &&
			src(fd.Body.List[1]) == "adapter.outputTracker = trackingPoolInstance.Get()" {
			startPanicsWhenSet = true
		}
	}

	if fd := method(ot, "Adapter", "CleanupOutputs"); fd != nil && fd.Body != nil {
		b := fd.Body.List
		iClear := indexOf(b, is(trackerClear))
		iReset := indexOf(b, is("adapter.ResetRestartBackoff()"))

		if ret, ok := lastReturn(fd.Body); ok && ret == "nil" {
			cleanupClearsTracker = iClear >= 0
			cleanupResetsBackoff = iReset >= 0 && iReset > iClear && iReset == len(b)-2
		}
	}

	trackerAssigns := 0

	rrFiles, _ := filepath.Glob(filepath.Join(repo, "pkg/controller/runtime/internal/rruntime/*.go")) //nolint:errcheck
	for _, pf := range rrFiles {
		if strings.HasSuffix(pf, "_test.go") {
			continue
		}

		ast.Inspect(parse(pf), func(x ast.Node) bool {
			switch n := x.(type) {
			case *ast.AssignStmt:
				for _, lhs := range n.Lhs {
					if src(lhs) == "adapter.outputTracker" {
						trackerAssigns++
					}
				}
			case *ast.UnaryExpr:
				if n.Op == token.AND && src(n.X) == "adapter.outputTracker" {
					trackerAssigns += 100
				}
			}

			return true
		})
	}

	trackerRunOnceClears := map[string]int{"deferred": 1, "afterRun": 1, "never": 0}

	n, known := trackerRunOnceClears[trackerReset]
	trackerPrivate := known && trackerAssigns == 2+n

	// ---- rruntime.go
	rDefaultCtor, rMaxElapsedZero, rInitialTrigger, rResetResets := false, false, false, false

	if fd := method(rr, "", "NewAdapter"); fd != nil {
		ctor := 0

		ast.Inspect(fd.Body, func(x ast.Node) bool {
			if kv, ok := x.(*ast.KeyValueExpr); ok && src(kv.Key) == "backoff" {
				if src(kv.Value) == "backoff.NewExponentialBackOff()" {
					ctor++
				} else {
					ctor = -100
				}
			}

			return true
		})

		rDefaultCtor = ctor == 1
		rMaxElapsedZero = countAssign(fd.Body, "adapter.backoff.") == 1 && indexOf(fd.Body.List, is("adapter.backoff.MaxElapsedTime = 0")) >= 0
		rInitialTrigger = indexOf(fd.Body.List, is("adapter.triggerReconcile()")) >= 0
	}

	if fd := method(rr, "Adapter", "ResetRestartBackoff"); fd != nil && len(fd.Body.List) == 1 && src(fd.Body.List[0]) == "adapter.backoff.Reset()" {
		rResetResets = true
	}

	// no other place touches adapter.backoff
	otherBackoffUse := 0

	for _, f := range []*ast.File{run, rr, rw} {
		ast.Inspect(f, func(x ast.Node) bool {
			if se, ok := x.(*ast.SelectorExpr); ok && src(se) == "adapter.backoff" {
				otherBackoffUse++
			}

			return true
		})
	}

	rBackoffPrivate := otherBackoffUse == 3 // MaxElapsedTime = 0, Reset(), NextBackOff()

	// ---- triggerReconcile
	triggerNonBlocking := false

	if fd := method(rw, "Adapter", "triggerReconcile"); fd != nil && len(fd.Body.List) == 1 {
		if sel, ok := fd.Body.List[0].(*ast.SelectStmt); ok && len(sel.Body.List) == 2 {
			a, b := sel.Body.List[0].(*ast.CommClause), sel.Body.List[1].(*ast.CommClause) //nolint:forcetypeassert
			triggerNonBlocking = src(a.Comm) == "adapter.ch <- controller.ReconcileEvent{}" && b.Comm == nil && len(b.Body) == 0
		}
	}

	// ---- qruntime.runWithBackoff
	hBody := forBody(method(qr, "Adapter", "runWithBackoff"))
	hookDefaultCtor, hookMaxElapsedZero := false, false

	if fd := method(qr, "Adapter", "runWithBackoff"); fd != nil {
		hookDefaultCtor = indexOf(fd.Body.List, is("backoff := backoff.NewExponentialBackOff()")) >= 0 && countAssign(fd.Body, "backoff :=") == 1
		hookMaxElapsedZero = indexOf(fd.Body.List, is("backoff.MaxElapsedTime = 0")) >= 0 && countAssign(fd.Body, "backoff.") == 1
	}

	hStart := indexOf(hBody, is("startTime := time.Now()"))
	hRun := indexOf(hBody, func(st ast.Stmt) bool { return strings.HasPrefix(src(st), "err := adapter.runWithPanicHandler(") })
	hNil := indexOf(hBody, is("if err == nil { return }"))
	hNext := indexOf(hBody, is("interval := backoff.NextBackOff()"))
	hWait := indexOf(hBody, waitSelect)
	hookLoopShape := hStart == 0 && hRun == 1 && hNil == 2 && hNext > hNil && hWait > hNext && hWait == len(hBody)-1

	var hookResetAfter int64

	if i := indexOf(hBody, func(st ast.Stmt) bool {
		s, ok := st.(*ast.IfStmt)

		return ok && strings.HasPrefix(src(s.Cond), "time.Since(startTime) > ") && src(s.Body) == "{ backoff.Reset() }" && s.Else == nil
	}); i > hNil && i < hNext {
		rhs := strings.TrimPrefix(src(hBody[i].(*ast.IfStmt).Cond), "time.Since(startTime) > ") //nolint:forcetypeassert
		if u, ok := durUnits[rhs]; ok {
			hookResetAfter = u
		} else {
			hookResetAfter = parseDur(rhs)
		}
	}

	hookRecovers := recovers(method(qr, "Adapter", "runWithPanicHandler"))
	qRecovers := recovers(method(qr, "Adapter", "runOnce"))

	// the worker loop: `for { select { ctx.Done: return; item = <-Get() }; func() { defer item.Release(); ... }() }`
	qWorkerLoops := false
	if wb := forBody(method(qr, "Adapter", "runReconcile")); len(wb) > 0 {
		last, ok := wb[len(wb)-1].(*ast.ExprStmt)
		if ok {
			if call, ok := last.X.(*ast.CallExpr); ok {
				if fl, ok := call.Fun.(*ast.FuncLit); ok && len(fl.Body.List) > 0 && src(fl.Body.List[0]) == "defer item.Release()" {
					qWorkerLoops = true
				}
			}
		}
	}

	// ---- task.runWithRestarts
	tFd := method(tk, "Task[T, S]", "runWithRestarts")
	taskDefaultCtor, taskMaxElapsedZero, taskLoopShape, taskNoReset := false, false, false, false
	taskFinish := "unknown"

	if tFd != nil {
		taskDefaultCtor = indexOf(tFd.Body.List, is("backoff := backoff.NewExponentialBackOff()")) >= 0 && countAssign(tFd.Body, "backoff :=") == 1
		taskMaxElapsedZero = indexOf(tFd.Body.List, is("backoff.MaxElapsedTime = 0")) >= 0 && countAssign(tFd.Body, "backoff.") == 1
		taskNoReset = !containsCall(tFd.Body, "backoff.Reset(")

		tb := forBody(tFd)
		tRun := indexOf(tb, is("err := task.runWithPanicHandler(ctx)"))
		// the exit of the loop: `if <taskFinish> { …; return }` right after the run; the condition is a fact of its own
		tNil := indexOf(tb, func(st ast.Stmt) bool {
			s, ok := st.(*ast.IfStmt)
			if !ok || s.Init != nil || s.Else != nil || len(s.Body.List) == 0 {
				return false
			}

			return src(s.Body.List[len(s.Body.List)-1]) == "return"
		})

		if tNil >= 0 {
			switch src(tb[tNil].(*ast.IfStmt).Cond) { //nolint:forcetypeassert
			case "err == nil":
				taskFinish = "errNil"
			case "err == nil || errors.Is(err, context.Canceled)":
				taskFinish = "errNilOrCanceled"
			}
		}
		tNext := indexOf(tb, is("interval := backoff.NextBackOff()"))
		tWait := indexOf(tb, waitSelect)
		taskLoopShape = tRun == 0 && tNil == 1 && tNext > tNil && tWait > tNext && tWait == len(tb)-1 && taskFinish != "unknown"
	}

	// task.runWithPanicHandler hands RunTask's error through unchanged (no conversion of context.Canceled as in the adapters)
	taskPassesError := false
	if fd := method(tk, "Task[T, S]", "runWithPanicHandler"); fd != nil && fd.Body != nil && len(fd.Body.List) == 2 {
		if ret, ok := lastReturn(fd.Body); ok && ret == "task.spec.RunTask(ctx, task.logger, task.in)" {
			if _, ok := fd.Body.List[0].(*ast.DeferStmt); ok {
				taskPassesError = true
			}
		}
	}

	taskRecovers := recovers(method(tk, "Task[T, S]", "runWithPanicHandler"))

	// ---- runtime.go
	watchErrAborts := false
	watchErrSend := "unknown"

	// isErrSend: the statement `runtime.watchErrors <- e.Error`
	isErrSend := func(st ast.Stmt) bool {
		ss, ok := st.(*ast.SendStmt)

		return ok && src(ss.Chan) == "runtime.watchErrors" && src(ss.Value) == "e.Error"
	}

	// sendKind classifies how the failed watch is reported to Run:
	//   plain       `runtime.watchErrors <- e.Error`                                                       (blocks until buffered or received)
	//   ctxAware    `select { case runtime.watchErrors <- e.Error: case <-runtime.runCtx.Done(): }`        (gives up on cancellation)
	//   nonBlocking `select { case runtime.watchErrors <- e.Error: default: }`                             (drops the error when it would block)
	sendKind := func(st ast.Stmt) string {
		if isErrSend(st) {
			return "plain"
		}

		sel, ok := st.(*ast.SelectStmt)
		if !ok || len(sel.Body.List) != 2 {
			return "unknown"
		}

		a, aok := sel.Body.List[0].(*ast.CommClause)
		b, bok := sel.Body.List[1].(*ast.CommClause)

		if !aok || !bok || a.Comm == nil || !isErrSend(a.Comm) || len(a.Body) != 0 || len(b.Body) != 0 {
			return "unknown"
		}

		switch {
		case b.Comm == nil:
			return "nonBlocking"
		case src(b.Comm) == "<-runtime.runCtx.Done()":
			return "ctxAware"
		default:
			return "unknown"
		}
	}

	if fd := method(rt, "Runtime", "processEvents"); fd != nil {
		ast.Inspect(fd.Body, func(x ast.Node) bool {
			rs, ok := x.(*ast.RangeStmt)
			if !ok || len(rs.Body.List) == 0 {
				return true
			}

			if s, ok := rs.Body.List[0].(*ast.IfStmt); ok && src(s.Cond) == "e.Type == state.Errored" && s.Init == nil && s.Else == nil && len(s.Body.List) == 2 &&
				src(s.Body.List[1]) == "return false" {
				watchErrSend = sendKind(s.Body.List[0])
				watchErrAborts = watchErrSend != "unknown"
			}

			return false
		})
	}

	// the channel itself: `watchErrors: make(chan error, N)` in NewRuntime (N an integer literal; no second argument = 0),
	// and who touches it: in the whole package (non-test files) `runtime.watchErrors` occurs exactly twice, the send in
	// processEvents and the receive in Run's select; the field is assigned nowhere else.
	var watchErrCap int64

	watchErrCapKnown := false

	if fd := method(rt, "", "NewRuntime"); fd != nil {
		n := 0

		ast.Inspect(fd.Body, func(x ast.Node) bool {
			kv, ok := x.(*ast.KeyValueExpr)
			if !ok || src(kv.Key) != "watchErrors" {
				return true
			}

			n++

			call, ok := kv.Value.(*ast.CallExpr)
			if !ok || src(call.Fun) != "make" || len(call.Args) == 0 || src(call.Args[0]) != "chan error" {
				n = -100

				return true
			}

			switch len(call.Args) {
			case 1:
				watchErrCap, watchErrCapKnown = 0, true
			case 2:
				if lit, ok := call.Args[1].(*ast.BasicLit); ok && lit.Kind == token.INT {
					var v int64

					if _, err := fmt.Sscanf(lit.Value, "%d", &v); err == nil && fmt.Sprint(v) == lit.Value && v >= 0 && v < 1<<20 {
						watchErrCap, watchErrCapKnown = v, true
					}
				}
			}

			return true
		})

		if n != 1 {
			watchErrCap, watchErrCapKnown = 0, false
		}
	}

	chanUses, chanSend, chanRecv, chanOtherFiles := 0, 0, 0, 0

	pkgFiles, _ := filepath.Glob(filepath.Join(repo, "pkg/controller/runtime/*.go")) //nolint:errcheck
	for _, pf := range pkgFiles {
		if strings.HasSuffix(pf, "_test.go") {
			continue
		}

		f := parse(pf)

		ast.Inspect(f, func(x ast.Node) bool {
			switch n := x.(type) {
			case *ast.SelectorExpr:
				if n.Sel.Name == "watchErrors" {
					chanUses++

					if filepath.Base(pf) != "runtime.go" {
						chanOtherFiles++
					}
				}
			case *ast.SendStmt:
				if src(n.Chan) == "runtime.watchErrors" {
					chanSend++
				}
			case *ast.UnaryExpr:
				if n.Op == token.ARROW && src(n.X) == "runtime.watchErrors" {
					chanRecv++
				}
			}

			return true
		})
	}

	watchErrChanPrivate := watchErrCapKnown && chanUses == 2 && chanSend == 1 && chanRecv == 1 && chanOtherFiles == 0

	dedupStops := 0

	if fd := method(rt, "Runtime", "deduplicateWatchEvents"); fd != nil {
		calls := 0

		ast.Inspect(fd.Body, func(x ast.Node) bool {
			if s, ok := x.(*ast.IfStmt); ok && src(s.Cond) == "!runtime.processEvents(events, m)" && src(s.Body) == "{ return }" {
				dedupStops++
			}

			if c, ok := x.(*ast.CallExpr); ok && src(c.Fun) == "runtime.processEvents" {
				calls++
			}

			return true
		})

		if calls != dedupStops {
			dedupStops = 0
		}
	}

	runReturnsWatchErr, runCancelsAndWaits, adaptersInGroup := false, false, false

	if fd := method(rt, "Runtime", "Run"); fd != nil {
		body := fd.Body.List
		iSel := indexOf(body, func(st ast.Stmt) bool {
			sel, ok := st.(*ast.SelectStmt)
			if !ok || len(sel.Body.List) != 2 {
				return false
			}

			a, b := sel.Body.List[0].(*ast.CommClause), sel.Body.List[1].(*ast.CommClause) //nolint:forcetypeassert

			return src(a.Comm) == "<-runtime.runCtx.Done()" && len(a.Body) == 0 &&
				src(b.Comm) == "watchErr = <-runtime.watchErrors" && len(b.Body) == 1 &&
				strings.HasPrefix(src(b.Body[0]), "watchErr = fmt.Errorf(") && strings.Contains(src(b.Body[0]), "%w") &&
				strings.HasSuffix(src(b.Body[0]), ", watchErr)")
		})

		if iSel >= 0 && iSel+3 == len(body)-1 {
			runCancelsAndWaits = src(body[iSel+1]) == "runtime.runCtxCancel()" && src(body[iSel+2]) == "runtime.group.Wait()"
			runReturnsWatchErr = runCancelsAndWaits && src(body[iSel+3]) == "return watchErr"
		}

		adaptersInGroup = containsCall(fd.Body, "goFunc(&runtime.group, func() { adapter.Run(runtime.runCtx) })")
	}

	if fd := method(rt, "Runtime", "registerAdapter"); fd == nil || !containsCall(fd.Body, "goFunc(&runtime.group, func() { adapter.Run(runtime.runCtx) })") {
		adaptersInGroup = false
	}

	b := func(doc, name string, v bool) {
		l.line("/-- %s -/", doc)
		l.line("def %s : Bool := %s", name, leanBool(v))
	}

	b("rruntime.Run: `for { err := runOnce; if err == nil { return }; … interval := adapter.backoff.NextBackOff(); … select { <-ctx.Done(): return; <-time.After(interval): } … }`", "rLoopShape", rLoopShape)
	b("rruntime.Run: the loop body ends with `adapter.triggerReconcile()` after the wait (\"schedule reconcile after restart\")", "rRetrigger", rRetrigger)
	b("rruntime.runOnce: deferred `if p := recover(); p != nil { err = fmt.Errorf(…) }` and `return adapter.ctrl.Run(ctx, adapter, logger)`", "rRecovers", rRecovers && rRunsCtrl)
	l.line("/-- rruntime.runOnce: where `adapter.outputTracker = nil` stands: `.deferred` = top-level statement of a deferred function (runs on every exit of ctrl.Run, a panic included), `.afterRun` = plain statement between `err = adapter.ctrl.Run(…)` and `return err` (skipped when ctrl.Run panics), `.never` = nowhere -/")
	l.line("def trackerReset : TrackerReset := .%s", trackerReset)
	b("rruntime.StartTrackingOutputs: `if adapter.outputTracker != nil { panic(…) }; adapter.outputTracker = trackingPoolInstance.Get()`", "startPanicsWhenSet", startPanicsWhenSet)
	b("rruntime.CleanupOutputs clears the tracker (`adapter.outputTracker = nil`) on its way to the final `return nil`", "cleanupClearsTracker", cleanupClearsTracker)
	b("rruntime.CleanupOutputs ends with `adapter.ResetRestartBackoff(); return nil`", "cleanupResetsBackoff", cleanupResetsBackoff)
	b("package rruntime (non-test files): adapter.outputTracker is assigned only by StartTrackingOutputs, CleanupOutputs and the recognised clearing of runOnce, and its address is never taken", "trackerPrivate", trackerPrivate)
	b("rruntime.NewAdapter: `backoff: backoff.NewExponentialBackOff()` (no options)", "rDefaultCtor", rDefaultCtor)
	b("rruntime.NewAdapter: `adapter.backoff.MaxElapsedTime = 0` is the only field of the backoff that is set", "rMaxElapsedZero", rMaxElapsedZero)
	b("rruntime.NewAdapter calls `adapter.triggerReconcile()` (initial reconcile)", "rInitialTrigger", rInitialTrigger)
	b("ResetRestartBackoff is exactly `adapter.backoff.Reset()`", "rResetResets", rResetResets)
	b("adapter.backoff is used nowhere else in package rruntime (MaxElapsedTime, Reset, NextBackOff only)", "rBackoffPrivate", rBackoffPrivate)
	b("triggerReconcile: `select { case adapter.ch <- ReconcileEvent{}: … default: }`", "triggerNonBlocking", triggerNonBlocking)
	b("qruntime.runWithBackoff: `backoff := backoff.NewExponentialBackOff()` (no options)", "hookDefaultCtor", hookDefaultCtor)
	b("qruntime.runWithBackoff: `backoff.MaxElapsedTime = 0` only", "hookMaxElapsedZero", hookMaxElapsedZero)
	b("qruntime.runWithBackoff: `for { startTime := time.Now(); err := runWithPanicHandler(…); if err == nil { return }; …; interval := backoff.NextBackOff(); …; select { ctx.Done: return; time.After(interval): } }`", "hookLoopShape", hookLoopShape)
	l.line("/-- qruntime.runWithBackoff: `if time.Since(startTime) > D { backoff.Reset() }` between the nil check and NextBackOff; D in ns (0 = not found) -/")
	l.line("def hookResetAfterNs : Nat := %d", hookResetAfter)
	b("qruntime.runWithPanicHandler recovers a panic of the run hook into an error", "hookRecovers", hookRecovers)
	b("qruntime.runOnce recovers a panic of Reconcile/MapInput into an error", "qRecovers", qRecovers)
	b("qruntime.runReconcile: the worker loop body ends with `func() { defer item.Release(); … }()`", "qWorkerLoops", qWorkerLoops)
	b("task.runWithRestarts: `backoff := backoff.NewExponentialBackOff()` (no options)", "taskDefaultCtor", taskDefaultCtor)
	b("task.runWithRestarts: `backoff.MaxElapsedTime = 0` only", "taskMaxElapsedZero", taskMaxElapsedZero)
	b("task.runWithRestarts: `for … { err := runWithPanicHandler(ctx); if <taskFinish> { …; return }; interval := backoff.NextBackOff(); …; select { ctx.Done: return; time.After(interval): } }`", "taskLoopShape", taskLoopShape)
	l.line("/-- task.runWithRestarts: the condition of that exit -/")
	l.line("def taskFinish : TaskFinish := .%s", taskFinish)
	b("task.runWithPanicHandler: one deferred recover, then `return task.spec.RunTask(ctx, task.logger, task.in)`: the error value reaches the loop unchanged", "taskPassesError", taskPassesError)
	b("task.runWithRestarts never calls backoff.Reset()", "taskNoReset", taskNoReset)
	b("task.runWithPanicHandler recovers a panic of RunTask into an error", "taskRecovers", taskRecovers)
	b("runtime.processEvents: the first statement of the event loop is `if e.Type == state.Errored { <report e.Error on runtime.watchErrors>; return false }`, the report being one of the shapes of `watchErrSend`", "watchErrAborts", watchErrAborts)
	l.line("/-- runtime.processEvents: how the failed watch is reported: `.plain` = `runtime.watchErrors <- e.Error` (a bare send: completes only into a free buffer slot or a waiting receiver, does not look at the context), `.ctxAware` = the same send in a select with `<-runtime.runCtx.Done()`, `.nonBlocking` = in a select with an empty `default` -/")
	l.line("def watchErrSend : SendKind := .%s", watchErrSend)
	l.line("/-- runtime.NewRuntime: `watchErrors: make(chan error, N)`: N (0 = unbuffered, or not of this shape) -/")
	l.line("def watchErrCap : Nat := %d", watchErrCap)
	b("package runtime (non-test files): `runtime.watchErrors` occurs exactly twice, the send in processEvents and the receive in Run's select (one sender site, one receiver), and is made once in NewRuntime by a recognised `make(chan error[, N])`", "watchErrChanPrivate", watchErrChanPrivate)
	b("runtime.deduplicateWatchEvents: every processEvents call is `if !runtime.processEvents(events, m) { return }`", "dedupStopsOnAbort", dedupStops >= 1)
	b("runtime.Run: `select { case <-runCtx.Done(): case watchErr = <-watchErrors: watchErr = fmt.Errorf(\"…%w\", watchErr) }` then `runCtxCancel(); group.Wait(); return watchErr`", "runReturnsWatchErr", runReturnsWatchErr)
	b("runtime.Run cancels runCtx and waits for the goroutine group before returning", "runCancelsAndWaits", runCancelsAndWaits)
	b("every adapter runs as `goFunc(&runtime.group, func() { adapter.Run(runtime.runCtx) })` (Run and registerAdapter)", "adaptersInGroup", adaptersInGroup)
	l.write(out, ns)
}
