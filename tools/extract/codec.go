package main

import (
	"fmt"
	"go/ast"
	"go/token"
	"path/filepath"
	"reflect"
	"strconv"
	"strings"
)

// genCodec regenerates Cosi/Gen/Codec.lean (facts consumed by Cosi.Model.Wire, C18) from
//
//	pkg/resource/version.go                         ParseVersion / String: which strconv functions
//	pkg/resource/phase.go                           the phase strings
//	api/v1alpha1/resource.pb.go                     field numbers (struct tags) of Metadata/Spec/Resource
//	pkg/state/impl/store/compression/compression.go marker byte, marker test, threshold test
//	pkg/state/impl/store/compression/zstd.go        compressor id
//	pkg/state/impl/store/encryption/marshaler.go    version byte, header (1+nonce) size, minimal length, checks
//
// Fails closed: an unrecognised shape yields `.unknown` / `false` / `0` / `[]`, with which
// the C18 theorems no longer build (field number 0 is an illegal tag, an empty phase
// string makes the two phases collide, an unknown parser rejects every version).
func genCodec(repo, out string) {
	const ns = "Cosi.Gen.Codec"

	l := newLean("Codec.lean", ns)

	// ---- version.go
	ver := parse(filepath.Join(repo, "pkg/resource/version.go"))
	parser := ".unknown"
	convOK := false

	if fd := method(ver, "", "ParseVersion"); fd != nil {
		var calls []string

		ast.Inspect(fd.Body, func(n ast.Node) bool {
			if c, ok := n.(*ast.CallExpr); ok {
				s := src(c)
				if strings.HasPrefix(s, "strconv.Parse") {
					calls = append(calls, s)
				}

				if s == "uint64(intVersion)" || s == "new(uint64(intVersion))" || s == "new(intVersion)" {
					convOK = true
				}
			}

			return true
		})

		if len(calls) == 1 && convOK {
			switch calls[0] {
			case "strconv.ParseInt(ver, 10, 64)":
				parser = ".parseInt"
			case "strconv.ParseUint(ver, 10, 64)":
				parser = ".parseUint"
			}
		}
	}

	formatUnsigned := false

	if fd := method(ver, "Version", "String"); fd != nil {
		if r, ok := lastReturn(fd.Body); ok && r == "strconv.FormatUint(*v.uint64, 10)" {
			formatUnsigned = true
		}
	}

	l.line("/-- version.go ParseVersion: the strconv function applied to the text (base 10, 64 bit), result converted to uint64 -/")
	l.line("def versionParser : IntParser := %s", parser)
	l.line("def parseVersionSigned : Bool := %s", leanBool(parser == ".parseInt"))
	l.line("/-- version.go String(): `strconv.FormatUint(*v.uint64, 10)` -/")
	l.line("def formatUnsigned : Bool := %s", leanBool(formatUnsigned))
	l.line("def undefinedVersion : List UInt8 := %s", leanBytes(stringConst(ver, "undefinedVersion")))

	// ---- phase.go
	ph := parse(filepath.Join(repo, "pkg/resource/phase.go"))
	run, tear := stringConst(ph, "strPhaseRunning"), stringConst(ph, "strPhaseTearingDown")
	phaseOK := false

	if fd := method(ph, "", "ParsePhase"); fd != nil {
		got := map[string]string{}

		ast.Inspect(fd.Body, func(n ast.Node) bool {
			if cc, ok := n.(*ast.CaseClause); ok && len(cc.List) == 1 && len(cc.Body) == 1 {
				got[src(cc.List[0])] = src(cc.Body[0])
			}

			return true
		})

		phaseOK = got["strPhaseRunning"] == "return PhaseRunning, nil" && got["strPhaseTearingDown"] == "return PhaseTearingDown, nil"
	}

	if fd := method(ph, "Phase", "String"); fd == nil {
		phaseOK = false
	} else if r, ok := lastReturn(fd.Body); !ok || r != "[...]string{strPhaseRunning, strPhaseTearingDown}[ph]" {
		phaseOK = false
	}

	if !phaseOK {
		run, tear = "", ""
	}

	l.line("def phaseRunning : List UInt8 := %s", leanBytes(run))
	l.line("def phaseTearingDown : List UInt8 := %s", leanBytes(tear))

	// ---- resource.pb.go field numbers
	pb := parse(filepath.Join(repo, "api/v1alpha1/resource.pb.go"))
	for _, f := range [][3]string{
		{"Metadata", "Namespace", "fNamespace"}, {"Metadata", "Type", "fType"}, {"Metadata", "Id", "fId"},
		{"Metadata", "Version", "fVersion"}, {"Metadata", "Owner", "fOwner"}, {"Metadata", "Phase", "fPhase"},
		{"Metadata", "Created", "fCreated"}, {"Metadata", "Updated", "fUpdated"}, {"Metadata", "Finalizers", "fFinalizers"},
		{"Metadata", "Labels", "fLabels"}, {"Metadata", "Annotations", "fAnnotations"},
		{"Spec", "ProtoSpec", "fProtoSpec"}, {"Spec", "YamlSpec", "fYamlSpec"},
		{"Resource", "Metadata", "fMetadata"}, {"Resource", "Spec", "fSpec"},
	} {
		l.line("def %s : Nat := %d", f[2], fieldNumber(pb, f[0], f[1]))
	}

	// ---- compression.go
	comp := parse(filepath.Join(repo, "pkg/state/impl/store/compression/compression.go"))
	marker, markerOK, thresholdLt := 0, false, false

	if fd := method(comp, "Marshaler", "MarshalResource"); fd != nil {
		ast.Inspect(fd.Body, func(n ast.Node) bool {
			switch x := n.(type) {
			case *ast.IfStmt:
				if r, ok := lastReturn(x.Body); ok && src(x.Cond) == "len(encoded) < m.minSize" && r == "encoded, nil" {
					thresholdLt = true
				}
			case *ast.CallExpr:
				if strings.HasPrefix(src(x), "m.compressor.Compress(") && len(x.Args) == 2 && src(x.Args[1]) == "encoded" {
					if cl, ok := x.Args[0].(*ast.CompositeLit); ok && src(cl.Type) == "[]byte" && len(cl.Elts) == 2 && src(cl.Elts[1]) == "m.compressor.ID()" {
						if v, ok := intLit(cl.Elts[0]); ok {
							marker, markerOK = v, true
						}
					}
				}
			}

			return true
		})
	}

	decodeOK := false

	if fd := method(comp, "Marshaler", "UnmarshalResource"); fd != nil && len(fd.Body.List) == 2 {
		if is, ok := fd.Body.List[0].(*ast.IfStmt); ok {
			want := fmt.Sprintf("len(b) > 1 && b[0] == %s", hexLit(marker))
			body := src(is.Body)
			decodeOK = (src(is.Cond) == want || src(is.Cond) == fmt.Sprintf("len(b) > 1 && b[0] == %d", marker)) &&
				strings.Contains(body, "id := b[1]") && strings.Contains(body, "if id != m.compressor.ID() { return nil,") &&
				strings.Contains(body, "b, err = m.compressor.Decompress(b[2:])") && strings.Contains(body, "if err != nil { return nil,")
		}

		if src(fd.Body.List[1]) != "return m.underlying.UnmarshalResource(b)" {
			decodeOK = false
		}
	}

	l.line("/-- compression.go: `Compress([]byte{marker, ID()}, encoded)`; 0 with compMarkerOK=false when not recognised -/")
	l.line("def compMarker : Nat := %d", marker)
	l.line("def compMarkerOK : Bool := %s", leanBool(markerOK))
	l.line("/-- MarshalResource returns the inner encoding unchanged iff `len(encoded) < m.minSize` -/")
	l.line("def compThresholdLt : Bool := %s", leanBool(thresholdLt))
	l.line("/-- UnmarshalResource: `len(b) > 1 && b[0] == marker` ⇒ id check, Decompress(b[2:]); then the underlying decoder -/")
	l.line("def compDecodeShape : Bool := %s", leanBool(decodeOK && markerOK))

	z := parse(filepath.Join(repo, "pkg/state/impl/store/compression/zstd.go"))
	zid := 0

	if fd := method(z, "zstdCompressor", "ID"); fd != nil {
		if r, ok := lastReturn(fd.Body); ok {
			if c, err := strconv.Unquote(r); err == nil && len(c) == 1 {
				zid = int(c[0])
			}
		}
	}

	l.line("def zstdID : Nat := %d", zid)

	// ---- encryption/marshaler.go
	enc := parse(filepath.Join(repo, "pkg/state/impl/store/encryption/marshaler.go"))
	encVersion, header, minLen := 0, 0, 0
	encShape, checksLen, checksVer, split := false, false, false, false

	if fd := method(enc, "Cipher", "Encrypt"); fd != nil {
		var mk, v0 int

		var okMk, okV, okNonce, okSeal bool

		for _, st := range fd.Body.List {
			s := src(st)

			switch {
			case strings.HasPrefix(s, "slc := make([]byte, "):
				mk, okMk = atoi(strings.TrimSuffix(strings.TrimPrefix(s, "slc := make([]byte, "), ")"))
			case strings.HasPrefix(s, "slc[0] = "):
				v0, okV = atoi(strings.TrimPrefix(s, "slc[0] = "))
			case s == "nonce := slc[1:]":
				okNonce = true
			case s == "encrypted := aead.Seal(slc, nonce, b, nil)":
				okSeal = true
			}
		}

		if okMk && okV && okNonce && okSeal {
			encVersion, header, encShape = v0, mk, true
		}
	}

	if fd := method(enc, "Cipher", "Decrypt"); fd != nil && encShape {
		for _, st := range fd.Body.List {
			s := src(st)

			if is, ok := st.(*ast.IfStmt); ok && is.Init == nil {
				if _, isRet := lastReturn(is.Body); isRet {
					c := src(is.Cond)

					switch {
					case c == fmt.Sprintf("len(b) < %d+1", header):
						minLen, checksLen = header+1, true
					case c == fmt.Sprintf("len(b) < %d", header+1):
						minLen, checksLen = header+1, true
					case c == fmt.Sprintf("b[0] != %d", encVersion):
						checksVer = true
					}
				}
			}

			if s == fmt.Sprintf("nonce := b[1:%d]", header) {
				split = true
			}

		}

		hasOpen := false
		for _, st := range fd.Body.List {
			if src(st) == "decrypted, err := aead.Open(nil, nonce, encrypted, nil)" {
				hasOpen = true
			}
		}

		hasCt := false
		for _, st := range fd.Body.List {
			if src(st) == fmt.Sprintf("encrypted := b[%d:]", header) {
				hasCt = true
			}
		}

		split = split && hasOpen && hasCt
	}

	if !encShape || !split {
		encVersion, header, minLen, checksLen, checksVer = 0, 0, 0, false, false
	}

	l.line("/-- marshaler.go Encrypt: `slc := make([]byte, header); slc[0] = version; nonce := slc[1:]; aead.Seal(slc, nonce, b, nil)` -/")
	l.line("def encVersion : Nat := %d", encVersion)
	l.line("def encHeader : Nat := %d", header)
	l.line("/-- Decrypt: `nonce := b[1:header]; encrypted := b[header:]; aead.Open(nil, nonce, encrypted, nil)` recognised -/")
	l.line("def encSplitOK : Bool := %s", leanBool(encShape && split))
	l.line("/-- Decrypt rejects `len(b) < encMinLen` -/")
	l.line("def encMinLen : Nat := %d", minLen)
	l.line("def encChecksLength : Bool := %s", leanBool(checksLen))
	l.line("/-- Decrypt rejects `b[0] != version` -/")
	l.line("def encChecksVersion : Bool := %s", leanBool(checksVer))

	// metadata.go getScalarValue: the text of a scalar node, whatever its tag
	md := parse(filepath.Join(repo, "pkg/resource/metadata.go"))
	scalarRaw := false

	if fd := method(md, "", "getScalarValue"); fd != nil && fd.Body != nil && len(fd.Body.List) == 2 {
		is, ok := fd.Body.List[0].(*ast.IfStmt)
		scalarRaw = ok && src(is.Cond) == "val.Kind != yaml.ScalarNode" && is.Else == nil && len(is.Body.List) == 1 &&
			strings.HasPrefix(src(is.Body.List[0]), "panicFormatf(") && src(fd.Body.List[1]) == "return val.Value"
	}

	l.line("/-- metadata.go getScalarValue: a non-scalar node is rejected, a scalar node yields its text whatever its tag -/")
	l.line("def yamlScalarIsNodeText : Bool := %s", leanBool(scalarRaw))
	l.write(out, ns)
}

func atoi(s string) (int, bool) {
	v, err := strconv.ParseInt(strings.TrimSpace(s), 0, 32)

	return int(v), err == nil
}

func intLit(e ast.Expr) (int, bool) {
	bl, ok := e.(*ast.BasicLit)
	if !ok || (bl.Kind != token.INT && bl.Kind != token.CHAR) {
		return 0, false
	}

	if bl.Kind == token.CHAR {
		c, err := strconv.Unquote(bl.Value)
		if err != nil || len(c) != 1 {
			return 0, false
		}

		return int(c[0]), true
	}

	return atoi(bl.Value)
}

func hexLit(v int) string { return fmt.Sprintf("0x%x", v) }

// stringConst finds `const name = "..."` (also inside a const block).
func stringConst(f *ast.File, name string) string {
	for _, d := range f.Decls {
		gd, ok := d.(*ast.GenDecl)
		if !ok || gd.Tok != token.CONST {
			continue
		}

		for _, sp := range gd.Specs {
			vs, ok := sp.(*ast.ValueSpec)
			if !ok {
				continue
			}

			for i, n := range vs.Names {
				if n.Name == name && i < len(vs.Values) {
					if bl, ok := vs.Values[i].(*ast.BasicLit); ok && bl.Kind == token.STRING {
						if s, err := strconv.Unquote(bl.Value); err == nil {
							return s
						}
					}
				}
			}
		}
	}

	return ""
}

// fieldNumber reads the protobuf field number from the struct tag `protobuf:"bytes,N,..."`
// (0 = not found; every modelled field is length-delimited, so the wire kind must be "bytes").
func fieldNumber(f *ast.File, typ, field string) int {
	for _, d := range f.Decls {
		gd, ok := d.(*ast.GenDecl)
		if !ok || gd.Tok != token.TYPE {
			continue
		}

		for _, sp := range gd.Specs {
			ts, ok := sp.(*ast.TypeSpec)
			if !ok || ts.Name.Name != typ {
				continue
			}

			st, ok := ts.Type.(*ast.StructType)
			if !ok {
				return 0
			}

			for _, fl := range st.Fields.List {
				if len(fl.Names) != 1 || fl.Names[0].Name != field || fl.Tag == nil {
					continue
				}

				tag, err := strconv.Unquote(fl.Tag.Value)
				if err != nil {
					return 0
				}

				parts := strings.Split(reflect.StructTag(tag).Get("protobuf"), ",")
				if len(parts) < 2 || parts[0] != "bytes" {
					return 0
				}

				n, ok := atoi(parts[1])
				if !ok || n <= 0 {
					return 0
				}

				return n
			}
		}
	}

	return 0
}

func leanBytes(s string) string {
	parts := make([]string, 0, len(s))
	for i := 0; i < len(s); i++ {
		parts = append(parts, strconv.Itoa(int(s[i])))
	}

	return "[" + strings.Join(parts, ", ") + "]" + fmt.Sprintf("  -- %q", s)
}
