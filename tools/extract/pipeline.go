package main

import (
	"go/ast"
	"path/filepath"
	"strings"
)

// genPipeline regenerates Cosi/Gen/Pipeline.lean from
//
//	pkg/controller/runtime/internal/rruntime/watch.go   (WatchTrigger's filter rule, triggerReconcile)
//	pkg/controller/runtime/internal/rruntime/rruntime.go (event channel capacity, trigger at registration)
//	pkg/controller/runtime/internal/qruntime/watch.go    (per-input destroy-ready filter of the q adapter)
//	pkg/controller/runtime/runtime.go                    (watchBuffer; the hand-off of the single dedup map between
//	                                                      deduplicateWatchEvents and deliverDeduplicatedEvents:
//	                                                      channel capacities, the one initial map, where the map is
//	                                                      acquired from and where it is routed to, lookup-then-trigger)
//	pkg/controller/runtime/internal/dependency/database.go (GetDependentControllers returns a fresh slice)
func genPipeline(repo, out string) {
	const ns = "Cosi.Gen.Pipeline"

	l := newLean("Pipeline.lean", ns)
	rw := parse(filepath.Join(repo, "pkg/controller/runtime/internal/rruntime/watch.go"))
	rr := parse(filepath.Join(repo, "pkg/controller/runtime/internal/rruntime/rruntime.go"))
	qw := parse(filepath.Join(repo, "pkg/controller/runtime/internal/qruntime/watch.go"))
	rt := parse(filepath.Join(repo, "pkg/controller/runtime/runtime.go"))

	// WatchTrigger: which rule decides whether an event triggers the controller
	rule := ".unknown"

	if fd := method(rw, "Adapter", "WatchTrigger"); fd != nil && fd.Body != nil {
		body := src(fd.Body)

		perInput := strings.Contains(body, "for _, input := range adapter.watchInputs[watchKey{md.Namespace, md.Typ}] {") &&
			strings.Contains(body, "if id, ok := input.ID.Get(); ok && id != md.ID { continue }") &&
			strings.Contains(body, "matched = true") &&
			strings.Contains(body, "if input.Kind != controller.InputDestroyReady || reduced.FilterDestroyReady(md) { passed = true }") &&
			strings.Contains(body, "if matched && !passed { return }") &&
			strings.HasSuffix(body, "adapter.triggerReconcile() }")

		perGroup := strings.Contains(body, "if filter := adapter.watchFilters[watchKey{md.Namespace, md.Typ}]; filter != nil && !filter(md) {") &&
			strings.HasSuffix(body, "adapter.triggerReconcile() }")

		switch {
		case perInput && !perGroup:
			rule = ".perInput"
		case perGroup && !perInput:
			rule = ".perGroup"
		}
	}

	// the inputs tracked for filtering are maintained next to the dependency database writes
	tracked := false

	if fd := method(rr, "Adapter", "UpdateInputs"); fd != nil && fd.Body != nil {
		body := src(fd.Body)
		tracked = strings.Contains(body, "adapter.deleteWatchInput(dbDeps[j])") && strings.Contains(body, "adapter.addWatchInput(deps[i])")
	}

	if rule == ".perInput" && !tracked {
		rule = ".unknown"
	}

	nonBlocking := false

	if fd := method(rw, "Adapter", "triggerReconcile"); fd != nil && fd.Body != nil && len(fd.Body.List) == 1 {
		if sel, ok := fd.Body.List[0].(*ast.SelectStmt); ok && len(sel.Body.List) == 2 {
			send, def := false, false

			for _, cl := range sel.Body.List {
				cc := cl.(*ast.CommClause)

				switch {
				case cc.Comm == nil && len(cc.Body) == 0:
					def = true
				case cc.Comm != nil && strings.HasPrefix(src(cc.Comm), "adapter.ch <- controller.ReconcileEvent{}"):
					send = true
				}
			}

			nonBlocking = send && def
		}
	}

	chCap, onRegister := "0", false

	if fd := method(rr, "", "NewAdapter"); fd != nil && fd.Body != nil {
		body := src(fd.Body)
		if strings.Contains(body, "ch: make(chan controller.ReconcileEvent, 1),") {
			chCap = "1"
		}

		// the last statement before `return adapter, nil` triggers the first reconcile
		n := len(fd.Body.List)
		if n >= 2 && src(fd.Body.List[n-2]) == "adapter.triggerReconcile()" && src(fd.Body.List[n-1]) == "return adapter, nil" {
			onRegister = true
		}
	}

	qPerInput := false

	if fd := method(qw, "Adapter", "WatchTrigger"); fd != nil && fd.Body != nil {
		body := src(fd.Body)
		qPerInput = strings.Contains(body, "for _, in := range adapter.Inputs { if in.Namespace == md.Namespace && in.Type == md.Typ { switch in.Kind {") &&
			strings.Contains(body, "case controller.InputQMappedDestroyReady: if reduced.FilterDestroyReady(md) {") &&
			strings.Contains(body, "case controller.InputQPrimary: item := NewQItemFromReduced(md, QJobReconcile) adapter.queue.Put(item.QKey, item.QValue)") &&
			strings.Contains(body, "case controller.InputQMapped: item := NewQItemFromReduced(md, QJobMap) adapter.queue.Put(item.QKey, item.QValue)")
	}

	watchBuffer := "0"

	for _, d := range rt.Decls {
		if gd, ok := d.(*ast.GenDecl); ok {
			for _, s := range gd.Specs {
				if vs, ok := s.(*ast.ValueSpec); ok && len(vs.Names) == 1 && vs.Names[0].Name == "watchBuffer" && len(vs.Values) == 1 {
					if bl, ok := vs.Values[0].(*ast.BasicLit); ok {
						watchBuffer = bl.Value
					}
				}
			}
		}
	}

	l.line("/-- rruntime.(*Adapter).WatchTrigger: the destroy-ready filter is evaluated per matching input, or keyed by (namespace,type) only -/")
	l.line("def filterRule : FilterRule := %s", rule)
	l.line("/-- triggerReconcile is a non-blocking send (`select` with an empty `default`) -/")
	l.line("def triggerNonBlocking : Bool := %s", leanBool(nonBlocking))
	l.line("def eventChCap : Nat := %s", chCap)
	l.line("/-- NewAdapter ends with triggerReconcile(): every controller gets one reconcile at registration -/")
	l.line("def triggerOnRegister : Bool := %s", leanBool(onRegister))
	l.line("/-- qruntime.(*Adapter).WatchTrigger evaluates the destroy-ready filter per input and Puts primary/mapped jobs -/")
	l.line("def qFilterPerInput : Bool := %s", leanBool(qPerInput))
	l.line("def watchBuffer : Nat := %s", watchBuffer)

	genHandoff(l, rt, parse(filepath.Join(repo, "pkg/controller/runtime/internal/dependency/database.go")))

	l.write(out, ns)
}

// stmtTexts prints every statement of a block on one line.
func stmtTexts(list []ast.Stmt) []string {
	res := make([]string, 0, len(list))
	for _, st := range list {
		res = append(res, src(st))
	}

	return res
}

// foreverBody returns the body of a function that consists of a single `for { ... }`.
func foreverBody(fd *ast.FuncDecl) []ast.Stmt {
	if fd == nil || fd.Body == nil || len(fd.Body.List) != 1 {
		return nil
	}

	fs, ok := fd.Body.List[0].(*ast.ForStmt)
	if !ok || fs.Init != nil || fs.Cond != nil || fs.Post != nil || fs.Body == nil {
		return nil
	}

	return fs.Body.List
}

// selectClauses returns the comm clauses of a `select` as "comm => body" texts, in source order.
func selectClauses(st ast.Stmt) ([]string, bool) {
	sel, ok := st.(*ast.SelectStmt)
	if !ok || sel.Body == nil {
		return nil, false
	}

	var res []string

	for _, cl := range sel.Body.List {
		cc, ok := cl.(*ast.CommClause)
		if !ok {
			return nil, false
		}

		comm := "default"
		if cc.Comm != nil {
			comm = src(cc.Comm)
		}

		res = append(res, comm+" => "+strings.Join(stmtTexts(cc.Body), "; "))
	}

	return res, true
}

func sameSet(a []string, b ...string) bool {
	if len(a) != len(b) {
		return false
	}

	m := map[string]int{}
	for _, x := range a {
		m[x]++
	}

	for _, x := range b {
		m[x]--
	}

	for _, n := range m {
		if n != 0 {
			return false
		}
	}

	return true
}

// genHandoff regenerates the facts of the two-goroutine hand-off of the dedup map (runtime.go
// processWatched / deduplicateWatchEvents / deliverDeduplicatedEvents / dedup.takeOne) and of
// dependency.(*Database).GetDependentControllers. Every function is matched statement by
// statement against the one shape the Lean model (Cosi.Model.Handoff) transcribes; anything
// else is `.unknown` / `false` / 0.
func genHandoff(l *leanFile, rt, db *ast.File) {
	const (
		sendEmpty = "if !channel.SendWithContext(runtime.runCtx, empty, m) { return }"
		sendCh    = "if !channel.SendWithContext(runtime.runCtx, ch, m) { return }"
		ctxDone   = "<-runtime.runCtx.Done() => return"
	)

	// processWatched: two capacity-1 channels, exactly one map, put into `empty`
	chCap, emptyCap, maps, wiring := 0, 0, 0, false

	if fd := method(rt, "Runtime", "processWatched"); fd != nil && fd.Body != nil {
		other := 0
		goDedup, goDeliver := 0, 0

		for _, st := range stmtTexts(fd.Body.List) {
			switch st {
			case "ch := make(chan dedup, 1)":
				chCap = 1
			case "empty := make(chan dedup, 1)":
				emptyCap = 1
			case "empty <- dedup{}":
				maps++
			case "goFunc(&runtime.group, func() { runtime.deduplicateWatchEvents(ch, empty) })":
				goDedup++
			case "goFunc(&runtime.group, func() { runtime.deliverDeduplicatedEvents(ch, empty) })":
				goDeliver++
			default:
				other++
			}
		}

		wiring = other == 0 && goDedup == 1 && goDeliver == 1
		if !wiring {
			chCap, emptyCap, maps = 0, 0, 0
		}
	}

	// deduplicateWatchEvents
	acquire, dedupRoute := ".unknown", ".unknown"

	if body := foreverBody(method(rt, "Runtime", "deduplicateWatchEvents")); len(body) == 8 {
		t := stmtTexts(body)
		recv, ok1 := selectClauses(body[1])
		acq, ok2 := selectClauses(body[3])

		drainOK := false

		if ls, ok := body[6].(*ast.LabeledStmt); ok && ls.Label.Name == "drainer" {
			if fs, ok := ls.Stmt.(*ast.ForStmt); ok && fs.Init == nil && fs.Cond == nil && fs.Post == nil && len(fs.Body.List) == 1 {
				if cl, ok := selectClauses(fs.Body.List[0]); ok {
					drainOK = sameSet(cl,
						"events = <-runtime.watchCh => if !runtime.processEvents(events, m) { return }",
						ctxDone,
						"default => break drainer")
				}
			}
		}

		frame := t[0] == "var events []state.Event" && ok1 && sameSet(recv, ctxDone, "events = <-runtime.watchCh => ") &&
			t[2] == "var m dedup" && ok2 &&
			t[4] == "if !runtime.processEvents(events, m) { return }" &&
			drainOK && t[7] == sendCh

		if frame && sameSet(acq, "m = <-empty => ", "m = <-ch => ", ctxDone) {
			acquire = ".emptyOrCh"
		}

		if frame && t[5] == "if len(m) == 0 { "+sendEmpty+" continue }" {
			dedupRoute = ".emptyIffEmpty"
		}
	}

	// deliverDeduplicatedEvents + dedup.takeOne
	deliverAcquire, deliverRoute, lookupThenTrigger, skipsUnknown := false, ".unknown", false, false

	takeOneOK := false

	if fd := method(rt, "dedup", "takeOne"); fd != nil && fd.Body != nil && len(fd.Body.List) == 2 {
		t := stmtTexts(fd.Body.List)
		takeOneOK = t[0] == "for k := range d { md := reduced.Metadata{ Key: k, Value: d[k], } delete(d, k) return md }" &&
			strings.HasPrefix(t[1], "panic(")
	}

	if body := foreverBody(method(rt, "Runtime", "deliverDeduplicatedEvents")); len(body) == 9 && takeOneOK {
		t := stmtTexts(body)
		acq, ok := selectClauses(body[1])

		deliverAcquire = t[0] == "var m dedup" && ok && sameSet(acq, "m = <-ch => ", ctxDone) && t[2] == "k := m.takeOne()"

		if deliverAcquire && t[3] == "if len(m) > 0 { "+sendCh+" } else { "+sendEmpty+" }" {
			deliverRoute = ".chIffNonEmpty"
		}

		lookupThenTrigger = deliverAcquire &&
			t[4] == "controllers, err := runtime.depDB.GetDependentControllers(controller.Input{ Namespace: k.Namespace, Type: k.Typ, ID: optional.Some(k.ID), })" &&
			strings.HasPrefix(t[5], "if err != nil {") && strings.HasSuffix(t[5], " continue }") &&
			t[6] == "runtime.controllersMu.RLock()" &&
			(t[7] == "for _, ctrl := range controllers { runtime.controllers[ctrl].WatchTrigger(&k) }" ||
				t[7] == "for _, ctrl := range controllers { if adapter, ok := runtime.controllers[ctrl]; ok { adapter.WatchTrigger(&k) } }") &&
			t[8] == "runtime.controllersMu.RUnlock()"

		// a name that is not (or no longer) in runtime.controllers — a registration rejected after the lookup — is skipped
		skipsUnknown = lookupThenTrigger &&
			t[7] == "for _, ctrl := range controllers { if adapter, ok := runtime.controllers[ctrl]; ok { adapter.WatchTrigger(&k) } }"
	}

	// GetDependentControllers: the result is a fresh slice (slices.Concat of the two lookups)
	fresh := false

	if fd := method(db, "Database", "GetDependentControllers"); fd != nil && fd.Body != nil && len(fd.Body.List) > 0 {
		if rs, ok := fd.Body.List[len(fd.Body.List)-1].(*ast.ReturnStmt); ok && len(rs.Results) == 2 && src(rs.Results[1]) == "nil" {
			if call, ok := rs.Results[0].(*ast.CallExpr); ok && src(call.Fun) == "slices.Concat" && len(call.Args) == 2 && !call.Ellipsis.IsValid() {
				fresh = strings.HasPrefix(src(call.Args[0]), "db.inputLookup[namespaceType{") &&
					strings.HasPrefix(src(call.Args[1]), "db.inputLookupID[namespaceTypeID{")
			}
		}

		// no other statement may hand out the lookup slices
		for _, st := range fd.Body.List[:len(fd.Body.List)-1] {
			if strings.Contains(src(st), "inputLookup") {
				fresh = false
			}
		}
	}

	l.line("/-- processWatched: `ch := make(chan dedup, 1)`, `empty := make(chan dedup, 1)`, exactly one `empty <- dedup{}` and the two goroutines (0 = unrecognised) -/")
	l.line("def handoffChCap : Nat := %d", chCap)
	l.line("def handoffEmptyCap : Nat := %d", emptyCap)
	l.line("def handoffInitialMaps : Nat := %d", maps)
	l.line("/-- deduplicateWatchEvents: after receiving a batch the map is acquired from `empty` or from `ch` -/")
	l.line("def dedupAcquire : MapAcquire := %s", acquire)
	l.line("/-- deduplicateWatchEvents: after processEvents the map goes to `empty` iff it is empty, else (after draining watchCh) to `ch` -/")
	l.line("def dedupRoute : DedupRoute := %s", dedupRoute)
	l.line("/-- deliverDeduplicatedEvents: the map is received from `ch` only, one key is removed by takeOne -/")
	l.line("def deliverAcquiresCh : Bool := %s", leanBool(deliverAcquire))
	l.line("/-- deliverDeduplicatedEvents: after takeOne the map goes back to `ch` iff it is still non-empty, else to `empty` -/")
	l.line("def deliverRoute : DeliverRoute := %s", deliverRoute)
	l.line("/-- deliverDeduplicatedEvents: after handing the map back, GetDependentControllers(key), then under controllersMu.RLock WatchTrigger for each -/")
	l.line("def lookupThenTrigger : Bool := %s", leanBool(lookupThenTrigger))
	l.line("/-- the trigger loop skips looked-up names that are not in runtime.controllers (a registration rejected meanwhile) -/")
	l.line("def triggerSkipsUnknown : Bool := %s", leanBool(skipsUnknown))
	l.line("/-- dependency.(*Database).GetDependentControllers returns slices.Concat of the two lookups: a fresh slice -/")
	l.line("def dependentsFresh : Bool := %s", leanBool(fresh))
}
