package main

import (
	"go/ast"
	"path/filepath"
	"strings"
)

// genPipeline regenerates Cosi/Gen/Pipeline.lean from
//
//	pkg/controller/runtime/internal/rruntime/watch.go   (WatchTrigger's filter rule, triggerReconcile)
//	pkg/controller/runtime/internal/rruntime/rruntime.go (event channel capacity, trigger at registration)
//	pkg/controller/runtime/internal/qruntime/watch.go    (per-input destroy-ready filter of the q adapter)
//	pkg/controller/runtime/runtime.go                    (watchBuffer)
func genPipeline(repo, out string) {
	const ns = "Cosi.Gen.Pipeline"

	l := newLean("Pipeline.lean", ns)
	rw := parse(filepath.Join(repo, "pkg/controller/runtime/internal/rruntime/watch.go"))
	rr := parse(filepath.Join(repo, "pkg/controller/runtime/internal/rruntime/rruntime.go"))
	qw := parse(filepath.Join(repo, "pkg/controller/runtime/internal/qruntime/watch.go"))
	rt := parse(filepath.Join(repo, "pkg/controller/runtime/runtime.go"))

	// WatchTrigger: which rule decides whether an event triggers the controller
	rule := ".unknown"

	if fd := method(rw, "Adapter", "WatchTrigger"); fd != nil && fd.Body != nil {
		body := src(fd.Body)

		perInput := strings.Contains(body, "for _, input := range adapter.watchInputs[watchKey{md.Namespace, md.Typ}] {") &&
			strings.Contains(body, "if id, ok := input.ID.Get(); ok && id != md.ID { continue }") &&
			strings.Contains(body, "matched = true") &&
			strings.Contains(body, "if input.Kind != controller.InputDestroyReady || reduced.FilterDestroyReady(md) { passed = true }") &&
			strings.Contains(body, "if matched && !passed { return }") &&
			strings.HasSuffix(body, "adapter.triggerReconcile() }")

		perGroup := strings.Contains(body, "if filter := adapter.watchFilters[watchKey{md.Namespace, md.Typ}]; filter != nil && !filter(md) {") &&
			strings.HasSuffix(body, "adapter.triggerReconcile() }")

		switch {
		case perInput && !perGroup:
			rule = ".perInput"
		case perGroup && !perInput:
			rule = ".perGroup"
		}
	}

	// the inputs tracked for filtering are maintained next to the dependency database writes
	tracked := false

	if fd := method(rr, "Adapter", "UpdateInputs"); fd != nil && fd.Body != nil {
		body := src(fd.Body)
		tracked = strings.Contains(body, "adapter.deleteWatchInput(dbDeps[j])") && strings.Contains(body, "adapter.addWatchInput(deps[i])")
	}

	if rule == ".perInput" && !tracked {
		rule = ".unknown"
	}

	nonBlocking := false

	if fd := method(rw, "Adapter", "triggerReconcile"); fd != nil && fd.Body != nil && len(fd.Body.List) == 1 {
		if sel, ok := fd.Body.List[0].(*ast.SelectStmt); ok && len(sel.Body.List) == 2 {
			send, def := false, false

			for _, cl := range sel.Body.List {
				cc := cl.(*ast.CommClause)

				switch {
				case cc.Comm == nil && len(cc.Body) == 0:
					def = true
				case cc.Comm != nil && strings.HasPrefix(src(cc.Comm), "adapter.ch <- controller.ReconcileEvent{}"):
					send = true
				}
			}

			nonBlocking = send && def
		}
	}

	chCap, onRegister := "0", false

	if fd := method(rr, "", "NewAdapter"); fd != nil && fd.Body != nil {
		body := src(fd.Body)
		if strings.Contains(body, "ch: make(chan controller.ReconcileEvent, 1),") {
			chCap = "1"
		}

		// the last statement before `return adapter, nil` triggers the first reconcile
		n := len(fd.Body.List)
		if n >= 2 && src(fd.Body.List[n-2]) == "adapter.triggerReconcile()" && src(fd.Body.List[n-1]) == "return adapter, nil" {
			onRegister = true
		}
	}

	qPerInput := false

	if fd := method(qw, "Adapter", "WatchTrigger"); fd != nil && fd.Body != nil {
		body := src(fd.Body)
		qPerInput = strings.Contains(body, "for _, in := range adapter.Inputs { if in.Namespace == md.Namespace && in.Type == md.Typ { switch in.Kind {") &&
			strings.Contains(body, "case controller.InputQMappedDestroyReady: if reduced.FilterDestroyReady(md) {") &&
			strings.Contains(body, "case controller.InputQPrimary: item := NewQItemFromReduced(md, QJobReconcile) adapter.queue.Put(item.QKey, item.QValue)") &&
			strings.Contains(body, "case controller.InputQMapped: item := NewQItemFromReduced(md, QJobMap) adapter.queue.Put(item.QKey, item.QValue)")
	}

	watchBuffer := "0"

	for _, d := range rt.Decls {
		if gd, ok := d.(*ast.GenDecl); ok {
			for _, s := range gd.Specs {
				if vs, ok := s.(*ast.ValueSpec); ok && len(vs.Names) == 1 && vs.Names[0].Name == "watchBuffer" && len(vs.Values) == 1 {
					if bl, ok := vs.Values[0].(*ast.BasicLit); ok {
						watchBuffer = bl.Value
					}
				}
			}
		}
	}

	l.line("/-- rruntime.(*Adapter).WatchTrigger: the destroy-ready filter is evaluated per matching input, or keyed by (namespace,type) only -/")
	l.line("def filterRule : FilterRule := %s", rule)
	l.line("/-- triggerReconcile is a non-blocking send (`select` with an empty `default`) -/")
	l.line("def triggerNonBlocking : Bool := %s", leanBool(nonBlocking))
	l.line("def eventChCap : Nat := %s", chCap)
	l.line("/-- NewAdapter ends with triggerReconcile(): every controller gets one reconcile at registration -/")
	l.line("def triggerOnRegister : Bool := %s", leanBool(onRegister))
	l.line("/-- qruntime.(*Adapter).WatchTrigger evaluates the destroy-ready filter per input and Puts primary/mapped jobs -/")
	l.line("def qFilterPerInput : Bool := %s", leanBool(qPerInput))
	l.line("def watchBuffer : Nat := %s", watchBuffer)
	l.write(out, ns)
}
