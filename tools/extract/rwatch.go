package main

// Facts for C13 (remote watch retry), regenerated from
//
//	pkg/state/protobuf/client/client.go   watchAdapter: the recvMessage closure and the event loop
//	pkg/state/protobuf/server/server.go   Watch: invalid bookmark -> codes.FailedPrecondition
//	go.mod + the pinned github.com/cenkalti/backoff/v4 exponential.go (MaxElapsedTime test)
//
// Every fact is a structural boolean: `true` only when the statement is found in the
// recognised place and shape; anything else is `false`, and Cosi.Model.RWatch.rstep then
// behaves as the code would WITHOUT that statement, about which C13's theorems cannot be
// proved (Cosi.C13.code_as_modelled stops building).

import (
	"go/ast"
	"go/token"
	"os"
	"path/filepath"
	"regexp"
	"strings"
)

func rwBackoffMaxElapsed(repo string) (seconds int64, shapeOK bool) {
	gomod, err := os.ReadFile(filepath.Join(repo, "go.mod"))
	if err != nil {
		return 0, false
	}

	m := regexp.MustCompile(`(?m)^\s*(?:require\s+)?github\.com/cenkalti/backoff/v4\s+(v[^\s]+)`).FindSubmatch(gomod)
	if m == nil {
		return 0, false
	}

	version := string(m[1])

	var roots []string

	if v := os.Getenv("GOMODCACHE"); v != "" {
		roots = append(roots, v)
	}

	if v := os.Getenv("GOPATH"); v != "" {
		roots = append(roots, filepath.Join(v, "pkg/mod"))
	}

	if h, err := os.UserHomeDir(); err == nil {
		roots = append(roots, filepath.Join(h, "go/pkg/mod"))
	}

	roots = append(roots, filepath.Join(repo, "vendor"))

	var f *ast.File

	for _, r := range roots {
		for _, p := range []string{
			filepath.Join(r, "github.com/cenkalti/backoff/v4@"+version, "exponential.go"),
			filepath.Join(r, "github.com/cenkalti/backoff/v4", "exponential.go"),
		} {
			if _, err := os.Stat(p); err == nil {
				f = parse(p)

				break
			}
		}

		if f != nil {
			break
		}
	}

	if f == nil {
		return 0, false
	}

	consts := map[string]string{}

	for _, d := range f.Decls {
		gd, ok := d.(*ast.GenDecl)
		if !ok || gd.Tok != token.CONST {
			continue
		}

		for _, sp := range gd.Specs {
			vs := sp.(*ast.ValueSpec) //nolint:forcetypeassert
			if len(vs.Names) == 1 && len(vs.Values) == 1 {
				consts[vs.Names[0].Name] = src(vs.Values[0])
			}
		}
	}

	wired := false

	if fd := method(f, "", "NewExponentialBackOff"); fd != nil {
		ast.Inspect(fd.Body, func(x ast.Node) bool {
			if cl, ok := x.(*ast.CompositeLit); ok && src(cl.Type) == "ExponentialBackOff" {
				for _, e := range cl.Elts {
					if kv, ok := e.(*ast.KeyValueExpr); ok && src(kv.Key) == "MaxElapsedTime" && src(kv.Value) == "DefaultMaxElapsedTime" {
						wired = true
					}
				}
			}

			return true
		})
	}

	// Reset restarts the timer; NextBackOff stops when elapsed+next exceeds MaxElapsedTime
	resetOK, stopOK := false, false

	if fd := method(f, "ExponentialBackOff", "Reset"); fd != nil {
		for _, st := range fd.Body.List {
			if src(st) == "b.startTime = b.Clock.Now()" {
				resetOK = true
			}
		}
	}

	if fd := method(f, "ExponentialBackOff", "NextBackOff"); fd != nil {
		for _, st := range fd.Body.List {
			if is, ok := st.(*ast.IfStmt); ok && src(is.Cond) == "b.MaxElapsedTime != 0 && elapsed+next > b.MaxElapsedTime" && src(is.Body) == "{ return b.Stop }" {
				stopOK = true
			}
		}
	}

	if !wired {
		return 0, false
	}

	return parseDur(consts["DefaultMaxElapsedTime"]) / 1e9, resetOK && stopOK
}

func genRWatch(repo, out string) {
	const ns = "Cosi.Gen.RWatch"

	l := newLean("RWatch.lean", ns)

	var (
		checksDisable, checksNil, stopOnStop, clearsBoot, clearsBB, clearsTail, resumes bool
		clearedBeforeDial, aborts, otherContinues, dialErrContinues, resets, perEvent   bool
		forwardsInline, defaultCtor, srvFailedPrecondition                              bool
		reportsStatus, reportsEOF, sendErrorOK                                          bool
	)

	f := parse(filepath.Join(repo, "pkg/state/protobuf/client/client.go"))

	var (
		recvMsg   *ast.FuncLit
		sendError *ast.FuncLit
		mainLoop  *ast.ForStmt
	)

	if fd := method(f, "Adapter", "watchAdapter"); fd != nil && fd.Body != nil {
		for _, st := range fd.Body.List {
			if as, ok := st.(*ast.AssignStmt); ok && len(as.Lhs) == 1 && len(as.Rhs) == 1 {
				switch src(as.Lhs[0]) {
				case "recvMessage":
					recvMsg, _ = as.Rhs[0].(*ast.FuncLit)
				case "sendError":
					sendError, _ = as.Rhs[0].(*ast.FuncLit)
				case "backoff":
					defaultCtor = src(as.Rhs[0]) == "backoff.NewExponentialBackOff()"
				}
			}

			if fs, ok := st.(*ast.ForStmt); ok && fs.Cond == nil && fs.Init == nil {
				mainLoop = fs
			}
		}
	}

	var retryLoop *ast.ForStmt

	if recvMsg != nil {
		// guards before the retry loop, in order
		seenLoop := false

		for _, st := range recvMsg.Body.List {
			switch x := st.(type) {
			case *ast.IfStmt:
				if seenLoop {
					continue
				}

				ret, ok := lastReturn(x.Body)

				switch {
				case ok && src(x.Cond) == "adapter.options.DisableWatchRetry" && ret == "nil, err":
					checksDisable = true
				case ok && src(x.Cond) == "lastBookmark == nil" && ret == "nil, err":
					checksNil = true
				}
			case *ast.ForStmt:
				if x.Cond == nil && x.Init == nil {
					retryLoop = x
					seenLoop = true
				}
			}
		}
	}

	if retryLoop != nil {
		idx := map[string]int{}

		for i, st := range retryLoop.Body.List {
			s := src(st)

			switch {
			case s == "delay := backoff.NextBackOff()":
				idx["next"] = i + 1
			case s == "watchRequest.Options.BootstrapContents = false":
				idx["boot"] = i + 1
			case s == "watchRequest.Options.BootstrapBookmark = false":
				idx["bb"] = i + 1
			case s == "watchRequest.Options.TailEvents = 0":
				idx["tail"] = i + 1
			case s == "watchRequest.Options.StartFromBookmark = lastBookmark":
				idx["resume"] = i + 1
			case s == "cli, err = adapter.client.Watch(ctx, watchRequest)":
				idx["dial"] = i + 1
			case s == "_, err = cli.Recv()":
				idx["first"] = i + 1
			case s == "msg, err = cli.Recv()":
				idx["msg"] = i + 1
			}

			is, ok := st.(*ast.IfStmt)
			if !ok {
				continue
			}

			switch {
			case src(is.Cond) == "delay == backoff.Stop" && idx["next"] == i:
				_, stopOnStop = lastReturn(is.Body)
			case src(is.Cond) == "err != nil" && idx["dial"] == i && idx["dial"] != 0:
				dialErrContinues = src(is.Body) == "{ continue }"
			case src(is.Cond) == "err != nil" && idx["first"] == i && idx["first"] != 0:
				if len(is.Body.List) == 1 {
					if sw, ok := is.Body.List[0].(*ast.SwitchStmt); ok && src(sw.Tag) == "status.Code(err)" {
						for _, c := range sw.Body.List {
							cc := c.(*ast.CaseClause) //nolint:forcetypeassert

							switch {
							case len(cc.List) == 1 && src(cc.List[0]) == "codes.FailedPrecondition":
								aborts = len(cc.Body) == 1 && src(cc.Body[0]) == "return nil, eInvalidWatchBookmark{err}"
							case cc.List == nil:
								otherContinues = len(cc.Body) == 1 && src(cc.Body[0]) == "continue"
							}
						}
					}
				}
			case src(is.Cond) == "err == nil" && idx["msg"] == i && idx["msg"] != 0:
				ret, ok := lastReturn(is.Body)
				resets = ok && ret == "msg, nil" && len(is.Body.List) == 2 && src(is.Body.List[0]) == "backoff.Reset()"
			}
		}

		clearsBoot, clearsBB, clearsTail, resumes = idx["boot"] > 0, idx["bb"] > 0, idx["tail"] > 0, idx["resume"] > 0

		clearedBeforeDial = idx["dial"] > 0
		for _, k := range []string{"boot", "bb", "tail", "resume"} {
			if idx[k] == 0 || idx[k] > idx["dial"] || idx[k] < idx["next"] {
				clearedBeforeDial = false
			}
		}
	}

	if mainLoop != nil && len(mainLoop.Body.List) > 0 {
		first := src(mainLoop.Body.List[0]) == "msg, err := recvMessage()"
		noGo := true

		ast.Inspect(mainLoop.Body, func(x ast.Node) bool {
			switch r := x.(type) {
			case *ast.GoStmt:
				noGo = false
			case *ast.RangeStmt:
				if src(r.X) == "msg.Event" && len(r.Body.List) > 0 && strings.HasPrefix(src(r.Body.List[0]), "lastBookmark = msgEvent.Bookmark") {
					perEvent = src(r.Body.List[0]) == "lastBookmark = msgEvent.Bookmark"
				}
			}

			return true
		})

		// the loop ends with the switch that forwards every event of the message
		last, _ := mainLoop.Body.List[len(mainLoop.Body.List)-1].(*ast.SwitchStmt)
		sends := last != nil && last.Tag == nil && containsCall(last, "channel.SendWithContext(ctx, singleCh, event)") &&
			containsCall(last, "channel.SendWithContext(ctx, aggregatedCh, events)")
		forwardsInline = first && noGo && sends
	}

	// the event loop's error branch: `if err != nil { sendError(err); return }` right after
	// `msg, err := recvMessage()`. One other shape is recognised so that the model follows the
	// code: the report guarded by `!errors.Is(err, io.EOF)`. Anything else: nothing is reported.
	if mainLoop != nil && len(mainLoop.Body.List) > 1 && src(mainLoop.Body.List[0]) == "msg, err := recvMessage()" {
		if is, ok := mainLoop.Body.List[1].(*ast.IfStmt); ok && is.Init == nil && is.Else == nil && src(is.Cond) == "err != nil" && len(is.Body.List) == 2 {
			ret, isRet := is.Body.List[1].(*ast.ReturnStmt)

			switch first := is.Body.List[0].(type) {
			case *ast.ExprStmt:
				if isRet && len(ret.Results) == 0 && src(first) == "sendError(err)" {
					reportsStatus, reportsEOF = true, true
				}
			case *ast.IfStmt:
				if isRet && len(ret.Results) == 0 && first.Init == nil && first.Else == nil &&
					src(first.Cond) == "!errors.Is(err, io.EOF)" && src(first.Body) == "{ sendError(err) }" {
					reportsStatus, reportsEOF = true, false
				}
			}
		}
	}

	// sendError: one tag-less switch with the arms `singleCh != nil` / `aggregatedCh != nil`, each ONE
	// channel.SendWithContext(ctx, <that channel>, …) whose payload has `Type: state.Errored`
	if sendError != nil && len(sendError.Body.List) == 1 {
		if sw, ok := sendError.Body.List[0].(*ast.SwitchStmt); ok && sw.Tag == nil && sw.Init == nil && len(sw.Body.List) == 2 {
			okArms := 0

			for i, ch := range []string{"singleCh", "aggregatedCh"} {
				cc := sw.Body.List[i].(*ast.CaseClause) //nolint:forcetypeassert
				if len(cc.List) != 1 || src(cc.List[0]) != ch+" != nil" || len(cc.Body) != 1 {
					continue
				}

				es, ok := cc.Body[0].(*ast.ExprStmt)
				if !ok {
					continue
				}

				call, ok := es.X.(*ast.CallExpr)
				if !ok || src(call.Fun) != "channel.SendWithContext" || len(call.Args) != 3 || src(call.Args[0]) != "ctx" || src(call.Args[1]) != ch {
					continue
				}

				errored := 0

				ast.Inspect(call.Args[2], func(x ast.Node) bool {
					if kv, ok := x.(*ast.KeyValueExpr); ok && src(kv.Key) == "Type" {
						if src(kv.Value) == "state.Errored" {
							errored++
						} else {
							errored = -100
						}
					}

					return true
				})

				if errored == 1 {
					okArms++
				}
			}

			sendErrorOK = okArms == 2
		}
	}

	sf := parse(filepath.Join(repo, "pkg/state/protobuf/server/server.go"))
	if fd := method(sf, "State", "Watch"); fd != nil && fd.Body != nil {
		ast.Inspect(fd.Body, func(x ast.Node) bool {
			if cc, ok := x.(*ast.CaseClause); ok && len(cc.List) == 1 && src(cc.List[0]) == "state.IsInvalidWatchBookmarkError(err)" {
				srvFailedPrecondition = len(cc.Body) == 1 && src(cc.Body[0]) == "return status.Error(codes.FailedPrecondition, err.Error())"
			}

			return true
		})
	}

	maxElapsed, boShape := rwBackoffMaxElapsed(repo)

	l.line("/-- recvMessage: `if adapter.options.DisableWatchRetry { return nil, err }` before the retry loop -/")
	l.line("def checksDisable : Bool := %s", leanBool(checksDisable))
	l.line("/-- recvMessage: `if lastBookmark == nil { return nil, err }` before the retry loop -/")
	l.line("def checksNilBookmark : Bool := %s", leanBool(checksNil))
	l.line("/-- retry loop: `if delay == backoff.Stop { return … }` right after `delay := backoff.NextBackOff()` -/")
	l.line("def stopsOnBackoffStop : Bool := %s", leanBool(stopOnStop))
	l.line("/-- retry loop: `watchRequest.Options.BootstrapContents = false` -/")
	l.line("def clearsBootstrapContents : Bool := %s", leanBool(clearsBoot))
	l.line("/-- retry loop: `watchRequest.Options.BootstrapBookmark = false` -/")
	l.line("def clearsBootstrapBookmark : Bool := %s", leanBool(clearsBB))
	l.line("/-- retry loop: `watchRequest.Options.TailEvents = 0` -/")
	l.line("def clearsTail : Bool := %s", leanBool(clearsTail))
	l.line("/-- retry loop: `watchRequest.Options.StartFromBookmark = lastBookmark` -/")
	l.line("def resumesFromLastBookmark : Bool := %s", leanBool(resumes))
	l.line("/-- all four assignments sit between NextBackOff and `cli, err = adapter.client.Watch(ctx, watchRequest)` -/")
	l.line("def requestRewrittenBeforeDial : Bool := %s", leanBool(clearedBeforeDial))
	l.line("/-- a dial error is `continue` -/")
	l.line("def dialErrorContinues : Bool := %s", leanBool(dialErrContinues))
	l.line("/-- first Recv: `case codes.FailedPrecondition: return nil, eInvalidWatchBookmark{err}` -/")
	l.line("def abortsOnFailedPrecondition : Bool := %s", leanBool(aborts))
	l.line("/-- first Recv: `default: continue` -/")
	l.line("def otherCodesContinue : Bool := %s", leanBool(otherContinues))
	l.line("/-- `msg, err = cli.Recv(); if err == nil { backoff.Reset(); return msg, nil }` -/")
	l.line("def resetsBackoffOnMessage : Bool := %s", leanBool(resets))
	l.line("/-- event loop: `lastBookmark = msgEvent.Bookmark` is the first statement for EVERY event of the message -/")
	l.line("def bookmarkPerEvent : Bool := %s", leanBool(perEvent))
	l.line("/-- event loop: starts with `msg, err := recvMessage()`, ends with the switch forwarding every event, no `go` statement -/")
	l.line("def forwardsBeforeNextRecv : Bool := %s", leanBool(forwardsInline))
	l.line("/-- event loop: `if err != nil { sendError(err); return }` right after `msg, err := recvMessage()`: a status error ends the watch with sendError -/")
	l.line("def eventLoopReportsStatus : Bool := %s", leanBool(reportsStatus))
	l.line("/-- … and so does a clean end of stream (io.EOF); false when the report is guarded by `!errors.Is(err, io.EOF)` -/")
	l.line("def eventLoopReportsEOF : Bool := %s", leanBool(reportsEOF))
	l.line("/-- sendError sends ONE event with `Type: state.Errored` on whichever of singleCh / aggregatedCh is in use -/")
	l.line("def sendErrorSendsErrored : Bool := %s", leanBool(sendErrorOK))
	l.line("/-- `backoff := backoff.NewExponentialBackOff()` without options -/")
	l.line("def backoffDefaultCtor : Bool := %s", leanBool(defaultCtor))
	l.line("/-- server.go Watch: `case state.IsInvalidWatchBookmarkError(err): return status.Error(codes.FailedPrecondition, …)` -/")
	l.line("def serverInvalidBookmarkIsFailedPrecondition : Bool := %s", leanBool(srvFailedPrecondition))
	l.line("/-- pinned cenkalti/backoff: DefaultMaxElapsedTime in seconds as wired by NewExponentialBackOff (0 = not found) -/")
	l.line("def maxElapsedS : Nat := %d", maxElapsed)
	l.line("/-- pinned cenkalti/backoff: Reset restarts the timer and NextBackOff returns Stop iff `elapsed+next > MaxElapsedTime` -/")
	l.line("def backoffStopShape : Bool := %s", leanBool(boShape))
	l.write(out, ns)
}
