package main

import (
	"go/ast"
	"path/filepath"
	"strings"
)

// genWrap regenerates Cosi/Gen/Wrap.lean: statement-level shape facts of the generic helpers
//
//	pkg/state/wrap.go         UpdateWithConflicts, WatchFor, Teardown, AddFinalizer, RemoveFinalizer,
//	                          ContextWithTeardown, TeardownAndDestroy, waitFinalizersEmpty, Modify(WithResult)
//	pkg/state/condition.go    WatchForCondition.Matches
//	pkg/state/owned/state.go  the options owned.State forwards (owner: accOwned of access.go; expected phase: here)
//	pkg/state/owned/owned.go  ToModifyOptions (default expected phase)
//
// which Cosi.Model.WrapRules turns into the `Rules` of the helper machines (C03, C04). Every function is matched
// statement by statement against the shapes the Lean machine transcribes; a statement that is not recognised becomes
// `.unknown` / `false`, about which no theorem of Props/C03Gen, Props/C04Gen can be proved (fail closed).
func genWrap(repo, out string) {
	const ns = "Cosi.Gen.Wrap"

	l := newLean("Wrap.lean", ns)
	wr := parse(filepath.Join(repo, "pkg/state/wrap.go"))
	cond := parse(filepath.Join(repo, "pkg/state/condition.go"))
	ow := parse(filepath.Join(repo, "pkg/state/owned/state.go"))
	owo := parse(filepath.Join(repo, "pkg/state/owned/owned.go"))

	wrapUwc(l, wr)
	wrapTeardown(l, wr)
	wrapFinalizers(l, wr)
	wrapTad(l, wr)
	wrapWait(l, wr)
	wrapCtx(l, wr)
	wrapWatchFor(l, wr)
	wrapMatches(l, cond)
	wrapModify(l, wr)
	wrapOwned(l, ow, owo)
	l.write(out, ns)
}

func wrapBody(f *ast.File, recv, name string) []ast.Stmt {
	fd := method(f, recv, name)
	if fd == nil || fd.Body == nil {
		return nil
	}

	return fd.Body.List
}

func wrapTexts(list []ast.Stmt) []string {
	res := make([]string, 0, len(list))
	for _, st := range list {
		res = append(res, src(st))
	}

	return res
}

func wrapSame(a, b []string) bool {
	if len(a) != len(b) {
		return false
	}

	for i := range a {
		if a[i] != b[i] {
			return false
		}
	}

	return true
}

// wrapOptsPrologue strips `var options T` / `options := DefaultT()` and the `for _, opt := range opts { opt(&options) }`
// loop; ok is false when the prologue has another shape.
func wrapOptsPrologue(list []ast.Stmt, decl, loop string) ([]ast.Stmt, bool) {
	if len(list) < 2 || src(list[0]) != decl || src(list[1]) != loop {
		return list, false
	}

	return list[2:], true
}

// wrapDelegation strips `if t, ok := state.CoreState.(I); ok { return t.M(ctx, resourcePointer, opts...) }`.
func wrapDelegation(list []ast.Stmt, iface, m string) ([]ast.Stmt, bool) {
	want := "if t, ok := state.CoreState.(" + iface + "); ok { return t." + m + "(ctx, resourcePointer, opts...) }"
	if len(list) > 0 && src(list[0]) == want {
		return list[1:], true
	}

	return list, false
}

// ---------------------------------------------------------------------------------------------
// UpdateWithConflicts

const (
	uwcGetDecl    = "current, err := state.Get(ctx, resourcePointer)"
	uwcGetAssign  = "current, err = state.Get(ctx, resourcePointer)"
	uwcErrRet     = "if err != nil { return nil, err }"
	uwcGetIf      = "if current, err = state.Get(ctx, resourcePointer); err != nil { return nil, err }"
	uwcPhase      = "if options.ExpectedPhase != nil && *options.ExpectedPhase != current.Metadata().Phase() { return nil, errPhaseConflict(current.Metadata(), *options.ExpectedPhase) }"
	uwcCopy       = "newResource := current.DeepCopy()"
	uwcMutate     = "if err = f(newResource); err != nil { return nil, err }"
	uwcNoop       = "if resource.Equal(current, newResource) { return newResource, nil }"
	uwcUpdate     = "err = state.Update(ctx, newResource, opts...)"
	uwcUpdateOk   = "if err == nil { return newResource, nil }"
	uwcVerCond    = "IsConflictError(err) && !IsOwnerConflictError(err) && !IsPhaseConflictError(err)"
	uwcNotVerCond = "!IsConflictError(err) || IsOwnerConflictError(err) || IsPhaseConflictError(err)"
	uwcRetErr     = "return nil, err"
)

// uwcClassify turns a statement list into UwcStmt constructors (a Get or an Update with its error test is one element).
func uwcClassify(list []string) []string {
	var res []string

	for i := 0; i < len(list); i++ {
		s := list[i]

		switch {
		case (s == uwcGetDecl || s == uwcGetAssign) && i+1 < len(list) && list[i+1] == uwcErrRet:
			res = append(res, ".get")
			i++
		case s == uwcGetIf:
			res = append(res, ".get")
		case s == uwcPhase:
			res = append(res, ".phaseCheck")
		case s == uwcCopy:
			res = append(res, ".copy")
		case s == uwcMutate:
			res = append(res, ".mutate")
		case s == uwcNoop:
			res = append(res, ".noopReturn")
		case s == uwcUpdate && i+1 < len(list) && list[i+1] == uwcUpdateOk:
			res = append(res, ".update")
			i++
		default:
			res = append(res, ".unknown")
		}
	}

	return res
}

func wrapUwc(l *leanFile, f *ast.File) {
	first, retry, retryOn := []string{".unknown"}, []string{".unknown"}, ".unknown"

	func() {
		list, ok := wrapOptsPrologue(wrapBody(f, "coreWrapper", "UpdateWithConflicts"), "options := DefaultUpdateOptions()", "for _, opt := range opts { opt(&options) }")
		if !ok || len(list) == 0 {
			return
		}

		// everything up to the loop, the loop must be the last statement and an unconditional `for { … }`
		loop, ok := list[len(list)-1].(*ast.ForStmt)
		if !ok || loop.Init != nil || loop.Cond != nil || loop.Post != nil || loop.Body == nil {
			return
		}

		pre := wrapTexts(list[:len(list)-1])
		body := wrapTexts(loop.Body.List)

		upd := -1

		for i, s := range body {
			if s == uwcUpdate {
				if upd >= 0 {
					return // two Updates
				}

				upd = i
			}
		}

		if upd < 0 || upd+1 >= len(body) || body[upd+1] != uwcUpdateOk {
			return
		}

		head := body[:upd+2] // the loop body up to and including the Update and its success return
		tail := loop.Body.List[upd+2:]
		first = uwcClassify(append(append([]string{}, pre...), head...))

		// the retry decision
		if len(tail) == 0 {
			return
		}

		dec, ok := tail[0].(*ast.IfStmt)
		if !ok || dec.Init != nil || dec.Else != nil {
			return
		}

		condText, bodyText := src(dec.Cond), src(dec.Body)

		var between []string // statements executed between the retry decision and the next iteration

		switch {
		case bodyText == "{ continue }" && len(tail) == 2 && src(tail[1]) == uwcRetErr:
			// `if <retry> { continue }; return nil, err`
			switch condText {
			case uwcVerCond:
				retryOn = ".versionConflict"
			case "IsConflictError(err)":
				retryOn = ".anyConflict"
			}
		case bodyText == "{ return nil, err }":
			// `if <give up> { return nil, err }; <rest of the body>`: the rest runs before the next iteration
			switch condText {
			case uwcNotVerCond:
				retryOn = ".versionConflict"
			case "!IsConflictError(err)":
				retryOn = ".anyConflict"
			}

			between = wrapTexts(tail[1:])
		default:
			return
		}

		for _, s := range between {
			if strings.Contains(s, "continue") || strings.Contains(s, "break") || strings.Contains(s, "goto") {
				return
			}
		}

		retry = uwcClassify(append(append([]string{}, between...), head...))
	}()

	l.line("/-- UpdateWithConflicts: the statements from the entry of the function to its first Update, in order -/")
	l.line("def uwcFirstPass : List UwcStmt := %s", leanList(first))
	l.line("/-- UpdateWithConflicts: the statements from a retry decision to the next Update, in order -/")
	l.line("def uwcRetryPass : List UwcStmt := %s", leanList(retry))
	l.line("/-- UpdateWithConflicts: which Update errors are retried (every other error is returned) -/")
	l.line("def uwcRetryOn : RetryRule := %s", retryOn)
}

// ---------------------------------------------------------------------------------------------
// Teardown

const tdUwcArgs = "(ctx, res.Metadata(), func(r resource.Resource) error { r.Metadata().SetPhase(resource.PhaseTearingDown) return nil }, WithUpdateOwner(options.Owner))"

func wrapTeardown(l *leanFile, f *ast.File) {
	frame, ready := false, ".unknown"

	func() {
		list, deleg := wrapDelegation(wrapBody(f, "coreWrapper", "Teardown"), "Teardowner", "Teardown")
		list, ok := wrapOptsPrologue(list, "var options TeardownOptions", "for _, opt := range opts { opt(&options) }")

		if !deleg || !ok || len(list) != 4 {
			return
		}

		if src(list[0]) != "res, err := state.Get(ctx, resourcePointer)" || src(list[1]) != "if err != nil { return false, err }" ||
			src(list[3]) != "return res.Metadata().Finalizers().Empty(), nil" {
			return
		}

		is, ok := list[2].(*ast.IfStmt)
		if !ok || is.Init != nil || is.Else != nil || src(is.Cond) != "res.Metadata().Phase() != resource.PhaseTearingDown" {
			return
		}

		inner := wrapTexts(is.Body.List)
		call := "state.UpdateWithConflicts" + tdUwcArgs

		switch {
		case wrapSame(inner, []string{"res, err = " + call, "if err != nil { return false, err }"}):
			ready = ".uwcResult"
		case wrapSame(inner, []string{"_, err = " + call, "if err != nil { return false, err }"}),
			wrapSame(inner, []string{"if _, err = " + call + "; err != nil { return false, err }"}),
			wrapSame(inner, []string{"if _, err := " + call + "; err != nil { return false, err }"}):
			ready = ".initialGet"
		default:
			return
		}

		frame = true
	}()

	l.line("/-- Teardown: Get (error returned); unless already tearing down: UpdateWithConflicts(SetPhase(TearingDown), WithUpdateOwner(options.Owner)),")
	l.line("    default expected phase, error returned; result = `res.Metadata().Finalizers().Empty()` -/")
	l.line("def teardownFrame : Bool := %s", leanBool(frame))
	l.line("/-- Teardown: which `res` the returned readiness is computed from -/")
	l.line("def teardownReadyFrom : ReadySrc := %s", ready)
}

// ---------------------------------------------------------------------------------------------
// AddFinalizer / RemoveFinalizer

func wrapFinalizers(l *leanFile, f *ast.File) {
	shape := func(name, m string) bool {
		want := []string{
			"current, err := state.Get(ctx, resourcePointer)",
			"if err != nil { return err }",
			"_, err = state.UpdateWithConflicts(ctx, resourcePointer, func(r resource.Resource) error { for _, fin := range fins { r.Metadata().Finalizers()." + m + "(fin) } return nil }, WithUpdateOwner(current.Metadata().Owner()), WithExpectedPhaseAny())",
			"return err",
		}

		return wrapSame(wrapTexts(wrapBody(f, "coreWrapper", name)), want)
	}

	l.line("/-- Add/RemoveFinalizer: Get (error returned), then UpdateWithConflicts(Add/Remove each, WithUpdateOwner(owner as read), WithExpectedPhaseAny()) -/")
	l.line("def addFinalizerFrame : Bool := %s", leanBool(shape("AddFinalizer", "Add")))
	l.line("def removeFinalizerFrame : Bool := %s", leanBool(shape("RemoveFinalizer", "Remove")))
}

// ---------------------------------------------------------------------------------------------
// TeardownAndDestroy

func wrapTad(l *leanFile, f *ast.File) {
	list, deleg := wrapDelegation(wrapBody(f, "coreWrapper", "TeardownAndDestroy"), "TeardownAndDestroyer", "TeardownAndDestroy")
	list, ok := wrapOptsPrologue(list, "var options TeardownAndDestroyOptions", "for _, opt := range opts { opt(&options) }")
	want := []string{
		"ready, err := state.Teardown(ctx, resourcePointer, WithTeardownOwner(options.Owner))",
		"if err != nil { return err }",
		"if ready { return state.Destroy(ctx, resourcePointer, WithDestroyOwner(options.Owner)) }",
		"destroyed, err := state.waitFinalizersEmpty(ctx, resourcePointer)",
		"if err != nil { return err }",
		"if destroyed { return nil }",
		"return state.Destroy(ctx, resourcePointer, WithDestroyOwner(options.Owner))",
	}

	l.line("/-- TeardownAndDestroy: Teardown(owner); ready ⇒ Destroy(owner); else waitFinalizersEmpty; destroyed ⇒ nil; else Destroy(owner) -/")
	l.line("def tadFrame : Bool := %s", leanBool(deleg && ok && wrapSame(wrapTexts(list), want)))
}

// ---------------------------------------------------------------------------------------------
// event switches

var wrapEvTypes = []string{"Created", "Updated", "Destroyed", "Bootstrapped", "Errored", "Noop"}

// wrapSwitch maps every event type to the action of the switch clause that lists it (classified by `act`), `.ignore`
// for a type no clause lists; a default clause, a duplicate or an unknown case expression makes everything `.unknown`.
func wrapSwitch(sw *ast.SwitchStmt, tag string, act func(string) string) map[string]string {
	res := map[string]string{}
	bad := func() map[string]string {
		for _, t := range wrapEvTypes {
			res[t] = ".unknown"
		}

		return res
	}

	if sw == nil || sw.Init != nil || src(sw.Tag) != tag || sw.Body == nil {
		return bad()
	}

	for _, st := range sw.Body.List {
		cc, ok := st.(*ast.CaseClause)
		if !ok || cc.List == nil {
			return bad()
		}

		body := "{ " + strings.Join(wrapTexts(cc.Body), " ") + " }"
		if len(cc.Body) == 0 {
			body = "{ }"
		}

		a := act(body)

		for _, e := range cc.List {
			t := src(e)
			known := false

			for _, k := range wrapEvTypes {
				known = known || k == t
			}

			if _, dup := res[t]; dup || !known {
				return bad()
			}

			res[t] = a
		}
	}

	for _, t := range wrapEvTypes {
		if _, ok := res[t]; !ok {
			res[t] = ".ignore"
		}
	}

	return res
}

func wrapEmitActs(l *leanFile, name string, acts map[string]string) {
	l.line("def %s : EvT → EvAct", name)

	for _, t := range wrapEvTypes {
		l.line("  | .%s => %s", strings.ToLower(t), acts[t])
	}

	l.line("  | .unknown => .unknown")
}

const wrapSelect = "select { case <-ctx.Done(): return false, ctx.Err() case event = <-ch: }"

func wrapWait(l *leanFile, f *ast.File) {
	frame := false

	var sw *ast.SwitchStmt

	list := wrapBody(f, "coreWrapper", "waitFinalizersEmpty")
	want := []string{
		"ch := make(chan Event)",
		"ctx, cancel := context.WithCancel(ctx)",
		"defer cancel()",
		"if err := state.Watch(ctx, resourcePointer, ch); err != nil { return false, err }",
	}

	if len(list) == 5 && wrapSame(wrapTexts(list[:4]), want) {
		if loop, ok := list[4].(*ast.ForStmt); ok && loop.Init == nil && loop.Cond == nil && loop.Post == nil && len(loop.Body.List) == 3 &&
			src(loop.Body.List[0]) == "var event Event" && src(loop.Body.List[1]) == wrapSelect {
			sw, frame = loop.Body.List[2].(*ast.SwitchStmt)
		}
	}

	acts := wrapSwitch(sw, "event.Type", func(body string) string {
		switch body {
		case "{ return true, nil }":
			return ".retDestroyed"
		case "{ if event.Resource != nil && event.Resource.Metadata().Finalizers().Empty() { return false, nil } }":
			return ".checkFins"
		case "{ return false, event.Error }":
			return ".retError"
		case "{ }":
			return ".ignore"
		}

		return ".unknown"
	})

	l.line("/-- waitFinalizersEmpty: the watch is established (its error returned) before the loop; every iteration receives one event")
	l.line("    (or ends with the context) and switches on its type -/")
	l.line("def waitFrame : Bool := %s", leanBool(frame))
	l.line("/-- waitFinalizersEmpty: what the switch does per event type -/")
	wrapEmitActs(l, "waitAct", acts)
}

func wrapCtx(l *leanFile, f *ast.File) {
	frame := false

	var sw *ast.SwitchStmt

	list := wrapBody(f, "coreWrapper", "ContextWithTeardown")
	if len(list) == 5 && wrapSame(wrapTexts(list[:3]), []string{
		"watchCh := make(chan Event)",
		"if err := state.Watch(ctx, resourcePointer, watchCh); err != nil { return nil, err }",
		"ctx, cancel := context.WithCancelCause(ctx)",
	}) && src(list[4]) == "return ctx, nil" {
		// go func() { defer cancel(nil); for { select { case <-ctx.Done(): return; case ev := <-watchCh: switch ev.Type {…} } } }()
		if g, ok := list[3].(*ast.GoStmt); ok && len(g.Call.Args) == 0 {
			if fl, ok := g.Call.Fun.(*ast.FuncLit); ok && len(fl.Body.List) == 2 && src(fl.Body.List[0]) == "defer cancel(nil)" {
				if loop, ok := fl.Body.List[1].(*ast.ForStmt); ok && loop.Init == nil && loop.Cond == nil && loop.Post == nil && len(loop.Body.List) == 1 {
					if sel, ok := loop.Body.List[0].(*ast.SelectStmt); ok && len(sel.Body.List) == 2 {
						c0, ok0 := sel.Body.List[0].(*ast.CommClause)
						c1, ok1 := sel.Body.List[1].(*ast.CommClause)

						if ok0 && ok1 && src(c0.Comm) == "<-ctx.Done()" && len(c0.Body) == 1 && src(c0.Body[0]) == "return" &&
							src(c1.Comm) == "ev := <-watchCh" && len(c1.Body) == 1 {
							sw, frame = c1.Body[0].(*ast.SwitchStmt)
						}
					}
				}
			}
		}
	}

	acts := wrapSwitch(sw, "ev.Type", func(body string) string {
		switch body {
		case "{ if ev.Resource.Metadata().Phase() == resource.PhaseTearingDown { return } }":
			return ".checkTearingDown"
		case "{ return }":
			return ".cancel"
		case "{ cancel(ev.Error) return }":
			return ".cancelWithError"
		case "{ }":
			return ".ignore"
		}

		return ".unknown"
	})

	l.line("/-- ContextWithTeardown: the watch is established first; one goroutine receives the events and switches on their type -/")
	l.line("def ctxFrame : Bool := %s", leanBool(frame))
	wrapEmitActs(l, "ctxAct", acts)
}

func wrapWatchFor(l *leanFile, f *ast.File) {
	want := []string{
		"var condition WatchForCondition",
		"for _, f := range conditionFunc { if err := f(&condition); err != nil { return nil, err } }",
		"ch := make(chan Event)",
		"ctx, cancel := context.WithCancel(ctx)",
		"defer cancel()",
		"if err := state.Watch(ctx, pointer, ch); err != nil { return nil, err }",
		"for { var event Event select { case <-ctx.Done(): return nil, ctx.Err() case event = <-ch: } matches, err := condition.Matches(event) if err != nil { return nil, err } if matches { return event.Resource, nil } }",
	}

	l.line("/-- WatchFor: the watch is established first; every received event goes through condition.Matches; the first match's resource is returned -/")
	l.line("def watchForFrame : Bool := %s", leanBool(wrapSame(wrapTexts(wrapBody(f, "coreWrapper", "WatchFor")), want)))
}

// ---------------------------------------------------------------------------------------------
// WatchForCondition.Matches: a conjunction of independent guards

// matchGuardShapes: the guard a top-level `if <cond>` is, its deny-only body, and the body in which the guard's last
// test is returned as the result of the whole function.
var matchGuardShapes = []struct{ cond, guard, deny, decides string }{
	{
		"condition.EventTypes != nil", ".eventTypes",
		"{ matched := slices.Contains(condition.EventTypes, event.Type) if !matched { return false, nil } }",
		"{ return slices.Contains(condition.EventTypes, event.Type), nil }",
	},
	{"event.Resource == nil", ".resourceNil", "{ return false, nil }", ""},
	{
		"condition.Condition != nil", ".condFunc",
		"{ matched, err := condition.Condition(event.Resource) if err != nil { return false, err } if !matched { return false, nil } }",
		"{ return condition.Condition(event.Resource) }",
	},
	{
		"condition.FinalizersEmpty", ".finsEmpty",
		"{ if event.Type == Destroyed { return false, nil } if !event.Resource.Metadata().Finalizers().Empty() { return false, nil } }",
		"{ if event.Type == Destroyed { return false, nil } return event.Resource.Metadata().Finalizers().Empty(), nil }",
	},
	{
		"condition.Phases != nil", ".phases",
		"{ matched := slices.Contains(condition.Phases, event.Resource.Metadata().Phase()) if !matched { return false, nil } }",
		"{ return slices.Contains(condition.Phases, event.Resource.Metadata().Phase()), nil }",
	},
}

// matchOnlyDenies: every return statement of the block returns the literal `false` first.
func matchOnlyDenies(b *ast.BlockStmt) bool {
	ok := true

	ast.Inspect(b, func(n ast.Node) bool {
		switch x := n.(type) {
		case *ast.FuncLit:
			return false
		case *ast.ReturnStmt:
			if len(x.Results) == 0 || src(x.Results[0]) != "false" {
				ok = false
			}
		}

		return ok
	})

	return ok
}

func wrapMatches(l *leanFile, f *ast.File) {
	var guards []string

	fall := false
	list := wrapBody(f, "WatchForCondition", "Matches")

	for i, st := range list {
		if i == len(list)-1 {
			fall = src(st) == "return true, nil"

			if !fall {
				guards = append(guards, "(.unknown, .unknown)")
			}

			break
		}

		is, ok := st.(*ast.IfStmt)
		if !ok || is.Init != nil || is.Else != nil {
			guards = append(guards, "(.unknown, .unknown)")

			continue
		}

		g, exit := ".unknown", ".unknown"

		for _, sh := range matchGuardShapes {
			if src(is.Cond) != sh.cond {
				continue
			}

			g = sh.guard
			body := src(is.Body)

			switch {
			case body == sh.deny && matchOnlyDenies(is.Body):
				exit = ".denyOnly"
			case sh.decides != "" && body == sh.decides:
				exit = ".decides"
			}
		}

		guards = append(guards, "("+g+", "+exit+")")
	}

	l.line("/-- WatchForCondition.Matches: its top-level guards in source order, and how each can leave the function")
	l.line("    (`.denyOnly`: only `return false`; control otherwise reaches the next guard) -/")
	l.line("def matchGuards : List (MatchGuard × GuardExit) := %s", leanList(guards))
	l.line("/-- Matches ends in `return true, nil` (no guard denied the event) -/")
	l.line("def matchFallthrough : Bool := %s", leanBool(fall))
}

// ---------------------------------------------------------------------------------------------
// Modify / ModifyWithResult

func wrapModify(l *leanFile, f *ast.File) {
	frame, defRunning, act := false, false, ".unknown"

	func() {
		list := wrapBody(f, "coreWrapper", "ModifyWithResult")
		if len(list) != 5 {
			return
		}

		defRunning = src(list[0]) == "opts := UpdateOptions{ ExpectedPhase: pointer.To(resource.PhaseRunning), }"

		if src(list[1]) != "for _, opt := range options { opt(&opts) }" || src(list[2]) != "_, err := state.Get(ctx, emptyResource.Metadata())" ||
			src(list[4]) != "return state.UpdateWithConflicts(ctx, emptyResource.Metadata(), updateFunc, WithUpdateOptions(opts))" {
			return
		}

		// if err != nil { if IsNotFoundError(err) { <create path> } return nil, fmt.Errorf(…) }
		is, ok := list[3].(*ast.IfStmt)
		if !ok || is.Init != nil || is.Else != nil || src(is.Cond) != "err != nil" || len(is.Body.List) != 2 ||
			!strings.HasPrefix(src(is.Body.List[1]), "return nil, fmt.Errorf(") {
			return
		}

		nf, ok := is.Body.List[0].(*ast.IfStmt)
		if !ok || nf.Init != nil || nf.Else != nil || src(nf.Cond) != "IsNotFoundError(err)" || len(nf.Body.List) != 4 {
			return
		}

		p := nf.Body.List
		if src(p[0]) != "err = updateFunc(emptyResource)" || src(p[1]) != "if err != nil { return nil, err }" || src(p[3]) != "return emptyResource, nil" {
			return
		}

		cr, ok := p[2].(*ast.IfStmt)
		if !ok || cr.Else != nil || src(cr.Init) != "err = state.Create(ctx, emptyResource, WithCreateOwner(opts.Owner))" || src(cr.Cond) != "err != nil" {
			return
		}

		frame = true

		switch {
		case src(cr.Body) == "{ return nil, err }":
			act = ".returnErr"
		case containsCall(cr.Body, "state.ModifyWithResult(") || containsCall(cr.Body, "state.Modify("):
			act = ".restart"
		}
	}()

	modify := wrapSame(wrapTexts(wrapBody(f, "coreWrapper", "Modify")),
		[]string{"_, err := state.ModifyWithResult(ctx, emptyResource, updateFunc, options...)", "return err"})

	l.line("/-- ModifyWithResult: Get; NotFound ⇒ updateFunc(emptyResource) (error returned), Create(emptyResource, WithCreateOwner(opts.Owner)),")
	l.line("    success returns emptyResource; another Get error is returned; found ⇒ UpdateWithConflicts(updateFunc, WithUpdateOptions(opts)).")
	l.line("    Modify is ModifyWithResult without the result. -/")
	l.line("def modifyFrame : Bool := %s", leanBool(frame && modify))
	l.line("/-- ModifyWithResult: the expected phase defaults to running -/")
	l.line("def modifyDefaultsRunning : Bool := %s", leanBool(defRunning))
	l.line("/-- ModifyWithResult: what an error of the Create leads to -/")
	l.line("def modifyOnCreateError : CreateErrAct := %s", act)
}

// ---------------------------------------------------------------------------------------------
// owned.State: which options are forwarded

func wrapOwned(l *leanFile, f, opts *ast.File) {
	mwrOwner, mwrPhase := ".unknown", ".unknown"

	func() {
		list := wrapTexts(wrapBody(f, "State", "ModifyWithResult"))
		if len(list) < 5 {
			return
		}

		last := list[len(list)-1]
		if !wrapSame(list[:4], []string{
			"owner := st.owner",
			"modifyOptions := ToModifyOptions(options...)",
			`if modifyOptions.WithNoOwner { owner = "" }`,
			"updateOptions := []state.UpdateOption{state.WithUpdateOwner(owner)}",
		}) || last != "return st.state.ModifyWithResult(ctx, emptyResource, updateFunc, updateOptions...)" {
			return
		}

		mwrOwner = ".nameOrNone"

		switch mid := list[4 : len(list)-1]; {
		case len(mid) == 0:
			mwrPhase = ".noOption"
		case len(mid) == 1 && mid[0] == "if modifyOptions.ExpectedPhase != nil { updateOptions = append(updateOptions, state.WithExpectedPhase(*modifyOptions.ExpectedPhase)) } else { updateOptions = append(updateOptions, state.WithExpectedPhaseAny()) }":
			mwrPhase = ".explicitOrAny"
		case len(mid) == 1 && mid[0] == "if modifyOptions.ExpectedPhase == nil { updateOptions = append(updateOptions, state.WithExpectedPhaseAny()) }":
			mwrPhase = ".anyOnly"
		}
	}()

	modify := wrapSame(wrapTexts(wrapBody(f, "State", "Modify")),
		[]string{"_, err := st.ModifyWithResult(ctx, emptyResource, updateFunc, options...)", "return err"})
	if !modify {
		mwrOwner, mwrPhase = ".unknown", ".unknown"
	}

	defRunning := wrapSame(wrapTexts(wrapBody(opts, "", "ToModifyOptions")), []string{
		"phase := resource.PhaseRunning",
		"options := ModifyOptions{ ExpectedPhase: &phase, }",
		"for _, opt := range opts { opt(&options) }",
		"return options",
	})

	fn := func(name string) *ast.FuncDecl { return method(opts, "", name) }
	optBody := func(name string) string {
		if fd := fn(name); fd != nil && fd.Body != nil {
			return src(fd.Body)
		}

		return ""
	}
	optsOk := optBody("WithExpectedPhase") == "{ return func(o *ModifyOptions) { o.ExpectedPhase = &phase } }" &&
		optBody("WithExpectedPhaseAny") == "{ return func(o *ModifyOptions) { o.ExpectedPhase = nil } }" &&
		optBody("WithModifyNoOwner") == "{ return func(o *ModifyOptions) { o.WithNoOwner = true } }" &&
		optBody("WithOwner") == "{ return func(o *DeleteOptions) { o.Owner = &owner } }"

	l.line("/-- the owner option each owned.State write helper hands down (Teardown, Destroy, AddFinalizer, RemoveFinalizer: the classification of Gen.Access) -/")
	l.line("def ownedOwner : OMethod → OwnerOpt")
	l.line("  | .modifyWithResult => %s", mwrOwner)
	l.line("  | .modify => %s", mwrOwner)
	l.line("  | .teardown => %s", accOwned(f, "Teardown"))
	l.line("  | .destroy => %s", accOwned(f, "Destroy"))
	l.line("  | .addFinalizer => %s", accOwned(f, "AddFinalizer"))
	l.line("  | .removeFinalizer => %s", accOwned(f, "RemoveFinalizer"))
	l.line("  | _ => .unknown")
	l.line("/-- the expected-phase option owned.State.Modify(WithResult) hands down -/")
	l.line("def ownedModifyPhase : PhaseFwd := %s", mwrPhase)
	l.line("/-- owned.ToModifyOptions: the expected phase defaults to running; WithExpectedPhase / WithExpectedPhaseAny / WithModifyNoOwner /")
	l.line("    WithOwner set exactly their field -/")
	l.line("def ownedOptionsFrame : Bool := %s", leanBool(defRunning && optsOk))
}
