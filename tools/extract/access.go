package main

import (
	"fmt"
	"go/ast"
	"go/token"
	"path/filepath"
	"strings"
)

// genAccess regenerates Cosi/Gen/Access.lean (property C08) from
//
//	pkg/controller/runtime/internal/controllerstate/adapter.go  (guard of every StateAdapter method, the
//	    three helper predicates isOutput / checkReadAccess / checkFinalizerAccess, cache use, delegate)
//	pkg/state/owned/state.go                                     (owner option each owned.State method injects)
//	pkg/controller/runtime.go                                    (numeric values of the Input* constants)
//	pkg/controller/runtime/internal/rruntime/rruntime.go,
//	pkg/controller/runtime/internal/qruntime/qruntime.go         (how the adapters keep the declared input / output slices)
//
// Fail closed: every shape that is not recognised is emitted as `.unknown` (`false` for
// booleans), which the model reads as "no guard / no owner check", so the tie theorem
// Cosi.C08.policy_eq_spec no longer builds.
func genAccess(repo, out string) {
	const ns = "Cosi.Gen.Access"

	l := newLean("Access.lean", ns)
	ad := parse(filepath.Join(repo, "pkg/controller/runtime/internal/controllerstate/adapter.go"))
	ow := parse(filepath.Join(repo, "pkg/state/owned/state.go"))
	kinds := inputKindValues(parse(filepath.Join(repo, "pkg/controller/runtime.go")))

	methods := []struct{ lean, goName string }{
		{"get", "Get"}, {"getUncached", "GetUncached"}, {"list", "List"}, {"listUncached", "ListUncached"},
		{"ctxTeardown", "ContextWithTeardown"}, {"create", "Create"}, {"update", "Update"}, {"modify", "Modify"},
		{"modifyWithResult", "ModifyWithResult"}, {"teardown", "Teardown"}, {"destroy", "Destroy"},
		{"addFinalizer", "AddFinalizer"}, {"removeFinalizer", "RemoveFinalizer"},
	}

	facts := make([]accFacts, len(methods))
	for i, m := range methods {
		facts[i] = accMethod(ad, m.goName)
	}

	emit := func(name, typ, doc string, f func(accFacts) string) {
		l.line("/-- %s -/", doc)
		l.line("def %s : AMethod → %s", name, typ)

		for i, m := range methods {
			l.line("  | .%s => %s", m.lean, f(facts[i]))
		}
	}

	emit("guardOf", "AGuard", "the access guard of each StateAdapter method (adapter.go)", func(f accFacts) string { return f.guard })
	emit("guardFirst", "Bool", "the guard is evaluated before the method touches adapter.OwnedState or reads from adapter.Cache",
		func(f accFacts) string { return leanBool(f.guardFirst) })
	emit("delegateOf", "OMethod", "the owned.State method the adapter method ends in (subject and options forwarded unchanged)",
		func(f accFacts) string { return f.delegate })
	emit("cacheUse", "CacheUse", "whether the method is served from the runtime cache when the (namespace,type) is cached",
		func(f accFacts) string { return f.cache })

	// isOutput
	outByType := false
	if fd := method(ad, "StateAdapter", "isOutput"); fd != nil && fd.Body != nil {
		outByType = src(fd.Body) == "{ for _, output := range adapter.Outputs { if output.Type == resourceType { return true } } return false }" &&
			accParams(fd) == "resourceType"
	}

	l.line("/-- isOutput: a type is an output iff SOME declared output (of any kind) has that type -/")
	l.line("def outputByTypeOnly : Bool := %s", leanBool(outByType))

	// checkReadAccess
	rd := accReadGuard(ad, kinds)
	l.line("/-- checkReadAccess returns nil at once for an output type -/")
	l.line("def readAllowsOutputs : Bool := %s", leanBool(rd.allowsOutputs))
	l.line("/-- input kinds checkReadAccess accepts -/")
	l.line("def readKindSel : KindSel := %s", rd.kindSel)
	l.line("/-- checkReadAccess: an input without ID / an input with ID against a request with ID (Get) / against a request without ID (List) -/")
	l.line("def readNoId : IdMatch := %s", rd.noID)
	l.line("def readIdVsId : IdMatch := %s", rd.idVsID)
	l.line("def readIdVsKind : IdMatch := %s", rd.idVsKind)

	// checkFinalizerAccess
	fn := accFinGuard(ad, kinds)
	l.line("/-- input kinds checkFinalizerAccess accepts (numeric values of the controller.Input* constants) -/")
	l.line("def finalizerKindSel : KindSel := %s", fn.kindSel)
	l.line("def finalizerKinds : List Nat := match finalizerKindSel with")
	l.line("  | .only ks => ks")
	l.line("  | _ => []")
	l.line("def finNoId : IdMatch := %s", fn.noID)
	l.line("def finIdVsId : IdMatch := %s", fn.idVsID)

	// owned.State
	l.line("/-- the owner option each owned.State method hands down (pkg/state/owned/state.go) -/")
	l.line("def ownedInject : OMethod → OwnerOpt")

	for _, m := range []struct{ lean, goName string }{
		{"get", "Get"}, {"list", "List"}, {"ctxTeardown", "ContextWithTeardown"}, {"create", "Create"}, {"update", "Update"},
		{"modify", "Modify"}, {"modifyWithResult", "ModifyWithResult"}, {"teardown", "Teardown"}, {"destroy", "Destroy"},
		{"addFinalizer", "AddFinalizer"}, {"removeFinalizer", "RemoveFinalizer"},
	} {
		l.line("  | .%s => %s", m.lean, accOwned(ow, m.goName))
	}

	l.line("  | .unknown => .unknown")
	genAccessDecl(l, repo)
	l.write(out, ns)
}

// genAccessDecl: how the adapters keep the declaration slices the controller hands to them
// (rruntime.go UpdateInputs / NewAdapter, qruntime.go NewAdapter). The access guards above read
// adapter.Inputs / adapter.Outputs; whether those are private copies or the CALLER's slices decides
// whether a controller can change its own access rights by rewriting memory it still owns.
//
// Fail closed: the three packages that can see the fields are scanned for every write to a field
// named Inputs / Outputs; anything but the four recognised sites makes the affected entries `.unknown`.
func genAccessDecl(l *leanFile, repo string) {
	base := filepath.Join(repo, "pkg/controller/runtime/internal")
	rr := parse(filepath.Join(base, "rruntime/rruntime.go"))
	qr := parse(filepath.Join(base, "qruntime/qruntime.go"))

	keep := map[string]string{"rInputs": ".unknown", "rOutputs": ".unknown", "qInputs": ".unknown", "qOutputs": ".unknown"}
	sorts, storeLast := "none", false

	// every assignment / composite-literal key / element write that targets a field named Inputs or Outputs
	type write struct{ pkg, fn, field, rhs string }

	var writes []write

	strayMutation := false

	for _, pkg := range []string{"rruntime", "qruntime", "controllerstate"} {
		files, _ := filepath.Glob(filepath.Join(base, pkg, "*.go")) //nolint:errcheck

		for _, path := range files {
			if strings.HasSuffix(path, "_test.go") {
				continue
			}

			f := parse(path)

			for _, d := range f.Decls {
				fd, ok := d.(*ast.FuncDecl)
				if !ok || fd.Body == nil {
					continue
				}

				ast.Inspect(fd.Body, func(n ast.Node) bool {
					switch x := n.(type) {
					case *ast.AssignStmt:
						for i, lhs := range x.Lhs {
							switch t := lhs.(type) {
							case *ast.SelectorExpr:
								if t.Sel.Name == "Inputs" || t.Sel.Name == "Outputs" {
									rhs := "?"
									if len(x.Lhs) == len(x.Rhs) && x.Tok == token.ASSIGN {
										rhs = src(x.Rhs[i])
									}

									writes = append(writes, write{pkg, fd.Name.Name, src(t), rhs})
								}
							case *ast.IndexExpr:
								if s := src(t.X); strings.HasSuffix(s, ".Inputs") || strings.HasSuffix(s, ".Outputs") {
									strayMutation = true
								}
							}
						}
					case *ast.KeyValueExpr:
						if k, ok := x.Key.(*ast.Ident); ok && (k.Name == "Inputs" || k.Name == "Outputs") {
							writes = append(writes, write{pkg, fd.Name.Name, k.Name + ":", src(x.Value)})
						}
					}

					return true
				})
			}
		}
	}

	classify := func(rhs, cloneOf string) string {
		switch rhs {
		case "slices.Clone(" + cloneOf + ")":
			return ".clone"
		case cloneOf:
			return ".alias"
		}

		return ".unknown"
	}

	seen := map[string]int{}

	for _, w := range writes {
		switch {
		case w.pkg == "rruntime" && w.fn == "UpdateInputs" && w.field == "adapter.Inputs":
			seen["rInputs"]++
			keep["rInputs"] = classify(w.rhs, "deps")
		case w.pkg == "rruntime" && w.fn == "NewAdapter" && w.field == "Outputs:":
			seen["rOutputs"]++
			keep["rOutputs"] = classify(w.rhs, "ctrl.Outputs()")
		case w.pkg == "qruntime" && w.fn == "NewAdapter" && w.field == "Inputs:":
			seen["qInputs"]++
			keep["qInputs"] = classify(w.rhs, "settings.Inputs")
		case w.pkg == "qruntime" && w.fn == "NewAdapter" && w.field == "Outputs:":
			seen["qOutputs"]++
			keep["qOutputs"] = classify(w.rhs, "settings.Outputs")
		default: // a write the model does not know about
			strayMutation = true
		}
	}

	for k := range keep {
		if seen[k] != 1 || strayMutation {
			keep[k] = ".unknown"
		}
	}

	if fd := method(rr, "Adapter", "UpdateInputs"); fd != nil && fd.Body != nil && accParams(fd) == "deps" {
		list := fd.Body.List

		// `deps` must still be the caller's slice where it is stored: no re-assignment of the parameter
		reassigned := false

		ast.Inspect(fd.Body, func(n ast.Node) bool {
			if as, ok := n.(*ast.AssignStmt); ok {
				for _, lhs := range as.Lhs {
					if src(lhs) == "deps" {
						reassigned = true
					}
				}
			}

			return true
		})

		if reassigned {
			keep["rInputs"] = ".unknown"
		}

		// the store is the last statement before the only `return nil`: every error path leaves adapter.Inputs alone
		nilReturns := 0

		ast.Inspect(fd.Body, func(n ast.Node) bool {
			if _, ok := n.(*ast.FuncLit); ok {
				return false
			}

			if r, ok := n.(*ast.ReturnStmt); ok && len(r.Results) == 1 && src(r.Results[0]) == "nil" {
				nilReturns++
			}

			return true
		})

		if n := len(list); n >= 2 && nilReturns == 1 && src(list[n-1]) == "return nil" {
			if as, ok := list[n-2].(*ast.AssignStmt); ok && len(as.Lhs) == 1 && src(as.Lhs[0]) == "adapter.Inputs" {
				storeLast = true
			}
		}

		// in-place sort of the caller's slice
		sortCalls, first := 0, false

		ast.Inspect(fd.Body, func(n ast.Node) bool {
			if c, ok := n.(*ast.CallExpr); ok && len(c.Args) > 0 && src(c.Args[0]) == "deps" {
				if fn := src(c.Fun); strings.HasPrefix(fn, "slices.Sort") || strings.HasPrefix(fn, "sort.") {
					sortCalls++
				}
			}

			return true
		})

		if len(list) > 0 && src(list[0]) == "slices.SortFunc(deps, controller.Input.Compare)" {
			first = true
		}

		switch {
		case first && sortCalls == 1 && !reassigned:
			sorts = "some true"
		case sortCalls == 0 && !reassigned:
			sorts = "some false"
		}
	} else {
		keep["rInputs"] = ".unknown"
	}

	// qruntime: `settings` is what the controller returned
	if fd := method(qr, "", "NewAdapter"); fd == nil || fd.Body == nil || !strings.Contains(src(fd.Body), "settings := ctrl.Settings()") {
		keep["qInputs"], keep["qOutputs"] = ".unknown", ".unknown"
	}

	l.line("/-- how each adapter keeps the declaration slice handed to it: `slices.Clone(x)` ⇒ `.clone`, the caller's slice ⇒ `.alias`")
	l.line("    (rruntime.go UpdateInputs `adapter.Inputs = …`, NewAdapter `Outputs: …`; qruntime.go NewAdapter `Inputs: …`, `Outputs: …`;")
	l.line("    no other write to a field Inputs / Outputs in rruntime, qruntime, controllerstate) -/")
	l.line("def declKeep : DeclSite → SliceKeep")

	for _, k := range []string{"rInputs", "rOutputs", "qInputs", "qOutputs"} {
		l.line("  | .%s => %s", k, keep[k])
	}

	l.line("/-- rruntime UpdateInputs begins with `slices.SortFunc(deps, controller.Input.Compare)`: the CALLER's slice is sorted in place -/")
	l.line("def updateSortsCaller : Option Bool := %s", sorts)
	l.line("/-- rruntime UpdateInputs: the store to adapter.Inputs is the last statement before the only `return nil` (a rejected update leaves it alone) -/")
	l.line("def updateStoresOnSuccessOnly : Bool := %s", leanBool(storeLast))
}

type accFacts struct {
	guard, delegate, cache string
	guardFirst             bool
}

var accUnknown = accFacts{guard: ".unknown", delegate: ".unknown", cache: ".unknown"}

// accParams lists the parameter names of a function, comma separated (variadic marked `...`).
func accParams(fd *ast.FuncDecl) string {
	var ps []string

	for _, f := range fd.Type.Params.List {
		_, variadic := f.Type.(*ast.Ellipsis)

		for _, n := range f.Names {
			if variadic {
				ps = append(ps, n.Name+"...")
			} else {
				ps = append(ps, n.Name)
			}
		}
	}

	return strings.Join(ps, ", ")
}

// accForward recognises `adapter.<inner>(<args>)` where args are exactly the caller's
// parameters in order, optionally with one bool literal inserted after ctx; it returns
// the inner name and the literal ("" if none).
func accForward(call ast.Expr, outer *ast.FuncDecl) (inner, lit string, ok bool) {
	c, isCall := call.(*ast.CallExpr)
	if !isCall {
		return "", "", false
	}

	fun := src(c.Fun)
	if !strings.HasPrefix(fun, "adapter.") || strings.Count(fun, ".") != 1 {
		return "", "", false
	}

	var args []string

	for i, a := range c.Args {
		s := src(a)
		if i == len(c.Args)-1 && c.Ellipsis != token.NoPos {
			s += "..."
		}

		if i == 1 && (s == "true" || s == "false") {
			lit = s

			continue
		}

		args = append(args, s)
	}

	if strings.Join(args, ", ") != accParams(outer) {
		return "", "", false
	}

	return strings.TrimPrefix(fun, "adapter."), lit, true
}

// accMethod analyses one exported StateAdapter method.
func accMethod(f *ast.File, name string) accFacts {
	fd := method(f, "StateAdapter", name)
	if fd == nil || fd.Body == nil {
		return accUnknown
	}

	disableCache := ""

	// thin wrappers: `return adapter.inner(ctx, [lit,] params...)` or `_, err := adapter.inner(params...); return err`
	switch len(fd.Body.List) {
	case 1:
		if r, ok := fd.Body.List[0].(*ast.ReturnStmt); ok && len(r.Results) == 1 {
			if inner, lit, ok := accForward(r.Results[0], fd); ok {
				in := method(f, "StateAdapter", inner)
				if in == nil || in.Body == nil {
					return accUnknown
				}

				want := accParams(fd)
				if lit != "" {
					want = strings.Replace(want, "ctx, ", "ctx, disableCache, ", 1)
				}

				// the inner function must name its parameters like the wrapper does (positional identity)
				if accParams(in) != want {
					return accUnknown
				}

				fd, disableCache = in, lit
			}
		}
	case 2:
		as, ok1 := fd.Body.List[0].(*ast.AssignStmt)
		r, ok2 := fd.Body.List[1].(*ast.ReturnStmt)

		if ok1 && ok2 && len(as.Lhs) == 2 && src(as.Lhs[0]) == "_" && src(as.Lhs[1]) == "err" && len(as.Rhs) == 1 &&
			len(r.Results) == 1 && src(r.Results[0]) == "err" {
			if inner, lit, ok := accForward(as.Rhs[0], fd); ok && lit == "" {
				in := method(f, "StateAdapter", inner)
				if in == nil || in.Body == nil || accParams(in) != accParams(fd) {
					return accUnknown
				}

				fd = in
			}
		}
	}

	// subject = first parameter after ctx (and after disableCache)
	ps := strings.Split(accParams(fd), ", ")
	if len(ps) < 2 || ps[0] != "ctx" {
		return accUnknown
	}

	rest := ps[1:]
	if rest[0] == "disableCache" {
		if disableCache == "" || len(rest) < 2 {
			return accUnknown
		}

		rest = rest[1:]
	} else if disableCache != "" {
		return accUnknown
	}

	subj := rest[0]
	fwd := strings.Join(append([]string{"ctx"}, rest...), ", ") // what the delegate must receive

	res := accFacts{guard: ".noGuard", delegate: ".unknown", cache: ".never", guardFirst: false}
	stmts := fd.Body.List

	// rate limiter
	if len(stmts) > 0 {
		if is, ok := stmts[0].(*ast.IfStmt); ok && is.Init != nil && src(is.Init) == "err := adapter.UpdateLimiter.Wait(ctx)" && src(is.Cond) == "err != nil" {
			if _, ok := lastReturn(is.Body); ok {
				stmts = stmts[1:]
			}
		}
	}

	touches := func(n ast.Node) bool {
		found := false

		ast.Inspect(n, func(x ast.Node) bool {
			if c, ok := x.(*ast.CallExpr); ok {
				s := src(c.Fun)
				if strings.HasPrefix(s, "adapter.OwnedState.") || (strings.HasPrefix(s, "adapter.Cache.") && s != "adapter.Cache.IsHandled") {
					found = true
				}
			}

			return !found
		})

		return found
	}

	guardAt, found := -1, false

	for i, st := range stmts {
		if is, ok := st.(*ast.IfStmt); ok {
			ret, hasRet := lastReturn(is.Body)
			init, cond := "", src(is.Cond)

			if is.Init != nil {
				init = src(is.Init)
			}

			g := ""

			switch {
			case !hasRet || is.Else != nil:
			case init == fmt.Sprintf("err := adapter.checkReadAccess(%s.Namespace(), %s.Type(), optional.Some(%s.ID()))", subj, subj, subj) && cond == "err != nil" && strings.HasSuffix(ret, "err"):
				g = ".readId"
			case init == fmt.Sprintf("err := adapter.checkReadAccess(%s.Namespace(), %s.Type(), optional.None[resource.ID]())", subj, subj) && cond == "err != nil" && strings.HasSuffix(ret, "err"):
				g = ".readKind"
			case init == fmt.Sprintf("err := adapter.checkFinalizerAccess(%s.Namespace(), %s.Type(), %s.ID())", subj, subj, subj) && cond == "err != nil" && ret == "err":
				g = ".finalizer"
			case init == "" && (cond == "!adapter.isOutput("+subj+".Type())" || cond == "!adapter.isOutput("+subj+".Metadata().Type())") && strings.Contains(ret, "fmt.Errorf("):
				g = ".output"
			}

			if g != "" {
				res.guard, res.guardFirst, guardAt, found = g, true, i, true

				break
			}
		}

		if touches(st) { // the state or the cache is reached before any guard
			break
		}
	}

	after := stmts
	if found {
		after = stmts[guardAt+1:]
	}

	// a second guard-like early return of another kind is not expected; delegates:
	var owned []string

	cacheSeen := 0

	for _, st := range after {
		if is, ok := st.(*ast.IfStmt); ok && is.Init != nil &&
			src(is.Init) == fmt.Sprintf("cacheHandled := adapter.Cache.IsHandled(%s.Namespace(), %s.Type())", subj, subj) {
			cacheSeen++

			ret, hasRet := lastReturn(is.Body)
			okBody := hasRet && len(is.Body.List) == 1 && strings.HasPrefix(ret, "adapter.Cache."+name0(fd.Name.Name)+"(") &&
				strings.HasSuffix(ret, "("+fwd+")")

			switch cond := src(is.Cond); {
			case !okBody:
				res.cache = ".unknown"
			case cond == "cacheHandled && !disableCache" && disableCache == "false":
				res.cache = ".ifHandled"
			case cond == "cacheHandled && !disableCache" && disableCache == "true":
				res.cache = ".never"
			case cond == "cacheHandled" && disableCache == "":
				res.cache = ".ifHandled"
			default:
				res.cache = ".unknown"
			}

			continue
		}

		ast.Inspect(st, func(x ast.Node) bool {
			if c, ok := x.(*ast.CallExpr); ok {
				s := src(c.Fun)

				switch {
				case strings.HasPrefix(s, "adapter.OwnedState."):
					owned = append(owned, src(c))
				case strings.HasPrefix(s, "adapter.Cache."):
					res.cache = ".unknown"
				}
			}

			return true
		})
	}

	if cacheSeen > 1 {
		res.cache = ".unknown"
	}

	if len(owned) == 1 {
		for lean, goName := range map[string]string{
			"get": "Get", "list": "List", "ctxTeardown": "ContextWithTeardown", "create": "Create", "update": "Update",
			"modify": "Modify", "modifyWithResult": "ModifyWithResult", "teardown": "Teardown", "destroy": "Destroy",
			"addFinalizer": "AddFinalizer", "removeFinalizer": "RemoveFinalizer",
		} {
			if owned[0] == "adapter.OwnedState."+goName+"("+fwd+")" {
				res.delegate = "." + lean
			}
		}
	}

	return res
}

// name0 maps the unexported primary (get/list/modify) to the exported method name used on the cache.
func name0(n string) string {
	switch n {
	case "get":
		return "Get"
	case "list":
		return "List"
	}

	return n
}

type accLoop struct {
	allowsOutputs         bool
	kindSel               string
	noID, idVsID, idVsKind string
}

// accLoopOf finds `for _, dep := range adapter.Inputs { if <conj> { <inner> } }` and splits its parts.
func accLoopOf(st ast.Stmt, kinds map[string]int, nsVar, typVar string) (kindSel string, inner []string, ok bool) {
	rs, isRange := st.(*ast.RangeStmt)
	if !isRange || src(rs.X) != "adapter.Inputs" || src(rs.Key) != "_" || src(rs.Value) != "dep" || len(rs.Body.List) != 1 {
		return "", nil, false
	}

	is, isIf := rs.Body.List[0].(*ast.IfStmt)
	if !isIf || is.Init != nil || is.Else != nil {
		return "", nil, false
	}

	var conj []ast.Expr

	var flat func(e ast.Expr, op token.Token, acc *[]ast.Expr)

	flat = func(e ast.Expr, op token.Token, acc *[]ast.Expr) {
		if p, ok := e.(*ast.ParenExpr); ok && op == token.LOR {
			e = p.X
		}

		if b, ok := e.(*ast.BinaryExpr); ok && b.Op == op {
			flat(b.X, op, acc)
			flat(b.Y, op, acc)

			return
		}

		*acc = append(*acc, e)
	}

	flat(is.Cond, token.LAND, &conj)

	if len(conj) < 2 || src(conj[0]) != "dep.Namespace == "+nsVar || src(conj[1]) != "dep.Type == "+typVar || len(conj) > 3 {
		return "", nil, false
	}

	kindSel = ".all"

	if len(conj) == 3 {
		kindSel = ".unknown"

		if p, ok := conj[2].(*ast.ParenExpr); ok {
			var dis []ast.Expr

			flat(p.X, token.LOR, &dis)

			var ks []string

			good := true

			for _, d := range dis {
				s := src(d)
				if !strings.HasPrefix(s, "dep.Kind == ") {
					good = false

					break
				}

				v, known := kinds[strings.TrimPrefix(s, "dep.Kind == ")]
				if !known {
					good = false

					break
				}

				ks = append(ks, fmt.Sprint(v))
			}

			if good && len(ks) > 0 {
				kindSel = "(.only " + leanList(ks) + ")"
			}
		}
	}

	for _, s := range is.Body.List {
		inner = append(inner, src(s))
	}

	return kindSel, inner, true
}

func accReadGuard(f *ast.File, kinds map[string]int) accLoop {
	res := accLoop{kindSel: ".unknown", noID: ".unknown", idVsID: ".unknown", idVsKind: ".unknown"}

	fd := method(f, "StateAdapter", "checkReadAccess")
	if fd == nil || fd.Body == nil || accParams(fd) != "resourceNamespace, resourceType, resourceID" {
		return res
	}

	stmts := fd.Body.List
	if len(stmts) > 0 && src(stmts[0]) == "if adapter.isOutput(resourceType) { return nil }" {
		res.allowsOutputs = true
		stmts = stmts[1:]
	}

	if len(stmts) != 2 {
		return res
	}

	if r, ok := stmts[1].(*ast.ReturnStmt); !ok || len(r.Results) != 1 || !strings.HasPrefix(src(r.Results[0]), "fmt.Errorf(") {
		return res
	}

	ks, inner, ok := accLoopOf(stmts[0], kinds, "resourceNamespace", "resourceType")
	if !ok {
		return res
	}

	res.kindSel = ks

	if len(inner) == 3 && inner[0] == "if !dep.ID.IsPresent() { return nil }" &&
		inner[1] == "if !resourceID.IsPresent() { continue }" &&
		inner[2] == "if dep.ID == resourceID { return nil }" {
		res.noID, res.idVsKind, res.idVsID = ".allow", ".skip", ".ifEqual"
	}

	return res
}

func accFinGuard(f *ast.File, kinds map[string]int) accLoop {
	res := accLoop{kindSel: ".unknown", noID: ".unknown", idVsID: ".unknown"}

	fd := method(f, "StateAdapter", "checkFinalizerAccess")
	if fd == nil || fd.Body == nil || accParams(fd) != "resourceNamespace, resourceType, resourceID" {
		return res
	}

	stmts := fd.Body.List
	if len(stmts) != 2 {
		return res
	}

	if r, ok := stmts[1].(*ast.ReturnStmt); !ok || len(r.Results) != 1 || !strings.HasPrefix(src(r.Results[0]), "fmt.Errorf(") {
		return res
	}

	ks, inner, ok := accLoopOf(stmts[0], kinds, "resourceNamespace", "resourceType")
	if !ok {
		return res
	}

	res.kindSel = ks

	if len(inner) == 2 && inner[0] == "if !dep.ID.IsPresent() { return nil }" &&
		inner[1] == "if dep.ID.ValueOrZero() == resourceID { return nil }" {
		res.noID, res.idVsID = ".allow", ".ifEqual"
	}

	return res
}

// accOwned classifies the owner option an owned.State method injects, by the exact
// (comment-free, whitespace-normalised) text of its body.
func accOwned(f *ast.File, name string) string {
	fd := method(f, "State", name)
	if fd == nil || fd.Body == nil {
		return ".unknown"
	}

	body := src(fd.Body)
	ps := accParams(fd)
	deleteBody := func(m string, inject bool) string {
		s := "{ var opts []state." + m + "Option opOpt := ToDeleteOptions(opOpts...) if opOpt.Owner != nil { opts = append(opts, state.With" + m + "Owner(*opOpt.Owner)) }"
		if inject {
			s += " else { opts = append(opts, state.With" + m + "Owner(st.owner)) }"
		}

		return s + " return st.state." + m + "(ctx, resourcePointer, opts...) }"
	}

	shapes := map[string][]struct{ params, body, opt string }{
		"Get":                 {{"ctx, ptr, opts...", "{ return st.state.Get(ctx, ptr, opts...) }", ".noOption"}},
		"List":                {{"ctx, kind, opts...", "{ return st.state.List(ctx, kind, opts...) }", ".noOption"}},
		"ContextWithTeardown": {{"ctx, ptr", "{ return st.state.ContextWithTeardown(ctx, ptr) }", ".noOption"}},
		"AddFinalizer":        {{"ctx, ptr, finalizers...", "{ return st.state.AddFinalizer(ctx, ptr, finalizers...) }", ".noOption"}},
		"RemoveFinalizer":     {{"ctx, ptr, finalizers...", "{ return st.state.RemoveFinalizer(ctx, ptr, finalizers...) }", ".noOption"}},
		"Create": {
			{"ctx, res, options...", `{ var opts CreateOptions for _, o := range options { o(&opts) } owner := st.owner if opts.WithNoOwner { owner = "" } return st.state.Create(ctx, res, state.WithCreateOwner(owner)) }`, ".nameOrNone"},
			{"ctx, res, options...", `{ return st.state.Create(ctx, res, state.WithCreateOwner(st.owner)) }`, ".name"},
			{"ctx, res, options...", `{ return st.state.Create(ctx, res) }`, ".noOption"},
		},
		"Update": {
			{"ctx, res", "{ return st.state.Update(ctx, res, state.WithUpdateOwner(st.owner)) }", ".name"},
			{"ctx, res", "{ return st.state.Update(ctx, res) }", ".noOption"},
		},
		"ModifyWithResult": {
			{"ctx, emptyResource, updateFunc, options...", `{ owner := st.owner modifyOptions := ToModifyOptions(options...) if modifyOptions.WithNoOwner { owner = "" } updateOptions := []state.UpdateOption{state.WithUpdateOwner(owner)} if modifyOptions.ExpectedPhase != nil { updateOptions = append(updateOptions, state.WithExpectedPhase(*modifyOptions.ExpectedPhase)) } else { updateOptions = append(updateOptions, state.WithExpectedPhaseAny()) } return st.state.ModifyWithResult(ctx, emptyResource, updateFunc, updateOptions...) }`, ".nameOrNone"},
		},
		"Teardown": {
			{"ctx, resourcePointer, opOpts...", deleteBody("Teardown", true), ".explicitOrName"},
			{"ctx, resourcePointer, opOpts...", "{ return st.state.Teardown(ctx, resourcePointer, state.WithTeardownOwner(st.owner)) }", ".name"},
			{"ctx, resourcePointer, opOpts...", "{ return st.state.Teardown(ctx, resourcePointer) }", ".noOption"},
		},
		"Destroy": {
			{"ctx, resourcePointer, opOpts...", deleteBody("Destroy", true), ".explicitOrName"},
			{"ctx, resourcePointer, opOpts...", "{ return st.state.Destroy(ctx, resourcePointer, state.WithDestroyOwner(st.owner)) }", ".name"},
			{"ctx, resourcePointer, opOpts...", "{ return st.state.Destroy(ctx, resourcePointer) }", ".noOption"},
		},
	}

	if name == "Modify" {
		if ps == "ctx, emptyResource, updateFunc, options..." &&
			body == "{ _, err := st.ModifyWithResult(ctx, emptyResource, updateFunc, options...) return err }" {
			return accOwned(f, "ModifyWithResult")
		}

		return ".unknown"
	}

	for _, s := range shapes[name] {
		if s.params == ps && s.body == body {
			return s.opt
		}
	}

	return ".unknown"
}
